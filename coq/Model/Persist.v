(* C04 model: which database state survives close / reopen / checkpoint and which does not.
   Definitions only, no proofs.  Transcribed from (as the code IS, including wrong behaviour):

     src/database/database.rs   open_with_recovery (next_row_id := largest stored row key + 1 [restore_next_row_id],
                                wal_enabled := false, fresh dirty tracker), SharedDatabase::checkpoint (rotate segment, REPLAY the
                                closed segments onto the table files, remove them), Drop for
                                SharedDatabase (same replay unless close() was called), flush_wal_if_autocommit
     src/database/lifecycle.rs  checkpoint() (flush dirty pages into the WAL, then truncate it),
                                close() (= checkpoint(), closed := true: Drop then does nothing)
     src/database/dml/insert.rs row loop: AUTO_INCREMENT, NOT NULL, PRIMARY KEY index lookup,
                                next_row_id.fetch_add, BTree::insert ("key already exists"), index insert;
                                header row_count written only after the loop, auto_increment as soon as an id is handed out
     src/database/dml/delete.rs tombstones, index entries removed, header row_count, WAL flush
     src/database/dml/update.rs in-place update, WAL flush
     src/database/pragma.rs     PRAGMA wal = ON|OFF (ensure_wal), PRAGMA wal_checkpoint

   Logical layer (what queries read): per table the leaf content (row id -> row), the header
   fields row_count and auto_increment, the PRIMARY KEY index; the global next_row_id; the WAL
   switch.  Physical layer (never read by a query): per table the last page image appended to
   the WAL (`p_img`) and whether the page is in the dirty tracker (`p_dirty`); whether a Wal
   object exists in this session.  Modelling assumption: every table fits one leaf page (the
   generators keep tables below 60 two-integer rows), so "the page image" is the row list. *)
From Coq Require Import ZArith List Bool.
Import ListNotations.
Open Scope Z_scope.

(* ------------------------------------------------------------------ state *)
Record row := mkRow { r_id : Z; r_live : bool; r_a : option Z; r_b : Z }.

Record ltbl := mkT {
  t_kind : Z;                  (* 0: (a, b)   1: a PRIMARY KEY   2: a PRIMARY KEY AUTO_INCREMENT *)
  t_rows : list row;           (* leaf page: live rows and tombstones, keyed by row id *)
  t_count : Z;                 (* table file header: row_count *)
  t_auto : Z;                  (* table file header: auto_increment *)
  t_pk : list (Z * Z) }.       (* a_pkey index file: a -> row id *)

Record phys := mkP { p_img : option (list row); p_dirty : bool }.

Record st := mkS {
  s_tab : Z -> option ltbl;    (* catalog + table files, by table slot (t0, t1, t2) *)
  s_ph : Z -> phys;
  s_next : Z;                  (* SharedDatabase.next_row_id  -- volatile *)
  s_wal : bool;                (* SharedDatabase.wal_enabled  -- volatile; the harness restores it after open *)
  s_walobj : bool }.           (* SharedDatabase.wal is Some   -- volatile *)

Definition upd {A} (f : Z -> A) (t : Z) (v : A) : Z -> A := fun x => if x =? t then v else f x.
Definition no_phys : phys := mkP None false.
Definition x_cons {S X} (p : S * X) (k : S -> list X) : list X := snd p :: k (fst p).
Definition init (wal : bool) : st := mkS (fun _ => None) (fun _ => no_phys) 1 wal wal.

(* ------------------------------------------------------------------ operations and observations *)
Inductive op :=
| Create (t k : Z) | DropT (t : Z) | Ins (t : Z) (vals : list (option Z * Z)) | Bulk (t n b : Z)
| Del (t b : Z) | Upd (t b w : Z) | Trunc (t : Z) | CIdx (t : Z) | DIdx (t : Z) | Find (t b : Z)
| TxBegin | TxCommit | TxRollback | SetWal (on : bool) | Query
| ReopenClose | ReopenDrop | CkptApi | CkptPragma | AutoCkpt.

Definition is_int (o : op) : bool :=
  match o with ReopenClose | ReopenDrop | CkptApi | CkptPragma | AutoCkpt => true | _ => false end.
Definition is_reopen (o : op) : bool :=
  match o with ReopenClose | ReopenDrop => true | _ => false end.

Definition cellrow := list (option Z).
Inductive tobs := TAbsent | TPresent (rows : list cellrow) (count : option Z) (lookups : list (list cellrow)).
Inductive obs := OOk (n : Z) | OErr | OWeird | ORows (r : list cellrow) | OQ (ts : list tobs).

(* ------------------------------------------------------------------ bags of result rows: sorted lists *)
Definition cell_leb (x y : option Z) : bool :=
  match x, y with None, _ => true | Some _, None => false | Some a, Some b => a <=? b end.
Definition cell_eqb (x y : option Z) : bool :=
  match x, y with None, None => true | Some a, Some b => a =? b | _, _ => false end.
Fixpoint crow_leb (x y : cellrow) : bool :=
  match x, y with
  | [], _ => true
  | _ :: _, [] => false
  | a :: x', b :: y' => if cell_eqb a b then crow_leb x' y' else cell_leb a b
  end.
Fixpoint insert_sorted (r : cellrow) (l : list cellrow) : list cellrow :=
  match l with
  | [] => [r]
  | h :: t => if crow_leb r h then r :: l else h :: insert_sorted r t
  end.
Definition sort_rows (l : list cellrow) : list cellrow := fold_right insert_sorted [] l.

(* ------------------------------------------------------------------ INSERT *)
Definition has_rid (rs : list row) (i : Z) : bool := existsb (fun r => r_id r =? i) rs.
Definition pk_mem (pk : list (Z * Z)) (a : Z) : bool := existsb (fun e => fst e =? a) pk.
Fixpoint pk_find (pk : list (Z * Z)) (a : Z) : option Z :=
  match pk with [] => None | (k, i) :: t => if k =? a then Some i else pk_find t a end.

(* largest id a BIGINT column can hold *)
Definition auto_limit : Z := 9223372036854775807.
(* loop state: leaf, index, next_row_id, auto_increment_current, auto_increment_max, count.
   The header counter is written as soon as auto_increment_max grows (before the row's
   constraint checks), so it equals i_max whether or not the statement completes. *)
Record iacc := mkI { i_rows : list row; i_pk : list (Z * Z); i_next : Z; i_cur : Z; i_max : Z; i_cnt : Z }.

(* AUTO_INCREMENT part of one row: the key to store, auto_increment_current, auto_increment_max,
   and whether the statement fails here (negative / out-of-range key, counter overflow) *)
Definition auto_part (kind cur mx : Z) (a0 : option Z) : option Z * Z * Z * bool :=
  if kind =? 2 then
    match a0 with
    | None => if cur + 1 <=? auto_limit
              then (Some (cur + 1), cur + 1, Z.max mx (cur + 1), false)
              else (a0, cur, mx, true)                                  (* auto_increment overflow *)
    | Some x => if (x <? 0) || (auto_limit <? x) then (a0, cur, mx, true)
                else (a0, Z.max cur x, Z.max mx x, false)
    end
  else (a0, cur, mx, false).

(* one row of the VALUES list; false = the statement fails here (what was done so far stays) *)
Definition ins_row (kind : Z) (c : iacc) (v : option Z * Z) : iacc * bool :=
  let '(a, cur, mx, neg) := auto_part kind (i_cur c) (i_max c) (fst v) in
  let b := snd v in
  let c1 := mkI (i_rows c) (i_pk c) (i_next c) cur mx (i_cnt c) in
  if neg then (c1, false)
  else
    match a with
    | None => if 1 <=? kind then (c1, false)                           (* NOT NULL constraint *)
              else
                let rid := i_next c in
                if has_rid (i_rows c) rid then (mkI (i_rows c) (i_pk c) (rid + 1) cur mx (i_cnt c), false)
                else (mkI (i_rows c ++ [mkRow rid true None b]) (i_pk c) (rid + 1) cur mx (i_cnt c + 1), true)
    | Some x =>
        if (1 <=? kind) && pk_mem (i_pk c) x then (c1, false)          (* PRIMARY KEY constraint *)
        else
          let rid := i_next c in                                       (* next_row_id.fetch_add(1) *)
          if has_rid (i_rows c) rid then (mkI (i_rows c) (i_pk c) (rid + 1) cur mx (i_cnt c), false)   (* key already exists *)
          else (mkI (i_rows c ++ [mkRow rid true (Some x) b])
                    (if 1 <=? kind then i_pk c ++ [(x, rid)] else i_pk c) (rid + 1) cur mx (i_cnt c + 1), true)
    end.

Fixpoint ins_loop (kind : Z) (c : iacc) (vals : list (option Z * Z)) : iacc * bool :=
  match vals with
  | [] => (c, true)
  | v :: t => let '(c', ok) := ins_row kind c v in if ok then ins_loop kind c' t else (c', false)
  end.

(* what a statement did to the physical layer of its table *)
Inductive effect := ENone | ECreate (t : Z) | ETouch (t : Z) (changed flushed : bool).

Definition do_insert (tb : ltbl) (next : Z) (vals : list (option Z * Z)) : ltbl * Z * bool :=
  let cur0 := if t_kind tb =? 2 then t_auto tb else 0 in
  let '(c, ok) := ins_loop (t_kind tb) (mkI (t_rows tb) (t_pk tb) next cur0 cur0 0) vals in
  let auto' := if t_kind tb =? 2 then i_max c else t_auto tb in
  if ok then (mkT (t_kind tb) (i_rows c) (t_count tb + i_cnt c) auto' (i_pk c), i_next c, true)
  else (mkT (t_kind tb) (i_rows c) (t_count tb) auto' (i_pk c), i_next c, false).

(* ------------------------------------------------------------------ DELETE / UPDATE  (WHERE b = v, live rows) *)
Definition hit (v : Z) (r : row) : bool := r_live r && (r_b r =? v).
Definition n_hit (v : Z) (rs : list row) : Z := Z.of_nat (length (filter (hit v) rs)).
Definition del_rows (v : Z) (rs : list row) : list row :=
  map (fun r => if hit v r then mkRow (r_id r) false (r_a r) (r_b r) else r) rs.
Definition upd_rows (v w : Z) (rs : list row) : list row :=
  map (fun r => if hit v r then mkRow (r_id r) true (r_a r) w else r) rs.
Definition hit_keys (v : Z) (rs : list row) : list Z :=
  flat_map (fun r => if hit v r then match r_a r with Some x => [x] | None => [] end else []) rs.
Definition pk_remove (pk : list (Z * Z)) (ks : list Z) : list (Z * Z) :=
  filter (fun e => negb (existsb (fun k => k =? fst e) ks)) pk.

Definition do_delete (tb : ltbl) (v : Z) : ltbl * Z :=
  let n := n_hit v (t_rows tb) in
  (mkT (t_kind tb) (del_rows v (t_rows tb)) (Z.max 0 (t_count tb - n)) (t_auto tb)
       (if 1 <=? t_kind tb then pk_remove (t_pk tb) (hit_keys v (t_rows tb)) else t_pk tb), n).
Definition do_update (tb : ltbl) (v w : Z) : ltbl * Z :=
  (mkT (t_kind tb) (upd_rows v w (t_rows tb)) (t_count tb) (t_auto tb) (t_pk tb), n_hit v (t_rows tb)).

(* ------------------------------------------------------------------ queries *)
Definition crow (r : row) : cellrow := [r_a r; Some (r_b r)].
Definition live_rows (rs : list row) : list row := filter r_live rs.
Definition scan (tb : ltbl) : list cellrow := sort_rows (map crow (live_rows (t_rows tb))).
Fixpoint row_at (rs : list row) (i : Z) : option row :=
  match rs with [] => None | r :: t => if r_id r =? i then Some r else row_at t i end.
(* SELECT a, b FROM t WHERE a = k : filter scan without PRIMARY KEY, index lookup with it *)
Definition lookup (tb : ltbl) (k : Z) : list cellrow :=
  if 1 <=? t_kind tb then
    match pk_find (t_pk tb) k with
    | Some i => match row_at (t_rows tb) i with
                | Some r => if r_live r then [crow r] else []
                | None => []
                end
    | None => []
    end
  else sort_rows (map crow (filter (fun r => match r_a r with Some x => x =? k | None => false end) (live_rows (t_rows tb)))).
Definition lookup_keys : list Z := [1; 2; 3; 4; 5; 6; 7; 8].
Definition slots : list Z := [0; 1; 2].
Definition observe (tb : option ltbl) : tobs :=
  match tb with
  | None => TAbsent
  | Some x => TPresent (scan x) (Some (t_count x)) (map (lookup x) lookup_keys)
  end.

(* ------------------------------------------------------------------ logical step of a statement *)
(* the new table map, next_row_id, WAL switch, what the statement returned and its effect *)
Record lres := mkL { l_tab : Z -> option ltbl; l_next : Z; l_wal : bool; l_obs : obs; l_eff : effect }.

Definition lstep (tab : Z -> option ltbl) (next : Z) (wal : bool) (o : op) : lres :=
  match o with
  | Create t k =>
      match tab t with
      | Some _ => mkL tab next wal OErr ENone
      | None => mkL (upd tab t (Some (mkT k [] 0 0 []))) next wal (OOk 0) (ECreate t)
      end
  | DropT t =>
      match tab t with
      | Some _ => mkL (upd tab t None) next wal (OOk 0) ENone
      | None => mkL tab next wal OErr ENone
      end
  | Ins t vals =>
      match tab t with
      | None => mkL tab next wal OErr ENone
      | Some tb =>
          let r := do_insert tb next vals in
          mkL (upd tab t (Some (fst (fst r)))) (snd (fst r)) wal
              (if snd r then OOk (Z.of_nat (length vals)) else OErr) (ETouch t true (snd r))
      end
  | Del t v =>
      match tab t with
      | None => mkL tab next wal OErr ENone
      | Some tb => let r := do_delete tb v in mkL (upd tab t (Some (fst r))) next wal (OOk (snd r)) (ETouch t (0 <? snd r) true)
      end
  | Upd t v w =>
      match tab t with
      | None => mkL tab next wal OErr ENone
      | Some tb => let r := do_update tb v w in mkL (upd tab t (Some (fst r))) next wal (OOk (snd r)) (ETouch t (0 <? snd r) true)
      end
  | SetWal on => mkL tab next on (OOk 0) ENone
  | Query => mkL tab next wal (OQ (map (fun t => observe (tab t)) slots)) ENone
  | _ => mkL tab next wal OWeird ENone            (* outside the modelled language *)
  end.

(* the physical side of a statement: a new table file has no image; with the WAL on, a changed
   page is marked dirty and a statement that completes appends the dirty page to the WAL
   (flush_wal_if_autocommit) *)
Definition phys_after (ph : Z -> phys) (wal : bool) (tab' : Z -> option ltbl) (e : effect) : Z -> phys :=
  match e with
  | ENone => ph
  | ECreate t => upd ph t no_phys
  | ETouch t changed flushed =>
      if wal then
        let d := p_dirty (ph t) || changed in
        if flushed && d then
          upd ph t (mkP (match tab' t with Some tb => Some (t_rows tb) | None => p_img (ph t) end) false)
        else upd ph t (mkP (p_img (ph t)) d)
      else ph
  end.

(* replay of the WAL segments onto the table files (SharedDatabase::checkpoint, Drop) *)
Definition replay_tab (tab : Z -> option ltbl) (ph : Z -> phys) : Z -> option ltbl :=
  fun t => match tab t with
           | Some tb => match p_img (ph t) with
                        | Some img => Some (mkT (t_kind tb) img (t_count tb) (t_auto tb) (t_pk tb))
                        | None => Some tb
                        end
           | None => None
           end.
Definition drop_imgs (ph : Z -> phys) : Z -> phys := fun t => mkP None (p_dirty (ph t)).

(* Database::open (restore_next_row_id): the counter continues after the largest row key that is
   physically stored in any table of the catalog - tombstones are stored rows, DELETE removes
   nothing from the leaf; an empty table contributes 0; a dropped table has no file any more *)
Definition max_rid (rs : list row) : Z := fold_right (fun r m => Z.max (r_id r) m) 0 rs.
Definition tab_max (tab : Z -> option ltbl) (t : Z) : Z :=
  match tab t with Some tb => max_rid (t_rows tb) | None => 0 end.
Definition restore_next (tab : Z -> option ltbl) : Z :=
  1 + fold_right (fun t m => Z.max (tab_max tab t) m) 0 slots.

Definition step (s : st) (o : op) : st * obs :=
  match o with
  | CkptApi =>           (* flush what is dirty, truncate the WAL: nothing is replayed *)
      (mkS (s_tab s) (fun _ => no_phys) (s_next s) (s_wal s) (s_walobj s), OOk 0)
  | CkptPragma =>
      if s_walobj s then (mkS (replay_tab (s_tab s) (s_ph s)) (drop_imgs (s_ph s)) (s_next s) (s_wal s) true, OOk 0)
      else (s, OOk 0)
  | ReopenClose =>       (* close() = checkpoint(); Drop skips; open: next_row_id restored; the session setting of the WAL is restored *)
      (mkS (s_tab s) (fun _ => no_phys) (restore_next (s_tab s)) (s_wal s) (s_wal s), OOk 0)
  | ReopenDrop =>        (* Drop replays the segments; open as above (it sees the replayed files) *)
      let tab' := if s_walobj s then replay_tab (s_tab s) (s_ph s) else s_tab s in
      (mkS tab' (fun _ => no_phys) (restore_next tab') (s_wal s) (s_wal s), OOk 0)
  | AutoCkpt => (s, OWeird)
  | _ =>                 (* a statement; PRAGMA wal=ON creates the Wal object (ensure_wal) *)
      let r := lstep (s_tab s) (s_next s) (s_wal s) o in
      (mkS (l_tab r) (phys_after (s_ph s) (s_wal s) (l_tab r) (l_eff r)) (l_next r) (l_wal r) (s_walobj s || l_wal r), l_obs r)
  end.

(* a run: `ints` = execute the interruptions (run A) or skip them (run B); one observation per executed op *)
Fixpoint run (ints : bool) (s : st) (h : list op) : list obs :=
  match h with
  | [] => []
  | o :: t =>
      if is_int o && negb ints then run ints s t
      else x_cons (step s o) (fun s' => run ints s' t)
  end.

(* ------------------------------------------------------------------ the modelled language *)
Definition slot_ok (t : Z) : bool := existsb (Z.eqb t) slots.
Definition op_in_lang (o : op) : bool :=
  match o with
  | Create t k => slot_ok t && (0 <=? k) && (k <=? 2)
  | DropT t | Ins t _ | Del t _ | Upd t _ _ => slot_ok t
  | Bulk _ _ _ | Trunc _ | CIdx _ | DIdx _ | Find _ _ | TxBegin | TxCommit | TxRollback | AutoCkpt => false
  | _ => true
  end.
Definition in_lang (h : list op) : bool := forallb op_in_lang h.

(* ------------------------------------------------------------------ equality of observations *)
Fixpoint list_eqb {A} (eq : A -> A -> bool) (x y : list A) : bool :=
  match x, y with
  | [], [] => true
  | a :: x', b :: y' => eq a b && list_eqb eq x' y'
  | _, _ => false
  end.
Definition crow_eqb : cellrow -> cellrow -> bool := list_eqb cell_eqb.
Definition rows_eqb : list cellrow -> list cellrow -> bool := list_eqb crow_eqb.
Definition tobs_eqb (x y : tobs) : bool :=
  match x, y with
  | TAbsent, TAbsent => true
  | TPresent r c l, TPresent r' c' l' => rows_eqb r r' && cell_eqb c c' && list_eqb rows_eqb l l'
  | _, _ => false
  end.
(* OWeird (panic, unexpected value) equals nothing, not even itself *)
Definition obs_eqb (x y : obs) : bool :=
  match x, y with
  | OOk n, OOk m => n =? m
  | OErr, OErr => true
  | ORows r, ORows r' => rows_eqb r r'
  | OQ a, OQ b => list_eqb tobs_eqb a b
  | _, _ => false
  end.

(* ------------------------------------------------------------------ the property's oracle on two runs *)
(* every statement returned the same in the run with interruptions (oa: one entry per op) and
   in the run without (ob: one entry per statement); every reopen succeeded; nothing panicked *)
Fixpoint oracle (h : list op) (oa ob : list obs) : bool :=
  match h with
  | [] => match oa, ob with [], [] => true | _, _ => false end
  | o :: t =>
      match oa with
      | [] => false
      | xa :: oa' =>
          if is_int o then
            match xa with
            | OWeird => false
            | OOk _ => oracle t oa' ob
            | _ => negb (is_reopen o) && oracle t oa' ob
            end
          else
            match ob with
            | [] => false
            | xb :: ob' => obs_eqb xa xb && oracle t oa' ob'
            end
      end
  end.

(* ------------------------------------------------------------------ the recorded finding class *)
(* A scanner over the history together with what its statements returned in run A (an INSERT
   that failed after its first row leaves rows behind that were not appended to the WAL).
   class 2: a replaying checkpoint (PRAGMA wal_checkpoint, automatic checkpoint at COMMIT, drop
            without close) while some table may have a page image in the WAL that is older than
            the page: changed with the WAL off / inside a transaction / by TRUNCATE / by a
            statement that failed half-way, after an image of it was logged.
   (Historical: class 1 = INSERT after a reopen failed because next_row_id restarted at 1, fixed
   in /repo 60cb117; class 3 = a table dropped and re-created was served from the unlinked file,
   fixed in /repo affacca.  Both paths are now part of the modelled language.) *)
Definition is_err (x : obs) : bool := match x with OOk _ => false | _ => true end.
Definition ok_pos (x : obs) : bool := match x with OOk n => 0 <? n | _ => false end.

(* ---- class 2 *)
Record k2 := mkK2 {
  k_wal : bool; k_txn : bool; k_auto : bool;
  k_lg : Z -> bool;        (* an image of table t may be in the WAL *)
  k_st : Z -> bool;        (* table t may have changed since (or without) its last image *)
  k_c2 : bool }.
Definition k2_init (wal : bool) : k2 := mkK2 wal false false (fun _ => false) (fun _ => false) false.
Definition stale_any (k : k2) : bool := existsb (fun t => k_lg k t && k_st k t) slots.

(* a statement on table t: changed = it may have changed rows; flushed = it completed (with the
   WAL on and outside a transaction its dirty page image was then appended) *)
Definition k2_touch (k : k2) (t : Z) (changed flushed : bool) : k2 :=
  let logged := k_wal k && negb (k_txn k) && flushed in
  mkK2 (k_wal k) (k_txn k) (k_auto k)
       (if logged then upd (k_lg k) t true else k_lg k)
       (if changed then upd (k_st k) t (negb logged) else k_st k)
       (k_c2 k).
(* the WAL is emptied; replay = its images were first copied over the table files *)
Definition k2_clear (k : k2) (replay : bool) : k2 :=
  mkK2 (k_wal k) (k_txn k) (k_auto k) (fun _ => false) (fun _ => false) (k_c2 k || (replay && stale_any k)).
Definition k2_session (k : k2) : k2 := mkK2 (k_wal k) false false (k_lg k) (k_st k) (k_c2 k).

(* x = what the statement returned in run A *)
Definition k2_step (k : k2) (o : op) (x : obs) : k2 :=
  match o with
  | SetWal on => mkK2 on (k_txn k) (k_auto k) (k_lg k) (k_st k) (k_c2 k)
  | TxBegin => mkK2 (k_wal k) true (k_auto k) (k_lg k) (k_st k) (k_c2 k)
  | TxCommit =>
      (* COMMIT appends the dirty pages (any table may now have an image); with automatic
         checkpoints switched on the replay follows at once *)
      let k' := mkK2 (k_wal k) false (k_auto k) (if k_wal k then (fun _ => true) else k_lg k) (k_st k) (k_c2 k) in
      if k_auto k && k_wal k then k2_clear k' true else k'
  | TxRollback => mkK2 (k_wal k) false (k_auto k) (k_lg k) (k_st k) (k_c2 k)
  | AutoCkpt => mkK2 (k_wal k) (k_txn k) true (k_lg k) (k_st k) (k_c2 k)
  | Create t _ | DropT t =>
      if is_err x then k else mkK2 (k_wal k) (k_txn k) (k_auto k) (upd (k_lg k) t false) (upd (k_st k) t false) (k_c2 k)
  | Ins t vals =>
      if is_err x then
        match vals with
        | _ :: _ :: _ => k2_touch k t true false        (* may have failed after its first row *)
        | _ => k
        end
      else k2_touch k t true true
  | Bulk t _ _ => k2_touch k t true (negb (is_err x))
  | Del t _ | Upd t _ _ => if is_err x then k else k2_touch k t (ok_pos x) true
  | Trunc t => k2_touch k t true false                  (* TRUNCATE never goes through the WAL *)
  | CkptApi => k2_clear k false
  | ReopenClose => k2_session (k2_clear k false)
  | CkptPragma => k2_clear k true
  | ReopenDrop => k2_session (k2_clear k true)
  | _ => k
  end.

(* oa: the observations of run A, one per op *)
Fixpoint kscan (b : k2) (h : list op) (oa : list obs) : k2 :=
  match h, oa with
  | o :: t, x :: oa' => kscan (k2_step b o x) t oa'
  | _, _ => b
  end.

Definition kclass (b : k2) : Z := if k_c2 b then 2 else 0.

Definition known_class_of (wal : bool) (h : list op) (oa : list obs) : Z := kclass (kscan (k2_init wal) h oa).
