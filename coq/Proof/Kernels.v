(* C24 proofs: lane algebra of the distance kernels (Model/Kernels.v) over any commutative
   ring.  Every vector length: the induction peels one 8-lane chunk per step and ends in the
   scalar tail, so lengths 0..7 and non-multiples of 8 are covered by the same proof. *)
From Coq Require Import ZArith List Bool Lia Ring Ring_theory.
From TV Require Import Model.Kernels.
Import ListNotations.

Section RingKernels.
  Context {R : Type} (o : kops R) (r1 : R).
  Hypothesis Rth : ring_theory (k0 o) r1 (kadd o) (kmul o) (ksub o) (kopp o) (@eq R).
  Hypothesis Hfma : forall x y z, kfma o x y z = kadd o (kmul o x y) z.
  Add Ring KR : Rth.
  Local Notation "x + y" := (kadd o x y).
  Local Notation "x - y" := (ksub o x y).
  Local Notation "x * y" := (kmul o x y).

  Ltac len := cbn [length] in *; lia.

  (* ------------------------------------------------------------ scalar kernels = definition *)
  Lemma l2sq_scalar_from_ok : forall a b s,
    l2sq_scalar_from o s a b = s + l2sq_spec o a b.
  Proof.
    induction a as [|x a IH]; intros b s.
    - cbn [l2sq_scalar_from l2sq_spec]. ring.
    - destruct b as [|y b]; cbn [l2sq_scalar_from l2sq_spec]; [ring|].
      rewrite IH. ring.
  Qed.

  Lemma dot_scalar_from_ok : forall a b s,
    dot_scalar_from o s a b = s + dot_spec o a b.
  Proof.
    induction a as [|x a IH]; intros b s.
    - cbn [dot_scalar_from dot_spec]. ring.
    - destruct b as [|y b]; cbn [dot_scalar_from dot_spec]; [ring|].
      rewrite IH. ring.
  Qed.

  Lemma cos_parts_scalar_from_ok : forall a b d na nb, length a = length b ->
    cos_parts_scalar_from o (d, na, nb) a b =
      (d + dot_spec o a b, na + dot_spec o a a, nb + dot_spec o b b).
  Proof.
    induction a as [|x a IH]; intros b d na nb Hl.
    - destruct b; [|len]. cbn [cos_parts_scalar_from dot_spec].
      f_equal; [f_equal|]; ring.
    - destruct b as [|y b]; [len|]. cbn [cos_parts_scalar_from dot_spec].
      rewrite IH by len. f_equal; [f_equal|]; ring.
  Qed.

  (* ------------------------------------------------------------ tails *)
  Lemma l2sq_tail_ok : forall a b r, (length a <= length b)%nat ->
    l2sq_tail o r a b = KVal (r + l2sq_spec o a b).
  Proof.
    induction a as [|x a IH]; intros b r Hl.
    - cbn [l2sq_tail l2sq_spec]. f_equal. ring.
    - destruct b as [|y b]; [len|].
      cbn [l2sq_tail l2sq_spec]. rewrite IH by len. f_equal. ring.
  Qed.

  Lemma dot_tail_ok : forall a b r, (length a <= length b)%nat ->
    dot_tail o r a b = KVal (r + dot_spec o a b).
  Proof.
    induction a as [|x a IH]; intros b r Hl.
    - cbn [dot_tail dot_spec]. f_equal. ring.
    - destruct b as [|y b]; [len|].
      cbn [dot_tail dot_spec]. rewrite IH by len. f_equal. ring.
  Qed.

  Lemma cos_tail_ok : forall a b d na nb, length a = length b ->
    cos_tail o (d, na, nb) a b =
      KVal (d + dot_spec o a b, na + dot_spec o a a, nb + dot_spec o b b).
  Proof.
    induction a as [|x a IH]; intros b d na nb Hl.
    - destruct b; [|len]. cbn [cos_tail dot_spec]. f_equal. f_equal; [f_equal|]; ring.
    - destruct b as [|y b]; [len|]. cbn [cos_tail dot_spec].
      rewrite IH by len. f_equal. f_equal; [f_equal|]; ring.
  Qed.

  (* a shorter `b` makes the tail panic (never a value) *)
  Lemma l2sq_tail_short : forall a b r, (length b < length a)%nat -> l2sq_tail o r a b = KPanic.
  Proof.
    induction a as [|x a IH]; intros b r Hl; [len|].
    destruct b as [|y b]; cbn [l2sq_tail]; [reflexivity|]. apply IH. len.
  Qed.
  Lemma dot_tail_short : forall a b r, (length b < length a)%nat -> dot_tail o r a b = KPanic.
  Proof.
    induction a as [|x a IH]; intros b r Hl; [len|].
    destruct b as [|y b]; cbn [dot_tail]; [reflexivity|]. apply IH. len.
  Qed.

  (* ------------------------------------------------------------ AVX2 loops *)
  Lemma l2sq_avx2_loop_ok : forall n a b acc, (length a <= n)%nat -> (length a <= length b)%nat ->
    l2sq_avx2_loop o acc a b = KVal (hsum o acc + l2sq_spec o a b).
  Proof.
    induction n as [|n IH]; intros a b acc Hn Hl.
    - destruct a; [|len]. cbn [l2sq_avx2_loop]. apply l2sq_tail_ok. exact Hl.
    - destruct a as [|x0 [|x1 [|x2 [|x3 [|x4 [|x5 [|x6 [|x7 a']]]]]]]];
        try (cbn [l2sq_avx2_loop]; apply l2sq_tail_ok; exact Hl).
      destruct b as [|y0 [|y1 [|y2 [|y3 [|y4 [|y5 [|y6 [|y7 b']]]]]]]]; try len.
      cbn [l2sq_avx2_loop]. rewrite IH by len.
      destruct acc. f_equal. cbn [l2sq_spec]. cbv [hsum v8_fmadd v8_sub v8_map2].
      rewrite !Hfma. ring.
  Qed.

  Lemma dot_avx2_loop_ok : forall n a b acc, (length a <= n)%nat -> (length a <= length b)%nat ->
    dot_avx2_loop o acc a b = KVal (hsum o acc + dot_spec o a b).
  Proof.
    induction n as [|n IH]; intros a b acc Hn Hl.
    - destruct a; [|len]. cbn [dot_avx2_loop]. apply dot_tail_ok. exact Hl.
    - destruct a as [|x0 [|x1 [|x2 [|x3 [|x4 [|x5 [|x6 [|x7 a']]]]]]]];
        try (cbn [dot_avx2_loop]; apply dot_tail_ok; exact Hl).
      destruct b as [|y0 [|y1 [|y2 [|y3 [|y4 [|y5 [|y6 [|y7 b']]]]]]]]; try len.
      cbn [dot_avx2_loop]. rewrite IH by len.
      destruct acc. f_equal. cbn [dot_spec]. cbv [hsum v8_fmadd].
      rewrite !Hfma. ring.
  Qed.

  Lemma cos_parts_avx2_loop_ok : forall n a b ad aa ab, (length a <= n)%nat -> length a = length b ->
    cos_parts_avx2_loop o ad aa ab a b =
      KVal (hsum o ad + dot_spec o a b, hsum o aa + dot_spec o a a, hsum o ab + dot_spec o b b).
  Proof.
    induction n as [|n IH]; intros a b ad aa ab Hn Hl.
    - destruct a; [|len]. cbn [cos_parts_avx2_loop]. apply cos_tail_ok. exact Hl.
    - destruct a as [|x0 [|x1 [|x2 [|x3 [|x4 [|x5 [|x6 [|x7 a']]]]]]]];
        try (cbn [cos_parts_avx2_loop]; apply cos_tail_ok; exact Hl).
      destruct b as [|y0 [|y1 [|y2 [|y3 [|y4 [|y5 [|y6 [|y7 b']]]]]]]]; try len.
      cbn [cos_parts_avx2_loop]. rewrite IH by len.
      destruct ad, aa, ab. cbn [dot_spec]. cbv [hsum v8_fmadd]. rewrite !Hfma.
      f_equal. f_equal; [f_equal|]; ring.
  Qed.

  Lemma hsum_zero : hsum o (v8_zero o) = k0 o.
  Proof. cbv [hsum v8_zero]. ring. Qed.

  (* a shorter `b`: out-of-bounds vector load or tail panic, never a value *)
  Lemma l2sq_avx2_loop_short : forall n a b acc, (length a <= n)%nat -> (length b < length a)%nat ->
    l2sq_avx2_loop o acc a b = KPanic \/ l2sq_avx2_loop o acc a b = KUB.
  Proof.
    induction n as [|n IH]; intros a b acc Hn Hl.
    - destruct a; len.
    - destruct a as [|x0 [|x1 [|x2 [|x3 [|x4 [|x5 [|x6 [|x7 a']]]]]]]];
        try (left; cbn [l2sq_avx2_loop]; apply l2sq_tail_short; exact Hl).
      destruct b as [|y0 [|y1 [|y2 [|y3 [|y4 [|y5 [|y6 [|y7 b']]]]]]]];
        try (right; reflexivity).
      cbn [l2sq_avx2_loop]. apply IH; len.
  Qed.
  Lemma dot_avx2_loop_short : forall n a b acc, (length a <= n)%nat -> (length b < length a)%nat ->
    dot_avx2_loop o acc a b = KPanic \/ dot_avx2_loop o acc a b = KUB.
  Proof.
    induction n as [|n IH]; intros a b acc Hn Hl.
    - destruct a; len.
    - destruct a as [|x0 [|x1 [|x2 [|x3 [|x4 [|x5 [|x6 [|x7 a']]]]]]]];
        try (left; cbn [dot_avx2_loop]; apply dot_tail_short; exact Hl).
      destruct b as [|y0 [|y1 [|y2 [|y3 [|y4 [|y5 [|y6 [|y7 b']]]]]]]];
        try (right; reflexivity).
      cbn [dot_avx2_loop]. apply IH; len.
  Qed.

  (* ------------------------------------------------------------ kernel = definition *)
  Lemma l2sq_scalar_ok : forall a b, l2sq_scalar o a b = l2sq_spec o a b.
  Proof. intros. unfold l2sq_scalar. rewrite l2sq_scalar_from_ok. ring. Qed.

  Lemma dot_scalar_ok : forall a b, dot_scalar o a b = dot_spec o a b.
  Proof. intros. unfold dot_scalar. rewrite dot_scalar_from_ok. ring. Qed.

  Lemma cos_parts_scalar_ok : forall a b, length a = length b ->
    cos_parts_scalar o a b = (dot_spec o a b, dot_spec o a a, dot_spec o b b).
  Proof.
    intros a b Hl. unfold cos_parts_scalar. rewrite cos_parts_scalar_from_ok by exact Hl.
    f_equal; [f_equal|]; ring.
  Qed.

  Lemma l2sq_avx2_ok : forall a b, (length a <= length b)%nat ->
    l2sq_avx2 o a b = KVal (l2sq_spec o a b).
  Proof.
    intros a b Hl. unfold l2sq_avx2.
    rewrite (l2sq_avx2_loop_ok (length a)) by (auto; lia). rewrite hsum_zero. f_equal. ring.
  Qed.

  Lemma dot_avx2_ok : forall a b, (length a <= length b)%nat ->
    dot_avx2 o a b = KVal (dot_spec o a b).
  Proof.
    intros a b Hl. unfold dot_avx2.
    rewrite (dot_avx2_loop_ok (length a)) by (auto; lia). rewrite hsum_zero. f_equal. ring.
  Qed.

  Lemma cos_parts_avx2_ok : forall a b, length a = length b ->
    cos_parts_avx2 o a b = KVal (dot_spec o a b, dot_spec o a a, dot_spec o b b).
  Proof.
    intros a b Hl. unfold cos_parts_avx2.
    rewrite (cos_parts_avx2_loop_ok (length a)) by (auto; lia). rewrite hsum_zero.
    f_equal. f_equal; [f_equal|]; ring.
  Qed.
End RingKernels.

(* ---------------------------------------------------------------- the statements used by Props *)
Lemma l2sq_kernels_exact_l : forall (R : Type) (o : kops R) (one : R), ring_kops o one ->
  forall a b : list R, length a = length b ->
    l2sq_avx2 o a b = KVal (l2sq_spec o a b) /\ l2sq_scalar o a b = l2sq_spec o a b.
Proof.
  intros R o one [Rth Hfma] a b Hl. split.
  - apply (l2sq_avx2_ok o one Rth Hfma). lia.
  - apply (l2sq_scalar_ok o one Rth).
Qed.

Lemma dot_kernels_exact_l : forall (R : Type) (o : kops R) (one : R), ring_kops o one ->
  forall a b : list R, length a = length b ->
    dot_avx2 o a b = KVal (dot_spec o a b) /\ dot_scalar o a b = dot_spec o a b /\
    inner_avx2 o a b = KVal (kopp o (dot_spec o a b)) /\ inner_scalar o a b = kopp o (dot_spec o a b).
Proof.
  intros R o one [Rth Hfma] a b Hl.
  assert (Ha : dot_avx2 o a b = KVal (dot_spec o a b)) by (apply (dot_avx2_ok o one Rth Hfma); lia).
  assert (Hs : dot_scalar o a b = dot_spec o a b) by apply (dot_scalar_ok o one Rth).
  repeat split; auto.
  - unfold inner_avx2. rewrite Ha. reflexivity.
  - unfold inner_scalar. rewrite Hs. reflexivity.
Qed.

Lemma cosine_kernels_exact_l : forall (R : Type) (o : kops R) (one : R), ring_kops o one ->
  forall (fin : kfin R) (a b : list R), length a = length b ->
    cosine_avx2 o fin a b = KVal (cos_finish o fin (dot_spec o a b, dot_spec o a a, dot_spec o b b)) /\
    cosine_scalar o fin a b = cos_finish o fin (dot_spec o a b, dot_spec o a a, dot_spec o b b).
Proof.
  intros R o one [Rth Hfma] fin a b Hl. split.
  - unfold cosine_avx2. rewrite (cos_parts_avx2_ok o one Rth Hfma) by exact Hl. reflexivity.
  - unfold cosine_scalar. rewrite (cos_parts_scalar_ok o one Rth) by exact Hl. reflexivity.
Qed.

(* whatever the CPU detection answers, the dispatched kernel returns the definition's value *)
Lemma dispatch_exact_l : forall (R : Type) (o : kops R) (one : R), ring_kops o one ->
  forall (fin : kfin R) (simd : bool) (a b : list R), length a = length b ->
    l2sq_dispatch o simd a b = KVal (l2sq_spec o a b) /\
    euclid_dispatch o fin simd a b = KVal (ksqrt fin (l2sq_spec o a b)) /\
    cosine_dispatch o fin simd a b =
      KVal (cos_finish o fin (dot_spec o a b, dot_spec o a a, dot_spec o b b)) /\
    inner_dispatch o simd a b = KVal (kopp o (dot_spec o a b)).
Proof.
  intros R o one Hr fin simd a b Hl.
  destruct (l2sq_kernels_exact_l R o one Hr a b Hl) as [L1 L2].
  destruct (dot_kernels_exact_l R o one Hr a b Hl) as [_ [_ [I1 I2]]].
  destruct (cosine_kernels_exact_l R o one Hr fin a b Hl) as [C1 C2].
  unfold euclid_dispatch, l2sq_dispatch, cosine_dispatch, inner_dispatch.
  destruct simd; rewrite ?L1, ?L2, ?C1, ?C2, ?I1, ?I2; cbn [kmap]; repeat split; reflexivity.
Qed.

(* the AVX2 kernels return a value exactly when `b` is at least as long as `a`; otherwise
   they panic in the tail or read out of bounds (the callers' equal-length obligation) *)
Lemma avx2_value_iff_l : forall (R : Type) (o : kops R) (one : R), ring_kops o one ->
  forall a b : list R,
    ((length a <= length b)%nat -> l2sq_avx2 o a b = KVal (l2sq_spec o a b) /\ dot_avx2 o a b = KVal (dot_spec o a b)) /\
    ((length b < length a)%nat ->
       (l2sq_avx2 o a b = KPanic \/ l2sq_avx2 o a b = KUB) /\ (dot_avx2 o a b = KPanic \/ dot_avx2 o a b = KUB)).
Proof.
  intros R o one [Rth Hfma] a b. split; intros Hl.
  - split; [apply (l2sq_avx2_ok o one Rth Hfma)|apply (dot_avx2_ok o one Rth Hfma)]; exact Hl.
  - split; [apply (l2sq_avx2_loop_short o (length a))|apply (dot_avx2_loop_short o (length a))]; auto.
Qed.

(* Z is such a ring *)
Lemma zops_ring_l : ring_kops zops 1%Z.
Proof.
  split.
  - exact Zth.
  - intros x y z. reflexivity.
Qed.
