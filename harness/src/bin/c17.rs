//! C17 -- joins return the SQL-defined rows under any memory budget.
//! Two kinds of cases, both run on the real implementation and judged in Coq (coq/Corr/C17.v):
//!   exec : the Volcano join executors of src/sql/executor.rs driven through the public builder API
//!          (DynamicExecutor::GraceHashJoin with and without spilling, the static
//!          GraceHashJoinExecutor, DynamicExecutor::NestedLoopJoin, DynamicExecutor::StreamingHashJoin)
//!          on generated row sets with duplicate / NULL / mixed-type keys; the DefaultHasher value
//!          of every row's key is reported as an oracle column.
//!   sql  : SELECT .. FROM ta [INNER|LEFT|RIGHT|FULL|CROSS] JOIN tb ON .. [JOIN tc ..] [WHERE ..]
//!          through turdb::Database::query (the hand-written join paths of src/database/database.rs),
//!          each under PRAGMA join_memory_budget in {1 KiB, 4 KiB, 64 KiB, 10 MiB}.
//!   c17 gen    --seed S --tier T --out DIR [--lines FILE]
//!   c17 search --seed S --budget N --out FILE     (oracle only: Rust port of the reference semantics)
//!   c17 sql FILE                                   (debug: run the statements of FILE, print results)
#[path = "sqlgen/mod.rs"]
mod sqlgen;
use sqlgen::*;
use std::borrow::Cow;
use std::path::PathBuf;
use tvh::*;
use turdb::sql::ast::JoinType;
use turdb::sql::builder::ExecutorBuilder;
use turdb::sql::context::ExecutionContext;
use turdb::sql::executor::{DynamicExecutor, Executor, GraceHashJoinExecutor, MaterializedRowSource, TableScanExecutor};
use turdb::sql::state::StreamingHashJoinState;
use turdb::sql::util::hash_keys_static;
use turdb::types::Value;
use turdb::{Database, OwnedValue};

const BUDGETS: [usize; 4] = [1024, 4096, 65536, 10 * 1024 * 1024];

fn main() {
    let a = Args::parse();
    match a.mode.as_str() {
        "gen" => gen(&a),
        "search" => search(&a),
        "sql" => sql_mode(&a),
        "plan" => plan_mode(&a),
        _ => { eprintln!("c17: unknown mode"); std::process::exit(2); }
    }
}

/// scratch directory of this process: <verif>/build/tmp/c17-<pid> (removed at the end)
fn scratch_root() -> PathBuf {
    let exe = std::env::current_exe().ok();
    let base = exe.as_ref().and_then(|p| p.parent()).and_then(|p| p.parent()).and_then(|p| p.parent())
        .map(|p| p.join("tmp")).unwrap_or_else(|| PathBuf::from("/verif/build/tmp"));
    base.join(format!("c17-{}", std::process::id()))
}

// ------------------------------------------------------------------ join types
#[derive(Clone, Copy, Debug, PartialEq)]
enum Jt { Inner, Left, Right, Full, Cross, Comma }

impl Jt {
    fn ch(&self) -> char { match self { Jt::Inner => 'I', Jt::Left => 'L', Jt::Right => 'R', Jt::Full => 'F', Jt::Cross => 'C', Jt::Comma => 'X' } }
    fn from_ch(c: char) -> Option<Jt> { match c { 'I' => Some(Jt::Inner), 'L' => Some(Jt::Left), 'R' => Some(Jt::Right), 'F' => Some(Jt::Full), 'C' => Some(Jt::Cross), 'X' => Some(Jt::Comma), _ => None } }
    fn coq(&self) -> &'static str { match self { Jt::Inner => "JInner", Jt::Left => "JLeft", Jt::Right => "JRight", Jt::Full => "JFull", Jt::Cross => "JCross", Jt::Comma => "JComma" } }
    fn sql(&self) -> &'static str { match self { Jt::Inner => "JOIN", Jt::Left => "LEFT JOIN", Jt::Right => "RIGHT JOIN", Jt::Full => "FULL OUTER JOIN", Jt::Cross => "CROSS JOIN", Jt::Comma => "," } }
    fn ast(&self) -> JoinType { match self { Jt::Inner => JoinType::Inner, Jt::Left => JoinType::Left, Jt::Right => JoinType::Right, Jt::Full => JoinType::Full, Jt::Cross | Jt::Comma => JoinType::Cross } }
    fn left_outer(&self) -> bool { matches!(self, Jt::Left | Jt::Full) }
    fn right_outer(&self) -> bool { matches!(self, Jt::Right | Jt::Full) }
    fn has_on(&self) -> bool { !matches!(self, Jt::Cross | Jt::Comma) }
}

type Rows = Vec<Vec<Val>>;

fn rows_line(w: usize, rows: &Rows) -> String {
    let rs: Vec<String> = rows.iter().map(|r| r.iter().map(|v| v.to_tok()).collect::<Vec<_>>().join(",")).collect();
    format!("{}:{}", w, if rs.is_empty() { "-".to_string() } else { rs.join(";") })
}
fn parse_rows(s: &str) -> Option<(usize, Rows)> {
    let (w, rs) = s.split_once(':')?;
    let w: usize = w.parse().ok()?;
    let mut out = vec![];
    if rs != "-" {
        for r in rs.split(';') {
            let vs: Option<Vec<Val>> = if w == 0 && r.is_empty() { Some(vec![]) } else { r.split(',').map(Val::from_tok).collect() };
            let vs = vs?;
            if vs.len() != w { return None; }
            out.push(vs);
        }
    }
    Some((w, out))
}
fn coq_row(r: &[Val]) -> String { format!("[{}]", r.iter().map(|v| v.to_coq()).collect::<Vec<_>>().join("; ")) }
fn coq_rows(rs: &Rows) -> String { format!("[{}]", rs.iter().map(|r| coq_row(r)).collect::<Vec<_>>().join("; ")) }
fn idx_line(v: &[usize]) -> String { if v.is_empty() { "-".into() } else { v.iter().map(|x| x.to_string()).collect::<Vec<_>>().join(".") } }
fn parse_idx(s: &str) -> Option<Vec<usize>> { if s == "-" { Some(vec![]) } else { s.split('.').map(|x| x.parse().ok()).collect() } }
fn coq_nats(v: &[usize]) -> String { format!("[{}]", v.iter().map(|x| format!("{}%nat", x)).collect::<Vec<_>>().join("; ")) }

// ------------------------------------------------------------------ observed outputs
#[derive(Clone, Debug, PartialEq)]
enum Out { Rows(Rows), Err(String), Panic(String), Bad(String) }

impl Out {
    fn coq(&self) -> String {
        match self { Out::Rows(r) => format!("(ORows {})", coq_rows(r)), Out::Err(_) => "OErr".into(), Out::Panic(_) => "OPanic".into(), Out::Bad(_) => "OBad".into() }
    }
    fn bucket(&self) -> &'static str { match self { Out::Rows(_) => "out:rows", Out::Err(_) => "out:error", Out::Panic(_) => "out:panic", Out::Bad(_) => "out:unexpected_value" } }
}

fn sorted(rows: &Rows) -> Vec<String> {
    let mut v: Vec<String> = rows.iter().map(|r| r.iter().map(|x| x.to_tok()).collect::<Vec<_>>().join(",")).collect();
    v.sort();
    v
}
fn bag_eq(a: &Rows, b: &Rows) -> bool { sorted(a) == sorted(b) }

fn from_value(v: &Value<'_>) -> Option<Val> {
    match v {
        Value::Null => Some(Val::Null),
        Value::Int(i) => Some(Val::Int(*i)),
        Value::Float(f) => Some(Val::Float(f.to_bits())),
        Value::Text(s) => Some(Val::Text(s.as_bytes().to_vec())),
        _ => None,
    }
}
fn to_value(v: &Val) -> Value<'static> {
    match v {
        Val::Null => Value::Null,
        Val::Int(i) => Value::Int(*i),
        Val::Float(b) => Value::Float(f64::from_bits(*b)),
        Val::Text(t) => Value::Text(Cow::Owned(String::from_utf8_lossy(t).into_owned())),
        Val::Bool(b) => Value::Int(*b as i64),
    }
}
fn to_owned_value(v: &Val) -> OwnedValue {
    match v {
        Val::Null => OwnedValue::Null,
        Val::Int(i) => OwnedValue::Int(*i),
        Val::Float(b) => OwnedValue::Float(f64::from_bits(*b)),
        Val::Text(t) => OwnedValue::Text(String::from_utf8_lossy(t).into_owned()),
        Val::Bool(b) => OwnedValue::Bool(*b),
    }
}
fn from_owned(o: &OwnedValue) -> Option<Val> {
    match o {
        OwnedValue::Null => Some(Val::Null),
        OwnedValue::Int(i) => Some(Val::Int(*i)),
        OwnedValue::Float(f) => Some(Val::Float(f.to_bits())),
        OwnedValue::Text(s) => Some(Val::Text(s.as_bytes().to_vec())),
        OwnedValue::Bool(b) => Some(Val::Bool(*b)),
        _ => None,
    }
}

// ================================================================== exec cases: the Volcano join executors
#[derive(Clone, Copy, Debug, PartialEq)]
enum Algo { GraceDyn, GraceStatic, NestedLoop, Streaming }
impl Algo {
    fn tag(&self) -> &'static str { match self { Algo::GraceDyn => "gd", Algo::GraceStatic => "gs", Algo::NestedLoop => "nl", Algo::Streaming => "sh" } }
    fn from_tag(s: &str) -> Option<Algo> { match s { "gd" => Some(Algo::GraceDyn), "gs" => Some(Algo::GraceStatic), "nl" => Some(Algo::NestedLoop), "sh" => Some(Algo::Streaming), _ => None } }
    fn coq(&self) -> &'static str { match self { Algo::GraceDyn => "AGraceDyn", Algo::GraceStatic => "AGraceStatic", Algo::NestedLoop => "ANestedLoop", Algo::Streaming => "AStreaming" } }
}

#[derive(Clone, Debug)]
struct ExecCase { algo: Algo, jt: Jt, n: usize, spill: Option<usize>, lk: Vec<usize>, rk: Vec<usize>, lw: usize, rw: usize, l: Rows, r: Rows, swapped: bool }

impl ExecCase {
    fn line(&self) -> String {
        format!("exec algo={} jt={} n={} spill={} sw={} lk={} rk={} L={} R={}", self.algo.tag(), self.jt.ch(), self.n,
                self.spill.map(|b| b.to_string()).unwrap_or("-".into()), self.swapped as u8, idx_line(&self.lk), idx_line(&self.rk), rows_line(self.lw, &self.l), rows_line(self.rw, &self.r))
    }
    fn parse(l: &str) -> Option<ExecCase> {
        let l = l.split(" #").next().unwrap_or(l).trim();
        let rest = l.strip_prefix("exec ")?;
        let mut kv = std::collections::HashMap::new();
        for p in rest.split(' ') { let (k, v) = p.split_once('=')?; kv.insert(k, v); }
        let (lw, lrows) = parse_rows(kv.get("L")?)?;
        let (rw, rrows) = parse_rows(kv.get("R")?)?;
        Some(ExecCase {
            algo: Algo::from_tag(kv.get("algo")?)?, jt: Jt::from_ch(kv.get("jt")?.chars().next()?)?, n: kv.get("n")?.parse().ok()?,
            spill: if *kv.get("spill")? == "-" { None } else { Some(kv.get("spill")?.parse().ok()?) },
            swapped: *kv.get("sw")? == "1",
            lk: parse_idx(kv.get("lk")?)?, rk: parse_idx(kv.get("rk")?)?, lw, rw, l: lrows, r: rrows,
        })
    }
}

fn owned_rows(rows: &Rows) -> Vec<Vec<OwnedValue>> { rows.iter().map(|r| r.iter().map(to_owned_value).collect()).collect() }

fn key_hash(row: &[Val], keys: &[usize]) -> u64 {
    let vals: Vec<Value<'static>> = row.iter().map(to_value).collect();
    hash_keys_static(&vals, keys)
}

/// text of the equality condition of the nested-loop case: l<i> = r<j> AND ...
fn nl_condition_sql(c: &ExecCase) -> String {
    let parts: Vec<String> = c.lk.iter().zip(c.rk.iter()).map(|(i, j)| format!("l{} = r{}", i, j)).collect();
    if parts.is_empty() { "1 = 1".to_string() } else { parts.join(" AND ") }
}

/// runs one executor on the real code; returns the emitted rows in order and whether spill files appeared
fn run_exec(c: &ExecCase, spill_root: &PathBuf, seq: u64) -> (Out, bool) {
    let c2 = c.clone();
    let dir = spill_root.join(format!("spill{}", seq));
    let dir2 = dir.clone();
    let r = catch(std::panic::AssertUnwindSafe(move || -> Result<(Rows, bool), String> {
        let c = &c2;
        let arena = Default::default();
        let ctx = ExecutionContext::new(&arena);
        let b = ExecutorBuilder::new(&ctx);
        let e = |m: &str, x: eyre::Report| format!("{}: {:#}", m, x);
        let mut out: Rows = vec![];
        let mut spilled = false;
        let mut bad: Option<String> = None;
        let mut push = |vals: &[Value<'_>], out: &mut Rows| {
            let r: Option<Vec<Val>> = vals.iter().map(from_value).collect();
            match r { Some(r) => out.push(r), None => bad = Some(format!("{:?}", vals)) }
        };
        match c.algo {
            Algo::GraceStatic => {
                let left = TableScanExecutor::new(MaterializedRowSource::new(owned_rows(&c.l)), &arena);
                let right = TableScanExecutor::new(MaterializedRowSource::new(owned_rows(&c.r)), &arena);
                let mut ex = GraceHashJoinExecutor::new(left, right, c.lk.iter().copied().collect(), c.rk.iter().copied().collect(), &arena, c.n);
                ex.open().map_err(|x| e("open", x))?;
                while let Some(row) = ex.next().map_err(|x| e("next", x))? { push(row.values, &mut out); }
                ex.close().map_err(|x| e("close", x))?;
            }
            Algo::GraceDyn => {
                let left = DynamicExecutor::TableScan(TableScanExecutor::new(MaterializedRowSource::new(owned_rows(&c.l)), &arena));
                let right = DynamicExecutor::TableScan(TableScanExecutor::new(MaterializedRowSource::new(owned_rows(&c.r)), &arena));
                let sd = c.spill.map(|_| dir2.clone());
                let st = b.build_grace_hash_join(left, right, c.lk.clone(), c.rk.clone(), c.n, c.jt.ast(), c.lw, c.rw, sd, c.spill.unwrap_or(0), seq);
                let mut ex = DynamicExecutor::GraceHashJoin(Box::new(st));
                ex.open().map_err(|x| e("open", x))?;
                if c.spill.is_some() {
                    if let Ok(rd) = std::fs::read_dir(&dir2) { spilled = rd.filter_map(|x| x.ok()).any(|x| x.file_name().to_string_lossy().ends_with(".spill")); }
                }
                while let Some(row) = ex.next().map_err(|x| e("next", x))? { push(row.values, &mut out); }
                ex.close().map_err(|x| e("close", x))?;
            }
            Algo::NestedLoop => {
                let sql = format!("SELECT 1 FROM l, r WHERE {}", nl_condition_sql(c));
                let mut parser = turdb::sql::Parser::new(&sql, &arena);
                let stmt = parser.parse_statement().map_err(|x| e("parse", x))?;
                let cond = match stmt { turdb::sql::ast::Statement::Select(s) => s.where_clause, _ => None };
                let mut cmap: Vec<(String, usize)> = vec![];
                for i in 0..c.lw { cmap.push((format!("l{}", i), i)); }
                for j in 0..c.rw { cmap.push((format!("r{}", j), c.lw + j)); }
                let left = DynamicExecutor::TableScan(TableScanExecutor::new(MaterializedRowSource::new(owned_rows(&c.l)), &arena));
                let right = DynamicExecutor::TableScan(TableScanExecutor::new(MaterializedRowSource::new(owned_rows(&c.r)), &arena));
                let st = b.build_nested_loop_join(left, right, cond, &cmap, c.jt.ast(), c.lw, c.rw);
                let mut ex = DynamicExecutor::NestedLoopJoin(st);
                ex.open().map_err(|x| e("open", x))?;
                while let Some(row) = ex.next().map_err(|x| e("next", x))? { push(row.values, &mut out); }
                ex.close().map_err(|x| e("close", x))?;
            }
            Algo::Streaming => {
                // build side = left unless swapped (then the planner hands the RIGHT input as build and sets `swapped`)
                let (brows, prows, bk, pk, bw, pw) = if c.swapped { (&c.r, &c.l, &c.rk, &c.lk, c.rw, c.lw) } else { (&c.l, &c.r, &c.lk, &c.rk, c.lw, c.rw) };
                let build = DynamicExecutor::TableScan(TableScanExecutor::new(MaterializedRowSource::new(owned_rows(brows)), &arena));
                let probe = DynamicExecutor::TableScan(TableScanExecutor::new(MaterializedRowSource::new(owned_rows(prows)), &arena));
                let st = StreamingHashJoinState {
                    build: Box::new(build), probe: Box::new(probe),
                    build_key_indices: bk.iter().copied().collect(), probe_key_indices: pk.iter().copied().collect(),
                    arena: &arena, hash_table: Default::default(), build_rows: Vec::new(), current_probe_row: None,
                    current_matches: Default::default(), current_match_idx: 0, join_type: c.jt.ast(), probe_row_matched: false,
                    build_matched: Vec::new(), emitting_unmatched_build: false, unmatched_build_idx: 0,
                    build_col_count: bw, probe_col_count: pw, built: false, swapped: c.swapped, memory_budget: None, last_reported_bytes: 0,
                };
                let mut ex = DynamicExecutor::StreamingHashJoin(st);
                ex.open().map_err(|x| e("open", x))?;
                while let Some(row) = ex.next().map_err(|x| e("next", x))? { push(row.values, &mut out); }
                ex.close().map_err(|x| e("close", x))?;
            }
        }
        if let Some(m) = bad { return Err(format!("BAD {}", m)); }
        Ok((out, spilled))
    }));
    let _ = std::fs::remove_dir_all(&dir);
    match r {
        Caught::Done(Ok((rows, sp))) => (Out::Rows(rows), sp),
        Caught::Done(Err(m)) => if m.starts_with("BAD ") { (Out::Bad(m), false) } else { (Out::Err(m), false) },
        Caught::Panicked(m) => (Out::Panic(m), false),
    }
}

// ---- reference semantics of an equi-join on key columns (Rust port of Model/JoinSpec.v, search mode and statistics only)
/// Some(true/false) = the ON condition l.k1 = r.k1 AND .. is TRUE / not TRUE; None = the reference does not say
fn keys_on(l: &[Val], r: &[Val], lk: &[usize], rk: &[usize]) -> Option<bool> {
    let mut acc = Tv::T;
    for (i, j) in lk.iter().zip(rk.iter()) {
        let t = cmp3(CmpOp::Eq, l.get(*i)?, r.get(*j)?)?;
        acc = tv_and(acc, t);
    }
    Some(acc == Tv::T)
}
fn nulls(n: usize) -> Vec<Val> { vec![Val::Null; n] }

fn join_spec(jt: Jt, lw: usize, rw: usize, l: &Rows, r: &Rows, on: &dyn Fn(&[Val], &[Val]) -> Option<bool>) -> Option<Rows> {
    let mut out = vec![];
    let mut rmatched = vec![false; r.len()];
    for x in l {
        let mut m = false;
        for (j, y) in r.iter().enumerate() {
            if on(x, y)? { m = true; rmatched[j] = true; let mut c = x.clone(); c.extend(y.iter().cloned()); out.push(c); }
        }
        if !m && jt.left_outer() { let mut c = x.clone(); c.extend(nulls(rw)); out.push(c); }
    }
    if jt.right_outer() { for (j, y) in r.iter().enumerate() { if !rmatched[j] { let mut c = nulls(lw); c.extend(y.iter().cloned()); out.push(c); } } }
    Some(out)
}

fn exec_spec(c: &ExecCase) -> Option<Rows> {
    if c.lk.len() != c.rk.len() { return None; }
    let jt = if c.algo == Algo::GraceStatic { Jt::Inner } else { c.jt };
    join_spec(jt, c.lw, c.rw, &c.l, &c.r, &|x, y| keys_on(x, y, &c.lk, &c.rk))
}

/// SQL-equal keys of different representation somewhere (Int vs Float, +0.0 vs -0.0): the regime of finding class 1
fn exec_mixed_equal(c: &ExecCase) -> bool {
    for x in &c.l { for y in &c.r {
        if keys_on(x, y, &c.lk, &c.rk) == Some(true) && c.lk.iter().zip(c.rk.iter()).any(|(i, j)| x[*i] != y[*j]) { return true; }
    } }
    false
}

fn emit_exec(w: &mut CaseWriter, c: &ExecCase, root: &PathBuf, seq: &mut u64, stream: &str) {
    *seq += 1;
    let (out, spilled) = run_exec(c, root, *seq);
    if let Out::Bad(m) = &out { eprintln!("c17: unexpected value: {} on {}", m, c.line()); }
    let hl: Vec<String> = c.l.iter().map(|r| format!("({}, {})", coq_row(r), key_hash(r, &c.lk))).collect();
    let hr: Vec<String> = c.r.iter().map(|r| format!("({}, {})", coq_row(r), key_hash(r, &c.rk))).collect();
    let term = format!("Exec {} {} {} {} {} {} {} {}%nat {}%nat [{}] [{}] {}", c.algo.coq(), c.jt.coq(), c.n,
        match c.spill { Some(b) => format!("(Some {})", b), None => "None".into() }, cbool(c.swapped), coq_nats(&c.lk), coq_nats(&c.rk), c.lw, c.rw, hl.join("; "), hr.join("; "), out.coq());
    let spec = exec_spec(c);
    let dup_or_null = c.l.iter().chain(c.r.iter()).any(|r| r.iter().any(|v| v.is_null())) || {
        let mut s: Vec<String> = c.l.iter().map(|r| c.lk.iter().map(|i| r[*i].to_tok()).collect::<Vec<_>>().join(",")).collect();
        let n0 = s.len(); s.sort(); s.dedup(); s.len() < n0
    };
    let nontrivial = spec.as_ref().map(|s| !s.is_empty()).unwrap_or(false) && dup_or_null && !c.l.is_empty() && !c.r.is_empty();
    w.push(term, c.line(), nontrivial, &format!("{}:exec:{}:{}", stream, c.algo.tag(), c.jt.ch()));
    w.count(out.bucket(), 1);
    w.count(match c.algo { Algo::GraceDyn => if c.spill.is_some() { "algo:DynamicExecutor::GraceHashJoin(spill dir)" } else { "algo:DynamicExecutor::GraceHashJoin(in memory)" },
        Algo::GraceStatic => "algo:GraceHashJoinExecutor", Algo::NestedLoop => "algo:DynamicExecutor::NestedLoopJoin", Algo::Streaming => "algo:DynamicExecutor::StreamingHashJoin" }, 1);
    if spilled { w.count("spill:files_appeared", 1); } else if c.spill.is_some() { w.count("spill:stayed_in_memory", 1); }
    if spec.is_none() { w.count("spec:undefined", 1); }
    if exec_mixed_equal(c) { w.count("regime:equal_keys_of_different_representation", 1); }
    w.count(if c.algo != Algo::NestedLoop && exec_mixed_equal(c) { "class:1" } else { "class:0(none)" }, 1);
}

// ================================================================== sql cases
/// SELECT sel FROM tabs[0] j1 tabs[1] ON on1 j2 tabs[2] ON on2 .. WHERE whr.  Column references are
/// positional over the concatenation of the tables' columns (ON of join k sees tables 0..=k).
#[derive(Clone, Debug, PartialEq)]
struct Query { tabs: Vec<Table>, joins: Vec<(Jt, Option<Expr>)>, whr: Option<Expr>, sel: Option<Vec<usize>>, qual: bool, idx: Vec<Idx> }

/// a secondary index: (table number, UNIQUE?, columns of that table)
type Idx = (usize, bool, Vec<usize>);
fn idx_sql(n: usize, x: &Idx) -> String {
    let cols: Vec<String> = x.2.iter().map(|j| tcol(x.0, *j)).collect();
    format!("CREATE {}INDEX ix{}_{} ON {} ({})", if x.1 { "UNIQUE " } else { "" }, x.0, n, TNAMES[x.0], cols.join(", "))
}
fn idxs_line(v: &[Idx]) -> String {
    if v.is_empty() { return "-".into(); }
    v.iter().map(|x| format!("{}{}{}", x.0, if x.1 { 'u' } else { 'n' }, x.2.iter().map(|c| c.to_string()).collect::<Vec<_>>().join("."))).collect::<Vec<_>>().join(";")
}
fn parse_idxs(s: &str) -> Option<Vec<Idx>> {
    if s == "-" { return Some(vec![]); }
    let mut out = vec![];
    for x in s.split(';') {
        let t: usize = x.get(0..1)?.parse().ok()?;
        let u = match x.get(1..2)? { "u" => true, "n" => false, _ => return None };
        let cols: Option<Vec<usize>> = x.get(2..)?.split('.').map(|c| c.parse().ok()).collect();
        out.push((t, u, cols?));
    }
    Some(out)
}
fn idx_coq(v: &[Idx]) -> String {
    format!("[{}]", v.iter().map(|x| format!("({}%nat, {}, {})", x.0, cbool(x.1), coq_nats(&x.2))).collect::<Vec<_>>().join("; "))
}

const TNAMES: [&str; 4] = ["ta", "tb", "tc", "td"];
fn tcol(t: usize, j: usize) -> String { format!("{}{}", (b'a' + t as u8) as char, j) }

fn table_line(t: &Table) -> String {
    let cols: String = t.cols.iter().map(|c| c.ch()).collect();
    let rs: Vec<String> = t.rows.iter().map(|r| r.iter().map(|v| v.to_tok()).collect::<Vec<_>>().join(",")).collect();
    format!("{}:{}", cols, if rs.is_empty() { "-".to_string() } else { rs.join(";") })
}
fn parse_table(k: usize, s: &str) -> Option<Table> {
    let (cols, rows) = s.split_once(':')?;
    Table::from_line(TNAMES.get(k)?, cols, rows)
}

impl Query {
    fn widths(&self) -> Vec<usize> { self.tabs.iter().map(|t| t.cols.len()).collect() }
    fn names(&self) -> Vec<String> {
        let mut v = vec![];
        for (k, t) in self.tabs.iter().enumerate() { for j in 0..t.cols.len() { v.push(if self.qual { format!("{}.{}", TNAMES[k], tcol(k, j)) } else { tcol(k, j) }); } }
        v
    }
    fn total_width(&self) -> usize { self.widths().iter().sum() }
    fn create_sql(&self, k: usize) -> String {
        let t = &self.tabs[k];
        let cols: Vec<String> = t.cols.iter().enumerate().map(|(j, ty)| format!("{} {}", tcol(k, j), ty.sql())).collect();
        format!("CREATE TABLE {} ({})", TNAMES[k], cols.join(", "))
    }
    fn insert_sql(&self, k: usize, r: usize) -> String {
        let t = &self.tabs[k];
        let names: Vec<String> = (0..t.cols.len()).map(|j| tcol(k, j)).collect();
        let vals: Vec<String> = t.rows[r].iter().map(|v| v.to_sql()).collect();
        format!("INSERT INTO {} ({}) VALUES ({})", TNAMES[k], names.join(", "), vals.join(", "))
    }
    fn to_sql(&self) -> String {
        let names = self.names();
        let sel = match &self.sel { None => "*".to_string(), Some(s) => s.iter().map(|i| names[*i].clone()).collect::<Vec<_>>().join(", ") };
        let mut s = format!("SELECT {} FROM {}", sel, TNAMES[0]);
        for (k, (jt, on)) in self.joins.iter().enumerate() {
            if *jt == Jt::Comma { s.push_str(&format!(", {}", TNAMES[k + 1])); }
            else {
                s.push_str(&format!(" {} {}", jt.sql(), TNAMES[k + 1]));
                if let Some(e) = on { s.push_str(&format!(" ON {}", expr_sql(e, &names))); }
            }
        }
        if let Some(e) = &self.whr { s.push_str(&format!(" WHERE {}", expr_sql(e, &names))); }
        s
    }
    fn line(&self) -> String {
        let t: Vec<String> = self.tabs.iter().map(table_line).collect();
        let j: Vec<String> = self.joins.iter().map(|(jt, on)| format!("{} {}", jt.ch(), on.as_ref().map(|e| e.to_line()).unwrap_or("-".into()))).collect();
        let base = format!("sql | t={} | j={} | w={} | s={} | q={}", t.join("&"), j.join(";"), self.whr.as_ref().map(|e| e.to_line()).unwrap_or("-".into()),
                match &self.sel { None => "*".to_string(), Some(s) => idx_line(s) }, self.qual as u8);
        if self.idx.is_empty() { base } else { format!("{} | x={}", base, idxs_line(&self.idx)) }
    }
    fn parse(l: &str) -> Option<Query> {
        let l = l.split(" #").next().unwrap_or(l).trim();
        let mut it = l.split(" | ");
        if it.next()? != "sql" { return None; }
        let t = it.next()?.strip_prefix("t=")?;
        let j = it.next()?.strip_prefix("j=")?;
        let w = it.next()?.strip_prefix("w=")?;
        let s = it.next()?.strip_prefix("s=")?;
        let q = it.next()?.strip_prefix("q=")?;
        let idx = match it.next() { Some(x) => parse_idxs(x.strip_prefix("x=")?)?, None => vec![] };
        let tabs: Option<Vec<Table>> = t.split('&').enumerate().map(|(k, x)| parse_table(k, x)).collect();
        let tabs = tabs?;
        let mut joins = vec![];
        for x in j.split(';') {
            let (c, e) = x.split_once(' ')?;
            let jt = Jt::from_ch(c.chars().next()?)?;
            joins.push((jt, if e == "-" { None } else { Some(Expr::from_line(e)?) }));
        }
        if joins.len() + 1 != tabs.len() || tabs.len() > 4 { return None; }
        Some(Query { tabs, joins, whr: if w == "-" { None } else { Some(Expr::from_line(w)?) }, sel: if s == "*" { None } else { Some(parse_idx(s)?) }, qual: q == "1", idx })
    }
    fn coq(&self) -> String {
        let t: Vec<String> = self.tabs.iter().map(|t| format!("({}%nat, {})", t.cols.len(), t.to_coq())).collect();
        let j: Vec<String> = self.joins.iter().map(|(jt, on)| format!("({}, {})", jt.coq(), copt(on.as_ref().map(|e| e.to_coq())))).collect();
        format!("(mkq [{}] [{}] {} {})", t.join("; "), j.join("; "), copt(self.whr.as_ref().map(|e| e.to_coq())),
                match &self.sel { None => "None".to_string(), Some(s) => format!("(Some {})", coq_nats(s)) })
    }
}

/// SQL text of an expression with the given column names (fully parenthesised)
fn expr_sql(e: &Expr, names: &[String]) -> String {
    let f = |x: &Expr| expr_sql(x, names);
    match e {
        Expr::Col(i) => names.get(*i).cloned().unwrap_or_else(|| format!("nocol{}", i)),
        Expr::Lit(v) => v.to_sql(),
        Expr::Arith(op, a, b) => format!("({} {} {})", f(a), op.sql(), f(b)),
        Expr::Cmp(op, a, b) => format!("({} {} {})", f(a), op.sql(), f(b)),
        Expr::And(a, b) => format!("({} AND {})", f(a), f(b)),
        Expr::Or(a, b) => format!("({} OR {})", f(a), f(b)),
        Expr::Not(a) => format!("(NOT {})", f(a)),
        Expr::In(neg, a, l) => format!("({} {}IN ({}))", f(a), if *neg { "NOT " } else { "" }, l.iter().map(|x| f(x)).collect::<Vec<_>>().join(", ")),
        Expr::Between(neg, a, l, h) => format!("({} {}BETWEEN {} AND {})", f(a), if *neg { "NOT " } else { "" }, f(l), f(h)),
        Expr::Like(neg, a, p) => format!("({} {}LIKE {})", f(a), if *neg { "NOT " } else { "" }, f(p)),
        Expr::IsNull(neg, a) => format!("({} IS {}NULL)", f(a), if *neg { "NOT " } else { "" }),
    }
}

// ---- reference semantics of a query (Rust port of Model/JoinSpec.v; search mode and statistics only)
fn query_spec(q: &Query) -> Option<Rows> {
    let mut cur: Rows = q.tabs[0].rows.clone();
    let mut w = q.tabs[0].cols.len();
    for (k, (jt, on)) in q.joins.iter().enumerate() {
        let t = &q.tabs[k + 1];
        let rw = t.cols.len();
        let f = |x: &[Val], y: &[Val]| -> Option<bool> {
            match on { None => Some(true), Some(e) => { let mut c = x.to_vec(); c.extend(y.iter().cloned()); sem3(e, &c).map(|t| t == Tv::T) } }
        };
        cur = join_spec(*jt, w, rw, &cur, &t.rows, &f)?;
        w += rw;
    }
    let mut out = vec![];
    for r in cur {
        let keep = match &q.whr { None => true, Some(e) => sem3(e, &r)? == Tv::T };
        if keep { out.push(match &q.sel { None => r, Some(s) => s.iter().map(|i| r[*i].clone()).collect() }); }
    }
    Some(out)
}

struct Sut { db: Option<Database>, dir: PathBuf, seq: u64, loaded: Option<(Vec<Table>, Vec<Idx>)> }

fn same_value(v: &Val, o: &OwnedValue) -> bool {
    match (v, o) {
        (Val::Null, OwnedValue::Null) => true,
        (Val::Int(a), OwnedValue::Int(b)) => a == b,
        (Val::Float(a), OwnedValue::Float(b)) => *a == b.to_bits(),
        (Val::Text(a), OwnedValue::Text(b)) => a.as_slice() == b.as_bytes(),
        _ => false,
    }
}

impl Sut {
    fn new() -> Sut { Sut { db: None, dir: scratch_root(), seq: 0, loaded: None } }
    fn close(&mut self) { self.db = None; self.loaded = None; }
    fn cleanup(&mut self) { self.close(); let _ = std::fs::remove_dir_all(&self.dir); }
    /// fresh database holding exactly the tables of `q`; checks that the stored rows read back identically
    fn load(&mut self, q: &Query) -> Result<(), String> {
        self.close();
        self.seq += 1;
        let _ = std::fs::remove_dir_all(self.dir.join("db"));
        std::fs::create_dir_all(&self.dir).map_err(|e| format!("mkdir: {}", e))?;
        let path = self.dir.join("db").join(format!("d{}", self.seq));
        std::fs::create_dir_all(self.dir.join("db")).map_err(|e| format!("mkdir: {}", e))?;
        let q2 = q.clone();
        let res = catch(std::panic::AssertUnwindSafe(move || -> Result<Database, String> {
            let db = Database::create(&path).map_err(|e| format!("create: {:#}", e))?;
            for k in 0..q2.tabs.len() {
                db.execute(&q2.create_sql(k)).map_err(|e| format!("ddl: {:#}", e))?;
                for (n, x) in q2.idx.iter().enumerate() { if x.0 == k && n % 2 == 0 { db.execute(&idx_sql(n, x)).map_err(|e| format!("index: {:#}", e))?; } }
                for r in 0..q2.tabs[k].rows.len() { db.execute(&q2.insert_sql(k, r)).map_err(|e| format!("insert: {:#}", e))?; }
                for (n, x) in q2.idx.iter().enumerate() { if x.0 == k && n % 2 == 1 { db.execute(&idx_sql(n, x)).map_err(|e| format!("index: {:#}", e))?; } }
                let back = db.query(&format!("SELECT * FROM {}", TNAMES[k])).map_err(|e| format!("readback: {:#}", e))?;
                if back.len() != q2.tabs[k].rows.len() { return Err(format!("readback: {} rows, expected {}", back.len(), q2.tabs[k].rows.len())); }
                for (row, got) in q2.tabs[k].rows.iter().zip(back.iter()) {
                    if row.len() != got.values.len() || !row.iter().zip(got.values.iter()).all(|(v, o)| same_value(v, o)) {
                        return Err(format!("readback: stored row differs: {:?} vs {:?}", row, got.values));
                    }
                }
            }
            Ok(db)
        }));
        match res {
            Caught::Done(Ok(db)) => { self.db = Some(db); self.loaded = Some((q.tabs.clone(), q.idx.clone())); Ok(()) }
            Caught::Done(Err(e)) => Err(e),
            Caught::Panicked(m) => Err(format!("panic during setup: {}", m)),
        }
    }
    fn ensure(&mut self, q: &Query) -> Result<(), String> {
        if self.db.is_some() && self.loaded.as_ref().map(|l| l.0 == q.tabs && l.1 == q.idx).unwrap_or(false) { Ok(()) } else { self.load(q) }
    }
    /// the query under one join memory budget
    fn run(&mut self, q: &Query, budget: usize) -> Out {
        if let Err(m) = self.ensure(q) { return Out::Bad(format!("setup: {}", m)); }
        let db = self.db.as_ref().expect("db");
        let sql = q.to_sql();
        let r = catch(std::panic::AssertUnwindSafe(|| -> Result<Vec<turdb::Row>, String> {
            db.execute(&format!("PRAGMA join_memory_budget = {}", budget)).map_err(|e| format!("pragma: {:#}", e))?;
            db.query(&sql).map_err(|e| format!("{:#}", e))
        }));
        match r {
            Caught::Panicked(m) => { self.close(); Out::Panic(m) }
            Caught::Done(Err(m)) => Out::Err(m),
            Caught::Done(Ok(rows)) => {
                let mut out = vec![];
                for r in &rows {
                    let vs: Option<Vec<Val>> = r.values.iter().map(from_owned).collect();
                    match vs { Some(v) => out.push(v), None => return Out::Bad(format!("{:?}", r.values)) }
                }
                Out::Rows(out)
            }
        }
    }
    fn run_all(&mut self, q: &Query) -> Vec<Out> { BUDGETS.iter().map(|b| self.run(q, *b)).collect() }
}

fn on_shape(e: &Option<Expr>, lw: usize) -> &'static str {
    fn conj<'a>(e: &'a Expr, out: &mut Vec<&'a Expr>) { if let Expr::And(a, b) = e { conj(a, out); conj(b, out); } else { out.push(e); } }
    match e {
        None => "none",
        Some(e) => {
            let mut c = vec![];
            conj(e, &mut c);
            let is_key = |x: &Expr| matches!(x, Expr::Cmp(CmpOp::Eq, a, b) if matches!((&**a, &**b), (Expr::Col(i), Expr::Col(j)) if (*i < lw) != (*j < lw)));
            let nk = c.iter().filter(|x| is_key(x)).count();
            if nk == c.len() { if nk == 1 { "equi" } else { "equi_multi" } } else if nk > 0 { "equi_plus_residual" } else { "non_equi" }
        }
    }
}

fn emit_sql(w: &mut CaseWriter, sut: &mut Sut, q: &Query, stream: &str) {
    let outs = sut.run_all(q);
    for o in &outs { if let Out::Bad(m) = o { eprintln!("c17: unexpected result: {} on {}", m, q.line()); } }
    let all_same = outs.iter().all(|o| *o == outs[0]);
    let shown: Vec<String> = if all_same { vec![outs[0].coq()] } else { outs.iter().map(|o| o.coq()).collect() };
    let term = format!("Sql {} {} {} {} [{}]", q.coq(), cbool(q.qual), idx_coq(&q.idx), cbool(all_same), shown.join("; "));
    let spec = query_spec(q);
    let has_null_or_dup = q.tabs.iter().any(|t| t.rows.iter().any(|r| r.iter().any(|v| v.is_null()))) || q.tabs.iter().any(|t| {
        (1..t.cols.len()).any(|c| { let mut vs: Vec<String> = t.rows.iter().map(|r| r[c].to_tok()).collect(); let n0 = vs.len(); vs.sort(); vs.dedup(); vs.len() < n0 })
    });
    let nontrivial = spec.as_ref().map(|s| !s.is_empty()).unwrap_or(false) && has_null_or_dup && q.tabs.iter().all(|t| !t.rows.is_empty());
    let jts: String = q.joins.iter().map(|(j, _)| j.ch()).collect();
    w.push(term, q.line(), nontrivial, &format!("{}:sql:{}way:{}", stream, q.tabs.len(), jts));
    w.count(outs[0].bucket(), 1);
    w.count(if all_same { "budgets:4_identical_results" } else { "budgets:results_differ" }, 1);
    let mut lw = q.tabs[0].cols.len();
    for (k, (_, on)) in q.joins.iter().enumerate() { w.count(&format!("on:{}", on_shape(on, lw)), 1); lw += q.tabs[k + 1].cols.len(); }
    // which execution path of Database::query the plan leads to (by the shape of ON, see Model/JoinHw.v)
    for x in &q.idx { w.count(&format!("index:{}{}", if x.1 { "unique" } else { "non_unique" }, if x.2.len() > 1 { "_composite" } else { "_single" }), 1); }
    if inl_plan(q).is_some() {
        w.count("path:database.rs index nested loop join (IndexNestedLoopJoin plan)", 1);
        let (_, rc) = inl_plan(q).unwrap();
        let x = q.idx.iter().find(|x| x.0 == 1 && x.2.first() == Some(&rc)).unwrap();
        w.count(&format!("inl_index:{}{}", if x.1 { "unique" } else { "non_unique" }, if x.2.len() > 1 { "_composite" } else { "_single" }), 1);
        let dup = { let mut v: Vec<String> = q.tabs[1].rows.iter().map(|r| r[rc].to_tok()).filter(|t| t != "N").collect(); let n0 = v.len(); v.sort(); v.dedup(); v.len() < n0 };
        if dup { w.count("inl:duplicate_inner_keys", 1); }
    } else if q.tabs.len() == 2 {
        let on = if q.joins[0].0.has_on() { q.joins[0].1.clone() } else { None };
        let sh = on_shape(&on, q.tabs[0].cols.len());
        w.count(if sh == "equi" || sh == "equi_multi" || sh == "equi_plus_residual" { "path:database.rs hash path (StreamingHashJoin / GraceHashJoin plan)" } else { "path:database.rs nested loop (NestedLoopJoin plan)" }, 1);
    } else { w.count("path:database.rs execute_nested_join_recursive / execute_hash_join_recursive (3+ tables)", 1); }
    w.count(if q.whr.is_some() { "where:yes" } else { "where:no" }, 1);
    w.count(if q.sel.is_some() { "select:column_list" } else { "select:star" }, 1);
    if spec.is_none() { w.count("spec:undefined", 1); }
    let k = rough_class_sql(q);
    w.count(&if k == 0 { "class:0(none)".to_string() } else { format!("class:{}", k) }, 1);
    w.count(if q.qual { "names:table_qualified" } else { "names:bare" }, 1);
    if let (Some(s), Out::Rows(r)) = (&spec, &outs[0]) { w.count(if bag_eq(s, r) { "oracle:equal_to_reference" } else { "oracle:differs_from_reference" }, 1); }
}

// ================================================================== generators
const KEY_INTS: [i64; 5] = [1, 2, 3, 0, -1];
const KEY_FLOATS: [f64; 6] = [1.0, 2.0, 0.0, -0.0, 2.5, 3.0];
const KEY_TEXTS: [&str; 4] = ["a", "b", "", "ab"];

fn gen_cell(rng: &mut Rng, ty: ColTy, null_pct: u64, mixed: bool) -> Val {
    if rng.below(100) < null_pct { return Val::Null; }
    let ty = if mixed && rng.chance(1, 3) { *rng.pick(&[ColTy::Int, ColTy::Float]) } else { ty };
    match ty {
        ColTy::Int => Val::Int(if rng.chance(1, 10) { rng.range(-5, 9) } else { *rng.pick(&KEY_INTS) }),
        ColTy::Float => Val::float(if rng.chance(1, 10) { rng.range(-8, 12) as f64 / 2.0 } else { *rng.pick(&KEY_FLOATS) }),
        ColTy::Text => Val::text(*rng.pick(&KEY_TEXTS)),
    }
}

/// rows for the executor cases: the column types are not declared anywhere, so a column may hold any mix
fn gen_exec_rows(rng: &mut Rng, w: usize, tys: &[ColTy], max_rows: usize, null_pct: u64, mixed: bool) -> Rows {
    let n = match rng.below(12) { 0 => 0, 1 => 1, _ => 1 + rng.below(max_rows as u64) as usize };
    (0..n).map(|_| (0..w).map(|c| gen_cell(rng, tys[c], null_pct, mixed)).collect()).collect()
}

fn gen_exec_case(rng: &mut Rng, thorough: bool) -> ExecCase {
    let algo = match rng.below(10) { 0..=4 => Algo::GraceDyn, 5 => Algo::GraceStatic, 6 | 7 => Algo::NestedLoop, _ => Algo::Streaming };
    let jt = *rng.pick(&[Jt::Inner, Jt::Left, Jt::Right, Jt::Full, Jt::Inner, Jt::Full]);
    let lw = 1 + rng.below(3) as usize;
    let rw = 1 + rng.below(3) as usize;
    let nk = if rng.chance(1, 5) { 2 } else { 1 };
    let mixed = rng.chance(1, 6);
    // key column types: same type on both sides unless `mixed`
    let mut ltys: Vec<ColTy> = (0..lw).map(|_| *rng.pick(&[ColTy::Int, ColTy::Int, ColTy::Float, ColTy::Text])).collect();
    let mut rtys: Vec<ColTy> = (0..rw).map(|_| *rng.pick(&[ColTy::Int, ColTy::Int, ColTy::Float, ColTy::Text])).collect();
    let mut lk = vec![];
    let mut rk = vec![];
    for _ in 0..nk {
        let i = rng.below(lw as u64) as usize;
        let j = rng.below(rw as u64) as usize;
        if lk.contains(&i) || rk.contains(&j) { continue; }
        let ty = if rng.chance(1, 8) { ColTy::Float } else if rng.chance(1, 6) { ColTy::Text } else { ColTy::Int };
        ltys[i] = ty;
        rtys[j] = if mixed && rng.chance(1, 2) { *rng.pick(&[ColTy::Int, ColTy::Float]) } else { ty };
        lk.push(i);
        rk.push(j);
    }
    let null_pct = *rng.pick(&[0, 15, 30]);
    let max_rows = if thorough { 9 } else { 7 };
    let l = gen_exec_rows(rng, lw, &ltys, max_rows, null_pct, mixed);
    let r = gen_exec_rows(rng, rw, &rtys, max_rows, null_pct, mixed);
    let n = *rng.pick(&[1usize, 2, 3, 4, 7, 16, 16]);
    let spill = if algo == Algo::GraceDyn && rng.chance(3, 5) { Some(*rng.pick(&[0usize, 16, 64, 256, 1024, 4096, 65536, 10 * 1024 * 1024])) } else { None };
    let swapped = algo == Algo::Streaming && rng.chance(1, 2);
    let jt = if swapped { Jt::Inner } else { jt };
    ExecCase { algo, jt, n, spill, lk, rk, lw, rw, l, r, swapped }
}

/// the structured executor stream: one fixed pair of inputs with duplicate and NULL keys under every algorithm,
/// join type, partition count and budget
fn structured_exec() -> Vec<ExecCase> {
    let i = |x: i64| Val::Int(x);
    let l: Rows = vec![vec![i(1), i(1)], vec![i(2), i(1)], vec![i(3), Val::Null], vec![i(4), i(5)], vec![i(5), i(2)], vec![i(6), i(2)]];
    let r: Rows = vec![vec![i(1), i(10)], vec![Val::Null, i(20)], vec![i(7), i(30)], vec![i(1), i(40)], vec![i(2), i(50)]];
    let mut v = vec![];
    for jt in [Jt::Inner, Jt::Left, Jt::Right, Jt::Full] {
        for n in [1usize, 2, 3, 16] {
            for spill in [None, Some(0usize), Some(64), Some(1024), Some(4096), Some(65536), Some(10 * 1024 * 1024)] {
                v.push(ExecCase { algo: Algo::GraceDyn, jt, n, spill, lk: vec![1], rk: vec![0], lw: 2, rw: 2, l: l.clone(), r: r.clone(), swapped: false });
            }
        }
        v.push(ExecCase { algo: Algo::NestedLoop, jt, n: 1, spill: None, lk: vec![1], rk: vec![0], lw: 2, rw: 2, l: l.clone(), r: r.clone(), swapped: false });
        for sw in [false, true] { if sw && jt != Jt::Inner { continue; } v.push(ExecCase { algo: Algo::Streaming, jt, n: 1, spill: None, lk: vec![1], rk: vec![0], lw: 2, rw: 2, l: l.clone(), r: r.clone(), swapped: sw }); }
    }
    for (algo, spill) in [(Algo::GraceDyn, None), (Algo::GraceDyn, Some(1024usize)), (Algo::GraceStatic, None)] {
        // num_partitions = 0: remainder by zero / empty partition vector
        v.push(ExecCase { algo, jt: Jt::Inner, n: 0, spill, lk: vec![1], rk: vec![0], lw: 2, rw: 2, l: l.clone(), r: r.clone(), swapped: false });
    }
    for n in [1usize, 4, 16] { v.push(ExecCase { algo: Algo::GraceStatic, jt: Jt::Inner, n, spill: None, lk: vec![1], rk: vec![0], lw: 2, rw: 2, l: l.clone(), r: r.clone(), swapped: false }); }
    v
}

/// larger inputs with few distinct keys under the budgets of the property: forces real spill files
fn gen_bulk_exec(rng: &mut Rng) -> ExecCase {
    let nl = 20 + rng.below(40) as usize;
    let nr = 20 + rng.below(40) as usize;
    let dom = 12 + rng.below(30) as i64;
    let text_key = rng.chance(1, 4);
    let key = |rng: &mut Rng| -> Val {
        if rng.chance(1, 10) { Val::Null } else { let k = rng.range(0, dom); if text_key { Val::text(&format!("key-{:03}", k)) } else { Val::Int(k) } }
    };
    let l: Rows = (0..nl).map(|i| vec![Val::Int(i as i64), key(rng), Val::text(&"x".repeat(rng.below(40) as usize))]).collect();
    let r: Rows = (0..nr).map(|i| vec![key(rng), Val::Int(1000 + i as i64)]).collect();
    ExecCase { algo: Algo::GraceDyn, jt: *rng.pick(&[Jt::Inner, Jt::Left, Jt::Right, Jt::Full]), n: *rng.pick(&[4usize, 16, 16]),
               spill: Some(*rng.pick(&BUDGETS)), lk: vec![1], rk: vec![0], lw: 3, rw: 2, l, r, swapped: false }
}

#[derive(Clone, Copy, PartialEq, Debug)]
enum Profile { Clean, Any }

fn gen_sql_table(rng: &mut Rng, k: usize, null_pct: u64, float_keys: bool, max_rows: usize) -> Table {
    let ncols = 2 + rng.below(2) as usize;
    let mut cols = vec![];
    for j in 0..ncols {
        cols.push(if j == 0 { ColTy::Int } else if float_keys && j == 1 { ColTy::Float } else { *rng.pick(&[ColTy::Int, ColTy::Int, ColTy::Int, ColTy::Float, ColTy::Text]) });
    }
    let nrows = match rng.below(14) { 0 => 0, 1 => 1, _ => 1 + rng.below(max_rows as u64) as usize };
    let mut rows = vec![];
    for r in 0..nrows {
        let mut row = vec![Val::Int(r as i64 + 1)];     // column 0: row identity (so that rows of one table are distinct)
        for c in 1..ncols { row.push(gen_cell(rng, cols[c], null_pct, false)); }
        rows.push(row);
    }
    Table { name: TNAMES[k].to_string(), cols, rows }
}

fn cols_of_type(q_tabs: &[Table], upto: usize, ty: ColTy, only_table: Option<usize>) -> Vec<usize> {
    let mut v = vec![];
    let mut off = 0;
    for (k, t) in q_tabs.iter().enumerate() {
        if k > upto { break; }
        for j in 1..t.cols.len() { if t.cols[j] == ty && only_table.map(|o| o == k).unwrap_or(true) { v.push(off + j); } }
        off += t.cols.len();
    }
    v
}

fn lit_for(rng: &mut Rng, ty: ColTy) -> Expr { Expr::Lit(gen_cell(rng, ty, 0, false)) }

/// one simple predicate over the columns of tables 0..=upto (comparison with a literal or between columns of one type, IS [NOT] NULL)
fn gen_simple_pred(rng: &mut Rng, tabs: &[Table], upto: usize, only_table: Option<usize>) -> Expr {
    let ty = *rng.pick(&[ColTy::Int, ColTy::Int, ColTy::Int, ColTy::Float, ColTy::Text]);
    let cs = cols_of_type(tabs, upto, ty, only_table);
    let ci = cols_of_type(tabs, upto, ColTy::Int, only_table);
    if cs.is_empty() {
        if ci.is_empty() { return Expr::cmp(CmpOp::Eq, Expr::int(1), Expr::int(1)); }
        return Expr::cmp(*rng.pick(&CmpOp::all()), Expr::Col(*rng.pick(&ci)), lit_for(rng, ColTy::Int));
    }
    let a = Expr::Col(*rng.pick(&cs));
    match rng.below(10) {
        0..=4 => Expr::cmp(*rng.pick(&CmpOp::all()), a, lit_for(rng, ty)),
        5 | 6 => Expr::cmp(*rng.pick(&CmpOp::all()), a, Expr::Col(*rng.pick(&cs))),
        7 => Expr::is_null(false, a),
        8 => Expr::is_null(true, a),
        _ => if ty == ColTy::Int && !ci.is_empty() { Expr::cmp(*rng.pick(&CmpOp::all()), Expr::Arith(ArithOp::Add, Box::new(a), Box::new(Expr::Col(*rng.pick(&ci)))), Expr::int(rng.range(0, 6))) } else { Expr::is_null(false, a) },
    }
}

/// an equality between a column of the new table `k` and a column of the same type of an earlier table
fn gen_key_eq(rng: &mut Rng, tabs: &[Table], k: usize, allow_mixed: bool) -> Option<Expr> {
    let ty = *rng.pick(&[ColTy::Int, ColTy::Int, ColTy::Int, ColTy::Float, ColTy::Text]);
    let all_cols = |t: usize, ty: ColTy| -> Vec<usize> {
        let off: usize = tabs[..t].iter().map(|x| x.cols.len()).sum();
        (0..tabs[t].cols.len()).filter(|j| tabs[t].cols[*j] == ty).map(|j| off + j).collect()
    };
    let mut right = all_cols(k, ty);
    let lty = if allow_mixed && ty != ColTy::Text && rng.chance(1, 4) { if ty == ColTy::Int { ColTy::Float } else { ColTy::Int } } else { ty };
    let mut left: Vec<usize> = (0..k).flat_map(|t| all_cols(t, lty)).collect();
    if left.is_empty() || right.is_empty() { right = all_cols(k, ColTy::Int); left = (0..k).flat_map(|t| all_cols(t, ColTy::Int)).collect(); }
    // prefer the non-identity columns (duplicate and NULL keys)
    if left.len() > 1 && rng.chance(3, 4) { let o: Vec<usize> = left.iter().copied().filter(|c| !(0..k).any(|t| *c == tabs[..t].iter().map(|x| x.cols.len()).sum::<usize>())).collect(); if !o.is_empty() { left = o; } }
    if right.len() > 1 && rng.chance(3, 4) { let off: usize = tabs[..k].iter().map(|x| x.cols.len()).sum(); right.retain(|c| *c != off); }
    if left.is_empty() || right.is_empty() { return None; }
    let (a, b) = (Expr::Col(*rng.pick(&left)), Expr::Col(*rng.pick(&right)));
    Some(if rng.chance(1, 3) { Expr::cmp(CmpOp::Eq, b, a) } else { Expr::cmp(CmpOp::Eq, a, b) })
}

fn gen_on(rng: &mut Rng, tabs: &[Table], k: usize, p: Profile) -> Expr {
    let key = gen_key_eq(rng, tabs, k, true);
    let nonequi = |rng: &mut Rng| {
        // a comparison between a column of the new table and an earlier one
        let ty = *rng.pick(&[ColTy::Int, ColTy::Int, ColTy::Float]);
        let right = cols_of_type(tabs, k, ty, Some(k));
        let left: Vec<usize> = (0..k).flat_map(|t| cols_of_type(tabs, k, ty, Some(t))).collect();
        if left.is_empty() || right.is_empty() { gen_simple_pred(rng, tabs, k, None) }
        else { Expr::cmp(*rng.pick(&[CmpOp::Lt, CmpOp::Le, CmpOp::Gt, CmpOp::Ge, CmpOp::Ne]), Expr::Col(*rng.pick(&left)), Expr::Col(*rng.pick(&right))) }
    };
    match (p, rng.below(100)) {
        (Profile::Clean, 0..=54) | (Profile::Any, 0..=29) => key.unwrap_or_else(|| nonequi(rng)),
        (Profile::Clean, 55..=84) | (Profile::Any, 30..=44) => nonequi(rng),
        (Profile::Clean, _) => {
            // OR of a key equality and something else: no top-level key, evaluated as a whole
            let a = key.unwrap_or_else(|| nonequi(rng));
            Expr::or(a, gen_simple_pred(rng, tabs, k, None))
        }
        (Profile::Any, 45..=69) => {
            // key AND residual (finding class: the residual is dropped)
            let a = key.unwrap_or_else(|| nonequi(rng));
            let b = if rng.chance(1, 2) { nonequi(rng) } else { gen_simple_pred(rng, tabs, k, None) };
            if rng.chance(1, 2) { Expr::and(a, b) } else { Expr::and(b, a) }
        }
        (Profile::Any, 70..=72) => {
            // an equality between two columns of the same side (the planner takes it for a join key)
            let ci = cols_of_type(tabs, k, ColTy::Int, Some(if rng.chance(1, 2) { k } else { 0 }));
            let same = if ci.len() >= 2 { Expr::cmp(CmpOp::Eq, Expr::Col(ci[0]), Expr::Col(ci[1])) } else { nonequi(rng) };
            if rng.chance(1, 2) { same } else { Expr::and(key.unwrap_or_else(|| nonequi(rng)), same) }
        }
        (Profile::Any, 73..=79) => {
            // two keys
            let a = key.unwrap_or_else(|| nonequi(rng));
            let b = gen_key_eq(rng, tabs, k, false).unwrap_or_else(|| nonequi(rng));
            Expr::and(a, b)
        }
        (Profile::Any, 80..=89) => { let a = key.unwrap_or_else(|| nonequi(rng)); Expr::or(a, gen_simple_pred(rng, tabs, k, None)) }
        (Profile::Any, _) => gen_simple_pred(rng, tabs, k, None),
    }
}

fn gen_tables(rng: &mut Rng, p: Profile, thorough: bool) -> Vec<Table> {
    let ntabs = match (p, rng.below(10)) { (Profile::Clean, 0..=7) => 2, (Profile::Clean, _) => 3, (Profile::Any, 0..=4) => 2, (Profile::Any, 5..=7) => 3, _ => 4 };
    let null_pct = *rng.pick(&[0u64, 15, 25, 40]);
    let float_keys = rng.chance(1, 6);
    let max_rows = if ntabs > 2 { 4 } else if thorough { 7 } else { 6 };
    (0..ntabs).map(|k| gen_sql_table(rng, k, null_pct, float_keys, max_rows)).collect()
}

fn gen_query(rng: &mut Rng, p: Profile, tabs: &[Table], idx: &[Idx]) -> Query {
    let tabs: Vec<Table> = tabs.to_vec();
    let ntabs = tabs.len();
    let mut joins = vec![];
    let all_comma = rng.chance(1, 12);
    for k in 1..ntabs {
        let jt = if all_comma { Jt::Comma } else {
            match p {
                // multi-way joins are only right for CROSS chains and non-equi inner chains (finding classes 6, 7)
                Profile::Clean if ntabs > 2 => *rng.pick(&[Jt::Cross, Jt::Inner]),
                _ => *rng.pick(&[Jt::Inner, Jt::Inner, Jt::Left, Jt::Left, Jt::Right, Jt::Full, Jt::Cross]),
            }
        };
        let on = if jt.has_on() {
            if p == Profile::Clean && ntabs > 2 {
                // non-equi condition only
                let ty = ColTy::Int;
                let right = cols_of_type(&tabs, k, ty, Some(k));
                let left: Vec<usize> = (0..k).flat_map(|t| cols_of_type(&tabs, k, ty, Some(t))).collect();
                if left.is_empty() || right.is_empty() { Some(Expr::cmp(CmpOp::Le, Expr::Col(0), Expr::Col(tabs[..k].iter().map(|t| t.cols.len()).sum()))) }
                else { Some(Expr::cmp(*rng.pick(&[CmpOp::Lt, CmpOp::Le, CmpOp::Gt, CmpOp::Ge, CmpOp::Ne]), Expr::Col(*rng.pick(&left)), Expr::Col(*rng.pick(&right)))) }
            } else { Some(gen_on(rng, &tabs, k, p)) }
        } else { None };
        joins.push((jt, on));
    }
    let outer = joins.iter().any(|(j, _)| j.left_outer() || j.right_outer());
    let want_where = match p { Profile::Clean => !outer && rng.chance(2, 5), Profile::Any => rng.chance(2, 5) };
    let whr = if want_where {
        let a = gen_simple_pred(rng, &tabs, ntabs - 1, None);
        Some(if rng.chance(1, 4) { Expr::and(a, gen_simple_pred(rng, &tabs, ntabs - 1, None)) } else if rng.chance(1, 6) { Expr::or(a, gen_simple_pred(rng, &tabs, ntabs - 1, None)) } else { a })
    } else { None };
    let total: usize = tabs.iter().map(|t| t.cols.len()).sum();
    let sel = if p == Profile::Any && rng.chance(1, 10) { None } else {
        if rng.chance(1, 2) { Some((0..total).collect()) } else {
            // the identity columns of every table plus a random subset, in random order
            let mut s: Vec<usize> = vec![];
            let mut off = 0;
            for t in &tabs { s.push(off); off += t.cols.len(); }
            for c in 0..total { if !s.contains(&c) && rng.chance(1, 2) { s.push(c); } }
            for i in (1..s.len()).rev() { let j = rng.below(i as u64 + 1) as usize; s.swap(i, j); }
            Some(s)
        }
    };
    let mut joins = joins;
    let mut whr = whr;
    if !idx.is_empty() && ntabs == 2 && rng.chance(3, 5) {
        // aim at the index: a single equality on a column of one of the indexes (mostly its leading column)
        let x = rng.pick(idx).clone();
        let rc = if rng.chance(3, 4) { x.2[0] } else { *rng.pick(&x.2) };
        let rty = tabs[1].cols[rc];
        let lw = tabs[0].cols.len();
        let want = if p == Profile::Any && rty != ColTy::Text && rng.chance(1, 3) { if rty == ColTy::Int { ColTy::Float } else { ColTy::Int } } else { rty };
        let mut lcs: Vec<usize> = (0..lw).filter(|j| tabs[0].cols[*j] == want).collect();
        if lcs.len() > 1 && rng.chance(3, 4) { lcs.retain(|j| *j != 0); }
        if let Some(lc) = lcs.get(rng.below(lcs.len().max(1) as u64) as usize).copied() {
            let (a, b) = (Expr::Col(lc), Expr::Col(lw + rc));
            let on = if rng.chance(1, 3) { Expr::cmp(CmpOp::Eq, b, a) } else { Expr::cmp(CmpOp::Eq, a, b) };
            let jt = match p { Profile::Clean => *rng.pick(&[Jt::Inner, Jt::Left, Jt::Left]), Profile::Any => *rng.pick(&[Jt::Inner, Jt::Left, Jt::Right, Jt::Right, Jt::Full]) };
            joins = vec![(jt, Some(on))];
            if p == Profile::Clean || rng.chance(1, 2) { whr = None; }
        }
    }
    let mut q = Query { tabs, joins, whr, sel, qual: false, idx: idx.to_vec() };
    if p == Profile::Clean && inl_plan(&q).is_some() {
        // keep the clean profile outside the finding classes of the index nested loop path
        q.whr = None;
        if q.joins[0].0 == Jt::Right { q.joins[0].0 = Jt::Left; }
    }
    q.qual = rng.chance(1, 2) && !(p == Profile::Clean && q.whr.is_some()) && !(!idx.is_empty() && q.whr.is_some());
    q
}

/// the structured SQL stream: one fixed pair of tables with duplicate and NULL keys under every join type and
/// a set of ON / WHERE shapes
fn structured_sql() -> Vec<Query> {
    let i = |x: i64| Val::Int(x);
    let ta = Table { name: "ta".into(), cols: vec![ColTy::Int, ColTy::Int, ColTy::Int], rows: vec![
        vec![i(1), i(1), i(10)], vec![i(2), i(1), i(20)], vec![i(3), Val::Null, i(30)], vec![i(4), i(5), i(40)], vec![i(5), i(2), Val::Null]] };
    let tb = Table { name: "tb".into(), cols: vec![ColTy::Int, ColTy::Int, ColTy::Int], rows: vec![
        vec![i(1), i(1), i(100)], vec![i(2), Val::Null, i(200)], vec![i(3), i(7), i(300)], vec![i(4), i(1), i(400)], vec![i(5), i(2), i(10)]] };
    let tc = Table { name: "tc".into(), cols: vec![ColTy::Int, ColTy::Int], rows: vec![vec![i(1), i(1)], vec![i(2), i(7)], vec![i(3), Val::Null]] };
    let c = Expr::col;
    let eq = |a: usize, b: usize| Expr::cmp(CmpOp::Eq, c(a), c(b));
    let mut v = vec![];
    let sel2 = Some(vec![0, 1, 2, 3, 4, 5]);
    for jt in [Jt::Inner, Jt::Left, Jt::Right, Jt::Full] {
        for on in [eq(1, 4), eq(4, 1), Expr::cmp(CmpOp::Lt, c(1), c(4)), Expr::cmp(CmpOp::Ne, c(2), c(5)), Expr::or(eq(1, 4), Expr::is_null(false, c(1))),
                   Expr::and(eq(1, 4), Expr::cmp(CmpOp::Lt, c(2), c(5))), Expr::and(eq(1, 4), eq(2, 5)), Expr::cmp(CmpOp::Eq, Expr::int(1), Expr::int(1))] {
            v.push(Query { tabs: vec![ta.clone(), tb.clone()], joins: vec![(jt, Some(on.clone()))], whr: None, sel: sel2.clone(), qual: true, idx: vec![] });
        }
        v.push(Query { tabs: vec![ta.clone(), tb.clone()], joins: vec![(jt, Some(eq(1, 4)))], whr: Some(Expr::cmp(CmpOp::Gt, c(5), Expr::int(50))), sel: Some(vec![0, 3]), qual: false, idx: vec![] });
        v.push(Query { tabs: vec![ta.clone(), tb.clone()], joins: vec![(jt, Some(eq(1, 4)))], whr: Some(Expr::is_null(false, c(3))), sel: Some(vec![3, 0]), qual: false, idx: vec![] });
        v.push(Query { tabs: vec![ta.clone(), tb.clone()], joins: vec![(jt, Some(eq(1, 4)))], whr: None, sel: None, qual: false, idx: vec![] });
        v.push(Query { tabs: vec![ta.clone(), tb.clone(), tc.clone()], joins: vec![(jt, Some(eq(1, 4))), (jt, Some(eq(4, 7)))], whr: None, sel: Some(vec![0, 3, 6]), qual: true, idx: vec![] });
        v.push(Query { tabs: vec![ta.clone(), tb.clone(), tc.clone()], joins: vec![(jt, Some(Expr::cmp(CmpOp::Lt, c(1), c(4)))), (jt, Some(Expr::cmp(CmpOp::Le, c(4), c(7))))], whr: None, sel: Some(vec![0, 3, 6]), qual: true, idx: vec![] });
    }
    // the index nested loop join: every index shape on tb (duplicate key 1, a NULL key), join column leading or not
    for idx in [vec![(1usize, false, vec![1usize])], vec![(1, true, vec![1, 0])], vec![(1, false, vec![1, 2])], vec![(1, true, vec![0, 1])],
                vec![(1, true, vec![0])], vec![(1, true, vec![0]), (1, true, vec![1, 0])]] {
        for jt in [Jt::Inner, Jt::Left, Jt::Right, Jt::Full] {
            v.push(Query { tabs: vec![ta.clone(), tb.clone()], joins: vec![(jt, Some(eq(1, 4)))], whr: None, sel: Some(vec![0, 3]), qual: false, idx: idx.clone() });
            v.push(Query { tabs: vec![ta.clone(), tb.clone()], joins: vec![(jt, Some(eq(3, 1)))], whr: None, sel: Some(vec![3, 0, 5]), qual: true, idx: idx.clone() });
        }
        v.push(Query { tabs: vec![ta.clone(), tb.clone()], joins: vec![(Jt::Inner, Some(eq(1, 4)))], whr: Some(Expr::cmp(CmpOp::Gt, c(5), Expr::int(50))), sel: Some(vec![0, 3]), qual: false, idx: idx.clone() });
        v.push(Query { tabs: vec![ta.clone(), tb.clone()], joins: vec![(Jt::Left, Some(Expr::and(eq(1, 4), Expr::cmp(CmpOp::Lt, c(2), c(5)))))], whr: None, sel: sel2.clone(), qual: false, idx: idx.clone() });
    }
    for jt in [Jt::Cross, Jt::Comma] {
        v.push(Query { tabs: vec![ta.clone(), tb.clone()], joins: vec![(jt, None)], whr: None, sel: sel2.clone(), qual: false, idx: vec![] });
        v.push(Query { tabs: vec![ta.clone(), tb.clone()], joins: vec![(jt, None)], whr: Some(eq(1, 4)), sel: Some(vec![0, 3]), qual: false, idx: vec![] });
        v.push(Query { tabs: vec![ta.clone(), tb.clone()], joins: vec![(jt, None)], whr: Some(Expr::cmp(CmpOp::Lt, c(1), c(4))), sel: Some(vec![0, 3]), qual: true, idx: vec![] });
        v.push(Query { tabs: vec![ta.clone(), tb.clone(), tc.clone()], joins: vec![(jt, None), (jt, None)], whr: None, sel: Some(vec![0, 3, 6]), qual: false, idx: vec![] });
        v.push(Query { tabs: vec![ta.clone(), tb.clone(), tc.clone()], joins: vec![(jt, None), (jt, None)], whr: Some(Expr::and(eq(1, 4), eq(4, 7))), sel: Some(vec![0, 3, 6]), qual: false, idx: vec![] });
    }
    v
}

fn gen(a: &Args) {
    let mut w = CaseWriter::new(&a.out, "C17", "Corr.C17", 250);
    let mut sut = Sut::new();
    let root = scratch_root();
    let _ = std::fs::create_dir_all(&root);
    let mut seq = 0u64;
    if let Some(lines) = a.replay_lines() {
        for l in lines {
            if let Some(c) = ExecCase::parse(&l) { emit_exec(&mut w, &c, &root, &mut seq, "replay"); }
            else if let Some(q) = Query::parse(&l) { emit_sql(&mut w, &mut sut, &q, "replay"); }
            else { eprintln!("c17: cannot parse replay line: {}", l); }
        }
        sut.cleanup();
        w.finish(&[]);
        return;
    }
    let mut rng = Rng::new(a.seed);
    for c in structured_exec() { emit_exec(&mut w, &c, &root, &mut seq, "structured"); }
    let n_exec = if a.thorough() { 12_000 } else { 600 };
    for _ in 0..n_exec { let c = gen_exec_case(&mut rng, a.thorough()); emit_exec(&mut w, &c, &root, &mut seq, "random"); }
    for _ in 0..(if a.thorough() { 60 } else { 6 }) { let c = gen_bulk_exec(&mut rng); emit_exec(&mut w, &c, &root, &mut seq, "bulk"); }
    for q in structured_sql() { emit_sql(&mut w, &mut sut, &q, "structured"); }
    // four of five table sets are queried only outside every recorded finding class (profile `clean`)
    let (n_sets, per_set) = if a.thorough() { (600, 10) } else { (48, 7) };
    for k in 0..n_sets {
        let p = if k % 5 == 4 { Profile::Any } else { Profile::Clean };
        let tabs = gen_tables(&mut rng, p, a.thorough());
        let idx = gen_indexes(&mut rng, &tabs);
        for _ in 0..per_set {
            let q = gen_query(&mut rng, p, &tabs, &idx);
            emit_sql(&mut w, &mut sut, &q, if p == Profile::Clean { "clean" } else { "any" });
        }
    }
    sut.cleanup();
    let _ = std::fs::remove_dir_all(&root);
    w.finish(&[("budgets".to_string(), format!("{:?}", BUDGETS))]);
}

// ================================================================== search: oracle only
/// rough tag of the recorded finding classes (search mode only; the authoritative classification is
/// known_class in coq/Corr/C17.v)
/// (left column, right column relative to tb) when the planner runs the query as an index nested loop join
/// (src/sql/planner/convert.rs try_index_nested_loop_join; mirrors Model/JoinInl.v inl_plan)
fn inl_plan(q: &Query) -> Option<(usize, usize)> {
    if q.tabs.len() != 2 { return None; }
    let (jt, on) = &q.joins[0];
    if !matches!(jt, Jt::Inner | Jt::Left | Jt::Right) { return None; }
    let lw = q.tabs[0].cols.len();
    if let Some(Expr::Cmp(CmpOp::Eq, a, b)) = on {
        if let (Expr::Col(i), Expr::Col(j)) = (&**a, &**b) {
            let (lc, rc) = if *i < lw && *j >= lw { (*i, *j - lw) } else if *j < lw && *i >= lw { (*j, *i - lw) } else { return None };
            if q.idx.iter().any(|x| x.0 == 1 && x.2.first() == Some(&rc)) { return Some((lc, rc)); }
        }
    }
    None
}

/// secondary indexes on the inner table tb of a two-table set: single-column non-unique, single-column UNIQUE
/// (on the identity column), composite non-unique, composite UNIQUE with the join column first / second
fn gen_indexes(rng: &mut Rng, tabs: &[Table]) -> Vec<Idx> {
    if tabs.len() != 2 || !rng.chance(1, 2) { return vec![]; }
    let nc = tabs[1].cols.len();
    let mut out: Vec<Idx> = vec![];
    for _ in 0..(1 + rng.below(2)) {
        let c = 1 + rng.below(nc as u64 - 1) as usize;
        let c2 = { let mut d = 1 + rng.below(nc as u64 - 1) as usize; if d == c { d = 0; } d };
        let x: Idx = match rng.below(8) {
            0 | 1 => (1, false, vec![c]),
            2 => (1, true, vec![0]),
            3 => (1, false, vec![c, c2]),
            4 | 5 | 6 => (1, true, vec![c, 0]),
            _ => (1, true, vec![0, c]),
        };
        if !out.contains(&x) { out.push(x); }
    }
    out
}

fn rough_class_sql(q: &Query) -> u32 {
    if q.tabs.len() == 2 && matches!(q.joins[0].0, Jt::Inner | Jt::Left | Jt::Right) {
        let lw = q.tabs[0].cols.len();
        if let Some(Expr::Cmp(CmpOp::Eq, a, b)) = &q.joins[0].1 { if let (Expr::Col(i), Expr::Col(j)) = (&**a, &**b) {
            if *i >= lw && *j >= lw && q.idx.iter().any(|x| x.0 == 1 && x.2.first() == Some(&(*j - lw))) { return 16; }
        } }
    }
    if let Some((lc, rc)) = inl_plan(q) {
        if q.whr.is_some() { return 11; }
        if q.joins[0].0 == Jt::Right { return 12; }
        let x = q.idx.iter().find(|x| x.0 == 1 && x.2.first() == Some(&rc)).unwrap();
        if x.1 && q.tabs[1].rows.iter().any(|r| x.2.iter().any(|c| r[*c].is_null())) { return 15; }
        let (lt, rt) = (q.tabs[0].cols[lc], q.tabs[1].cols[rc]);
        if lt != rt { return 14; }
        return 0;
    }
    let lw0 = q.tabs[0].cols.len();
    let outer = |j: &Jt| j.left_outer() || j.right_outer();
    if q.tabs.len() == 2 { return 0; }       // two-table joins: every former class is repaired in /repo
    if q.whr.is_some() && q.qual { return 5; }
    let mut lw = lw0;
    for (k, (jt, on)) in q.joins.iter().enumerate() {
        let on = if jt.has_on() { on.clone() } else { None };
        let sh = on_shape(&on, lw);
        if sh != "none" && sh != "non_equi" { return 6; }
        // a same-side equality is an equi key for the planner as well
        if let Some(e) = &on { let mut found = false; e.walk(&mut |x| if let Expr::Cmp(CmpOp::Eq, a, b) = x { if matches!((&**a, &**b), (Expr::Col(_), Expr::Col(_))) { found = true; } }); if found && sh == "non_equi" { /* inside OR etc.: not a top-level key */ } }
        lw += q.tabs[k + 1].cols.len();
    }
    if q.joins[..q.joins.len() - 1].iter().any(|(j, _)| outer(j)) || q.joins[q.joins.len() - 1].0.right_outer() { return 7; }
    if q.joins.iter().any(|(j, _)| outer(j)) && q.whr.is_some() { return 4; }
    0
}

fn search(a: &Args) {
    let mut rng = Rng::new(a.seed ^ 0xC17_5EA7);
    let mut sut = Sut::new();
    let root = scratch_root();
    let _ = std::fs::create_dir_all(&root);
    let mut seq = 0u64;
    let mut fails: Vec<String> = vec![];
    let mut tried: u64 = 0;
    let budget = a.budget.min(30_000);
    let mut cur_tabs: Vec<Table> = vec![];
    let mut cur_idx: Vec<Idx> = vec![];
    while tried < budget {
        tried += 1;
        if tried % 2 == 0 {
            let c = gen_exec_case(&mut rng, true);
            let Some(spec) = exec_spec(&c) else { continue };
            seq += 1;
            let (out, _) = run_exec(&c, &root, seq);
            let ok = matches!(&out, Out::Rows(r) if bag_eq(r, &spec));
            if !ok && fails.len() < 80 { fails.push(format!("{} #k={}", c.line(), if exec_mixed_equal(&c) { 1 } else { 0 })); }
        } else {
            let p = if (tried / 16) % 2 == 0 { Profile::Clean } else { Profile::Any };
            if tried % 16 == 1 || cur_tabs.is_empty() { cur_tabs = gen_tables(&mut rng, p, true); cur_idx = gen_indexes(&mut rng, &cur_tabs); }
            let q = gen_query(&mut rng, p, &cur_tabs, &cur_idx);
            let Some(spec) = query_spec(&q) else { continue };
            let outs = sut.run_all(&q);
            let ok = outs.iter().all(|o| matches!(o, Out::Rows(r) if bag_eq(r, &spec)));
            if !ok {
                let k = rough_class_sql(&q);
                if fails.len() < 80 && (k == 0 || fails.iter().filter(|f| f.ends_with(&format!("#k={}", k))).count() < 6) { fails.push(format!("{} #k={}", q.line(), k)); }
            }
        }
    }
    sut.cleanup();
    let _ = std::fs::remove_dir_all(&root);
    fails.sort_by_key(|f| !f.ends_with("#k=0"));
    let mut out = format!("tried={}\n", tried);
    for f in &fails { out.push_str("FAIL "); out.push_str(f); out.push('\n'); }
    std::fs::write(&a.out, out).expect("write search output");
}

// ================================================================== debug helper
fn show(v: &OwnedValue) -> String {
    match v {
        OwnedValue::Null => "NULL".into(),
        OwnedValue::Int(i) => format!("{}", i),
        OwnedValue::Float(f) => format!("{:?}f", f),
        OwnedValue::Text(s) => format!("'{}'", s),
        OwnedValue::Bool(b) => format!("{}", b),
        o => format!("{:?}", o),
    }
}

fn sql_mode(a: &Args) {
    let file = a.rest.get(0).expect("file");
    let dir = scratch_root();
    let _ = std::fs::remove_dir_all(&dir);
    std::fs::create_dir_all(&dir).expect("mkdir");
    let db = Database::create(dir.join("db")).expect("create");
    for l in std::fs::read_to_string(file).unwrap().lines() {
        let l = l.trim();
        if l.is_empty() || l.starts_with('#') { continue; }
        if let Some(q) = Query::parse(l) {
            println!("{}\n   sql: {}\n   spec: {:?}", l, q.to_sql(), query_spec(&q).map(|r| sorted(&r)));
            let mut sut = Sut::new();
            sut.dir = dir.join("q");
            for o in sut.run_all(&q) { match o { Out::Rows(r) => println!("   got:  {:?}", sorted(&r)), o => println!("   got:  {:?}", o) } }
            sut.cleanup();
            continue;
        }
        if let Some(c) = ExecCase::parse(l) {
            let (o, sp) = run_exec(&c, &dir, 1);
            println!("{}\n   spec: {:?}\n   got:  {:?} spilled={}", l, exec_spec(&c).map(|r| sorted(&r)), match &o { Out::Rows(r) => format!("{:?}", sorted(r)), o => format!("{:?}", o) }, sp);
            continue;
        }
        let up = l.to_uppercase();
        if up.starts_with("SELECT") || up.starts_with("EXPLAIN") {
            let l2 = l.to_string();
            match catch(std::panic::AssertUnwindSafe(|| db.query(&l2))) {
                Caught::Done(Ok(rows)) => {
                    let s: Vec<String> = rows.iter().map(|r| format!("({})", r.values.iter().map(show).collect::<Vec<_>>().join(","))).collect();
                    println!("{}\n   => {}", l, s.join(" "));
                }
                Caught::Done(Err(e)) => println!("{}\n   => ERR {:#}", l, e),
                Caught::Panicked(m) => println!("{}\n   => PANIC {}", l, m),
            }
        } else if let Err(e) = db.execute(l) { println!("{}\n   => ERR {:#}", l, e) }
    }
    drop(db);
    let _ = std::fs::remove_dir_all(&dir);
}

/// debug: the physical plan of every `sql | ...` replay line (or SELECT over ta(a0,a1,a2 BIGINT), tb.., tc..) of FILE
fn plan_mode(a: &Args) {
    use turdb::records::types::DataType;
    use turdb::schema::{Catalog, ColumnDef};
    let file = a.rest.get(0).expect("file");
    for l in std::fs::read_to_string(file).unwrap().lines() {
        let l = l.trim();
        if l.is_empty() || l.starts_with('#') { continue; }
        let (sql, tabs): (String, Vec<Vec<ColTy>>) = match Query::parse(l) {
            Some(q) => (q.to_sql(), q.tabs.iter().map(|t| t.cols.clone()).collect()),
            None => (l.to_string(), vec![vec![ColTy::Int; 3]; 4]),
        };
        let r = catch(std::panic::AssertUnwindSafe(|| -> Result<String, String> {
            let mut c = Catalog::new();
            for (k, cols) in tabs.iter().enumerate() {
                let defs: Vec<ColumnDef> = cols.iter().enumerate().map(|(j, ty)| ColumnDef::new(tcol(k, j), match ty { ColTy::Int => DataType::Int8, ColTy::Float => DataType::Float8, ColTy::Text => DataType::Text })).collect();
                c.create_table("", TNAMES[k], defs).map_err(|e| format!("catalog: {:#}", e))?;
            }
            let arena = Default::default();
            let mut parser = turdb::sql::Parser::new(&sql, &arena);
            let stmt = parser.parse_statement().map_err(|e| format!("parse: {:#}", e))?;
            let planner = turdb::sql::planner::Planner::new(&c, &arena);
            let plan = planner.create_physical_plan(&stmt).map_err(|e| format!("plan: {:#}", e))?;
            Ok(plan.explain())
        }));
        match r { Caught::Done(Ok(s)) => println!("{}\n{}", sql, s), Caught::Done(Err(m)) => println!("{}\n   ERR {}", sql, m), Caught::Panicked(m) => println!("{}\n   PANIC {}", sql, m) }
    }
}
