(* C25 - HNSW search returns live, correctly ranked neighbours.  Property theorems only.
   Model: coq/Model/Hnsw.v (hand transcription of src/hnsw/{mod,search,operations}.rs, of the Active-slot
   check of storage.rs and of std::collections::BinaryHeap), coq/Model/Sq8.v; tied to the code by the
   correspondence run (coq/Corr/C25.v, harness/src/bin/c25.rs).
   A history is a list of calls (Ins / Del / Vac / Reopen / Search) made by a caller that keeps the table
   of live rows `tbl` (what the get_vector callbacks answer from); `run0 p ops` is the world (index state
   + table) after the history.  `clean p w0 ops`: no insert of the history failed half way (an insert
   fails only when it meets a deleted node).  `class_of` is 0 while no node has been deleted and no
   neighbour list is full, 1 once some node is deleted, 2 once the entry point is deleted, 3 when no node is
   deleted but some neighbour list has reached its capacity (open findings F-C25-4 / F-C25-2 / F-C25-5).
   Tree: /repo at 4d4f2e6 (F-C25-1 phantom results and F-C25-3 slot offsets repaired). *)
From Coq Require Import ZArith List Bool.
From TV Require Import Model.Hnsw Model.Sq8 Proof.HnswHeap Proof.HnswSearch Proof.HnswFuel Proof.HnswSound Proof.HnswAll Proof.HnswInv1 Proof.HnswComplete Proof.Sq8.
Import ListNotations.
Open Scope Z_scope.

(* ALL histories (deletes included), every query, k and search width: at most k results, in
   non-decreasing order of reported distance, and every result reported with a finite distance is a
   live row whose reported distance is its true squared distance to the query *)
Theorem search_sound_finite :
  forall p ops q k ef l, 0 <= k ->
    search p (getv_of (tbl (run0 p ops))) (ix (run0 p ops)) q k ef = SOk l ->
    Z.of_nat (length l) <= k /\ res_asc l /\
    (forall r z, In (r, Fin z) l -> exists v, a_get r (tbl (run0 p ops)) = Some v /\ z = dist2 q v).
Proof. exact search_sound_finite_l. Qed.

(* ALL histories: search returns a result list, or an error exactly for a query of the wrong dimension;
   the model's abort (entry point = NodeId::none()) and out-of-fuel outcomes are unreachable *)
Theorem search_total :
  forall p ops getv q k ef,
    match search p getv (ix (run0 p ops)) q k ef with
    | SOk _ => True
    | SErr => Z.of_nat (length q) <> dims p
    | SAbort | SFuel => False
    end.
Proof. exact search_total_l. Qed.

(* EVERY clean history (deleted nodes and a deleted entry point included) of a caller that never inserts a
   live row id twice: at most k results, pairwise distinct row ids, every one live and reported with its
   true distance, in non-decreasing order of that distance *)
Theorem search_sound :
  forall p ops q k ef,
    wf_ops p w0 ops = true -> clean p w0 ops = true -> 0 <= k ->
    match search p (getv_of (tbl (run0 p ops))) (ix (run0 p ops)) q k ef with
    | SOk l => Z.of_nat (length l) <= k /\ NoDup (map fst l) /\ res_asc l /\ live_true (tbl (run0 p ops)) q l
    | SErr => Z.of_nat (length q) <> dims p
    | SAbort | SFuel => False
    end.
Proof. exact search_sound_clean_l. Qed.

(* ... and at least one result whenever a live vector exists, as long as the entry point itself has not
   been deleted (k >= 1, search width >= 1) *)
Theorem search_nonempty :
  forall p ops q k ef l,
    wf_ops p w0 ops = true -> clean p w0 ops = true -> entry_dead (ix (run0 p ops)) = false ->
    tbl (run0 p ops) <> [] -> 1 <= k -> 1 <= ef ->
    search p (getv_of (tbl (run0 p ops))) (ix (run0 p ops)) q k ef = SOk l -> l <> [].
Proof. exact search_nonempty_clean_l. Qed.

(* liveness fails once an insert has failed half way (class 1, open finding F-C25-4): the insert after a
   delete selects the deleted node, returns Err, and leaves its own node linked: row 3, which the caller
   was told is not in the index, is reported with distance +inf *)
Theorem search_live_refuted :
  wf_ops wit_p w0 wit3 = true /\ class_of (ix (run0 wit_p wit3)) = 1 /\ clean wit_p w0 wit3 = false /\
  snd (step wit_p (run0 wit_p wit1) (Ins 3 [1;1] 0 false)) = OIns false /\
  search wit_p (getv_of (tbl (run0 wit_p wit3))) (ix (run0 wit_p wit3)) [0;0] 5 8 = SOk [(1, Fin 0); (3, Inf)] /\
  a_get 3 (tbl (run0 wit_p wit3)) = None.
Proof. exact search_live_refuted_l. Qed.

(* completeness on a small index fails with a deleted node even in a clean history (class 1, F-C25-4): the
   deleted node is a dead end, the live row 3 behind it is not found although 3 nodes <= width 64 *)
Theorem small_index_complete_refuted :
  wf_ops wit_p1 w0 wit4 = true /\ class_of (ix (run0 wit_p1 wit4)) = 1 /\ clean wit_p1 w0 wit4 = true /\
  length (nodes (ix (run0 wit_p1 wit4))) = 3%nat /\
  a_get 3 (tbl (run0 wit_p1 wit4)) = Some [6;0] /\
  search wit_p1 (getv_of (tbl (run0 wit_p1 wit4))) (ix (run0 wit_p1 wit4)) [0;0] 100 64 = SOk [(1, Fin 4)].
Proof. exact small_index_complete_refuted_l. Qed.

(* completeness on a small index also fails without any delete once neighbour lists are full (class 3,
   open finding F-C25-5): with m = 16 the 34th inserted node gets no back-link (all 33 others are full)
   and is never found, not even by a search for its own vector with width 64 *)
Theorem backlink_dropped_refuted :
  wf_ops wit_p5 w0 wit5 = true /\ class_of (ix (run0 wit_p5 wit5)) = 3 /\ clean wit_p5 w0 wit5 = true /\
  length (nodes (ix (run0 wit_p5 wit5))) = 34%nat /\
  a_get 34 (tbl (run0 wit_p5 wit5)) = Some [34;0] /\
  match search wit_p5 (getv_of (tbl (run0 wit_p5 wit5))) (ix (run0 wit_p5 wit5)) [34;0] 100 64 with
  | SOk l => length l = 33%nat /\ mem 34 (map fst l) = false
  | _ => False
  end.
Proof. exact backlink_dropped_refuted_l. Qed.

(* non-emptiness fails once the entry point is deleted (class 2, open finding F-C25-2): nothing is found
   although row 2 is live, also after vacuum and reopen, and the next insert fails *)
Theorem search_nonempty_refuted :
  wf_ops wit_p w0 wit2 = true /\ class_of (ix (run0 wit_p wit2)) = 2 /\ clean wit_p w0 wit2 = true /\
  a_get 2 (tbl (run0 wit_p wit2)) = Some [3;4] /\
  search wit_p (getv_of (tbl (run0 wit_p wit2))) (ix (run0 wit_p wit2)) [3;4] 2 4 = SOk [] /\
  snd (step wit_p (run0 wit_p wit2) (Ins 3 [1;1] 0 false)) = OIns false.
Proof. exact search_nonempty_refuted_l. Qed.

(* HISTORICAL (F-C25-1 as first recorded: a deleted node was reported as row id 0 with distance +inf;
   repaired by /repo 68d5b43): on the former witness the deleted node is dropped and the result is sound *)
Theorem phantom_result_fixed :
  wf_ops wit_p w0 wit1 = true /\ class_of (ix (run0 wit_p wit1)) = 1 /\ clean wit_p w0 wit1 = true /\
  search wit_p (getv_of (tbl (run0 wit_p wit1))) (ix (run0 wit_p wit1)) [0;0] 2 4 = SOk [(1, Fin 0)].
Proof. exact phantom_result_fixed_l. Qed.

(* class 0: an insert of a vector of the right dimension succeeds *)
Theorem insert_ok :
  forall p ops row v lvl blind,
    wf_ops p w0 (ops ++ [Ins row v lvl blind]) = true -> class_of (ix (run0 p ops)) = 0 ->
    Z.of_nat (length v) = dims p ->
    snd (step p (run0 p ops) (Ins row v lvl blind)) = OIns true.
Proof. exact insert_ok_l. Qed.

(* ALL histories: vacuum_batch changes nothing but its queue (it cannot read the nodes it should unlink) *)
Theorem vacuum_never_unlinks :
  forall p ops n,
    let s := ix (run0 p ops) in
    ix (run0 p (ops ++ [Vac n])) = St (nodes s) (entry s) (maxlvl s) (rowmap s) (skipn (Z.to_nat n) (vq s)).
Proof. exact vacuum_never_unlinks_l. Qed.

(* ALL histories: sync + reopen does not change the result of any search *)
Theorem reopen_id :
  forall p ops q k ef,
    search p (getv_of (tbl (run0 p (ops ++ [Reopen])))) (ix (run0 p (ops ++ [Reopen]))) q k ef =
    search p (getv_of (tbl (run0 p ops))) (ix (run0 p ops)) q k ef.
Proof. exact reopen_id_l. Qed.

(* PARTIAL (conditional on the explicit connectivity hypothesis Connected0: every node reaches every node
   along level-0 links): in a class-0 history whose index has at most min(ef, k) nodes, search returns
   every live row.  That insert preserves Connected0 is NOT proved (only sampled by the correspondence run) *)
Theorem small_index_complete_partial :
  forall p ops q k ef l,
    wf_ops p w0 ops = true -> class_of (ix (run0 p ops)) = 0 ->
    Connected0 (ix (run0 p ops)) ->
    Z.of_nat (length (nodes (ix (run0 p ops)))) <= ef ->
    Z.of_nat (length (nodes (ix (run0 p ops)))) <= k ->
    search p (getv_of (tbl (run0 p ops))) (ix (run0 p ops)) q k ef = SOk l ->
    forall r v, a_get r (tbl (run0 p ops)) = Some v -> In r (map fst l).
Proof. exact small_index_complete_partial_l. Qed.

(* ... whose hypotheses are met by a reachable state *)
Example connected_witness :
  let p := Pm 2 2 4 in let ops := [Ins 1 [0;0] 0 false; Ins 2 [3;4] 0 false] in
  wf_ops p w0 ops = true /\ class_of (ix (run0 p ops)) = 0 /\ Connected0 (ix (run0 p ops)) /\
  search p (getv_of (tbl (run0 p ops))) (ix (run0 p ops)) [3;3] 2 2 = SOk [(2, Fin 1); (1, Fin 18)].
Proof. exact connected_witness_l. Qed.

(* SQ8 over exact arithmetic (everything multiplied by 255): codes are bytes and every component decodes
   to within half a quantization step of the original: 2 * |255*decode - 255*v| <= 255*scale *)
Theorem sq8_error_bound :
  forall l v, In v l ->
    let mn := sq_min l in let R := sq_range l in let c := sq_code mn R v in
    0 <= c <= 255 /\ 0 <= R /\
    2 * Z.abs (sq_decode255 mn R c - 255 * v) <= sq_scale255 R.
Proof. exact sq8_error_bound_l. Qed.

(* non-vacuity: a well-formed clean class-0 history with ties, three levels and a reopen; its searches
   return several rows; clean histories with deleted nodes are wit1 / wit2 / wit4 above *)
Example c25_witness :
  let p := Pm 2 2 4 in
  let ops := [Ins 1 [0;0] 0 false; Ins 2 [3;4] 1 false; Ins 3 [1;1] 0 false; Ins 4 [1;1] 2 true; Vac 5; Reopen; Del 9] in
  wf_ops p w0 ops = true /\ clean p w0 ops = true /\ class_of (ix (run0 p ops)) = 0 /\ tbl (run0 p ops) <> [] /\
  search p (getv_of (tbl (run0 p ops))) (ix (run0 p ops)) [1;0] 3 8 = SOk [(3, Fin 1); (4, Fin 1); (1, Fin 1)] /\
  search p (getv_of (tbl (run0 p ops))) (ix (run0 p ops)) [1;0;0] 3 8 = SErr /\
  sq_encode [0; 10; 255; 510] = [0; 5; 128; 255].
Proof. vm_compute. repeat split. discriminate. Qed.

Check search_sound_finite :
  forall p ops q k ef l, 0 <= k ->
    search p (getv_of (tbl (run0 p ops))) (ix (run0 p ops)) q k ef = SOk l ->
    Z.of_nat (length l) <= k /\ res_asc l /\
    (forall r z, In (r, Fin z) l -> exists v, a_get r (tbl (run0 p ops)) = Some v /\ z = dist2 q v).
Check search_total :
  forall p ops getv q k ef,
    match search p getv (ix (run0 p ops)) q k ef with
    | SOk _ => True
    | SErr => Z.of_nat (length q) <> dims p
    | SAbort | SFuel => False
    end.
Check search_sound :
  forall p ops q k ef,
    wf_ops p w0 ops = true -> clean p w0 ops = true -> 0 <= k ->
    match search p (getv_of (tbl (run0 p ops))) (ix (run0 p ops)) q k ef with
    | SOk l => Z.of_nat (length l) <= k /\ NoDup (map fst l) /\ res_asc l /\ live_true (tbl (run0 p ops)) q l
    | SErr => Z.of_nat (length q) <> dims p
    | SAbort | SFuel => False
    end.
Check search_nonempty :
  forall p ops q k ef l,
    wf_ops p w0 ops = true -> clean p w0 ops = true -> entry_dead (ix (run0 p ops)) = false ->
    tbl (run0 p ops) <> [] -> 1 <= k -> 1 <= ef ->
    search p (getv_of (tbl (run0 p ops))) (ix (run0 p ops)) q k ef = SOk l -> l <> [].
Check search_live_refuted :
  wf_ops wit_p w0 wit3 = true /\ class_of (ix (run0 wit_p wit3)) = 1 /\ clean wit_p w0 wit3 = false /\
  snd (step wit_p (run0 wit_p wit1) (Ins 3 [1;1] 0 false)) = OIns false /\
  search wit_p (getv_of (tbl (run0 wit_p wit3))) (ix (run0 wit_p wit3)) [0;0] 5 8 = SOk [(1, Fin 0); (3, Inf)] /\
  a_get 3 (tbl (run0 wit_p wit3)) = None.
Check small_index_complete_refuted :
  wf_ops wit_p1 w0 wit4 = true /\ class_of (ix (run0 wit_p1 wit4)) = 1 /\ clean wit_p1 w0 wit4 = true /\
  length (nodes (ix (run0 wit_p1 wit4))) = 3%nat /\
  a_get 3 (tbl (run0 wit_p1 wit4)) = Some [6;0] /\
  search wit_p1 (getv_of (tbl (run0 wit_p1 wit4))) (ix (run0 wit_p1 wit4)) [0;0] 100 64 = SOk [(1, Fin 4)].
Check backlink_dropped_refuted :
  wf_ops wit_p5 w0 wit5 = true /\ class_of (ix (run0 wit_p5 wit5)) = 3 /\ clean wit_p5 w0 wit5 = true /\
  length (nodes (ix (run0 wit_p5 wit5))) = 34%nat /\
  a_get 34 (tbl (run0 wit_p5 wit5)) = Some [34;0] /\
  match search wit_p5 (getv_of (tbl (run0 wit_p5 wit5))) (ix (run0 wit_p5 wit5)) [34;0] 100 64 with
  | SOk l => length l = 33%nat /\ mem 34 (map fst l) = false
  | _ => False
  end.
Check search_nonempty_refuted :
  wf_ops wit_p w0 wit2 = true /\ class_of (ix (run0 wit_p wit2)) = 2 /\ clean wit_p w0 wit2 = true /\
  a_get 2 (tbl (run0 wit_p wit2)) = Some [3;4] /\
  search wit_p (getv_of (tbl (run0 wit_p wit2))) (ix (run0 wit_p wit2)) [3;4] 2 4 = SOk [] /\
  snd (step wit_p (run0 wit_p wit2) (Ins 3 [1;1] 0 false)) = OIns false.
Check phantom_result_fixed :
  wf_ops wit_p w0 wit1 = true /\ class_of (ix (run0 wit_p wit1)) = 1 /\ clean wit_p w0 wit1 = true /\
  search wit_p (getv_of (tbl (run0 wit_p wit1))) (ix (run0 wit_p wit1)) [0;0] 2 4 = SOk [(1, Fin 0)].
Check insert_ok :
  forall p ops row v lvl blind,
    wf_ops p w0 (ops ++ [Ins row v lvl blind]) = true -> class_of (ix (run0 p ops)) = 0 ->
    Z.of_nat (length v) = dims p ->
    snd (step p (run0 p ops) (Ins row v lvl blind)) = OIns true.
Check vacuum_never_unlinks :
  forall p ops n,
    let s := ix (run0 p ops) in
    ix (run0 p (ops ++ [Vac n])) = St (nodes s) (entry s) (maxlvl s) (rowmap s) (skipn (Z.to_nat n) (vq s)).
Check reopen_id :
  forall p ops q k ef,
    search p (getv_of (tbl (run0 p (ops ++ [Reopen])))) (ix (run0 p (ops ++ [Reopen]))) q k ef =
    search p (getv_of (tbl (run0 p ops))) (ix (run0 p ops)) q k ef.
Check small_index_complete_partial :
  forall p ops q k ef l,
    wf_ops p w0 ops = true -> class_of (ix (run0 p ops)) = 0 ->
    Connected0 (ix (run0 p ops)) ->
    Z.of_nat (length (nodes (ix (run0 p ops)))) <= ef ->
    Z.of_nat (length (nodes (ix (run0 p ops)))) <= k ->
    search p (getv_of (tbl (run0 p ops))) (ix (run0 p ops)) q k ef = SOk l ->
    forall r v, a_get r (tbl (run0 p ops)) = Some v -> In r (map fst l).
Check sq8_error_bound :
  forall l v, In v l ->
    let mn := sq_min l in let R := sq_range l in let c := sq_code mn R v in
    0 <= c <= 255 /\ 0 <= R /\
    2 * Z.abs (sq_decode255 mn R c - 255 * v) <= sq_scale255 R.

Print Assumptions search_sound_finite.
Print Assumptions search_total.
Print Assumptions search_sound.
Print Assumptions search_nonempty.
Print Assumptions search_live_refuted.
Print Assumptions small_index_complete_refuted.
Print Assumptions backlink_dropped_refuted.
Print Assumptions search_nonempty_refuted.
Print Assumptions phantom_result_fixed.
Print Assumptions insert_ok.
Print Assumptions vacuum_never_unlinks.
Print Assumptions reopen_id.
Print Assumptions small_index_complete_partial.
Print Assumptions sq8_error_bound.
