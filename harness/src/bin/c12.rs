//! C12 AUTO_INCREMENT: histories of INSERTs (with / without explicit ids, mixed in one statement,
//! failing statements), DELETEs, BEGIN/COMMIT/ROLLBACK and close+reopen cycles are run through
//! the real `Database` (SQL API); for every INSERT the ids it produced (RETURNING id, or the rows
//! it left behind when it failed) are printed for coq/Corr/C12.v to judge.
//!
//! replay line:   pk=<0|1> wal=<0|1> [w=<16|32|64>] ops=<op> <op> ...      (w: id column SMALLINT / INTEGER / BIGINT, default 64)
//!   I:r,r,...   INSERT INTO t (id, v) VALUES ... RETURNING id      r = n (NULL id) | <int> (explicit id), suffix ! = v NULL (violates NOT NULL)
//!   O:k         INSERT INTO t (v) VALUES ... (k rows, id column absent) RETURNING id
//!   T:r,r,...   Database::insert_batch("t", rows)                  (bulk-load API; r = n | <int>)
//!   P:r,r,...   one PreparedStatement `INSERT INTO t VALUES (?, ?)` executed once per r (the first
//!               execution runs execute_insert_internal, the later ones insert_cached)
//!   D:x         DELETE FROM t WHERE id = x          DA   DELETE FROM t
//!   B / C / R   BEGIN / COMMIT / ROLLBACK           X    close the database and open it again
use tvh::*;
use turdb::{Database, OwnedValue};
use turdb::database::ExecuteResult;

#[derive(Clone, Debug)]
enum Op {
    Ins(Vec<(Option<i64>, bool)>), // (explicit id or NULL, row is valid)
    InsAbsent(usize),
    Batch(Vec<Option<i64>>),
    Prep(Vec<Option<i64>>),
    Del(i64),
    DelAll,
    Begin,
    Commit,
    Rollback,
    Reopen,
}

#[derive(Clone, Debug)]
struct Hist { pk: bool, wal: bool, w: u8, ops: Vec<Op> }

fn wrap(w: u8, v: i64) -> i64 { match w { 16 => v as i16 as i64, 32 => v as i32 as i64, _ => v } }

fn parse_hist(l: &str) -> Option<Hist> {
    let mut pk = true;
    let mut wal = false;
    let mut w = 64u8;
    let mut ops = vec![];
    let (head, opstr) = match l.find("ops=") { Some(i) => (&l[..i], &l[i + 4..]), None => return None };
    for t in head.split_whitespace() {
        if let Some(v) = t.strip_prefix("pk=") { pk = v == "1"; }
        if let Some(v) = t.strip_prefix("wal=") { wal = v == "1"; }
        if let Some(v) = t.strip_prefix("w=") { w = match v { "16" => 16, "32" => 32, _ => 64 }; }
    }
    for t in opstr.split_whitespace() {
        if t.starts_with("class=") || t.starts_with("regime=") { continue; }
        let op = if let Some(r) = t.strip_prefix("I:") {
            let mut rows = vec![];
            for x in r.split(',') {
                let (x, valid) = match x.strip_suffix('!') { Some(y) => (y, false), None => (x, true) };
                if x == "n" { rows.push((None, valid)); } else { rows.push((Some(x.parse::<i64>().ok()?), valid)); }
            }
            Op::Ins(rows)
        } else if let Some(r) = t.strip_prefix("O:") { Op::InsAbsent(r.parse().ok()?) }
        else if t.starts_with("T:") || t.starts_with("P:") {
            let mut rows = vec![];
            for x in t[2..].split(',') { if x == "n" { rows.push(None); } else { rows.push(Some(x.parse::<i64>().ok()?)); } }
            if t.starts_with("T:") { Op::Batch(rows) } else { Op::Prep(rows) }
        }
        else if t == "DA" { Op::DelAll }
        else if let Some(r) = t.strip_prefix("D:") { Op::Del(r.parse().ok()?) }
        else if t == "B" { Op::Begin } else if t == "C" { Op::Commit } else if t == "R" { Op::Rollback }
        else if t == "X" { Op::Reopen } else { return None };
        ops.push(op);
    }
    Some(Hist { pk, wal, w, ops })
}

fn show_hist(h: &Hist) -> String {
    let mut s = format!("pk={} wal={} w={} ops=", h.pk as u8, h.wal as u8, h.w);
    for (i, op) in h.ops.iter().enumerate() {
        if i > 0 { s.push(' '); }
        match op {
            Op::Ins(rows) => {
                s.push_str("I:");
                for (j, (id, valid)) in rows.iter().enumerate() {
                    if j > 0 { s.push(','); }
                    match id { None => s.push('n'), Some(v) => s.push_str(&v.to_string()) }
                    if !valid { s.push('!'); }
                }
            }
            Op::InsAbsent(k) => s.push_str(&format!("O:{}", k)),
            Op::Batch(rows) | Op::Prep(rows) => {
                s.push_str(if matches!(op, Op::Batch(_)) { "T:" } else { "P:" });
                for (j, id) in rows.iter().enumerate() {
                    if j > 0 { s.push(','); }
                    match id { None => s.push('n'), Some(v) => s.push_str(&v.to_string()) }
                }
            }
            Op::Del(x) => s.push_str(&format!("D:{}", x)),
            Op::DelAll => s.push_str("DA"),
            Op::Begin => s.push('B'), Op::Commit => s.push('C'), Op::Rollback => s.push('R'), Op::Reopen => s.push('X'),
        }
    }
    s
}

/// what one operation showed
#[derive(Clone, Debug)]
enum Obs {
    InsOk(Vec<i64>, Vec<i64>), // RETURNING id, one per row; the ids of those rows found in the table afterwards
    InsErr(Vec<i64>, String), // statement failed; ids of the rows of this statement that are in the table afterwards (row order)
    BatchOk(Vec<Option<i64>>),          // insert_batch returned Ok; id (or NULL) found in the table per row
    BatchErr(Vec<Option<i64>>, String), // insert_batch returned Err; ids of the rows of this call in the table afterwards
    Prep(Vec<Option<Option<i64>>>),     // per execution: None = Err, Some(id or NULL) = Ok and the id found in the table
    Other(bool),              // ok?
    Weird(String),            // something the case language cannot express (panic, non-integer id, ...)
}

fn open_session(path: &std::path::Path, create: bool, wal: bool) -> Result<Database, String> {
    let db = if create { Database::create(path) } else { Database::open(path) }.map_err(|e| format!("{:#}", e))?;
    if wal { db.execute("PRAGMA wal=ON").map_err(|e| format!("{:#}", e))?; }
    Ok(db)
}

fn int_of(v: &OwnedValue) -> Option<i64> { if let OwnedValue::Int(i) = v { Some(*i) } else { None } }

/// run a history on the real implementation
fn run_hist(h: &Hist, dir: &std::path::Path) -> Vec<Obs> {
    let _ = std::fs::remove_dir_all(dir);
    let path = dir.join("db");
    let mut obs = vec![];
    let mut db = match open_session(&path, true, h.wal) { Ok(d) => Some(d), Err(e) => { obs.push(Obs::Weird(e)); return obs; } };
    let ty = match h.w { 16 => "SMALLINT", 32 => "INTEGER", _ => "BIGINT" };
    let ddl = if h.pk { format!("CREATE TABLE t (id {} PRIMARY KEY AUTO_INCREMENT, v BIGINT NOT NULL)", ty) }
              else { format!("CREATE TABLE t (id {} AUTO_INCREMENT, v BIGINT NOT NULL)", ty) };
    if let Err(e) = db.as_ref().unwrap().execute(&ddl) { obs.push(Obs::Weird(format!("ddl: {:#}", e))); return obs; }
    for (si, op) in h.ops.iter().enumerate() {
        let d = match db.as_ref() { Some(d) => d, None => { obs.push(Obs::Weird("no database".into())); continue; } };
        let tag0 = (si as i64 + 1) * 1000;
        let o = match op {
            Op::Ins(_) | Op::InsAbsent(_) => {
                let (sql, nrows) = match op {
                    Op::Ins(rows) => {
                        let mut s = String::from("INSERT INTO t (id, v) VALUES ");
                        for (j, (id, valid)) in rows.iter().enumerate() {
                            if j > 0 { s.push_str(", "); }
                            let ids = match id { None => "NULL".to_string(), Some(v) => v.to_string() };
                            let vs = if *valid { (tag0 + j as i64).to_string() } else { "NULL".to_string() };
                            s.push_str(&format!("({}, {})", ids, vs));
                        }
                        s.push_str(" RETURNING id");
                        (s, rows.len())
                    }
                    Op::InsAbsent(k) => {
                        let mut s = String::from("INSERT INTO t (v) VALUES ");
                        for j in 0..*k { if j > 0 { s.push_str(", "); } s.push_str(&format!("({})", tag0 + j as i64)); }
                        s.push_str(" RETURNING id");
                        (s, *k)
                    }
                    _ => unreachable!(),
                };
                let r = catch(std::panic::AssertUnwindSafe(|| d.execute(&sql)));
                match r {
                    Caught::Panicked(m) => Obs::Weird(format!("panic: {}", m)),
                    Caught::Done(Ok(ExecuteResult::Insert { returned: Some(rows), .. })) => {
                        let ids: Vec<Option<i64>> = rows.iter().map(|r| r.values.get(0).and_then(int_of)).collect();
                        if ids.iter().any(|x| x.is_none()) || ids.len() != nrows { Obs::Weird("non-integer id returned / wrong number of rows returned".into()) }
                        else {
                            match rows_by_tag(d, tag0, nrows) {
                                Ok(st) if st.len() == nrows && st.iter().all(|x| x.is_some()) =>
                                    Obs::InsOk(ids.into_iter().map(|x| x.unwrap()).collect(), st.into_iter().map(|x| x.unwrap()).collect()),
                                Ok(_) => Obs::Weird("rows of a successful INSERT not all found in the table / NULL id".into()),
                                Err(e) => Obs::Weird(e),
                            }
                        }
                    }
                    Caught::Done(Ok(_)) => Obs::Weird("INSERT .. RETURNING gave no rows".into()),
                    Caught::Done(Err(e)) => {
                        // which rows of this statement are in the table now?
                        let q = format!("SELECT id, v FROM t WHERE v >= {} AND v < {}", tag0, tag0 + nrows as i64);
                        match catch(std::panic::AssertUnwindSafe(|| d.query(&q))) {
                            Caught::Done(Ok(rows)) => {
                                let mut left: Vec<(i64, Option<i64>)> = rows.iter().filter_map(|r| {
                                    let v = r.values.get(1).and_then(int_of)?;
                                    Some((v, r.values.get(0).and_then(int_of)))
                                }).collect();
                                left.sort();
                                if left.iter().any(|(_, id)| id.is_none()) { Obs::Weird("non-integer id left behind".into()) }
                                else if left.iter().enumerate().any(|(k, (v, _))| *v != tag0 + k as i64) { Obs::Weird("rows left behind are not a prefix of the statement".into()) }
                                else { Obs::InsErr(left.into_iter().map(|(_, id)| id.unwrap()).collect(), format!("{:#}", e)) }
                            }
                            Caught::Done(Err(e2)) => Obs::Weird(format!("select after failed insert: {:#}", e2)),
                            Caught::Panicked(m) => Obs::Weird(format!("panic in select: {}", m)),
                        }
                    }
                }
            }
            Op::Batch(rows) => {
                let vals: Vec<Vec<OwnedValue>> = rows.iter().enumerate().map(|(j, id)| vec![
                    match id { None => OwnedValue::Null, Some(v) => OwnedValue::Int(*v) }, OwnedValue::Int(tag0 + j as i64)]).collect();
                let r = catch(std::panic::AssertUnwindSafe(|| d.insert_batch("t", &vals)));
                let found = rows_by_tag(d, tag0, rows.len());
                match (r, found) {
                    (Caught::Panicked(m), _) => Obs::Weird(format!("panic: {}", m)),
                    (_, Err(e)) => Obs::Weird(e),
                    (Caught::Done(Ok(_)), Ok(f)) => if f.len() == rows.len() { Obs::BatchOk(f) } else { Obs::Weird("insert_batch Ok but rows missing".into()) },
                    (Caught::Done(Err(e)), Ok(f)) => Obs::BatchErr(f, format!("{:#}", e)),
                }
            }
            Op::Prep(rows) => {
                match catch(std::panic::AssertUnwindSafe(|| d.prepare("INSERT INTO t VALUES (?, ?)"))) {
                    Caught::Panicked(m) => Obs::Weird(format!("panic in prepare: {}", m)),
                    Caught::Done(Err(e)) => Obs::Weird(format!("prepare: {:#}", e)),
                    Caught::Done(Ok(stmt)) => {
                        let mut outs = vec![];
                        let mut weird = None;
                        for (j, id) in rows.iter().enumerate() {
                            let idv = match id { None => OwnedValue::Null, Some(v) => OwnedValue::Int(*v) };
                            let tag = tag0 + j as i64;
                            let r = catch(std::panic::AssertUnwindSafe(|| stmt.bind(idv).bind(OwnedValue::Int(tag)).execute(d)));
                            let found = rows_by_tag(d, tag, 1);
                            match (r, found) {
                                (Caught::Panicked(m), _) => { weird = Some(format!("panic: {}", m)); break; }
                                (_, Err(e)) => { weird = Some(e); break; }
                                (Caught::Done(Ok(_)), Ok(f)) => if f.len() == 1 { outs.push(Some(f[0])); } else { weird = Some("prepared INSERT Ok but row missing".into()); break; },
                                (Caught::Done(Err(_)), Ok(f)) => if f.is_empty() { outs.push(None); } else { weird = Some("prepared INSERT Err but row present".into()); break; },
                            }
                        }
                        match weird { Some(m) => Obs::Weird(m), None => Obs::Prep(outs) }
                    }
                }
            }
            Op::Del(_) | Op::DelAll | Op::Begin | Op::Commit | Op::Rollback => {
                let sql = match op {
                    Op::Del(x) => format!("DELETE FROM t WHERE id = {}", x),
                    Op::DelAll => "DELETE FROM t".to_string(),
                    Op::Begin => "BEGIN".to_string(), Op::Commit => "COMMIT".to_string(), _ => "ROLLBACK".to_string(),
                };
                match catch(std::panic::AssertUnwindSafe(|| d.execute(&sql))) {
                    Caught::Done(r) => Obs::Other(r.is_ok()),
                    Caught::Panicked(m) => Obs::Weird(format!("panic: {}", m)),
                }
            }
            Op::Reopen => {
                let old = db.take().unwrap();
                let c = catch(std::panic::AssertUnwindSafe(|| { let r = old.close().is_ok(); drop(old); r }));
                match c {
                    Caught::Panicked(m) => Obs::Weird(format!("panic in close: {}", m)),
                    Caught::Done(_) => match open_session(&path, false, h.wal) {
                        Ok(nd) => { db = Some(nd); Obs::Other(true) }
                        Err(e) => Obs::Weird(format!("reopen: {}", e)),
                    },
                }
            }
        };
        obs.push(o);
    }
    drop(db);
    let _ = std::fs::remove_dir_all(dir);
    obs
}

/// ids (or NULL) of the rows tagged tag0 .. tag0+n-1 that are in the table, in tag order; must be a prefix
fn rows_by_tag(d: &Database, tag0: i64, n: usize) -> Result<Vec<Option<i64>>, String> {
    let q = format!("SELECT id, v FROM t WHERE v >= {} AND v < {}", tag0, tag0 + n as i64);
    match catch(std::panic::AssertUnwindSafe(|| d.query(&q))) {
        Caught::Done(Ok(rows)) => {
            let mut left: Vec<(i64, Option<i64>, bool)> = vec![];
            for r in rows.iter() {
                let v = match r.values.get(1).and_then(int_of) { Some(v) => v, None => return Err("non-integer tag".into()) };
                match r.values.get(0) {
                    Some(OwnedValue::Int(i)) => left.push((v, Some(*i), true)),
                    Some(OwnedValue::Null) => left.push((v, None, true)),
                    _ => return Err("id read back is neither integer nor NULL".into()),
                }
            }
            left.sort();
            if left.iter().enumerate().any(|(k, (v, _, _))| *v != tag0 + k as i64) { return Err("rows in the table are not a prefix of the call's rows".into()); }
            Ok(left.into_iter().map(|x| x.1).collect())
        }
        Caught::Done(Err(e)) => Err(format!("select by tag: {:#}", e)),
        Caught::Panicked(m) => Err(format!("panic in select by tag: {}", m)),
    }
}

fn tmp_dir(tag: &str) -> std::path::PathBuf {
    let base = std::path::Path::new(env!("CARGO_MANIFEST_DIR")).join("../build/tmp");
    let _ = std::fs::create_dir_all(&base);
    base.join(format!("c12-{}-{}", tag, std::process::id()))
}


// ------------------------------------------------------------------ mirror of Model/AutoInc.v
// (used only to steer the generator, to bucket the cases by the former defect regimes and to tell
// the search mode whether the implementation behaves as modelled; the judgement is made in Coq)
struct StmtOut { written: Vec<(i64, bool)>, ok: bool, regime: u8, ai: u64 }

fn limit(w: u8) -> u64 { match w { 16 => i16::MAX as u64, 32 => i32::MAX as u64, _ => i64::MAX as u64 } }

/// one INSERT statement after the repairs: explicit ids raise cur and max, the header is written as
/// soon as ids are handed out, generation and explicit ids are bounded by the column type.
/// regime = which of the former defect classes (1,2,3,5) the statement would have entered.
fn mirror_stmt(w: u8, ai: u64, rows: &[Option<i64>], ext: Option<usize>) -> StmtOut {
    let lim = limit(w);
    let (mut cur, mut max, mut hdr) = (ai, ai, ai);
    let mut written = vec![];
    let mut regime = 0u8;
    let mut ok = true;
    let mut ahead = false;
    for (i, r) in rows.iter().enumerate() {
        match r {
            None => {
                if regime == 0 && ext != Some(i) && ahead { regime = 1; }
                match cur.checked_add(1).filter(|c| *c <= lim) {
                    None => { if regime == 0 { regime = if w == 64 { 3 } else { 5 }; } ok = false; break; }
                    Some(c) => { cur = c; if c > max { max = c; } }
                }
            }
            Some(v) => {
                if *v < 0 { ok = false; break; }
                if (*v as u64) > lim { if regime == 0 { regime = 5; } ok = false; break; }
                if (*v as u64) > max { max = *v as u64; }
                if (*v as u64) > cur { cur = *v as u64; ahead = true; }
            }
        }
        if max > hdr { hdr = max; }
        if ext == Some(i) { ok = false; break; }
        written.push((if r.is_none() { cur as i64 } else { r.unwrap() }, r.is_none()));
    }
    if !ok && regime == 0 && written.iter().any(|(v, _)| *v as i128 > ai as i128) { regime = 2; }
    let nai = if ok && max > 0 && max > hdr { max } else { hdr };
    StmtOut { written, ok, regime, ai: nai }
}

fn rows_of(op: &Op) -> Option<Vec<Option<i64>>> {
    match op {
        Op::Ins(rows) => Some(rows.iter().map(|(id, _)| *id).collect()),
        Op::InsAbsent(k) => Some(vec![None; *k]),
        _ => None,
    }
}

/// (observed traces [stored, returned], mirror agrees with the observation, former defect regime touched first)
fn judge(h: &Hist, obs: &[Obs]) -> (Vec<(i64, bool)>, Vec<(i64, bool)>, bool, u8) {
    let w = h.w;
    let mut stored = vec![];
    let mut returned = vec![];
    let mut agrees = obs.len() == h.ops.len();
    let mut regime = 0u8;
    let mut ai = 0u64;
    for (op, o) in h.ops.iter().zip(obs.iter()) {
        if let Obs::Weird(_) = o { agrees = false; }
        match (op, o) {
            (Op::Batch(rows), Obs::BatchOk(seen)) => {
                // insert_batch: ids stored as given (wrapped to the column width); counter raised to the largest positive id
                if seen.len() != rows.len() { agrees = false; }
                for (r, s) in rows.iter().zip(seen.iter()) {
                    if r.map(|v| wrap(w, v)) != *s { agrees = false; }
                    if let Some(id) = s { stored.push((*id, r.is_none())); returned.push((*id, r.is_none())); }
                    if let Some(v) = r { if regime == 0 && (*v as i128) > ai as i128 { regime = 4; } }
                }
                let m = rows.iter().filter_map(|r| *r).filter(|v| *v > 0).max().unwrap_or(0) as u64;
                if m > ai { ai = m; }
            }
            (Op::Prep(rows), Obs::Prep(outs)) => {
                // every execution is an ordinary single-row INSERT
                if outs.len() != rows.len() { agrees = false; }
                for (j, (r, out)) in rows.iter().zip(outs.iter()).enumerate() {
                    if j > 0 && regime == 0 { if let Some(v) = r { if (*v as i128) > ai as i128 { regime = 4; } } }
                    let m = mirror_stmt(w, ai, &[*r], if out.is_none() { Some(0) } else { None });
                    match out {
                        Some(Some(id)) => {
                            stored.push((*id, r.is_none())); returned.push((*id, r.is_none()));
                            if !(m.ok && m.written.len() == 1 && wrap(w, m.written[0].0) == *id) { agrees = false; }
                        }
                        Some(None) => { agrees = false; }
                        None => { if m.ok { agrees = false; } }
                    }
                    if regime == 0 { regime = m.regime; }
                    ai = m.ai;
                }
            }
            (Op::Batch(_), _) | (Op::Prep(_), _) => { agrees = false; }
            _ => {
                let rows = match rows_of(op) { Some(r) => r, None => continue };
                let (ret, st, ext) = match o {
                    Obs::InsOk(ids, st) => (Some(ids.clone()), st.clone(), None),
                    Obs::InsErr(left, _) => (None, left.clone(), Some(left.len())),
                    _ => { agrees = false; continue; }
                };
                for (r, id) in rows.iter().zip(st.iter()) { stored.push((*id, r.is_none())); }
                for (r, id) in rows.iter().zip(ret.as_ref().unwrap_or(&st).iter()) { returned.push((*id, r.is_none())); }
                let m = mirror_stmt(w, ai, &rows, ext);
                let mids: Vec<i64> = m.written.iter().map(|x| x.0).collect();
                let mst: Vec<i64> = mids.iter().map(|v| wrap(w, *v)).collect();
                if mst != st || m.ok != ext.is_none() { agrees = false; }
                if let Some(ret) = &ret { if *ret != mids { agrees = false; } }
                if regime == 0 { regime = m.regime; }
                ai = m.ai;
            }
        }
    }
    (stored, returned, agrees, regime)
}

fn fresh_increasing(trace: &[(i64, bool)]) -> bool {
    for (i, (g, gen)) in trace.iter().enumerate() {
        if !*gen { continue; }
        for (v, b) in &trace[..i] {
            if v == g { return false; }
            if *b && v >= g { return false; }
        }
    }
    true
}

// ------------------------------------------------------------------ Coq terms
fn zt(v: i64) -> String { if v < 0 { format!("({})", v) } else { v.to_string() } }
fn zlist(v: &[i64]) -> String { clist(&v.iter().map(|x| zt(*x)).collect::<Vec<_>>()) }

fn case_term(h: &Hist, obs: &[Obs]) -> String {
    if obs.len() != h.ops.len() || obs.iter().any(|o| matches!(o, Obs::Weird(_))) { return "Weird".into(); }
    let mut items = vec![];
    fn rows_term(rows: &[Option<i64>]) -> String {
        clist(&rows.iter().map(|r| match r { None => "RNull".to_string(), Some(v) => format!("RInt {}", zt(*v)) }).collect::<Vec<_>>())
    }
    fn oz(v: &Option<i64>) -> String { match v { None => "None".to_string(), Some(i) => format!("Some {}", zt(*i)) } }
    for (op, o) in h.ops.iter().zip(obs.iter()) {
        match (op, o) {
            (Op::Batch(rows), Obs::BatchOk(seen)) | (Op::Batch(rows), Obs::BatchErr(seen, _)) => {
                let ids = clist(&seen.iter().map(oz).collect::<Vec<_>>());
                let ob = if matches!(o, Obs::BatchOk(_)) { format!("BOk {}", ids) } else { format!("BErr {}", ids) };
                items.push(format!("CBatch {} ({})", rows_term(rows), ob));
                continue;
            }
            (Op::Prep(rows), Obs::Prep(outs)) => {
                let os = clist(&outs.iter().map(|x| match x { None => "PErr".to_string(), Some(id) => format!("POk ({})", oz(id)) }).collect::<Vec<_>>());
                items.push(format!("CPrep {} {}", rows_term(rows), os));
                continue;
            }
            (Op::Batch(_), _) | (Op::Prep(_), _) => return "Weird".into(),
            _ => {}
        }
        let t = match (rows_of(op), o) {
            (Some(rows), Obs::InsOk(..)) | (Some(rows), Obs::InsErr(..)) => {
                let ob = match o {
                    Obs::InsOk(ids, st) => if ids == st { format!("IOk {}", zlist(ids)) } else { format!("IOkS {} {}", zlist(ids), zlist(st)) },
                    Obs::InsErr(left, _) => format!("IErr {}", zlist(left)),
                    _ => unreachable!(),
                };
                format!("CIns {} ({})", rows_term(&rows), ob)
            }
            (Some(_), _) => return "Weird".into(),
            (None, _) => match op {
                Op::Del(_) | Op::DelAll => "CDel".into(), Op::Begin => "CBegin".into(), Op::Commit => "CCommit".into(),
                Op::Rollback => "CRollback".into(), _ => "CReopen".into(),
            },
        };
        items.push(t);
    }
    format!("Case {} {} {} {}", cbool(h.pk), cbool(h.wal), h.w, clist(&items))
}

// ------------------------------------------------------------------ generators
const I64MAX: i64 = i64::MAX;

struct G<'a> { rng: &'a mut Rng, w: u8, ai: u64, used: Vec<i64>, in_txn: bool, ops: Vec<Op> }

impl<'a> G<'a> {
    fn new(rng: &'a mut Rng, w: u8) -> Self { G { rng, w, ai: 0, used: vec![], in_txn: false, ops: vec![] } }
    /// book-keeping with the mirror, assuming only the intended failures happen
    fn push_ins(&mut self, rows: Vec<(Option<i64>, bool)>) {
        let ids: Vec<Option<i64>> = rows.iter().map(|r| r.0).collect();
        let ext = rows.iter().position(|r| !r.1);
        let m = mirror_stmt(self.w, self.ai, &ids, ext);
        for (v, _) in &m.written { self.used.push(*v); }
        self.ai = m.ai;
        self.ops.push(Op::Ins(rows));
    }
    fn push_absent(&mut self, k: usize) {
        let m = mirror_stmt(self.w, self.ai, &vec![None; k], None);
        for (v, _) in &m.written { self.used.push(*v); }
        self.ai = m.ai;
        self.ops.push(Op::InsAbsent(k));
    }
    fn fresh_above(&mut self) -> i64 {
        // an explicit id above the counter (kept small so that later generation can reach it)
        let base = self.ai.min((I64MAX - 100) as u64) as i64;
        base + 1 + self.rng.below(6) as i64
    }
    fn fresh_below(&mut self) -> Option<i64> {
        // an id at or below the counter that the column never held (a gap left by explicit ids)
        if self.ai == 0 || self.ai > 10_000 { return None; }
        let cands: Vec<i64> = (0..=self.ai as i64).filter(|v| !self.used.contains(v)).collect();
        if cands.is_empty() { None } else { Some(*self.rng.pick(&cands)) }
    }
    fn some_used(&mut self) -> i64 {
        if self.used.is_empty() { 1 } else { let u = self.used.clone(); *self.rng.pick(&u) }
    }
    /// a statement that stays outside the defect classes: NULL rows first, explicit ids (above the
    /// counter, or unused ones below it) last
    fn clean_insert(&mut self) {
        let r = self.rng.below(10);
        if r < 4 { let k = 1 + self.rng.below(4) as usize; self.push_absent(k); return; }
        let n_null = if r < 6 { 0 } else { 1 + self.rng.below(3) as usize };
        let n_exp = if r < 6 { 1 + self.rng.below(2) as usize } else { self.rng.below(3) as usize };
        let mut rows = vec![(None, true); n_null];
        let mut sim_ai = self.ai.saturating_add(n_null as u64);
        for _ in 0..n_exp {
            let v = if self.rng.chance(1, 3) { match self.fresh_below() { Some(v) if !rows.iter().any(|r: &(Option<i64>, bool)| r.0 == Some(v)) => v, _ => (sim_ai.min((I64MAX - 10) as u64) as i64) + 1 + self.rng.below(4) as i64 } }
                    else { (sim_ai.min((I64MAX - 10) as u64) as i64) + 1 + self.rng.below(4) as i64 };
            if rows.iter().any(|r| r.0 == Some(v)) { continue; }
            if v as u64 > sim_ai { sim_ai = v as u64; }
            rows.push((Some(v), true));
        }
        if rows.is_empty() { rows.push((None, true)); }
        self.push_ins(rows);
    }
    fn push_batch(&mut self, rows: Vec<Option<i64>>) {
        for r in &rows { if let Some(v) = r { self.used.push(*v); if *v > 0 && (*v as u64) > self.ai { self.ai = *v as u64; } } }
        self.ops.push(Op::Batch(rows));
    }
    fn push_prep(&mut self, rows: Vec<Option<i64>>) {
        for r in rows.iter() {
            let m = mirror_stmt(self.w, self.ai, &[*r], None);
            for (v, _) in &m.written { self.used.push(*v); }
            self.ai = m.ai;
        }
        self.ops.push(Op::Prep(rows));
    }
    /// ids for insert_cached / insert_batch that keep the history outside class 4: NULL, unused ids
    /// at or below the counter, ids the column already held
    fn bulk_rows_clean(&mut self, n: usize) -> Vec<Option<i64>> {
        let mut rows = vec![];
        for _ in 0..n {
            let r = match self.rng.below(4) {
                0 => None,
                1 => self.fresh_below(),
                2 => { let v = self.some_used(); if (v as i128) <= self.ai as i128 { Some(v) } else { None } }
                _ => if self.ai > 0 { Some(self.rng.below(self.ai.min(1 << 40) + 1) as i64) } else { None },
            };
            rows.push(r);
        }
        rows
    }
    fn bulk_clean(&mut self) {
        let n = 1 + self.rng.below(3) as usize;
        let rows = self.bulk_rows_clean(n);
        // insert_batch is generated only for SMALLINT / INTEGER id columns: with two BIGINT columns
        // the rows it loads (written without the MVCC header) never show up in SELECT, so what the
        // column holds cannot be observed there (`T:` stays in the replay language for probing)
        if self.w != 64 && self.rng.chance(1, 2) { self.push_batch(rows); return; }
        // prepared statement: every execution is an ordinary INSERT
        let first = if self.rng.chance(2, 3) { None } else { Some(self.fresh_above()) };
        let mut all = vec![first];
        all.extend(rows);
        self.push_prep(all);
    }
    fn delete(&mut self) {
        if self.rng.chance(1, 6) { self.ops.push(Op::DelAll); } else { let v = self.some_used(); self.ops.push(Op::Del(v)); }
    }
    fn txn(&mut self, commit: bool) {
        self.ops.push(Op::Begin);
        let n = 1 + self.rng.below(3);
        for _ in 0..n { if self.rng.chance(1, 4) { self.delete(); } else { self.clean_insert(); } }
        self.ops.push(if commit { Op::Commit } else { Op::Rollback });
    }
    fn reopen(&mut self) {
        self.ops.push(Op::Reopen);
        // the first inserts after Database::open hit "key already exists" (next_row_id restarts at 1):
        // keep inserting so that the history gets past them
        let n = 2 + self.rng.below(6);
        for _ in 0..n { self.push_absent(1); }
    }
}

fn gen_history(rng: &mut Rng, thorough: bool) -> (Hist, &'static str) {
    let pk = rng.chance(3, 5);
    let wal = rng.chance(3, 10);
    let w: u8 = match rng.below(10) { 0 => 16, 1 | 2 => 32, _ => 64 };
    let fam = rng.below(100);
    let maxlen = if thorough { 18 } else { 10 };
    let len = 2 + rng.below(maxlen) as usize;
    let mut g = G::new(rng, w);
    let kind: &'static str;
    if fam < 30 {
        kind = "clean_mix";           // inserts, deletes, transactions, reopen, bulk paths: all outside the classes
        while g.ops.len() < len {
            match g.rng.below(11) {
                10 => g.bulk_clean(),
                0..=4 => g.clean_insert(),
                5 => g.delete(),
                6 => g.txn(true),
                7 => g.txn(false),
                8 => g.reopen(),
                _ => { let v = g.some_used(); g.push_ins(vec![(Some(v), true)]); }   // explicit id the column held (duplicate / PK error)
            }
        }
    } else if fam < 41 {
        kind = "rollback";            // ids consumed inside rolled-back transactions, then more inserts
        while g.ops.len() < len {
            match g.rng.below(6) { 0 | 1 => g.txn(false), 2 => g.txn(true), 3 => g.delete(), _ => g.clean_insert() }
        }
        if g.rng.chance(1, 3) { g.ops.push(Op::Begin); g.clean_insert(); g.reopen(); }   // close with a transaction open
    } else if fam < 53 {
        kind = "reopen";              // several close + open cycles
        while g.ops.len() < len + 4 {
            match g.rng.below(6) { 0 | 1 => g.reopen(), 2 => g.delete(), 3 => { let c = g.rng.chance(1, 2); g.txn(c) } _ => g.clean_insert() }
        }
    } else if fam < 63 {
        kind = "failing_first_row";   // statements that fail before writing anything: no effect on the counter
        while g.ops.len() < len {
            match g.rng.below(6) {
                0 | 1 => { let n = 1 + g.rng.below(3) as usize; let mut rows = vec![(None, true); n]; rows[0].1 = false; g.push_ins(rows); }
                2 => { let v = -1 - g.rng.below(5) as i64; g.push_ins(vec![(Some(v), true), (None, true)]); }
                3 => g.delete(),
                _ => g.clean_insert(),
            }
        }
    } else if fam < 71 {
        kind = "failing_later_row";   // class 2 and its neighbourhood
        while g.ops.len() < len {
            match g.rng.below(6) {
                0 | 1 => {
                    let n = 2 + g.rng.below(3) as usize;
                    let mut rows: Vec<(Option<i64>, bool)> = (0..n).map(|_| (None, true)).collect();
                    if g.rng.chance(1, 3) { let v = g.fresh_above(); rows[0].0 = Some(v); }
                    if g.rng.chance(1, 3) { if let Some(v) = g.fresh_below() { rows[0].0 = Some(v); } }
                    let k = 1 + g.rng.below(n as u64 - 1) as usize;
                    if g.rng.chance(1, 4) { rows[k].0 = Some(-3); } else { rows[k].1 = false; }
                    g.push_ins(rows);
                }
                2 => g.delete(),
                _ => g.clean_insert(),
            }
        }
    } else if fam < 81 {
        kind = "mixed_statement";     // explicit and NULL ids interleaved in one statement: class 1 and its neighbourhood
        while g.ops.len() < len {
            match g.rng.below(5) {
                0..=2 => {
                    let n = 2 + g.rng.below(4) as usize;
                    let mut rows = vec![];
                    for _ in 0..n {
                        if g.rng.chance(1, 2) { rows.push((None, true)); }
                        else {
                            let v = match g.rng.below(3) { 0 => g.fresh_above(), 1 => g.fresh_below().unwrap_or(0), _ => g.some_used() };
                            rows.push((Some(v), true));
                        }
                    }
                    g.push_ins(rows);
                }
                3 => g.delete(),
                _ => g.clean_insert(),
            }
        }
    } else if fam < 89 {
        kind = "bulk_paths";          // insert_batch and re-executed prepared INSERTs: class 4 and its neighbourhood
        while g.ops.len() < len {
            match g.rng.below(8) {
                0 | 1 => g.bulk_clean(),
                2 => {
                    let v = g.fresh_above();
                    if g.w != 64 { let mut rows = g.bulk_rows_clean(1); rows.push(Some(v)); g.push_batch(rows); }
                    else { let mut rows = vec![Some(g.fresh_above())]; rows.extend(g.bulk_rows_clean(1)); rows.push(Some(v + 7)); g.push_prep(rows); }
                }
                3 => { let v = g.fresh_above(); let k = g.rng.below(2) as usize; let mut rows = vec![None]; rows.extend(g.bulk_rows_clean(k)); rows.push(Some(v)); g.push_prep(rows); }
                4 => g.delete(),
                5 => { let c = g.rng.chance(1, 2); g.txn(c) }
                _ => g.clean_insert(),
            }
        }
    } else {
        kind = "boundary";            // counters at the limits of the id column's type (class 5) and around i64::MAX (class 3)
        let lim: i64 = match w { 16 => i16::MAX as i64, 32 => i32::MAX as i64, _ => I64MAX };
        let b = match g.rng.below(12) {
            0..=5 => lim - g.rng.below(4) as i64,
            6 => if w == 64 { lim } else { lim + 1 },
            7 => *g.rng.pick(&[(1i64 << 31) - 1, 1 << 31, (1i64 << 32) - 1, 1 << 32, 1 << 53, 1i64 << 62, 0, 32767, 32768]),
            8 => I64MAX - g.rng.below(3) as i64,
            _ => lim - 4 - g.rng.below(6) as i64,
        };
        if g.rng.chance(1, 2) { g.clean_insert(); }
        g.push_ins(vec![(Some(b), true)]);
        let n = 1 + g.rng.below(4);
        for _ in 0..n {
            match g.rng.below(6) { 0 => g.delete(), 1 => g.reopen(), 2 => g.bulk_clean(), _ => { let k = 1 + g.rng.below(2) as usize; g.push_absent(k); } }
        }
    }
    let ops = std::mem::take(&mut g.ops);
    (Hist { pk, wal, w, ops }, kind)
}

fn nontrivial(h: &Hist, obs: &[Obs]) -> bool {
    let (trace, _, _, _) = judge(h, obs);
    let gens = trace.iter().filter(|x| x.1).count();
    let eventful = h.ops.iter().any(|o| !matches!(o, Op::InsAbsent(_) | Op::Begin | Op::Commit))
        || obs.iter().any(|o| matches!(o, Obs::InsErr(..)));
    gens >= 2 && eventful
}

fn main() {
    let a = Args::parse();
    if std::env::var("C12_LOUD").is_ok() { let _ = std::panic::take_hook(); }
    match a.mode.as_str() {
        "gen" => gen(&a),
        "search" => search(&a),
        "probe" => probe(&a),
        _ => { eprintln!("c12: unknown mode"); std::process::exit(2); }
    }
}

fn gen(a: &Args) {
    let mut rng = Rng::new(a.seed);
    let mut w = CaseWriter::new(&a.out, "C12", "Corr.C12", 250);
    let mut hs: Vec<(Hist, &'static str)> = vec![];
    if let Some(lines) = a.replay_lines() {
        for l in lines { if let Some(h) = parse_hist(&l) { hs.push((h, "replay")); } }
    } else {
        let n = if a.thorough() { 4_000 } else { 500 };
        for _ in 0..n { hs.push(gen_history(&mut rng, a.thorough())); }
    }
    let all_obs = run_all(&hs.iter().map(|x| x.0.clone()).collect::<Vec<_>>(), "gen");
    let mut in_class = 0u64;
    let mut gens_total = 0u64;
    for ((h, kind), obs) in hs.into_iter().zip(all_obs.into_iter()) {
        let (trace, _, _, class) = judge(&h, &obs);
        gens_total += trace.iter().filter(|x| x.1).count() as u64;
        if class != 0 { in_class += 1; w.count(&format!("(former class {} regime)", class), 1); }
        if obs.iter().any(|o| matches!(o, Obs::Weird(_))) { w.count("(weird)", 1); }
        w.push(case_term(&h, &obs), show_hist(&h), nontrivial(&h, &obs), kind);
    }
    w.finish(&[("cases_in_former_defect_regimes".to_string(), in_class.to_string()), ("generated_ids_observed".to_string(), gens_total.to_string())]);
}

/// run the histories on the implementation, several databases at a time (each worker has its own
/// directory; results come back in input order, so the run is reproducible)
fn run_all(hs: &[Hist], tag: &str) -> Vec<Vec<Obs>> {
    let workers = 8usize;
    let next = std::sync::atomic::AtomicUsize::new(0);
    let out: Vec<std::sync::Mutex<Option<Vec<Obs>>>> = hs.iter().map(|_| std::sync::Mutex::new(None)).collect();
    std::thread::scope(|sc| {
        for wi in 0..workers {
            let next = &next;
            let out = &out;
            let dir = tmp_dir(&format!("{}{}", tag, wi));
            sc.spawn(move || {
                loop {
                    let i = next.fetch_add(1, std::sync::atomic::Ordering::SeqCst);
                    if i >= hs.len() { break; }
                    let o = run_hist(&hs[i], &dir);
                    *out[i].lock().unwrap() = Some(o);
                }
                let _ = std::fs::remove_dir_all(&dir);
            });
        }
    });
    out.into_iter().map(|m| m.into_inner().unwrap().unwrap_or_default()).collect()
}

/// Oracle only: the observed ids of every history must be fresh and increasing.
fn search(a: &Args) {
    let mut rng = Rng::new(a.seed ^ 0xC12_5EA7);
    let mut fails: Vec<String> = vec![];
    let mut tried = 0u64;
    // each history costs a database on disk: the budget counts operations, not histories
    let budget = (a.budget / 40).clamp(500, 60_000);
    let mut new_found = 0usize;
    while tried < budget && new_found < 20 {
        let hs: Vec<Hist> = (0..400).map(|_| gen_history(&mut rng, true).0).collect();
        let all_obs = run_all(&hs, "search");
        for (h, obs) in hs.iter().zip(all_obs.iter()) {
            let (trace, ret, agrees, class) = judge(h, obs);
            if !fresh_increasing(&trace) || !fresh_increasing(&ret) {
                // no finding is open: every failure is a violation ("regime" names the former class it touches)
                let _ = agrees;
                new_found += 1;
                fails.push(format!("{} class=0 regime={}", show_hist(h), class));
            }
            tried += 1;
        }
    }
    let mut out = format!("tried={}\n", tried);
    for f in &fails { out.push_str("FAIL "); out.push_str(f); out.push('\n'); }
    std::fs::write(&a.out, out).expect("write search output");
}

fn probe(a: &Args) {
    let dir = tmp_dir("probe");
    for l in a.replay_lines().unwrap_or_default() {
        match parse_hist(&l) {
            None => println!("?? {}", l),
            Some(h) => {
                println!("{}", show_hist(&h));
                let obs = run_hist(&h, &dir);
                for (op, o) in h.ops.iter().zip(obs.iter()) { println!("   {:?} -> {:?}", op, o); }
                if obs.len() != h.ops.len() { println!("   obs: {:?}", obs); }
                let (trace, ret, agrees, class) = judge(&h, &obs);
                println!("   mirror_agrees={} class={} fresh_increasing={}", agrees, class, fresh_increasing(&trace) && fresh_increasing(&ret));
                println!("   {}", case_term(&h, &obs));
            }
        }
    }
    let _ = std::fs::remove_dir_all(&dir);
}
