(* C36 correspondence.  The harness runs the real PageLockManager under the deterministic
   scheduler: a case = the programs of the threads, the schedule actually executed (the requested
   schedule followed by the harness' own round-robin drain), and per coarse step what was observed:
   the outcome (site reached / finished / blocked / skipped), which blocked threads got
   unblocked by it, and the per-page occupancy counters that the threads bump inside their
   critical sections, and at the end LockStats and the sizes of the two lock tables
   (debug_entry_counts).  Here the faithful model (Model/PageLocks.v, fx = true: the cleanup as
   repaired by /repo d1af26b) is run with
   [run_until] on the same programs and schedule and must predict exactly these observations;
   [spec_ok] judges the observations alone.  Definitions only. *)
From Coq Require Import ZArith List Bool Arith.
From TV Require Import Lib.Interleave.
From TV Require Export Model.PageLocks.
Import ListNotations.
Open Scope Z_scope.

(* programs as printed by the harness (numbers are Z) *)
Inductive cop := A (w : bool) (k : Z) | D (i : Z) | TA (x : bool) (tb : Z) | TD (i : Z).
Definition op_of (c : cop) : op :=
  match c with A w k => OAcq w k | D i => ORel (Z.to_nat i) | TA x tb => OTAcq x tb | TD i => OTRel (Z.to_nat i) end.

(* outcome codes: 1 = finished, 2 = blocked, 3 = skipped, otherwise the site reached *)
(* (constructors rather than tuples: case files elaborate several times faster) *)
Inductive wk := Wk (t site : Z).                 (* a blocked thread that was released and ran to [site] *)
Inductive oc := Oc (k writers readers : Z).     (* occupancy counters of page k *)
Inductive bl := Bl (t k : Z) (w : bool).         (* thread t is blocked in page_write (w) / page_read of page k *)
Inductive stepobs := SO (t out : Z) (woke : list wk) (occ : list oc).
Inductive fin :=
| FComplete (acq cont tacq : Z) (blocked : list bl) (npage ntable : Z)
    (* ran until nobody can move; LockStats; who is still blocked on what; entries left in the page / table lock maps *)
| FTrunc.                                                          (* observation stopped (two threads blocked at once: wake-up order is up to parking_lot) *)
Inductive case := Case (progs : list (list cop)) (steps : list stepobs) (f : fin).

Definition fuel : nat := 400.

Definition is_blocked_pc (p : pc) : bool := match p with PLock _ _ _ _ | PWaitR _ _ _ => true | _ => false end.

Definition outcome_of (t : nat) (enabled : bool) (s' : St) : Z :=
  if enabled then
    match lget (ths s') t with
    | None => 3
    | Some th => if finished th then 1 else match site_of th with Some n => n | None => 2 end
    end
  else 3.

(* blocked threads that can move now run to their next site (they were left running by the scheduler) *)
Fixpoint settle (fx : bool) (ids : list nat) (s : St) : St * list wk :=
  match ids with
  | [] => (s, [])
  | u :: r =>
      match lget (ths s) u with
      | Some th =>
          if is_blocked_pc (th_pc th) then
            let s1 := run_until (step fx) at_site fuel u s in
            let woke := match lget (ths s1) u with
                        | Some th1 => if is_blocked_pc (th_pc th1) then []
                                      else [Wk (Z.of_nat u) (match site_of th1 with Some n => n | None => if finished th1 then 1 else 2 end)]
                        | None => []
                        end in
            let '(s2, w2) := settle fx r s1 in (s2, woke ++ w2)
          else settle fx r s
      | None => settle fx r s
      end
  end.

(* occupancy as the harness counts it: guards that exist (bumped at site 210, decremented before the drop) *)
Fixpoint insert_key (k : Z) (l : list Z) : list Z :=
  match l with
  | [] => [k]
  | x :: r => if k <? x then k :: l else if k =? x then l else x :: insert_key k r
  end.
Definition all_guards (s : St) : list guard := flat_map (fun p => th_pg (snd p)) (ths s).
Definition count_g (w : bool) (k : Z) (gs : list guard) : Z := Z.of_nat (length (filter (g_holds w k) gs)).
Definition occupancy (s : St) : list oc :=
  let gs := all_guards s in
  map (fun k => Oc k (count_g true k gs) (count_g false k gs)) (fold_right insert_key [] (map g_k gs)).

Definition pair_eqb (a b : wk) : bool := match a, b with Wk t s, Wk t' s' => (t =? t') && (s =? s') end.
Definition trip_eqb (a b : oc) : bool := match a, b with Oc k w r, Oc k' w' r' => (k =? k') && (w =? w') && (r =? r') end.
Fixpoint list_eqb {X} (eq : X -> X -> bool) (a b : list X) : bool :=
  match a, b with [], [] => true | x :: a', y :: b' => eq x y && list_eqb eq a' b' | _, _ => false end.

Definition ids_of (s : St) : list nat := map fst (ths s).

Fixpoint simulate (fx : bool) (steps : list stepobs) (s : St) : St * bool :=
  match steps with
  | [] => (s, true)
  | SO t out woke occ :: r =>
      let tn := Z.to_nat t in
      let enabled := match step fx tn s with Some _ => true | None => false end in
      let s1 := run_until (step fx) at_site fuel tn s in
      let '(s2, wk) := settle fx (ids_of s1) s1 in
      let ok := (outcome_of tn enabled s1 =? out) && list_eqb pair_eqb wk woke && list_eqb trip_eqb (occupancy s2) occ in
      let '(s3, ok3) := simulate fx r s2 in (s3, ok && ok3)
  end.

Definition blocked_of (s : St) : list bl :=
  flat_map (fun p => match th_pc (snd p) with
                     | PLock w k _ _ => [Bl (Z.of_nat (fst p)) k w]
                     | PWaitR k _ _ => [Bl (Z.of_nat (fst p)) k true]
                     | _ => []
                     end) (ths s).
Definition blk_eqb (a b : bl) : bool := match a, b with Bl t k w, Bl t' k' w' => (t =? t') && (k =? k') && Bool.eqb w w' end.
Definition quiescent (s : St) : bool :=
  forallb (fun p => finished (snd p) || is_blocked_pc (th_pc (snd p))) (ths s).

Definition start (progs : list (list cop)) : St := init (map (map op_of) progs).

Definition model_agrees (c : case) : bool :=
  match c with
  | Case progs steps f =>
      let '(s, ok) := simulate true steps (start progs) in
      ok && match f with
            | FTrunc => true
            | FComplete a ct ta bl np nt =>
                (s_acq (sh s) =? a) && (s_cont (sh s) =? ct) && (s_tacq (sh s) =? ta) &&
                list_eqb blk_eqb (blocked_of s) bl && quiescent s &&
                (Z.of_nat (length (s_map (sh s))) =? np) && (Z.of_nat (length (s_tbl (sh s))) =? nt)
            end
  end.

(* ---- the property's own oracle, on the observations alone *)
Definition occ_ok (occ : list oc) : bool :=
  forallb (fun x => match x with Oc _ w r => (w <=? 1) && ((w =? 0) || (r =? 0)) end) occ.
Definition so_occ (st : stepobs) : list oc := match st with SO _ _ _ occ => occ end.
Fixpoint last_occ (steps : list stepobs) (d : list oc) : list oc :=
  match steps with [] => d | SO _ _ _ occ :: r => last_occ r occ end.
Definition occ_at (occ : list oc) (k : Z) : Z * Z :=
  match find (fun x => match x with Oc k' _ _ => k' =? k end) occ with Some (Oc _ w r) => (w, r) | None => (0, 0) end.
(* a thread that is still blocked when nobody can move any more must be waiting for a conflicting
   holder (or, for a reader, behind a waiting writer): otherwise an acquisition that should succeed did not *)
Definition blocked_justified (occ : list oc) (bl : list bl) : bool :=
  forallb (fun b => match b with Bl t k w =>
     let ow := fst (occ_at occ k) in
     let orr := snd (occ_at occ k) in
     if (w : bool) then 0 <? ow + orr
     else (0 <? ow) || existsb (fun b' => match b' with Bl t' k' w' => w' && (k' =? k) && negb (t' =? t) end) bl
   end) bl.

Definition spec_ok (c : case) : bool :=
  match c with
  | Case progs steps f =>
      forallb (fun st => occ_ok (so_occ st)) steps &&
      match f with
      | FTrunc => true
      | FComplete _ _ _ bl np nt =>
          blocked_justified (last_occ steps []) bl &&
          (* all guards dropped => both lock tables are empty *)
          match bl with [] => (np =? 0) && (nt =? 0) | _ => true end
      end
  end.

(* no recorded finding is open any more (F-C36-1 fixed by /repo d1af26b) *)
Definition known_class (c : case) : Z := 0.

Fixpoint failures_from (i : Z) (cs : list case) : list (Z * bool * bool * Z) :=
  match cs with
  | [] => []
  | c :: t =>
      let m := model_agrees c in
      let s := spec_ok c in
      if m && s then failures_from (i + 1) t else (i, m, s, known_class c) :: failures_from (i + 1) t
  end.
Definition failures := failures_from 0.
