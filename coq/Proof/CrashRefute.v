(* C01 / C02 - where the protocol model does NOT keep the property: one concrete workload and
   crash position per known class, evaluated by vm_compute.  The same workloads are run on the
   real database by the crash harness (known_findings.d/C01.json, C02.json). *)
From Coq Require Import ZArith List Bool.
From TV Require Import Model.Crash.
Import ListNotations.
Open Scope Z_scope.

(* CREATE TABLE t1; INSERT; CREATE TABLE t2 *)
Definition w_catalog : list op :=
  [OCreate 1 1 2 3 2; ODml 1 [(1, 1)] [BStore 1 0 4; BStore 1 1 5; BStore 101 1 6] []; OCreate 2 7 2 8 2].

(* class 3: pages stored behind the dirty tracker's back are not in the power-loss image:
   after the acknowledged CREATE TABLE the root page (1,1) of the new table is missing, and
   after the acknowledged INSERT the header page (1,0) is the one written at creation *)
Lemma power_unlogged_refuted_l :
  exists os i, wf_run init os = true /\ existsb is_api_ckpt os = false /\ in_txn (run init (firstn i os)) = false
    /\ vol (run init (firstn i os)) (1, 1) = Some 2
    /\ r_pages (recover Power (run init (firstn i os))) (1, 1) = None.
Proof. exists w_catalog, 1%nat. vm_compute. repeat split; auto. Qed.

Lemma power_header_stale_refuted_l :
  exists os i, wf_run init os = true /\ existsb is_api_ckpt os = false /\ in_txn (run init (firstn i os)) = false
    /\ vol (run init (firstn i os)) (1, 0) = Some 4
    /\ r_pages (recover Power (run init (firstn i os))) (1, 0) = Some 1.
Proof. exists w_catalog, 2%nat. vm_compute. repeat split; auto. Qed.

(* class 4: Database::checkpoint() truncates the log without syncing the table files; the next
   synced batch makes the truncation durable: page (1,2), logged and acknowledged, is gone *)
Definition w_apickpt : list op :=
  [OCreate 1 1 2 3 2; OCreate 2 4 2 5 2;
   ODml 1 [(1, 2)] [BGrow 1; BStore 1 2 6] [];
   OApiCkpt;
   ODml 2 [(2, 2)] [BGrow 2; BStore 2 2 7] []].

Lemma power_apickpt_refuted_l :
  exists os i, wf_run init os = true /\ in_txn (run init (firstn i os)) = false
    /\ kmem (1, 2) (g_unl (ghost_run init ghost0 (firstn i os))) = false
    /\ vol (run init (firstn i os)) (1, 2) = Some 6
    /\ r_pages (recover Power (run init (firstn i os))) (1, 2) = None.
Proof. exists w_apickpt, 5%nat. vm_compute. repeat split; auto. Qed.

(* ... while without the Database::checkpoint() call the same page survives *)
Example power_without_apickpt :
  let os := [OCreate 1 1 2 3 2; OCreate 2 4 2 5 2; ODml 1 [(1, 2)] [BGrow 1; BStore 1 2 6] [];
             ODml 2 [(2, 2)] [BGrow 2; BStore 2 2 7] []] in
  r_pages (recover Power (run init os)) (1, 2) = Some 6.
Proof. vm_compute. reflexivity. Qed.

(* class 2: a process kill while pages are dirty (open transaction after a checkpoint: nothing in the
   log covers the pages): the in-place stores of the uncommitted transaction are in the image,
   here torn between the two pages of one statement *)
Definition w_torn : list op :=
  [OCreate 1 1 2 3 2; ODml 1 [(1, 1)] [BStore 1 0 4; BStore 1 1 5; BStore 101 1 6] []; OCkpt [1]; OBegin;
   ODml 1 [(1, 1); (1, 2)] [BStore 1 1 7; BGrow 1; BStore 1 2 8] []].

Lemma kill_torn_refuted_l :
  exists os i n, wf_run init os = true
    /\ quiet (at_pos os i n) = false
    /\ r_pages (recover Kill (at_pos os i n)) (1, 1) = Some 7        (* first page of the in-flight statement: new *)
    /\ r_pages (recover Kill (at_pos os i n)) (1, 2) = None          (* second page: not yet *)
    /\ r_pages (recover Kill (at_pos os i 0)) (1, 1) = Some 5.       (* acknowledged image *)
Proof. exists w_torn, 4%nat, 4%nat. vm_compute. repeat split; auto. Qed.

(* class 5: table id of a user table = id of a system table (database closed before its first
   CREATE TABLE) and turdb_catalog/ listed after root/: the frames of table 1 are replayed into
   the system table's file; after a power loss the acknowledged INSERT into table 1 is gone
   (its root page exists only in those frames), while without the collision it survives *)
Lemma power_id_collision_refuted_l :
  exists os i, wf_run init os = true /\ existsb is_api_ckpt os = false /\ in_txn (run init (firstn i os)) = false
    /\ vol (run init (firstn i os)) (1, 1) = Some 5
    /\ r_pages (recover_sh [1] Power (run init (firstn i os))) (1, 1) = None
    /\ r_pages (recover Power (run init (firstn i os))) (1, 1) = Some 5.
Proof. exists w_catalog, 2%nat. vm_compute. repeat split; auto. Qed.
