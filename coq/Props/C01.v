(* C01 - Acknowledged writes survive a crash.
   Property theorems only, about the protocol model Model/Crash.v (commit / autocommit flush /
   checkpoint / shutdown as disk-event traces, WAL on, synchronous=FULL; crash image = process
   kill or power loss; recovery = Database::open's redo).  Quantified over EVERY workload (any
   list of operations with any page-store payload satisfying the checked side conditions
   wf_run) and EVERY crash position (i, n) = after the first n events of operation i.
   Page level: what a statement stores in place is an arbitrary list of (file, page, image). *)
From Coq Require Import ZArith List Bool.
From TV Require Import Model.Crash Proof.CrashBase Proof.CrashStep Proof.CrashRun Proof.CrashMain Proof.CrashCat Proof.CrashRefute.
Import ListNotations.
Open Scope Z_scope.

(* process kill: wherever the dirty tracker and the BufWriter are empty, recovery reproduces the
   live files exactly, page by page (all files, logged or not) *)
Theorem kill_quiet_exact :
  forall os, wf_run init os = true ->
  forall i n, quiet (at_pos os i n) = true ->
  forall k, r_pages (recover Kill (at_pos os i n)) k = vol (at_pos os i n) k.
Proof. exact kill_quiet_exact_l. Qed.

(* every point at which a statement / COMMIT / checkpoint has returned outside a transaction is such a
   point, and the current WAL segment is synced there *)
Theorem ack_quiet :
  forall os, wf_run init os = true ->
  forall i, in_txn (run init (firstn i os)) = false ->
  quiet (run init (firstn i os)) = true /\ cur_du (run init (firstn i os)) = cur_fl (run init (firstn i os)).
Proof. exact ack_quiet_l. Qed.

Theorem ack_durable_kill :
  forall os, wf_run init os = true ->
  forall i, in_txn (run init (firstn i os)) = false ->
  forall k, r_pages (recover Kill (run init (firstn i os))) k = vol (run init (firstn i os)) k.
Proof. exact ack_durable_kill_l. Qed.

(* power loss: at EVERY crash position (also inside PRAGMA wal_checkpoint, Database::checkpoint() and
   a shutdown), every page that was not written behind the dirty tracker's back recovers to its
   content as of the last completed WAL sync / msync (g_view): nothing newer, nothing older, no mixture *)
Theorem power_view :
  forall os, wf_run init os = true ->
  forall i n k, kmem k (g_unl (ghost_at os i n)) = false ->
  r_pages (recover Power (at_pos os i n)) k = g_view (ghost_at os i n) k.
Proof. exact power_view_l. Qed.

(* ... and at quiet, synced positions that content is the live one *)
Theorem power_quiet_exact :
  forall os, wf_run init os = true ->
  forall i n, quiet (at_pos os i n) = true -> cur_du (at_pos os i n) = cur_fl (at_pos os i n) ->
  forall k, kmem k (g_unl (ghost_at os i n)) = false ->
  r_pages (recover Power (at_pos os i n)) k = vol (at_pos os i n) k.
Proof. exact power_quiet_exact_l. Qed.

(* in particular when a statement / COMMIT has returned (outside a transaction) *)
Theorem ack_durable_power :
  forall os, wf_run init os = true ->
  forall i, in_txn (run init (firstn i os)) = false ->
  forall k, kmem k (g_unl (ghost_run init ghost0 (firstn i os))) = false ->
  r_pages (recover Power (run init (firstn i os))) k = vol (run init (firstn i os)) k.
Proof. exact ack_durable_power_l. Qed.

(* the catalog is saved through a temporary file and a rename: Database::open never finds a torn
   catalog in a kill image, and a table whose CREATE TABLE has returned is in the catalog loaded
   from EVERY kill image and EVERY power-loss image (any workload, no side condition) *)
Theorem kill_always_opens :
  forall os i n, r_open (recover Kill (at_pos os i n)) = true.
Proof. exact kill_always_opens_l. Qed.

Theorem tables_durable :
  forall os i n t, In t (created (firstn i os)) ->
  r_open (recover Power (at_pos os i n)) = true
  /\ In t (r_tabs (recover Power (at_pos os i n)))
  /\ r_open (recover Kill (at_pos os i n)) = true
  /\ In t (r_tabs (recover Kill (at_pos os i n))).
Proof. exact tables_durable_l. Qed.

(* where the model does not keep the page-level property: a page written behind the dirty tracker's back
   (here the table header, whose row count an INSERT updates) is stale after a power loss *)
Theorem power_header_stale_refuted :
  exists os i, wf_run init os = true /\ in_txn (run init (firstn i os)) = false
    /\ vol (run init (firstn i os)) (1, 0) = Some 4
    /\ r_pages (recover Power (run init (firstn i os))) (1, 0) = Some 1.
Proof. exact power_header_stale_refuted_l. Qed.

(* the recovery the theorems speak about is the one of a database whose table ids are unique
   (recover_sh []); with a user table carrying a system table's id the frames are diverted: *)
Theorem recover_unique_ids :
  forall m s, recover_sh [] m s = recover m s.
Proof. exact recover_sh_nil_l. Qed.

Theorem power_id_collision_refuted :
  exists os i, wf_run init os = true /\ in_txn (run init (firstn i os)) = false
    /\ vol (run init (firstn i os)) (1, 1) = Some 5
    /\ r_pages (recover_sh [1] Power (run init (firstn i os))) (1, 1) = Some 2
    /\ r_pages (recover Power (run init (firstn i os))) (1, 1) = Some 5.
Proof. exact power_id_collision_refuted_l. Qed.

(* non-vacuity: a workload with two tables, autocommit statements, a transaction over both tables, a
   PRAGMA checkpoint and a Database::checkpoint() satisfies the side conditions; after it page (1,1) holds image 9 in
   the live file and in both crash images, and no page of it is outside the power-loss claim except
   the unlogged header / index pages - none after the final Database::checkpoint(), which msyncs every open file *)
Definition demo : list op :=
  [OCreate 1 1 2 3 2; OCreate 2 4 2 5 2;
   ODml 1 [(1, 1)] [BStore 1 0 6; BStore 1 1 7; BStore 101 1 8] [];
   OBegin;
   ODml 1 [(1, 1)] [BStore 1 1 9] [];
   ODml 2 [(2, 1)] [BStore 2 0 10; BStore 2 1 11; BStore 102 1 12] [];
   OCommit [1; 2];
   OCkpt [];
   ODml 2 [(2, 1)] [BStore 2 1 13; BStore 102 1 14] [BStore 2 0 15];
   OApiCkpt [1; 101; 2; 102]].

Example c01_witness :
  wf_run init demo = true
  /\ in_txn (run init demo) = false /\ quiet (run init demo) = true
  /\ vol (run init demo) (1, 1) = Some 9
  /\ r_pages (recover Kill (run init demo)) (1, 1) = Some 9
  /\ r_pages (recover Power (run init demo)) (1, 1) = Some 9
  /\ kmem (1, 1) (g_unl (ghost_run init ghost0 demo)) = false
  /\ r_pages (recover Power (run init demo)) (2, 1) = Some 13
  /\ g_unl (ghost_run init ghost0 demo) = []
  /\ quiet (at_pos demo 4 2) = false.
Proof. vm_compute. repeat split; reflexivity. Qed.

Check kill_quiet_exact : forall os, wf_run init os = true -> forall i n, quiet (at_pos os i n) = true -> forall k, r_pages (recover Kill (at_pos os i n)) k = vol (at_pos os i n) k.
Check ack_quiet : forall os, wf_run init os = true -> forall i, in_txn (run init (firstn i os)) = false -> quiet (run init (firstn i os)) = true /\ cur_du (run init (firstn i os)) = cur_fl (run init (firstn i os)).
Check ack_durable_kill : forall os, wf_run init os = true -> forall i, in_txn (run init (firstn i os)) = false -> forall k, r_pages (recover Kill (run init (firstn i os))) k = vol (run init (firstn i os)) k.
Check power_view : forall os, wf_run init os = true -> forall i n k, kmem k (g_unl (ghost_at os i n)) = false -> r_pages (recover Power (at_pos os i n)) k = g_view (ghost_at os i n) k.
Check power_quiet_exact : forall os, wf_run init os = true -> forall i n, quiet (at_pos os i n) = true -> cur_du (at_pos os i n) = cur_fl (at_pos os i n) -> forall k, kmem k (g_unl (ghost_at os i n)) = false -> r_pages (recover Power (at_pos os i n)) k = vol (at_pos os i n) k.
Check ack_durable_power : forall os, wf_run init os = true -> forall i, in_txn (run init (firstn i os)) = false -> forall k, kmem k (g_unl (ghost_run init ghost0 (firstn i os))) = false -> r_pages (recover Power (run init (firstn i os))) k = vol (run init (firstn i os)) k.
Check kill_always_opens : forall os i n, r_open (recover Kill (at_pos os i n)) = true.
Check tables_durable : forall os i n t, In t (created (firstn i os)) -> r_open (recover Power (at_pos os i n)) = true /\ In t (r_tabs (recover Power (at_pos os i n))) /\ r_open (recover Kill (at_pos os i n)) = true /\ In t (r_tabs (recover Kill (at_pos os i n))).
Check power_header_stale_refuted : exists os i, wf_run init os = true /\ in_txn (run init (firstn i os)) = false /\ vol (run init (firstn i os)) (1, 0) = Some 4 /\ r_pages (recover Power (run init (firstn i os))) (1, 0) = Some 1.
Check recover_unique_ids : forall m s, recover_sh [] m s = recover m s.
Check power_id_collision_refuted : exists os i, wf_run init os = true /\ in_txn (run init (firstn i os)) = false /\ vol (run init (firstn i os)) (1, 1) = Some 5 /\ r_pages (recover_sh [1] Power (run init (firstn i os))) (1, 1) = Some 2 /\ r_pages (recover Power (run init (firstn i os))) (1, 1) = Some 5.

Print Assumptions kill_quiet_exact.
Print Assumptions ack_quiet.
Print Assumptions ack_durable_kill.
Print Assumptions power_view.
Print Assumptions power_quiet_exact.
Print Assumptions ack_durable_power.
Print Assumptions kill_always_opens.
Print Assumptions tables_durable.
Print Assumptions power_header_stale_refuted.
Print Assumptions recover_unique_ids.
Print Assumptions power_id_collision_refuted.
