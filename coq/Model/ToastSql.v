(* C11 model, part 2: what INSERT / UPDATE / DELETE / close+reopen / SELECT do to one table
   `t (k BIGINT [PRIMARY KEY], c <TYPE>)` as far as the stored value of column c is concerned.
   Transcribed from the tree with the repairs 60cb117 (row counter restored at open), 16c5acb (detoasted
   values typed by their column), 1b44555 (UPDATE toasts under the row id), 170f3f6 (values that look
   like a TOAST pointer are stored out of line) and cc39952 (such values and TOAST-sized ones leave the
   cached insert plan to the ordinary path):
     src/database/dml/insert.rs   (row id from the per-Database counter next_row_id, which Database::open sets
                                   behind the largest stored row key; TOAST of Text/Blob values above the
                                   threshold or pointer-like, the pointer stored as a Blob; then the row
                                   insert, which fails on an existing row key)
     src/database/batch.rs        (insert_cached: a re-executed prepared INSERT stores its values inline; it is
                                   only taken when no bound value needs TOAST)
     src/database/dml/update.rs   (old TOAST chunks deleted, new chunks written under the row id of the row
                                   key; execute_update_param_only for a re-executed prepared UPDATE .. WHERE pk = ?)
     src/database/dml/delete.rs   (chunks of the deleted row removed)
     src/types/owned_value.rs     (from_record_column: is_toast_pointer decides ToastPointer vs Text/Blob)
     src/database/toast.rs        (detoast_rows: TEXT or BLOB by the type of the column the pointer names)
   The record codec itself (C31) and the scalar conversions are taken as the identity here.
   Also in this file: the property's own oracle on a history (spec_hist).  Definitions only. *)
From Coq Require Import ZArith List Bool.
From TV Require Import Lib.MachInt Gen.Toast Model.Toast Model.Utf8.
Import ListNotations.
Open Scope Z_scope.

Inductive colty := TText | TBlob | TScalar.       (* TEXT / VARCHAR ; BLOB ; every other column type *)

Inductive value :=
| VNull | VBool (b : bool) | VInt (z : Z) | VFloat (bits : Z)
| VText (b : list Z) | VBlob (b : list Z)
| VDate (z : Z) | VTime (z : Z) | VTs (z : Z) | VUuid (b : list Z) | VJsonb (b : list Z) | VVec (l : list Z)
| VPtr (b : list Z)        (* OwnedValue::ToastPointer: only ever an output *)
| VOther.

Inductive path := PL | PP | PS.                   (* literal | execute_with_params | PreparedStatement::bind..execute *)

Inductive op :=
| OIns (p : path) (k : Z) (v : value)
| OUpd (p : path) (k : Z) (v : value)
| ODel (k : Z)
| OReopen
| OQuery (shape : Z)
| OSkip.                                          (* a write whose value has no form on the chosen path: not executed *)

Inductive sobs :=
| SWrote (ok : bool)
| SRows (rows : list (Z * value))
| SQueryErr | SQueryPanic | SQueryAbort
| SReopened (ok : bool)
| SSkipped
| SNotRun                                         (* the process died at an earlier step *)
| SWeird.                                         (* anything the case language cannot express *)

(* ---- what the record holds for column c *)
Inductive stored := SNull | SBytes (b : list Z) | SScalar (v : value).
Record row := mkrow { r_rid : Z; r_k : Z; r_st : stored }.

Record state := mkst {
  next_rid : Z;            (* Database.shared.next_row_id *)
  rows : list row;         (* kept sorted by k (the order in which the harness reports them) *)
  toast : tmap;
  ins_cached : bool;       (* the session's prepared INSERT has been executed before *)
  upd_cached : bool;       (* the session's prepared UPDATE has been executed before *)
  dead : bool;             (* process aborted *)
  gone : list Z            (* row ids of deleted rows: DELETE leaves the row key in the table B-tree (a tombstone) *)
}.
Definition st0 : state := mkst 1 [] tempty false false false [].

Definition COL_C : Z := 1.                        (* column index of c *)
Definition INLINE_MAX : Z := 16311.               (* largest text/blob insert_cached can put into a leaf cell of this table *)

Fixpoint find_k (k : Z) (rs : list row) : option row :=
  match rs with [] => None | r :: t => if r_k r =? k then Some r else find_k k t end.
Fixpoint has_rid (rid : Z) (rs : list row) : bool :=
  match rs with [] => false | r :: t => (r_rid r =? rid) || has_rid rid t end.
Fixpoint ins_row (r : row) (rs : list row) : list row :=
  match rs with
  | [] => [r]
  | h :: t => if r_k r <=? r_k h then r :: rs else h :: ins_row r t
  end.
Fixpoint set_row (k : Z) (s : stored) (rs : list row) : list row :=
  match rs with
  | [] => []
  | h :: t => if r_k h =? k then mkrow (r_rid h) k s :: t else h :: set_row k s t
  end.
Fixpoint del_row (k : Z) (rs : list row) : list row :=
  match rs with [] => [] | h :: t => if r_k h =? k then t else h :: del_row k t end.

(* bytes of a Text / Blob value *)
Definition var_bytes (v : value) : option (list Z) :=
  match v with VText b => Some b | VBlob b => Some b | _ => None end.

Definition store_scalar (v : value) : stored := match v with VNull => SNull | _ => SScalar v end.

(* delete_toast_chunks for the old value, when from_record_column shows it as a ToastPointer *)
Definition drop_old (m : tmap) (s : stored) : tmap :=
  match s with SBytes b => if is_toast_pointer b then del_pointer m b else m | _ => m end.
(* does the write path send the bytes through TOAST although they are short?  INSERT asks is_toast_pointer of
   Text and Blob bytes, UPDATE of Blob bytes only (170f3f6) *)
Definition ptr_like (upd : bool) (v : value) (b : list Z) : bool :=
  match v with
  | VText _ => if upd then false else is_toast_pointer b
  | _ => is_toast_pointer b
  end.

(* toast_value as INSERT and UPDATE use it: the value as it goes into the record and the toast table
   afterwards; None = the statement fails (a chunk key is already there), the chunks written before stay *)
Definition put_value (upd : bool) (m : tmap) (row_id : Z) (v : value) : tmap * option stored :=
  match var_bytes v with
  | Some b =>
      if needs_toast b || ptr_like upd v b then
        let '(m', ok) := toast_write m (chunk_id_of row_id COL_C) b in
        (m', if ok then Some (SBytes (ptr_encode (blen b) (chunk_id_of row_id COL_C))) else None)
      else (m, Some (SBytes b))
  | None => (m, Some (store_scalar v))
  end.

(* does a bound value have to go through TOAST?  (execute_with_cached_plan: Text above the threshold, Blob above
   the threshold or pointer-like) *)
Definition wants_toast (v : value) : bool :=
  match v with
  | VText b => needs_toast b
  | VBlob b => needs_toast b || is_toast_pointer b
  | _ => false
  end.

(* insert_cached (a re-executed prepared INSERT): no TOAST; a record that does not fit a leaf cell is refused *)
Definition put_value_cached (m : tmap) (v : value) : tmap * option stored :=
  match var_bytes v with
  | Some b => if blen b <=? INLINE_MAX then (m, Some (SBytes b)) else (m, None)
  | None => (m, Some (store_scalar v))
  end.

Definition step_ins (st : state) (p : path) (k : Z) (v : value) : state * sobs :=
  (* execute_with_cached_plan (cc39952): the cached plan is skipped when a bound value wants TOAST *)
  let cached := (match p with PS => ins_cached st | _ => false end) && negb (wants_toast v) in
  let ic := match p with PS => true | _ => ins_cached st end in
  let rid := next_rid st in
  let ms := if cached then put_value_cached (toast st) v else put_value false (toast st) rid v in
  match snd ms with
  | None => (mkst (rid + 1) (rows st) (fst ms) ic (upd_cached st) (dead st) (gone st), SWrote false)
  | Some s =>
      (* the row insert: BTree::insert fails on an existing row key (live or tombstone) *)
      if has_rid rid (rows st) || existsb (Z.eqb rid) (gone st)
      then (mkst (rid + 1) (rows st) (fst ms) ic (upd_cached st) (dead st) (gone st), SWrote false)
      else (mkst (rid + 1) (ins_row (mkrow rid k s) (rows st)) (fst ms) ic (upd_cached st) (dead st) (gone st), SWrote true)
  end.

Definition step_upd (pk : bool) (st : state) (p : path) (k : Z) (v : value) : state * sobs :=
  let cached := match p with PS => upd_cached st | _ => false end in
  let uc := match p with PS => true | _ => upd_cached st end in
  let st1 := mkst (next_rid st) (rows st) (toast st) (ins_cached st) uc (dead st) (gone st) in
  match find_k k (rows st) with
  | None => (st1, SWrote true)                                         (* 0 rows affected *)
  | Some r =>
      if cached && pk then (st1, SWrote false)                         (* execute_update_param_only: "unknown record format" *)
      else
        (* delete_toast_chunks for the old pointer, then toast_value under the row id of the row key *)
        let m1 := drop_old (toast st) (r_st r) in
        let ms := put_value true m1 (r_rid r) v in
        match snd ms with
        | Some s => (mkst (next_rid st) (set_row k s (rows st)) (fst ms) (ins_cached st) uc (dead st) (gone st), SWrote true)
        | None => (mkst (next_rid st) (rows st) (fst ms) (ins_cached st) uc (dead st) (gone st), SWrote false)
        end
  end.

Definition step_del (st : state) (k : Z) : state * sobs :=
  match find_k k (rows st) with
  | None => (st, SWrote true)
  | Some r => (mkst (next_rid st) (del_row k (rows st)) (drop_old (toast st) (r_st r))
                    (ins_cached st) (upd_cached st) (dead st) (r_rid r :: gone st), SWrote true)
  end.

(* ---- SELECT: from_record_column, then detoast_rows *)
Inductive rres := ROk (v : value) | RErr | RPanic | RAbort | RUnknown.

Definition read_value (ty : colty) (m : tmap) (s : stored) : rres :=
  match s with
  | SNull => ROk VNull
  | SScalar v => ROk v
  | SBytes b =>
      if is_toast_pointer b then
        match detoast m b with
        | DOk d =>
            (* column_types.get(pointer.column_index()): the table is (k BIGINT, c ty) *)
            let is_text := match ptr_decode b with
                           | Some (t, c) => (ptr_column_index t c =? COL_C) && (match ty with TText => true | _ => false end)
                           | None => false
                           end in
            if is_text then (if valid_utf8 d then ROk (VText d) else RErr)   (* String::from_utf8(data)? *)
            else ROk (VBlob d)
        | DErr => RErr | DPanic => RPanic | DAbort => RAbort | DUnknown => RUnknown
        end
      else match ty with
           | TBlob => ROk (VBlob b)
           | _ => ROk (VText b)                   (* String::from_utf8_lossy: the identity on what a String can hold *)
           end
  end.

Fixpoint read_rows (ty : colty) (m : tmap) (rs : list row) : list (Z * rres) :=
  match rs with [] => [] | r :: t => (r_k r, read_value ty m (r_st r)) :: read_rows ty m t end.

Fixpoint all_ok (l : list (Z * rres)) : option (list (Z * value)) :=
  match l with
  | [] => Some []
  | (k, ROk v) :: t => match all_ok t with Some r => Some ((k, v) :: r) | None => None end
  | _ => None
  end.
Definition is_abort (x : Z * rres) : bool := match snd x with RAbort => true | _ => false end.
Definition is_panic (x : Z * rres) : bool := match snd x with RPanic => true | _ => false end.
Definition is_unknown (x : Z * rres) : bool := match snd x with RUnknown => true | _ => false end.

(* one failing row fails the whole SELECT; with failing rows of several kinds the first one in scan order
   decides in the implementation - the generator never mixes kinds, the model ranks them *)
Definition step_query (ty : colty) (st : state) : state * sobs :=
  let l := read_rows ty (toast st) (rows st) in
  match all_ok l with
  | Some r => (st, SRows r)
  | None =>
      if existsb is_unknown l then (st, SWeird)
      else if existsb is_abort l then (mkst (next_rid st) (rows st) (toast st) (ins_cached st) (upd_cached st) true (gone st), SQueryAbort)
      else if existsb is_panic l then (st, SQueryPanic)
      else (st, SQueryErr)
  end.

(* Database::open (restore_next_row_id, /repo 60cb117): the row counter continues after the largest row key
   stored in the table B-tree - live rows and the tombstones of deleted ones *)
Definition max_rid (st : state) : Z := fold_left Z.max (map r_rid (rows st) ++ gone st) 0.
Definition step_reopen (st : state) : state * sobs :=
  (mkst (Z.max 1 (max_rid st + 1)) (rows st) (toast st) false false (dead st) (gone st), SReopened true).

Definition step (ty : colty) (pk : bool) (st : state) (o : op) : state * sobs :=
  if dead st then (st, SNotRun) else
  match o with
  | OIns p k v => step_ins st p k v
  | OUpd p k v => step_upd pk st p k v
  | ODel k => step_del st k
  | OReopen => step_reopen st
  | OQuery _ => step_query ty st
  | OSkip => (st, SSkipped)
  end.

Fixpoint run_from (ty : colty) (pk : bool) (st : state) (ops : list op) : state * list sobs :=
  match ops with
  | [] => (st, [])
  | o :: t => let '(st1, ob) := step ty pk st o in
              let '(st2, obs) := run_from ty pk st1 t in (st2, ob :: obs)
  end.
Definition run (ty : colty) (pk : bool) (ops : list op) : list sobs := snd (run_from ty pk st0 ops).
Definition final (ty : colty) (pk : bool) (ops : list op) : state := fst (run_from ty pk st0 ops).

(* ================================================================ the property's oracle *)
Definition value_eqb (a b : value) : bool :=
  match a, b with
  | VNull, VNull => true
  | VBool x, VBool y => Bool.eqb x y
  | VInt x, VInt y => x =? y
  | VFloat x, VFloat y => x =? y
  | VText x, VText y => zlist_eqb x y
  | VBlob x, VBlob y => zlist_eqb x y
  | VDate x, VDate y => x =? y
  | VTime x, VTime y => x =? y
  | VTs x, VTs y => x =? y
  | VUuid x, VUuid y => zlist_eqb x y
  | VJsonb x, VJsonb y => zlist_eqb x y
  | VVec x, VVec y => zlist_eqb x y
  | VPtr x, VPtr y => zlist_eqb x y
  | _, _ => false                                  (* VOther equals nothing, itself included *)
  end.

Fixpoint rows_eqb (a b : list (Z * value)) : bool :=
  match a, b with
  | [], [] => true
  | (k, v) :: a', (k', v') :: b' => (k =? k') && value_eqb v v' && rows_eqb a' b'
  | _, _ => false
  end.

(* expected contents: key -> the value of the last write that reported success; sorted by key *)
Fixpoint exp_ins (k : Z) (v : value) (e : list (Z * value)) : list (Z * value) :=
  match e with
  | [] => [(k, v)]
  | (k', v') :: t => if k <=? k' then (k, v) :: e else (k', v') :: exp_ins k v t
  end.
Fixpoint exp_set (k : Z) (v : value) (e : list (Z * value)) : list (Z * value) :=
  match e with
  | [] => []
  | (k', v') :: t => if k' =? k then (k, v) :: t else (k', v') :: exp_set k v t
  end.
Fixpoint exp_del (k : Z) (e : list (Z * value)) : list (Z * value) :=
  match e with [] => [] | (k', v') :: t => if k' =? k then t else (k', v') :: exp_del k t end.

(* every SELECT must show exactly the values whose writes succeeded, each with its type and bytes;
   a write that reports failure must leave the stored values alone (it is not counted as written) *)
Fixpoint spec_from (e : list (Z * value)) (steps : list (op * sobs)) : bool :=
  match steps with
  | [] => true
  | (o, ob) :: t =>
      match o, ob with
      | OIns _ k v, SWrote true => spec_from (exp_ins k v e) t
      | OUpd _ k v, SWrote true => spec_from (exp_set k v e) t
      | ODel k, SWrote true => spec_from (exp_del k e) t
      | OIns _ _ _, SWrote false | OUpd _ _ _, SWrote false | ODel _, SWrote false => spec_from e t
      | OReopen, SReopened true => spec_from e t
      | OSkip, SSkipped => spec_from e t
      | OQuery _, SRows r => rows_eqb r e && spec_from e t
      | _, _ => false
      end
  end.
Definition spec_hist (ops : list op) (obs : list sobs) : bool :=
  (length ops =? length obs)%nat && spec_from [] (combine ops obs).

(* ================================================================ histories the theorem speaks about *)
Definition val_ok (ty : colty) (v : value) : bool :=
  match ty, v with
  | _, VNull => true
  | TText, VText b => valid_utf8 b && (blen b <? ALLOC_OK)
  | TBlob, VBlob b => blen b <? ALLOC_OK
  | TScalar, (VText _ | VBlob _ | VPtr _ | VOther) => false
  | TScalar, _ => true
  | _, _ => false
  end.

Definition op_ok (ty : colty) (o : op) : bool :=
  match o with
  | OIns _ k v => val_ok ty v
  | OUpd _ k v => val_ok ty v
  | _ => true
  end.

Fixpoint ins_keys (ops : list op) : list Z :=
  match ops with [] => [] | OIns _ k _ :: t => k :: ins_keys t | _ :: t => ins_keys t end.
Fixpoint nodup_z (l : list Z) : bool :=
  match l with [] => true | x :: t => negb (existsb (Z.eqb x) t) && nodup_z t end.

(* values fit the column; no key is inserted twice; fewer than 2^47 steps (row ids stay below 2^48, where
   chunk ids are injective) *)
Definition wf_hist (ty : colty) (ops : list op) : bool :=
  forallb (op_ok ty) ops && nodup_z (ins_keys ops) && (Z.of_nat (length ops) <? 2 ^ 47).
