(* C36 proofs, part 8: the comparer's own predicates (Corr/C36.v).  Where the implementation did
   what the model (repaired cleanup, fx = true) predicts, the occupancy counters observed at every
   step satisfy the exclusion clause of the oracle, and if nobody is left blocked both lock tables
   were reported empty. *)
From Coq Require Import ZArith List Bool Arith Lia.
From TV Require Import Lib.Interleave Model.PageLocks Proof.PageLocksBase Proof.PageLocksStep
  Proof.PageLocksShape Proof.PageLocksInv Proof.PageLocks Proof.PageLocksTable Corr.C36.
Import ListNotations.
Open Scope Z_scope.

Lemma inv_run fx sched s : Inv s -> Inv (run (step fx) sched s).
Proof.
  revert s; induction sched as [|t r IH]; intros s I; cbn [run]; auto.
  destruct (step fx t s) eqn:E; [apply IH; eapply step_inv; eauto | apply IH; auto].
Qed.

Lemma step_bad_mono fx t s s' : step fx t s = Some s' -> s_bad (sh s') = false -> s_bad (sh s) = false.
Proof.
  unfold step. destruct (lget (ths s) t) as [th|]; [|discriminate].
  destruct (tstep fx (sh s) th) as [[sh' th']|] eqn:Hstep; [|discriminate].
  intros H Hb. inversion H; subst. cbn [sh] in Hb.
  destruct (step_map_effect _ _ _ _ _ Hstep) as [_ E _ | w k _ _ E _ _ _ _ | k e _ _ _ _ E]; [congruence | congruence | apply E; auto].
Qed.

Lemma run_bad_mono fx sched s : s_bad (sh (run (step fx) sched s)) = false -> s_bad (sh s) = false.
Proof.
  revert s; induction sched as [|t r IH]; intros s H; cbn [run] in H; auto.
  destruct (step fx t s) eqn:E; [eapply step_bad_mono; eauto | auto].
Qed.

Lemma settle_is_run fx ids s : exists sched, fst (settle fx ids s) = run (step fx) sched s.
Proof.
  revert s; induction ids as [|u r IH]; intros s; cbn [settle]; [exists []; reflexivity|].
  destruct (lget (ths s) u) as [th|]; [|apply IH].
  destruct (is_blocked_pc (th_pc th)); [|apply IH].
  destruct (run_until_is_run St (step fx) at_site fuel u s) as [s1 H1].
  destruct (IH (run_until (step fx) at_site fuel u s)) as [s2 H2].
  destruct (settle fx r (run_until (step fx) at_site fuel u s)) as [a b] eqn:E. cbn [fst] in *.
  exists (s1 ++ s2). rewrite run_app, <- H1. exact H2.
Qed.

Lemma simulate_is_run fx steps s : exists sched, fst (simulate fx steps s) = run (step fx) sched s.
Proof.
  revert s; induction steps as [|[t out woke occ] r IH]; intros s; cbn [simulate]; [exists []; reflexivity|].
  destruct (run_until_is_run St (step fx) at_site fuel (Z.to_nat t) s) as [s1 H1].
  set (a := run_until (step fx) at_site fuel (Z.to_nat t) s) in *.
  destruct (settle_is_run fx (ids_of a) a) as [s2 H2].
  destruct (settle fx (ids_of a) a) as [b wk] eqn:E. cbn [fst] in H2.
  destruct (IH b) as [s3 H3]. destruct (simulate fx r b) as [c ok3] eqn:E3. cbn [fst] in *.
  exists (s1 ++ s2 ++ s3). rewrite !run_app, <- H1, <- H2. exact H3.
Qed.

Lemma list_eqb_trip a b : list_eqb trip_eqb a b = true -> a = b.
Proof.
  revert b; induction a as [|[x1 x2 x3] a IH]; intros [|[y1 y2 y3] b]; cbn [list_eqb]; try discriminate; auto.
  intros H. apply andb_prop in H. destruct H as [H1 H2]. rewrite (IH _ H2).
  unfold trip_eqb in H1.
  apply andb_prop in H1. destruct H1 as [H1 H3]. apply andb_prop in H1. destruct H1 as [H1 H4].
  apply Z.eqb_eq in H1. apply Z.eqb_eq in H3. apply Z.eqb_eq in H4. subst. reflexivity.
Qed.

Lemma count_flat_map P (l : list (nat * thread)) :
  length (filter P (flat_map (fun p => th_pg (snd p)) l)) = tsum (fun th => length (filter P (th_pg th))) l.
Proof.
  induction l as [|[t th] r IH]; cbn [flat_map tsum snd]; auto. rewrite filter_app, app_length, IH. reflexivity.
Qed.

Lemma occupancy_ok s : mutual_exclusion s -> occ_ok (occupancy s) = true.
Proof.
  intros ME. unfold occupancy, occ_ok. rewrite forallb_forall. intros x Hx.
  apply in_map_iff in Hx. destruct Hx as (k & <- & _).
  destruct (ME k) as [Hw Hr]. unfold writers, readers in *.
  assert (Cw : (length (filter (g_holds true k) (all_guards s)) <= tsum (th_holds true k) (ths s))%nat).
  { unfold all_guards. rewrite count_flat_map. apply tsum_le. intros t v _. unfold th_holds. lia. }
  assert (Cr : (length (filter (g_holds false k) (all_guards s)) <= tsum (th_holds false k) (ths s))%nat).
  { unfold all_guards. rewrite count_flat_map. apply tsum_le. intros t v _. unfold th_holds. lia. }
  unfold count_g. apply andb_true_intro. split; [apply Z.leb_le; lia|].
  apply orb_true_iff.
  destruct (Nat.eq_dec (length (filter (g_holds true k) (all_guards s))) 0) as [E|E].
  - left. apply Z.eqb_eq. lia.
  - right. apply Z.eqb_eq. assert (tsum (th_holds true k) (ths s) = 1)%nat by lia. specialize (Hr H). lia.
Qed.

Lemma simulate_occ_ok steps : forall s sf,
  Inv s -> simulate true steps s = (sf, true) -> s_bad (sh sf) = false ->
  forallb (fun st => occ_ok (so_occ st)) steps = true.
Proof.
  induction steps as [|[t out woke occ] r IH]; intros s sf I Hsim Hb; cbn [forallb so_occ]; auto.
  cbn [simulate] in Hsim.
  set (a := run_until (step true) at_site fuel (Z.to_nat t) s) in *.
  assert (Ia : Inv a).
  { destruct (run_until_is_run St (step true) at_site fuel (Z.to_nat t) s) as [s1 H1]. unfold a. rewrite H1. apply inv_run; auto. }
  destruct (settle_is_run true (ids_of a) a) as [s2 H2].
  destruct (settle true (ids_of a) a) as [b wk] eqn:E. cbn [fst] in H2.
  assert (Ib : Inv b) by (rewrite H2; apply inv_run; auto).
  destruct (simulate_is_run true r b) as [s3 H3].
  destruct (simulate true r b) as [c ok3] eqn:E3. cbn [fst] in H3.
  injection Hsim as Hc Hall. rewrite <- Hc in Hb. clear Hc.
  apply andb_prop in Hall. destruct Hall as [Hok Hok3].
  subst ok3. apply andb_prop in Hok. destruct Hok as [_ Hocc].
  assert (Hbb : s_bad (sh b) = false) by (rewrite H3 in Hb; eapply run_bad_mono; eauto).
  apply andb_true_intro. split; [|eapply IH; eauto].
  rewrite <- (list_eqb_trip _ _ Hocc). apply occupancy_ok. apply inv_mutual_exclusion; auto.
Qed.

Lemma quiescent_unblocked_done s : quiescent s = true -> blocked_of s = [] -> all_done s.
Proof.
  unfold quiescent, blocked_of, all_done. intros Hq Hb t th Hin.
  rewrite forallb_forall in Hq. specialize (Hq _ Hin). cbn [snd] in Hq.
  apply orb_true_iff in Hq. destruct Hq as [Hq|Hq]; auto. exfalso.
  assert (Hnil : forall (l : list (nat * thread)) (f : nat * thread -> list bl), flat_map f l = [] -> forall x, In x l -> f x = [])
    by (intros l f H x Hx; induction l as [|y l IHl]; [destruct Hx|]; cbn [flat_map] in H;
        apply app_eq_nil in H; destruct H as [H1 H2]; destruct Hx as [->|Hx]; auto).
  specialize (Hnil _ _ Hb _ Hin). cbn [fst snd] in Hnil.
  destruct (th_pc th); cbn in Hq; try discriminate; discriminate Hnil.
Qed.

Lemma blk_eqb_nil a : list_eqb blk_eqb a [] = true -> a = [].
Proof. destruct a; [reflexivity | discriminate]. Qed.

Lemma agreeing_case_satisfies_property_l : forall progs steps f,
  model_agrees (Case progs steps f) = true ->
  forallb (fun st => occ_ok (so_occ st)) steps = true /\
  match f with FComplete _ _ _ [] np nt => np = 0 /\ nt = 0 | _ => True end.
Proof.
  intros progs steps f Ha. unfold model_agrees in Ha.
  destruct (simulate_is_run true steps (start progs)) as [sched Hrun].
  destruct (simulate true steps (start progs)) as [sf ok] eqn:E. cbn [fst] in Hrun.
  apply andb_prop in Ha. destruct Ha as [Hok Hfin]. subst ok.
  assert (Hb : s_bad (sh sf) = false) by (rewrite Hrun; apply bad_never_fx).
  split; [eapply simulate_occ_ok; eauto; apply inv_init|].
  destruct f as [a ct ta bl np nt|]; auto. destruct bl as [|b bl]; auto.
  repeat (apply andb_prop in Hfin; destruct Hfin as [Hfin ?]).
  match goal with H : list_eqb blk_eqb _ [] = true |- _ => apply blk_eqb_nil in H; rename H into Hbl end.
  match goal with H : quiescent _ = true |- _ => rename H into Hq end.
  unfold start in Hrun. assert (Hd := quiescent_unblocked_done _ Hq Hbl). rewrite Hrun in Hd.
  assert (M1 := map_empty_when_done_l true _ _ Hd). assert (M2 := table_map_empty_when_done_l true _ _ Hd).
  rewrite <- Hrun in M1, M2.
  repeat match goal with H : (_ =? _) = true |- _ => apply Z.eqb_eq in H end.
  rewrite M1 in *. rewrite M2 in *. cbn [length] in *. split; lia.
Qed.
