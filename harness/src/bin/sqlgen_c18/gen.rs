//! Generators, run statistics and the (rough) finding classes for C18.
#![allow(dead_code)]
use crate::sqlgen::*;
use crate::subq::*;
use tvh::Rng;

// ------------------------------------------------------------------ databases
#[derive(Clone, Debug)]
pub struct DbCfg {
    pub ntables: usize,
    pub max_cols: usize,      // besides id
    pub max_rows: usize,
    pub null_pct: u64,
    pub text_cols: bool,      // may some column be TEXT
    pub dup_pct: u64,         // chance that a row repeats the non-id cells of an earlier row
    pub domain: i64,          // integer cells are drawn from 0..domain
}

/// the streams: (name, database shape)
pub fn stream_cfg(k: usize) -> (&'static str, DbCfg) {
    let base = DbCfg { ntables: 3, max_cols: 3, max_rows: 6, null_pct: 25, text_cols: false, dup_pct: 30, domain: 4 };
    match k % 10 {
        0 | 1 => ("setops", DbCfg { text_cols: true, dup_pct: 45, max_rows: 7, ..base }),
        2 => ("where1", DbCfg { null_pct: 20, ..base }),
        3 => ("where1", DbCfg { null_pct: 0, dup_pct: 20, ..base }),
        4 | 5 => ("wheretree", base),
        6 => ("sellist", base),
        7 => ("from", DbCfg { max_rows: 5, ..base }),
        8 => if k % 20 == 8 { ("mixed", DbCfg { text_cols: true, ..base }) } else { ("odd", DbCfg { text_cols: true, null_pct: 35, max_rows: 4, ..base }) },
        _ => ("nullrich", DbCfg { null_pct: 55, max_rows: 5, ..base }),
    }
}

const TEXTS: [&str; 4] = ["a", "b", "", "ab"];

/// column i (i >= 1) has the same type in every table of the database: `tys[i]`
pub fn gen_db(rng: &mut Rng, cfg: &DbCfg) -> Db {
    let mut tys = vec![ColTy::Int];
    for _ in 0..cfg.max_cols { tys.push(if cfg.text_cols && rng.chance(1, 4) { ColTy::Text } else { ColTy::Int }); }
    let mut tables = vec![];
    for k in 0..cfg.ntables {
        let ncols = 1 + rng.below(cfg.max_cols as u64) as usize;
        let cols: Vec<ColTy> = tys[..=ncols].to_vec();
        let nrows = match rng.below(12) { 0 => 0, 1 => 1, _ => 1 + rng.below(cfg.max_rows as u64) as usize };
        let mut rows: Vec<Vec<Val>> = vec![];
        for r in 0..nrows {
            let mut row = vec![Val::Int(r as i64 + 1)];
            if r > 0 && rng.below(100) < cfg.dup_pct {
                let src = rows[rng.below(r as u64) as usize].clone();
                row.extend_from_slice(&src[1..]);
            } else {
                for c in 1..cols.len() {
                    if rng.below(100) < cfg.null_pct { row.push(Val::Null); }
                    else {
                        row.push(match cols[c] {
                            ColTy::Text => Val::text(*rng.pick(&TEXTS)),
                            _ => Val::Int(rng.below(cfg.domain as u64) as i64),
                        });
                    }
                }
            }
            rows.push(row);
        }
        tables.push(Table { name: format!("t{}", k), cols, rows });
    }
    Db { tables }
}

// ------------------------------------------------------------------ scopes for generation
#[derive(Clone, Debug)]
pub struct GScope { pub names: Vec<String>, pub tys: Vec<ColTy> }

fn base_scope(d: &Db, k: usize) -> GScope {
    let t = &d.tables[k];
    GScope { names: (0..t.cols.len()).map(col_name).collect(), tys: t.cols.clone() }
}

#[derive(Clone, Debug)]
pub struct QCfg {
    pub corr_pct: u64,       // chance that a column reference inside a subquery goes to an outer level
    pub unqual_pct: u64,     // chance that a reference is written without its alias (when SQL scoping allows)
    pub arith_pct: u64,
    pub null_lit_pct: u64,
    pub mismatch_pct: u64,   // chance that an operand is of another type than its context wants (outside the reference)
}
impl Default for QCfg { fn default() -> Self { QCfg { corr_pct: 30, unqual_pct: 12, arith_pct: 8, null_lit_pct: 4, mismatch_pct: 0 } } }

/// a column reference of type `ty` visible in `sc` (innermost first); None if there is none
fn gen_col(rng: &mut Rng, sc: &[GScope], ty: ColTy, qc: &QCfg, allow_outer: bool) -> Option<Sx> {
    let mut lvl = 0usize;
    if allow_outer && sc.len() > 1 && rng.below(100) < qc.corr_pct { lvl = 1 + rng.below((sc.len() - 1) as u64) as usize; }
    for _ in 0..2 {
        let cands: Vec<usize> = (0..sc[lvl].tys.len()).filter(|i| sc[lvl].tys[*i] == ty).collect();
        if !cands.is_empty() {
            let i = *rng.pick(&cands);
            let name = &sc[lvl].names[i];
            let hidden = (0..lvl).any(|l| sc[l].names.contains(name));
            let unique = sc[lvl].names.iter().filter(|n| *n == name).count() == 1;
            let qual = !(rng.below(100) < qc.unqual_pct && !hidden && unique);
            return Some(Sx::Col { lvl, i, qual });
        }
        lvl = 0;
    }
    None
}

fn gen_lit(rng: &mut Rng, ty: ColTy, qc: &QCfg) -> Sx {
    if rng.below(100) < qc.null_lit_pct { return Sx::Lit(Val::Null); }
    match ty {
        ColTy::Text => Sx::Lit(Val::text(*rng.pick(&TEXTS))),
        _ => Sx::Lit(Val::Int(rng.below(5) as i64)),
    }
}

/// a scalar operand of type `ty`
fn gen_scalar(rng: &mut Rng, sc: &[GScope], ty: ColTy, qc: &QCfg, allow_outer: bool) -> Sx {
    let ty = if rng.below(100) < qc.mismatch_pct { if ty == ColTy::Int { ColTy::Text } else { ColTy::Int } } else { ty };
    let k = rng.below(100);
    if k < 62 { if let Some(c) = gen_col(rng, sc, ty, qc, allow_outer) { return c; } }
    if ty == ColTy::Int && k >= 62 && k < 62 + qc.arith_pct {
        let op = *rng.pick(&[ArithOp::Add, ArithOp::Sub]);
        let a = gen_col(rng, sc, ColTy::Int, qc, allow_outer).unwrap_or(Sx::int(1));
        return Sx::Arith(op, Box::new(a), Box::new(Sx::int(rng.below(3) as i64)));
    }
    gen_lit(rng, ty, qc)
}

fn pick_ty(rng: &mut Rng, sc: &[GScope]) -> ColTy {
    let has_text = sc[0].tys.iter().any(|t| *t == ColTy::Text);
    if has_text && rng.chance(1, 4) { ColTy::Text } else { ColTy::Int }
}

/// a predicate without subqueries over the scopes
pub fn gen_simple(rng: &mut Rng, sc: &[GScope], qc: &QCfg, depth: usize, allow_outer: bool) -> Sx {
    if depth == 0 || rng.chance(1, 3) {
        let ty = pick_ty(rng, sc);
        return match rng.below(100) {
            0..=69 => {
                let a = gen_col(rng, sc, ty, qc, allow_outer).unwrap_or_else(|| gen_lit(rng, ty, qc));
                Sx::cmp(*rng.pick(&CmpOp::all()), a, gen_scalar(rng, sc, ty, qc, allow_outer))
            }
            _ => Sx::IsNull(rng.chance(1, 2), Box::new(gen_col(rng, sc, ty, qc, allow_outer).unwrap_or_else(|| gen_lit(rng, ty, qc)))),
        };
    }
    match rng.below(100) {
        0..=44 => Sx::and(gen_simple(rng, sc, qc, depth - 1, allow_outer), gen_simple(rng, sc, qc, depth - 1, allow_outer)),
        45..=84 => Sx::or(gen_simple(rng, sc, qc, depth - 1, allow_outer), gen_simple(rng, sc, qc, depth - 1, allow_outer)),
        _ => Sx::not(gen_simple(rng, sc, qc, depth - 1, allow_outer)),
    }
}

/// how the WHERE of a subquery is shaped
#[derive(Clone, Copy, Debug, PartialEq)]
pub enum WShape { None, Simple, Tree }

/// SELECT <one column of type ty> FROM t_k AS q [WHERE ...] usable as IN / scalar / EXISTS operand;
/// `budget` = how many further subquery levels may be nested below
fn gen_subq(rng: &mut Rng, d: &Db, outer: &[GScope], ty: ColTy, qc: &QCfg, budget: usize, wshape: WShape) -> Qry {
    // a table that has a column of the wanted type
    let cands: Vec<usize> = (0..d.tables.len()).filter(|k| d.tables[*k].cols.iter().skip(1).any(|t| *t == ty) || ty == ColTy::Int).collect();
    let k = *rng.pick(&cands);
    let own = base_scope(d, k);
    let mut sc = vec![own];
    sc.extend_from_slice(outer);
    let item = {
        let idx: Vec<usize> = (0..sc[0].tys.len()).filter(|i| sc[0].tys[*i] == ty && (*i > 0 || rng.chance(1, 6))).collect();
        let i = if idx.is_empty() { 0 } else { *rng.pick(&idx) };
        Sx::Col { lvl: 0, i, qual: !(rng.below(100) < qc.unqual_pct) }
    };
    let w = match wshape {
        WShape::None => None,
        WShape::Simple => Some(gen_simple(rng, &sc, qc, 1, true)),
        WShape::Tree => Some(gen_pred(rng, d, &sc, qc, 2, budget, true)),
    };
    Qry::Sel { items: vec![item], src: Src::Base(k), w }
}

fn gen_wshape(rng: &mut Rng, budget: usize) -> WShape {
    match rng.below(100) { 0..=24 => WShape::None, 25..=69 => WShape::Simple, _ => if budget > 0 { WShape::Tree } else { WShape::Simple } }
}

/// a subquery atom: IN / NOT IN / EXISTS / NOT EXISTS / comparison with a scalar subquery
pub fn gen_sub_atom(rng: &mut Rng, d: &Db, sc: &[GScope], qc: &QCfg, budget: usize, allow_outer: bool) -> Sx {
    let ty = pick_ty(rng, sc);
    let b = budget.saturating_sub(1);
    match rng.below(100) {
        0..=34 => {
            let a = gen_scalar(rng, sc, ty, qc, allow_outer);
            let ws = gen_wshape(rng, b);
            Sx::In(rng.chance(2, 5), Box::new(a), Box::new(gen_subq(rng, d, sc, ty, qc, b, ws)))
        }
        35..=64 => {
            let ws = match rng.below(10) { 0 => WShape::None, 1..=6 => WShape::Simple, _ => if b > 0 { WShape::Tree } else { WShape::Simple } };
            Sx::Exists(rng.chance(2, 5), Box::new(gen_subq(rng, d, sc, ty, qc, b, ws)))
        }
        _ => {
            let a = gen_scalar(rng, sc, ty, qc, allow_outer);
            let ws = gen_wshape(rng, b);
            let q = gen_subq(rng, d, sc, ty, qc, b, ws);
            if rng.chance(1, 8) { Sx::IsNull(rng.chance(1, 2), Box::new(Sx::Scalar(Box::new(q)))) }
            else if rng.chance(1, 2) { Sx::cmp(*rng.pick(&CmpOp::all()), a, Sx::Scalar(Box::new(q))) }
            else { Sx::cmp(*rng.pick(&CmpOp::all()), Sx::Scalar(Box::new(q)), a) }
        }
    }
}

/// a predicate that may contain subquery atoms (budget = subquery nesting still allowed)
pub fn gen_pred(rng: &mut Rng, d: &Db, sc: &[GScope], qc: &QCfg, depth: usize, budget: usize, allow_outer: bool) -> Sx {
    if depth == 0 || rng.chance(1, 3) {
        if budget > 0 && rng.chance(3, 5) { return gen_sub_atom(rng, d, sc, qc, budget, allow_outer); }
        return gen_simple(rng, sc, qc, 0, allow_outer);
    }
    match rng.below(100) {
        0..=49 => Sx::and(gen_pred(rng, d, sc, qc, depth - 1, budget, allow_outer), gen_pred(rng, d, sc, qc, depth - 1, budget, allow_outer)),
        50..=84 => Sx::or(gen_pred(rng, d, sc, qc, depth - 1, budget, allow_outer), gen_pred(rng, d, sc, qc, depth - 1, budget, allow_outer)),
        _ => Sx::not(gen_pred(rng, d, sc, qc, depth - 1, budget, allow_outer)),
    }
}

/// plain columns of the scope as a select list (1..3 columns, distinct)
fn gen_items(rng: &mut Rng, sc: &GScope, n: usize, qc: &QCfg, skip_id: bool) -> Vec<Sx> {
    let mut idx: Vec<usize> = (0..sc.names.len()).filter(|i| !(skip_id && *i == 0 && sc.names.len() > 1)).collect();
    // shuffle
    for i in (1..idx.len()).rev() { let j = rng.below(i as u64 + 1) as usize; idx.swap(i, j); }
    idx.truncate(n.max(1));
    idx.into_iter().map(|i| Sx::Col { lvl: 0, i, qual: !(rng.below(100) < qc.unqual_pct) }).collect()
}

/// a leaf of a set-operation chain: SELECT c_i.. FROM t_k WHERE simple; every leaf of a chain uses
/// the same column indexes (same types), so that the operands are compatible
fn gen_leaf(rng: &mut Rng, d: &Db, cols: &[usize], qc: &QCfg, sub_pct: u64) -> Qry {
    let cands: Vec<usize> = (0..d.tables.len()).filter(|k| cols.iter().all(|c| *c < d.tables[*k].cols.len())).collect();
    let k = *rng.pick(&cands);
    let sc = vec![base_scope(d, k)];
    let items = cols.iter().map(|i| Sx::Col { lvl: 0, i: *i, qual: !(rng.below(100) < qc.unqual_pct) }).collect();
    let w = if rng.below(100) < sub_pct { gen_pred(rng, d, &sc, qc, 1, 1, false) }
            else if rng.chance(1, 2) { Sx::cmp(CmpOp::Gt, Sx::Col { lvl: 0, i: 0, qual: true }, Sx::int(0)) }   // always TRUE: the whole table
            else { gen_simple(rng, &sc, qc, 1, false) };
    Qry::Sel { items, src: Src::Base(k), w: Some(w) }
}

fn gen_setop(rng: &mut Rng) -> (SetK, bool) {
    (*rng.pick(&[SetK::Union, SetK::Union, SetK::Intersect, SetK::Except]), rng.chance(2, 5))
}

pub fn gen_chain(rng: &mut Rng, d: &Db, qc: &QCfg, sub_pct: u64) -> Chain {
    let minw = d.tables.iter().map(|t| t.cols.len()).min().unwrap_or(1);
    // columns every table has (so every table can be a leaf), sometimes including id
    let mut cols: Vec<usize> = vec![];
    let n = 1 + rng.below(2) as usize;
    for _ in 0..n {
        let c = if minw > 1 { 1 + rng.below((minw - 1) as u64) as usize } else { 0 };
        if !cols.contains(&c) { cols.push(c); }
    }
    if rng.chance(1, 10) && !cols.contains(&0) { cols.push(0); }
    let nops = match rng.below(10) { 0..=5 => 1, 6..=8 => 2, _ => 3 };
    let first = gen_leaf(rng, d, &cols, qc, sub_pct);
    let mut rest = vec![];
    for _ in 0..nops { let (k, all) = gen_setop(rng); rest.push((k, all, gen_leaf(rng, d, &cols, qc, sub_pct))); }
    Chain { first, rest }
}

/// nested derived tables: SELECT .. FROM (SELECT .. FROM (...) AS q WHERE ..) AS q WHERE ..
fn gen_derived(rng: &mut Rng, d: &Db, qc: &QCfg, levels: usize, top_sub: bool) -> Qry {
    fn inner(rng: &mut Rng, d: &Db, qc: &QCfg, levels: usize) -> (Qry, GScope) {
        if levels == 0 {
            let k = rng.below(d.tables.len() as u64) as usize;
            let sc = base_scope(d, k);
            let n = 1 + rng.below(sc.names.len() as u64) as usize;
            let items = gen_items(rng, &sc, n, qc, false);
            let w = gen_simple(rng, &[sc.clone()], qc, 1, false);
            let out = GScope { names: items.iter().map(|it| match it { Sx::Col { i, .. } => sc.names[*i].clone(), _ => "x".into() }).collect(),
                               tys: items.iter().map(|it| match it { Sx::Col { i, .. } => sc.tys[*i], _ => ColTy::Int }).collect() };
            (Qry::Sel { items, src: Src::Base(k), w: Some(w) }, out)
        } else {
            let (q, sc) = inner(rng, d, qc, levels - 1);
            let n = 1 + rng.below(sc.names.len() as u64) as usize;
            let items = gen_items(rng, &sc, n, qc, false);
            let w = gen_simple(rng, &[sc.clone()], qc, 1, false);
            let out = GScope { names: items.iter().map(|it| match it { Sx::Col { i, .. } => sc.names[*i].clone(), _ => "x".into() }).collect(),
                               tys: items.iter().map(|it| match it { Sx::Col { i, .. } => sc.tys[*i], _ => ColTy::Int }).collect() };
            (Qry::Sel { items, src: Src::Sub(Box::new(q)), w: Some(w) }, out)
        }
    }
    let (q, sc) = inner(rng, d, qc, levels.saturating_sub(1));
    let n = 1 + rng.below(sc.names.len() as u64) as usize;
    let items = gen_items(rng, &sc, n, qc, false);
    let scs = vec![sc];
    let w = if top_sub { gen_pred(rng, d, &scs, qc, 1, 1, false) } else { gen_simple(rng, &scs, qc, 1, false) };
    Qry::Sel { items, src: Src::Sub(Box::new(q)), w: Some(w) }
}

/// one statement of the named stream over the database
pub fn gen_case(rng: &mut Rng, d: &Db, stream: &str) -> Chain {
    // `odd`: ill-typed operands (text against integers), many NULL literals, arithmetic: mostly
    // outside the reference semantics (no demand) -- only "no panic" and the model are checked
    let qc = if stream == "odd" { QCfg { mismatch_pct: 30, null_lit_pct: 20, arith_pct: 20, ..QCfg::default() } } else { QCfg::default() };
    let top = |rng: &mut Rng| -> (usize, Vec<GScope>) { let k = rng.below(d.tables.len() as u64) as usize; (k, vec![base_scope(d, k)]) };
    match stream {
        "setops" => gen_chain(rng, d, &qc, 0),
        "odd" => if rng.chance(1, 3) { gen_chain(rng, d, &qc, 10) } else {
            let (k, sc) = top(rng);
            let items = { let n = 1 + rng.below(2) as usize; gen_items(rng, &sc[0], n, &qc, false) };
            let w = gen_pred(rng, d, &sc, &qc, 1, 2, false);
            Chain::single(Qry::Sel { items, src: Src::Base(k), w: Some(w) })
        },
        "mixed" => match rng.below(3) {
            0 => gen_chain(rng, d, &qc, 35),
            1 => { let lv = 1 + rng.below(2) as usize; Chain::single(gen_derived(rng, d, &qc, lv, true)) }
            _ => {
                let (k, sc) = top(rng);
                let mut items = { let n = 1 + rng.below(2) as usize; gen_items(rng, &sc[0], n, &qc, false) };
                let ty = ColTy::Int;
                let ws = gen_wshape(rng, 1);
                items.push(Sx::Scalar(Box::new(gen_subq(rng, d, &sc, ty, &qc, 1, ws))));
                Chain::single(Qry::Sel { items, src: Src::Base(k), w: Some(gen_pred(rng, d, &sc, &qc, 1, 2, false)) })
            }
        },
        "where1" => {
            // the WHERE clause is one subquery atom, or one atom AND a simple predicate
            let (k, sc) = top(rng);
            let items = { let n = 1 + rng.below(2) as usize; gen_items(rng, &sc[0], n, &qc, false) };
            let qc1 = QCfg { corr_pct: 45, ..qc.clone() };
            let atom = gen_sub_atom(rng, d, &sc, &qc1, 1, false);
            let w = match rng.below(10) { 0 => Sx::and(atom, gen_simple(rng, &sc, &qc, 0, false)), 1 => Sx::and(gen_simple(rng, &sc, &qc, 0, false), atom), _ => atom };
            Chain::single(Qry::Sel { items, src: Src::Base(k), w: Some(w) })
        }
        "sellist" => {
            let (k, sc) = top(rng);
            let mut items = { let n = 1 + rng.below(2) as usize; gen_items(rng, &sc[0], n, &qc, false) };
            let ty = pick_ty(rng, &sc);
            let ws = gen_wshape(rng, 1);
            let q = gen_subq(rng, d, &sc, ty, &qc, 1, ws);
            let it = match rng.below(4) {
                0 => Sx::In(rng.chance(1, 2), Box::new(gen_scalar(rng, &sc, ty, &qc, false)), Box::new(q)),
                1 => Sx::Exists(rng.chance(1, 2), Box::new(q)),
                _ => Sx::Scalar(Box::new(q)),
            };
            let pos = rng.below(items.len() as u64 + 1) as usize;
            items.insert(pos, it);
            let w = if rng.chance(1, 4) { gen_pred(rng, d, &sc, &qc, 1, 1, false) } else { gen_simple(rng, &sc, &qc, 1, false) };
            Chain::single(Qry::Sel { items, src: Src::Base(k), w: Some(w) })
        }
        "from" => { let lv = 1 + rng.below(3) as usize; let ts = rng.chance(1, 4); Chain::single(gen_derived(rng, d, &qc, lv, ts)) }
        _ => {
            // wheretree / nullrich: boolean trees over subquery atoms nested up to depth 3
            let (k, sc) = top(rng);
            let items = { let n = 1 + rng.below(2) as usize; gen_items(rng, &sc[0], n, &qc, false) };
            let depth = rng.below(3) as usize;
            let w = gen_pred(rng, d, &sc, &qc, depth, 3, false);
            Chain::single(Qry::Sel { items, src: Src::Base(k), w: Some(w) })
        }
    }
}

// ------------------------------------------------------------------ structured stream
fn tab(name: &str, cols: &[ColTy], rows: &[&[Option<i64>]]) -> Table {
    Table { name: name.into(), cols: cols.to_vec(), rows: rows.iter().map(|r| r.iter().map(|v| match v { Some(i) => Val::Int(*i), None => Val::Null }).collect()).collect() }
}

/// fixed small databases: NULLs and duplicates in every column
pub fn fixed_dbs() -> Vec<Db> {
    let i3 = [ColTy::Int, ColTy::Int, ColTy::Int];
    let n = None;
    let d1 = Db { tables: vec![
        tab("t0", &i3, &[&[Some(1), Some(1), Some(1)], &[Some(2), Some(1), Some(2)], &[Some(3), Some(2), n], &[Some(4), n, Some(3)], &[Some(5), Some(3), Some(3)]]),
        tab("t1", &i3, &[&[Some(1), Some(1), Some(1)], &[Some(2), n, Some(2)], &[Some(3), Some(2), Some(5)], &[Some(4), Some(2), Some(5)]]),
        tab("t2", &i3, &[&[Some(1), Some(2), Some(2)], &[Some(2), Some(3), Some(1)]]),
    ] };
    // no NULL anywhere, duplicates
    let d2 = Db { tables: vec![
        tab("t0", &i3, &[&[Some(1), Some(1), Some(1)], &[Some(2), Some(1), Some(1)], &[Some(3), Some(2), Some(0)], &[Some(4), Some(3), Some(2)]]),
        tab("t1", &i3, &[&[Some(1), Some(1), Some(2)], &[Some(2), Some(2), Some(2)], &[Some(3), Some(2), Some(2)]]),
        tab("t2", &i3, &[]),
    ] };
    // empty outer table, all-NULL inner table
    let d3 = Db { tables: vec![
        tab("t0", &i3, &[]),
        tab("t1", &i3, &[&[Some(1), n, n], &[Some(2), n, n]]),
        tab("t2", &i3, &[&[Some(1), Some(1), Some(1)]]),
    ] };
    vec![d1, d2, d3]
}

pub fn structured_cases(thorough: bool) -> Vec<(Db, Chain)> {
    let mut out = vec![];
    let c = |l: usize, i: usize| Sx::Col { lvl: l, i, qual: true };
    let leaf = |k: usize, cols: &[usize], w: Option<Sx>| Qry::Sel { items: cols.iter().map(|i| c(0, *i)).collect(), src: Src::Base(k), w: Some(w.unwrap_or(Sx::cmp(CmpOp::Gt, c(0, 0), Sx::int(0)))) };
    for d in fixed_dbs() {
        // ---- every set operation between every ordered pair of tables, on (c1), (c1, c2) and (c2)
        for k in [SetK::Union, SetK::Intersect, SetK::Except] { for all in [false, true] {
            for (a, b) in [(0, 1), (1, 0), (0, 0), (1, 2), (2, 0)] {
                for cols in [&[1usize][..], &[1, 2][..], &[2][..]] {
                    out.push((d.clone(), Chain { first: leaf(a, cols, None), rest: vec![(k, all, leaf(b, cols, None))] }));
                }
            }
        } }
        // ---- chains of two and three operations (associativity, INTERSECT precedence)
        let ops = [(SetK::Union, false), (SetK::Union, true), (SetK::Intersect, false), (SetK::Except, false), (SetK::Except, true), (SetK::Intersect, true)];
        for (i, o1) in ops.iter().enumerate() { for (j, o2) in ops.iter().enumerate() {
            if !thorough && (i + j) % 2 == 1 { continue; }
            out.push((d.clone(), Chain { first: leaf(0, &[1], None), rest: vec![(o1.0, o1.1, leaf(1, &[1], None)), (o2.0, o2.1, leaf(2, &[1], None))] }));
            if thorough {
                out.push((d.clone(), Chain { first: leaf(1, &[1], None), rest: vec![(o1.0, o1.1, leaf(2, &[1], None)), (o2.0, o2.1, leaf(0, &[1], None)), (o1.0, o1.1, leaf(1, &[2], None))] }));
            }
        } }
        // ---- one subquery atom as the whole WHERE clause
        let sub = |k: usize, item: usize, w: Option<Sx>| Qry::Sel { items: vec![c(0, item)], src: Src::Base(k), w };
        let wheres: Vec<Option<Sx>> = vec![
            None,
            Some(Sx::cmp(CmpOp::Gt, c(0, 2), Sx::int(1))),                                  // uncorrelated filter
            Some(Sx::cmp(CmpOp::Eq, c(0, 2), c(1, 2))),                                     // correlated equality (hash path)
            Some(Sx::cmp(CmpOp::Lt, c(0, 1), c(1, 1))),                                     // correlated inequality (nested loop)
            Some(Sx::and(Sx::cmp(CmpOp::Eq, c(0, 1), c(1, 1)), Sx::cmp(CmpOp::Gt, c(0, 2), Sx::int(1)))),   // key + residual
            Some(Sx::IsNull(true, Box::new(c(0, 1)))),
            Some(Sx::cmp(CmpOp::Eq, c(0, 0), Sx::int(1))),                                  // at most one row
            Some(Sx::cmp(CmpOp::Eq, c(0, 0), Sx::int(99))),                                 // no row
        ];
        for outer in [0usize, 1] { for inner in [1usize, 0, 2] {
            for w in &wheres {
                let mk = |p: Sx| Chain::single(Qry::Sel { items: vec![c(0, 0), c(0, 1)], src: Src::Base(outer), w: Some(p) });
                for neg in [false, true] {
                    out.push((d.clone(), mk(Sx::In(neg, Box::new(c(0, 1)), Box::new(sub(inner, 1, w.clone()))))));
                    out.push((d.clone(), mk(Sx::Exists(neg, Box::new(sub(inner, 0, w.clone()))))));
                }
                out.push((d.clone(), mk(Sx::cmp(CmpOp::Eq, c(0, 1), Sx::Scalar(Box::new(sub(inner, 1, w.clone())))))));
                if thorough {
                    out.push((d.clone(), mk(Sx::In(false, Box::new(c(0, 2)), Box::new(sub(inner, 2, w.clone()))))));
                    out.push((d.clone(), mk(Sx::cmp(CmpOp::Gt, c(0, 2), Sx::Scalar(Box::new(sub(inner, 2, w.clone())))))));
                    out.push((d.clone(), mk(Sx::IsNull(false, Box::new(Sx::Scalar(Box::new(sub(inner, 1, w.clone()))))))));
                }
            }
        } }
        // ---- subquery atoms under AND / OR / NOT and next to each other
        let s_in = Sx::In(false, Box::new(c(0, 1)), Box::new(sub(1, 1, None)));
        let s_ex = Sx::Exists(false, Box::new(sub(1, 0, Some(Sx::cmp(CmpOp::Eq, c(0, 1), c(1, 1))))));
        let s_sc = Sx::cmp(CmpOp::Ge, c(0, 2), Sx::Scalar(Box::new(sub(1, 2, Some(Sx::cmp(CmpOp::Eq, c(0, 0), Sx::int(2)))))));
        let simple = Sx::cmp(CmpOp::Gt, c(0, 2), Sx::int(1));
        let mk = |p: Sx| Chain::single(Qry::Sel { items: vec![c(0, 0)], src: Src::Base(0), w: Some(p) });
        for a in [&s_in, &s_ex, &s_sc] {
            out.push((d.clone(), mk(Sx::and(a.clone(), simple.clone()))));
            out.push((d.clone(), mk(Sx::and(simple.clone(), a.clone()))));
            out.push((d.clone(), mk(Sx::or(a.clone(), simple.clone()))));
            out.push((d.clone(), mk(Sx::not(a.clone()))));
            for b in [&s_in, &s_ex, &s_sc] { out.push((d.clone(), mk(Sx::and(a.clone(), b.clone())))); }
        }
        // ---- subqueries in the select list
        for it in [Sx::Scalar(Box::new(sub(1, 1, Some(Sx::cmp(CmpOp::Eq, c(0, 0), Sx::int(1)))))),
                   Sx::Scalar(Box::new(sub(1, 2, Some(Sx::cmp(CmpOp::Eq, c(0, 0), c(1, 0)))))),
                   Sx::Exists(false, Box::new(sub(1, 0, Some(Sx::cmp(CmpOp::Eq, c(0, 1), c(1, 1)))))),
                   Sx::In(false, Box::new(c(0, 1)), Box::new(sub(1, 1, None)))] {
            out.push((d.clone(), Chain::single(Qry::Sel { items: vec![c(0, 0), it], src: Src::Base(0), w: Some(Sx::cmp(CmpOp::Gt, c(0, 0), Sx::int(0))) })));
        }
        // ---- derived tables nested to depth 3
        let d1q = Qry::Sel { items: vec![c(0, 0), c(0, 2)], src: Src::Base(1), w: Some(Sx::cmp(CmpOp::Gt, c(0, 2), Sx::int(1))) };
        let d2q = Qry::Sel { items: vec![c(0, 1), c(0, 0)], src: Src::Sub(Box::new(d1q.clone())), w: Some(Sx::IsNull(true, Box::new(c(0, 1)))) };
        let d3q = Qry::Sel { items: vec![c(0, 1)], src: Src::Sub(Box::new(d2q.clone())), w: Some(Sx::cmp(CmpOp::Lt, c(0, 1), Sx::int(4))) };
        out.push((d.clone(), Chain::single(Qry::Sel { items: vec![c(0, 1)], src: Src::Sub(Box::new(d1q.clone())), w: Some(Sx::cmp(CmpOp::Gt, c(0, 0), Sx::int(0))) })));
        out.push((d.clone(), Chain::single(Qry::Sel { items: vec![c(0, 0)], src: Src::Sub(Box::new(d2q.clone())), w: Some(Sx::cmp(CmpOp::Gt, c(0, 1), Sx::int(0))) })));
        out.push((d.clone(), Chain::single(Qry::Sel { items: vec![c(0, 0)], src: Src::Sub(Box::new(d3q)), w: Some(Sx::cmp(CmpOp::Ge, c(0, 0), Sx::int(0))) })));
        // ---- depth 3 nesting in WHERE
        let l3 = sub(0, 1, Some(Sx::cmp(CmpOp::Eq, c(0, 2), c(1, 2))));
        let l2 = sub(2, 1, Some(Sx::In(false, Box::new(c(0, 2)), Box::new(l3.clone()))));
        let l1 = sub(1, 1, Some(Sx::Exists(false, Box::new(l2.clone()))));
        out.push((d.clone(), mk(Sx::In(false, Box::new(c(0, 1)), Box::new(l1.clone())))));
        out.push((d.clone(), mk(Sx::Exists(true, Box::new(l1.clone())))));
        let s2 = Sx::Scalar(Box::new(sub(2, 0, Some(Sx::cmp(CmpOp::Eq, c(0, 1), Sx::int(3))))));
        let s1 = Sx::Scalar(Box::new(sub(1, 1, Some(Sx::cmp(CmpOp::Eq, c(0, 0), s2)))));
        out.push((d.clone(), mk(Sx::cmp(CmpOp::Eq, c(0, 1), s1))));
    }
    out
}

// ------------------------------------------------------------------ statistics
pub struct Stats { pub defined: bool, pub spec_error: bool, pub interesting: bool, pub depth: usize, pub shape: String, pub features: Vec<&'static str> }

pub fn stats(d: &Db, c: &Chain) -> Stats {
    let spec = spec_chain(d, c);
    let depth = c.sub_depth();
    let mut f: Vec<&'static str> = vec![];
    let mut add = |s: &'static str, f: &mut Vec<&'static str>| { if !f.contains(&s) { f.push(s); } };
    c.walk(&mut |x| match x {
        Sx::In(false, ..) => add("in", &mut f),
        Sx::In(true, ..) => add("not_in", &mut f),
        Sx::Exists(false, _) => add("exists", &mut f),
        Sx::Exists(true, _) => add("not_exists", &mut f),
        Sx::Scalar(_) => add("scalar", &mut f),
        Sx::Col { lvl, .. } if *lvl > 0 => add("correlated", &mut f),
        Sx::Col { qual: false, .. } => add("bare_column", &mut f),
        _ => {}
    });
    for (k, all, _) in &c.rest {
        add(match (k, all) { (SetK::Union, false) => "union", (SetK::Union, true) => "union_all", (SetK::Intersect, false) => "intersect",
                             (SetK::Intersect, true) => "intersect_all", (SetK::Except, false) => "except", (SetK::Except, true) => "except_all" }, &mut f);
    }
    let top_sel_sub = match &c.first { Qry::Sel { items, .. } => items.iter().any(|x| x.has_subquery()), _ => false };
    let top_from = matches!(&c.first, Qry::Sel { src: Src::Sub(_), .. });
    if top_sel_sub { add("select_list_subquery", &mut f); }
    if top_from { add("from_subquery", &mut f); }
    let shape = if !c.rest.is_empty() { format!("setops{}", c.rest.len()) }
                else if top_from { "from".to_string() }
                else if top_sel_sub { "sellist".to_string() }
                else if depth > 0 { "where".to_string() } else { "plain".to_string() };
    let has_rows = d.tables.iter().any(|t| !t.rows.is_empty());
    Stats { defined: spec != Res::Undef, spec_error: spec == Res::Err, interesting: (depth > 0 || !c.rest.is_empty()) && has_rows, depth, shape, features: f }
}

// ------------------------------------------------------------------ finding classes (mirror of coq/Model/SubqClass.v)
fn has_sub(e: &Sx) -> bool { e.has_subquery() }
fn has_inex(e: &Sx) -> bool {
    match e {
        Sx::Col { .. } | Sx::Lit(_) | Sx::Scalar(_) => false,
        Sx::Arith(_, a, b) | Sx::Cmp(_, a, b) | Sx::And(a, b) | Sx::Or(a, b) => has_inex(a) || has_inex(b),
        Sx::Not(a) | Sx::IsNull(_, a) => has_inex(a),
        Sx::In(..) | Sx::Exists(..) => true,
    }
}
fn own_outer(e: &Sx) -> bool {
    match e {
        Sx::Col { lvl, .. } => *lvl != 0,
        Sx::Lit(_) => false,
        Sx::Arith(_, a, b) | Sx::Cmp(_, a, b) | Sx::And(a, b) | Sx::Or(a, b) => own_outer(a) || own_outer(b),
        Sx::Not(a) | Sx::IsNull(_, a) => own_outer(a),
        Sx::In(..) | Sx::Exists(..) | Sx::Scalar(_) => false,
    }
}
fn scalars_of<'a>(e: &'a Sx, out: &mut Vec<&'a Qry>) {
    match e {
        Sx::Col { .. } | Sx::Lit(_) | Sx::In(..) | Sx::Exists(..) => {}
        Sx::Arith(_, a, b) | Sx::Cmp(_, a, b) | Sx::And(a, b) | Sx::Or(a, b) => { scalars_of(a, out); scalars_of(b, out); }
        Sx::Not(a) | Sx::IsNull(_, a) => scalars_of(a, out),
        Sx::Scalar(q) => out.push(q),
    }
}
/// decorrelate.rs: (is_in, negated, lhs, first item, table, subquery WHERE)
struct Dec<'a> { is_in: bool, neg: bool, a: Option<&'a Sx>, item: Option<&'a Sx>, k: usize, w: Option<&'a Sx> }
fn decor(p: &Sx) -> Option<Dec<'_>> {
    match p {
        Sx::Exists(neg, q) => match &**q { Qry::Sel { src: Src::Base(k), w, .. } => Some(Dec { is_in: false, neg: *neg, a: None, item: None, k: *k, w: w.as_ref() }), _ => None },
        Sx::In(neg, a, q) => match &**q {
            Qry::Sel { items, src: Src::Base(k), w } if !items.is_empty() => Some(Dec { is_in: true, neg: *neg, a: Some(a), item: Some(&items[0]), k: *k, w: w.as_ref() }),
            _ => None,
        },
        Sx::And(a, b) => decor(a).or_else(|| decor(b)),
        _ => None,
    }
}
fn idx_by_name(lw: usize, rw: usize, i: usize) -> Option<usize> { if i < lw { Some(i) } else if i < rw { Some(lw + i) } else { None } }
fn key_idx(lw: usize, rw: usize, l: usize, i: usize, q: bool) -> Option<usize> {
    if q {
        match l { 0 => if i < rw { Some(lw + i) } else { idx_by_name(lw, rw, i) }, 1 => if i < lw { Some(i) } else { idx_by_name(lw, rw, i) }, _ => idx_by_name(lw, rw, i) }
    } else { idx_by_name(lw, rw, i) }
}
/// a conjunct `column = column`: Some(pairs one outer with one inner column, each resolved on its own side)
fn key_ok(lw: usize, rw: usize, a: (usize, usize, bool), b: (usize, usize, bool)) -> bool {
    let side_ok = |c: (usize, usize, bool)| key_idx(lw, rw, c.0, c.1, c.2) == Some(if c.0 == 0 { lw + c.1 } else { c.1 }) && c.0 <= 1 && (c.0 == 0 || c.1 < lw);
    match (key_idx(lw, rw, a.0, a.1, a.2), key_idx(lw, rw, b.0, b.1, b.2)) {
        (Some(x), Some(y)) => ((x < lw) != (y < lw)) && side_ok(a) && side_ok(b),
        _ => false,
    }
}
/// the AND-leaves of a join condition: Some((a, b)) for column = column, None for anything else
fn cond_leaves(e: &Sx, out: &mut Vec<Option<((usize, usize, bool), (usize, usize, bool))>>) {
    match e {
        Sx::And(a, b) => { cond_leaves(a, out); cond_leaves(b, out); }
        Sx::Cmp(CmpOp::Eq, a, b) => match (&**a, &**b) {
            (Sx::Col { lvl: l1, i: i1, qual: q1 }, Sx::Col { lvl: l2, i: i2, qual: q2 }) => out.push(Some(((*l1, *i1, *q1), (*l2, *i2, *q2)))),
            _ => out.push(None),
        },
        _ => out.push(None),
    }
}
/// bare column references resolve as SQL scoping says (`shift` = levels the expression is lifted by)
fn bare_ok(scopes: &[usize], e: &Sx, shift: usize) -> bool {
    match e {
        Sx::Col { lvl, i, qual } => *qual || scopes.iter().take(lvl + shift).all(|w| *w <= *i),
        Sx::Lit(_) | Sx::Exists(..) | Sx::Scalar(_) => true,
        Sx::Arith(_, a, b) | Sx::Cmp(_, a, b) | Sx::And(a, b) | Sx::Or(a, b) => bare_ok(scopes, a, shift) && bare_ok(scopes, b, shift),
        Sx::Not(a) | Sx::IsNull(_, a) => bare_ok(scopes, a, shift),
        Sx::In(_, a, _) => bare_ok(scopes, a, shift),
    }
}
fn scalar_class(d: &Db, q: &Qry) -> i64 {
    match q {
        Qry::Sel { items, src: Src::Base(_), w } if items.len() == 1 && matches!(items[0], Sx::Col { lvl: 0, .. }) => {
            if let Some(p) = w { if own_outer(p) { return 10; } if has_sub(p) { return 11; } }
            0   // more than one row is now the SQL error (855697d): no finding
        }
        Qry::Sel { items, .. } if items.len() == 1 && matches!(items[0], Sx::Col { .. }) && !matches!(items[0], Sx::Col { lvl: 0, .. }) => 10,
        _ => 11,
    }
}
fn where_class(d: &Db, lw: usize, p: &Sx) -> i64 {
    match decor(p) {
        Some(dc) => {
            if !matches!(p, Sx::In(..) | Sx::Exists(..)) { return 5; }
            if dc.is_in && dc.neg { return 6; }
            let rw = match d.tables.get(dc.k) { Some(t) => t.cols.len(), None => return 0 };
            // the join condition: [lhs = item AND] WHERE, seen from inside the subquery
            let mut leaves = vec![];
            let mut sub = false;
            if dc.is_in {
                let a = dc.a.unwrap();
                let it = dc.item.unwrap();
                sub |= has_sub(a) || has_sub(it);
                match (a, it) {
                    (Sx::Col { lvl, i, qual }, Sx::Col { i: j, qual: q2, lvl: l2 }) => {
                        let itc = if !*q2 { (0usize, *j, true) } else { (*l2, *j, true) };
                        leaves.push(Some(((lvl + 1, *i, *qual), itc)));
                    }
                    _ => leaves.push(None),
                }
            }
            if let Some(w) = dc.w { cond_leaves(w, &mut leaves); sub |= has_sub(w); }
            else if !dc.is_in { return 0; }
            // is_pure_equi_join: nothing but column = column, qualified sides name one table of each input
            let tables_ok = |k: &((usize, usize, bool), (usize, usize, bool))| !(k.0 .2 && k.1 .2) || (k.0 .0 == 0 && k.1 .0 == 1) || (k.0 .0 == 1 && k.1 .0 == 0);
            let hash = !leaves.is_empty() && leaves.iter().all(|l| matches!(l, Some(k) if tables_ok(k)));
            if hash {
                if leaves.iter().all(|l| matches!(l, Some((a, b)) if key_ok(lw, rw, *a, *b))) { 0 } else { 7 }
            } else if sub { 8 } else {
                let scopes = [rw, lw];
                let a_ok = dc.a.map(|a| bare_ok(&scopes, a, 1)).unwrap_or(true);
                let w_ok = dc.w.map(|w| bare_ok(&scopes, w, 0)).unwrap_or(true);
                if a_ok && w_ok { 0 } else { 7 }
            }
        }
        None => {
            if has_inex(p) { return 9; }
            let mut qs = vec![];
            scalars_of(p, &mut qs);
            for q in qs { let k = scalar_class(d, q); if k != 0 { return k; } }
            0
        }
    }
}
fn derived_simple(q: &Qry) -> bool {
    match q {
        Qry::Sel { items, src, w: Some(p) } => !has_sub(p) && items.iter().all(|it| matches!(it, Sx::Col { lvl: 0, .. }))
            && match src { Src::Base(_) => true, Src::Sub(q2) => derived_simple(q2) },
        _ => false,
    }
}
fn leaf_has_sub(q: &Qry) -> bool {
    match q { Qry::Sel { items, w, .. } => items.iter().any(has_sub) || w.as_ref().map(has_sub).unwrap_or(false), Qry::Set(..) => true }
}
/// does the implementation model (coq/Model/SubqImpl.v impl_stmt) cover the statement?  (a
/// syntactic mirror of the conditions under which impl_stmt answers MUnm; used for statistics)
pub fn modelled(_d: &Db, c: &Chain) -> bool {
    let plain = |items: &Vec<Sx>| items.iter().all(|it| matches!(it, Sx::Col { lvl: 0, .. }));
    let leaf_ok = |q: &Qry| matches!(q, Qry::Sel { items, src: Src::Base(_), w: Some(_) } if plain(items));
    if !c.rest.is_empty() { return leaf_ok(&c.first) && c.rest.iter().all(|(_, _, q)| leaf_ok(q)); }
    match &c.first {
        Qry::Sel { items, src: Src::Base(_), w: Some(p) } => {
            if decor(p).is_some() { return true; }
            let mut qs = vec![];
            scalars_of(p, &mut qs);
            let scalar_ok = |q: &Qry| matches!(q, Qry::Sel { items, .. } if items.len() == 1 && matches!(items[0], Sx::Col { lvl: 0, .. }));
            qs.iter().all(|q| scalar_ok(q)) && items.iter().all(|it| matches!(it, Sx::Col { lvl: 0, .. } | Sx::Scalar(_) | Sx::In(..) | Sx::Exists(..)))
        }
        Qry::Sel { items, src: Src::Sub(q2), w: Some(p) } => !has_sub(p) && derived_simple(q2) && plain(items),
        _ => false,
    }
}

/// finding class of a case (0 = none); mirrors coq/Model/SubqClass.v
pub fn rough_class(d: &Db, c: &Chain) -> i64 {
    if !c.rest.is_empty() {
        if leaf_has_sub(&c.first) || c.rest.iter().any(|(_, _, q)| leaf_has_sub(q)) { return 3; }
        if c.parse_std() != c.parse_right() { return 2; }
        return 0;
    }
    match &c.first {
        Qry::Sel { items, src, w } => {
            if items.iter().any(has_sub) { return 4; }
            match src {
                Src::Base(k) => match (w, d.tables.get(*k)) { (Some(p), Some(t)) => where_class(d, t.cols.len(), p), _ => 0 },
                Src::Sub(q2) => if derived_simple(q2) && w.as_ref().map(|p| !has_sub(p)).unwrap_or(true) { 0 } else { 13 },
            }
        }
        Qry::Set(..) => 0,
    }
}
