(* C36 proofs, part 9: every enabled step consumes work -- no spinning, no livelock.  Together with
   no_deadlock: while the one-lock-at-a-time discipline holds, scheduling enabled threads reaches
   the state in which everybody has finished after at most [work progs] steps. *)
From Coq Require Import ZArith List Bool Arith Lia.
From TV Require Import Lib.Interleave Model.PageLocks Proof.PageLocksBase Proof.PageLocksTable.
Import ListNotations.
Open Scope Z_scope.

Definition rank (p : pc) : nat :=
  match p with
  | PIdle => 0 | PPark _ => 1 | PClean _ _ => 1 | PUnl _ _ => 2 | PLocked _ _ _ _ => 6
  | PWaitR _ _ _ => 7 | PLock _ _ _ _ => 8 | PProbe _ _ _ => 9 | PGot _ _ _ => 10
  end%nat.
Definition measure (th : thread) : nat :=
  (12 * length (th_prog th) + 4 * length (th_pg th) + length (th_tg th) + rank (th_pc th))%nat.
Definition total (s : St) : nat := tsum measure (ths s).

(* number of schedule entries on which the scheduled thread really moved *)
Fixpoint moves (fx : bool) (sched : list nat) (s : St) : nat :=
  match sched with
  | [] => 0%nat
  | t :: r => match step fx t s with Some s' => S (moves fx r s') | None => moves fx r s end
  end.
Definition work (progs : list (list op)) : nat := fold_right (fun p a => (12 * length p + 1 + a)%nat) 0%nat progs.

Lemma remove_nth_length {A} (l : list A) i x : nth_error l i = Some x -> length l = S (length (remove_nth i l)).
Proof.
  revert i; induction l as [|y r IH]; intros [|i] H; cbn [nth_error] in H; try discriminate; cbn [remove_nth length]; auto.
Qed.

Lemma tstep_measure fx s th s' th' :
  (forall tb st, tget tb (s_tbl s) = Some st -> t_excl st = false) ->
  tstep fx s th = Some (s', th') -> (measure th' < measure th)%nat.
Proof.
  intros Hex Hstep. unfold tstep in Hstep.
  assert (Hstart : forall o r, (th_pc th = PIdle \/ exists n, th_pc th = PPark n) -> next_op th = Some (o, r) ->
            start_op s th o r = Some (s', th') -> (measure th' < measure th)%nat).
  { intros o r Hp Hn Hs.
    assert (Hprog : (th_prog th = o :: r) \/ (th_prog th = [] /\ r = [] /\
              ((o = ORel 0 /\ th_pg th <> []) \/ (o = OTRel 0 /\ th_tg th <> [])))).
    { unfold next_op in Hn. destruct (th_prog th) as [|o1 r1]; [|left; congruence].
      right. destruct (th_pg th) as [|g gs]; [|inversion Hn; subst; repeat split; auto; left; split; congruence].
      destruct (th_tg th) as [|g gs]; [discriminate|]. inversion Hn; subst. repeat split; auto. right; split; congruence. }
    unfold start_op in Hs. unfold measure.
    destruct o as [w k|j|x tb|j].
    - destruct Hprog as [Hprog|(_ & _ & [[? _]|[? _]])]; try discriminate.
      destruct (mget k (s_map s)); inversion Hs; subst; cbn [th_prog th_pg th_tg th_pc rank]; rewrite Hprog; cbn [length]; lia.
    - destruct (nth_error (th_pg th) j) as [g|] eqn:Hj; inversion Hs; subst; cbn [th_prog th_pg th_tg th_pc rank].
      + rewrite (remove_nth_length _ _ _ Hj).
        destruct Hprog as [Hprog|(Hprog & -> & _)]; rewrite Hprog; cbn [length]; lia.
      + destruct Hprog as [Hprog|(_ & _ & [[E Hne]|[? _]])]; try discriminate.
        * rewrite Hprog; cbn [length]; lia.
        * inversion E; subst. destruct (th_pg th); [congruence | discriminate].
    - destruct Hprog as [Hprog|(_ & _ & [[? _]|[? _]])]; try discriminate.
      destruct (tget tb (s_tbl s)) as [st|] eqn:Ht.
      + rewrite (Hex _ _ Ht) in Hs. inversion Hs; subst; cbn [th_prog th_pg th_tg th_pc rank].
        rewrite Hprog, app_length; cbn [length]; lia.
      + cbn [t_excl] in Hs. inversion Hs; subst; cbn [th_prog th_pg th_tg th_pc rank].
        rewrite Hprog, app_length; cbn [length]; lia.
    - destruct (nth_error (th_tg th) j) as [[tb x]|] eqn:Hj; inversion Hs; subst; cbn [th_prog th_pg th_tg th_pc rank].
      + rewrite (remove_nth_length _ _ _ Hj).
        destruct Hprog as [Hprog|(Hprog & -> & _)]; rewrite Hprog; cbn [length]; [lia|].
        destruct Hp as [Hp|[n Hp]]; rewrite Hp; cbn [rank]; lia.
      + destruct Hprog as [Hprog|(_ & _ & [[? _]|[E Hne]])]; try discriminate.
        * rewrite Hprog; cbn [length]; lia.
        * inversion E; subst. destruct (th_tg th); [congruence | discriminate]. }
  unfold measure in *.
  destruct (th_pc th) as [|site|w k e|w k e|w k e c|k e c|w k e c|k e|k e] eqn:Hpc.
  - destruct (next_op th) as [[o r]|] eqn:Hn; [|discriminate]. eapply Hstart; eauto.
  - destruct (next_op th) as [[o r]|] eqn:Hn; [eapply Hstart; eauto|].
    inversion Hstep; subst; cbn [th_prog th_pg th_tg th_pc set_pc rank]; lia.
  - destruct (try_ok _ _); inversion Hstep; subst; cbn [th_prog th_pg th_tg th_pc set_pc rank]; lia.
  - inversion Hstep; subst; cbn [th_prog th_pg th_tg th_pc set_pc rank]; lia.
  - destruct (e_w _); [discriminate|]. destruct w; inversion Hstep; subst; cbn [th_prog th_pg th_tg th_pc set_pc rank]; lia.
  - destruct (_ =? 0); [|discriminate]. inversion Hstep; subst; cbn [th_prog th_pg th_tg th_pc set_pc rank]; lia.
  - inversion Hstep; subst; cbn [th_prog th_pg th_tg th_pc rank]. rewrite app_length; cbn [length]; lia.
  - inversion Hstep; subst; cbn [th_prog th_pg th_tg th_pc set_pc]. destruct (_ =? 1); cbn [rank]; lia.
  - inversion Hstep; subst; cbn [th_prog th_pg th_tg th_pc set_pc rank]; lia.
Qed.

Lemma step_total fx t s s' : TInv s -> step fx t s = Some s' -> (total s' < total s)%nat.
Proof.
  intros I Hs. unfold step in Hs.
  destruct (lget (ths s) t) as [th|] eqn:Hget; [|discriminate].
  destruct (tstep fx (sh s) th) as [[sh' th']|] eqn:Hstep; [|discriminate].
  inversion Hs; subst. unfold total. cbn [ths].
  assert (Hm : (measure th' < measure th)%nat).
  { eapply tstep_measure; eauto. intros tb st Ht. specialize (I tb). rewrite Ht in I. tauto. }
  assert (H := tsum_lset measure (ths s) t th' th Hget). lia.
Qed.

Lemma moves_le_total fx sched : forall s, TInv s -> (moves fx sched s <= total s)%nat.
Proof.
  induction sched as [|t r IH]; intros s I; cbn [moves]; [lia|].
  destruct (step fx t s) as [s'|] eqn:E; [|apply IH; auto].
  assert (H1 := step_total _ _ _ _ I E). assert (H2 := IH s' (step_tinv _ _ _ _ I E)). lia.
Qed.

Lemma total_init progs : total (init progs) = work progs.
Proof.
  unfold total, init. cbn [ths]. generalize 0%nat. induction progs as [|p r IH]; intros i; cbn [init_ths tsum work fold_right]; auto.
  rewrite IH. unfold measure. cbn [th_prog th_pg th_tg th_pc rank length]. fold (work r). lia.
Qed.

Lemma bounded_work_l : forall fx progs sched, (moves fx sched (init progs) <= work progs)%nat.
Proof. intros. rewrite <- total_init. apply moves_le_total. apply tinv_init. Qed.
