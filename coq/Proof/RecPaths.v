(* C02 - automatic and streaming recovery agree on logs without undo frames, and differ on a log
   with one (the streaming path looks frames up by the raw file_id). *)
From Coq Require Import ZArith List Bool Lia.
From TV Require Import Model.Crash Model.RecPaths.
Import ListNotations.
Open Scope Z_scope.

Lemma redo_frame_ids : forall fid p i, 0 <= fid < 2 ^ 56 ->
  is_undo (WRedo fid p i) = false /\ actual_file_id (WRedo fid p i) = fid /\ raw_file_id (WRedo fid p i) = fid.
Proof.
  intros fid p i H. unfold is_undo, actual_file_id, FILE_ID_MASK, raw_file_id.
  rewrite (Z.div_small fid (2 ^ 56)) by lia. rewrite (Z.mod_small fid (2 ^ 56)) by lia. repeat split; reflexivity.
Qed.

Lemma auto_fold_redo : forall tables log a,
  redo_only log = true -> a_undo a = [] ->
  a_undo (fold_left (auto_frame tables) log a) = []
  /\ a_pages (fold_left (auto_frame tables) log a) = fold_left (stream_frame tables) log (a_pages a).
Proof.
  induction log as [| f r IH]; intros a HR HU; cbn [fold_left]; [split; [exact HU | reflexivity] |].
  cbn [redo_only forallb] in HR. apply andb_true_iff in HR. destruct HR as [Hf Hr].
  destruct f as [fid p i | t txn p i]; [| discriminate].
  apply andb_true_iff in Hf. destruct Hf as [H1 H2]. apply Z.leb_le in H1. apply Z.ltb_lt in H2.
  destruct (redo_frame_ids fid p i (conj H1 H2)) as [E1 [E2 E3]].
  assert (EA : auto_frame tables a (WRedo fid p i)
               = mka (if mem fid tables then pupd (a_pages a) (fid, p) i else a_pages a) ((fid, p) :: a_redo a) (a_undo a)).
  { unfold auto_frame. rewrite E1, E2. reflexivity. }
  rewrite EA. destruct (IH (mka (if mem fid tables then pupd (a_pages a) (fid, p) i else a_pages a) ((fid, p) :: a_redo a) (a_undo a)) Hr HU) as [I1 I2].
  split; [exact I1 |]. rewrite I2. cbn [a_pages]. f_equal.
Qed.

Lemma recovery_paths_agree_l : forall tables log m,
  redo_only log = true -> auto_recover tables log m = streaming_recover tables log m.
Proof.
  intros tables log m HR. unfold auto_recover, streaming_recover.
  destruct (auto_fold_redo tables log (mka m [] []) HR eq_refl) as [U P].
  rewrite U. cbn [fold_left]. exact P.
Qed.

(* an undo frame for page (1,1) of table 1: the automatic path restores the before image,
   the streaming path ignores the frame *)
Lemma recovery_paths_differ_l :
  exists tables log m k, auto_recover tables log m k <> streaming_recover tables log m k.
Proof.
  exists [1], [WUndo 1 7 1 (Some 5)], (pupd pempty (1, 1) (Some 9)), (1, 1).
  vm_compute. discriminate.
Qed.
