//! Subqueries and set operations for C18 on top of sqlgen: the query AST (mirror of
//! coq/Model/SubqSpec.v: sx / qry / src / chain) with printers to SQL text, to Coq terms and to a
//! one-line replay notation (with parser), a Rust port of the reference semantics xeval / qeval /
//! parse_std (used ONLY by `search` and for run statistics -- the judge of a correspondence run is
//! Coq), and the generators.
#![allow(dead_code)]
use crate::sqlgen::*;
use std::collections::HashMap;
use tvh::Rng;

// ------------------------------------------------------------------ syntax
#[derive(Clone, Copy, Debug, PartialEq)]
pub enum SetK { Union, Intersect, Except }
impl SetK {
    pub fn sql(&self) -> &'static str { match self { SetK::Union => "UNION", SetK::Intersect => "INTERSECT", SetK::Except => "EXCEPT" } }
    pub fn coq(&self) -> &'static str { match self { SetK::Union => "KUnion", SetK::Intersect => "KIntersect", SetK::Except => "KExcept" } }
    pub fn tok(&self) -> &'static str { match self { SetK::Union => "u", SetK::Intersect => "i", SetK::Except => "e" } }
    pub fn from_tok(s: &str) -> Option<SetK> { match s { "u" => Some(SetK::Union), "i" => Some(SetK::Intersect), "e" => Some(SetK::Except), _ => None } }
}

#[derive(Clone, Debug, PartialEq)]
pub enum Sx {
    Col { lvl: usize, i: usize, qual: bool },
    Lit(Val),
    Arith(ArithOp, Box<Sx>, Box<Sx>),
    Cmp(CmpOp, Box<Sx>, Box<Sx>),
    And(Box<Sx>, Box<Sx>),
    Or(Box<Sx>, Box<Sx>),
    Not(Box<Sx>),
    IsNull(bool, Box<Sx>),
    In(bool, Box<Sx>, Box<Qry>),
    Exists(bool, Box<Qry>),
    Scalar(Box<Qry>),
}
#[derive(Clone, Debug, PartialEq)]
pub enum Qry {
    Sel { items: Vec<Sx>, src: Src, w: Option<Sx> },
    Set(SetK, bool, Box<Qry>, Box<Qry>),
}
#[derive(Clone, Debug, PartialEq)]
pub enum Src { Base(usize), Sub(Box<Qry>) }
/// q0 op1 q1 op2 q2 ... as written (no parentheses)
#[derive(Clone, Debug, PartialEq)]
pub struct Chain { pub first: Qry, pub rest: Vec<(SetK, bool, Qry)> }

/// the tables t0, t1, ... of a case
#[derive(Clone, Debug, PartialEq)]
pub struct Db { pub tables: Vec<Table> }

fn cb(b: bool) -> &'static str { if b { "true" } else { "false" } }

#[derive(Clone, Debug)]
pub struct Scope { pub alias: String, pub names: Vec<String> }

impl Sx {
    pub fn col(lvl: usize, i: usize) -> Sx { Sx::Col { lvl, i, qual: true } }
    pub fn int(i: i64) -> Sx { Sx::Lit(Val::Int(i)) }
    pub fn cmp(op: CmpOp, a: Sx, b: Sx) -> Sx { Sx::Cmp(op, Box::new(a), Box::new(b)) }
    pub fn and(a: Sx, b: Sx) -> Sx { Sx::And(Box::new(a), Box::new(b)) }
    pub fn or(a: Sx, b: Sx) -> Sx { Sx::Or(Box::new(a), Box::new(b)) }
    pub fn not(a: Sx) -> Sx { Sx::Not(Box::new(a)) }

    /// SQL text in the scope stack `sc` (innermost first); `d` = depth of the enclosing query level
    pub fn to_sql(&self, db: &Db, d: usize, sc: &[Scope]) -> String {
        let s = |x: &Sx| x.to_sql(db, d, sc);
        match self {
            Sx::Col { lvl, i, qual } => {
                let (alias, name) = match sc.get(*lvl) {
                    Some(scope) => (scope.alias.clone(), scope.names.get(*i).cloned().unwrap_or_else(|| format!("zz{}", i))),
                    None => (format!("zq{}", lvl), format!("zz{}", i)),
                };
                if *qual { format!("{}.{}", alias, name) } else { name }
            }
            Sx::Lit(v) => v.to_sql(),
            Sx::Arith(op, a, b) => format!("({} {} {})", s(a), op.sql(), s(b)),
            Sx::Cmp(op, a, b) => format!("({} {} {})", s(a), op.sql(), s(b)),
            Sx::And(a, b) => format!("({} AND {})", s(a), s(b)),
            Sx::Or(a, b) => format!("({} OR {})", s(a), s(b)),
            Sx::Not(a) => format!("(NOT {})", s(a)),
            Sx::IsNull(neg, a) => format!("({} IS {}NULL)", s(a), if *neg { "NOT " } else { "" }),
            Sx::In(neg, a, q) => format!("({} {}IN ({}))", s(a), if *neg { "NOT " } else { "" }, q.to_sql(db, d + 1, sc)),
            Sx::Exists(neg, q) => format!("({}EXISTS ({}))", if *neg { "NOT " } else { "" }, q.to_sql(db, d + 1, sc)),
            Sx::Scalar(q) => format!("({})", q.to_sql(db, d + 1, sc)),
        }
    }
    pub fn to_coq(&self) -> String {
        match self {
            Sx::Col { lvl, i, qual } => format!("(XCol {} {} {})", lvl, i, cb(*qual)),
            Sx::Lit(v) => format!("(XLit {})", v.to_coq()),
            Sx::Arith(op, a, b) => format!("(XArith {} {} {})", op.coq(), a.to_coq(), b.to_coq()),
            Sx::Cmp(op, a, b) => format!("(XCmp {} {} {})", op.coq(), a.to_coq(), b.to_coq()),
            Sx::And(a, b) => format!("(XAnd {} {})", a.to_coq(), b.to_coq()),
            Sx::Or(a, b) => format!("(XOr {} {})", a.to_coq(), b.to_coq()),
            Sx::Not(a) => format!("(XNot {})", a.to_coq()),
            Sx::IsNull(neg, a) => format!("(XIsNull {} {})", cb(*neg), a.to_coq()),
            Sx::In(neg, a, q) => format!("(XIn {} {} {})", cb(*neg), a.to_coq(), q.to_coq()),
            Sx::Exists(neg, q) => format!("(XExists {} {})", cb(*neg), q.to_coq()),
            Sx::Scalar(q) => format!("(XScalar {})", q.to_coq()),
        }
    }
    /// replay notation: (c L I q|u) (l tok) (+ a b) (= a b) (and a b) (or a b) (not a) (isnull a)
    /// (notnull a) (in a Q) (nin a Q) (ex Q) (nex Q) (sc Q)
    pub fn to_line(&self) -> String {
        match self {
            Sx::Col { lvl, i, qual } => format!("(c {} {} {})", lvl, i, if *qual { "q" } else { "u" }),
            Sx::Lit(v) => format!("(l {})", v.to_tok()),
            Sx::Arith(op, a, b) => format!("({} {} {})", op.sql(), a.to_line(), b.to_line()),
            Sx::Cmp(op, a, b) => format!("({} {} {})", op.sql(), a.to_line(), b.to_line()),
            Sx::And(a, b) => format!("(and {} {})", a.to_line(), b.to_line()),
            Sx::Or(a, b) => format!("(or {} {})", a.to_line(), b.to_line()),
            Sx::Not(a) => format!("(not {})", a.to_line()),
            Sx::IsNull(neg, a) => format!("({} {})", if *neg { "notnull" } else { "isnull" }, a.to_line()),
            Sx::In(neg, a, q) => format!("({} {} {})", if *neg { "nin" } else { "in" }, a.to_line(), q.to_line()),
            Sx::Exists(neg, q) => format!("({} {})", if *neg { "nex" } else { "ex" }, q.to_line()),
            Sx::Scalar(q) => format!("(sc {})", q.to_line()),
        }
    }
    pub fn has_subquery(&self) -> bool {
        match self {
            Sx::Col { .. } | Sx::Lit(_) => false,
            Sx::Arith(_, a, b) | Sx::Cmp(_, a, b) | Sx::And(a, b) | Sx::Or(a, b) => a.has_subquery() || b.has_subquery(),
            Sx::Not(a) | Sx::IsNull(_, a) => a.has_subquery(),
            Sx::In(..) | Sx::Exists(..) | Sx::Scalar(..) => true,
        }
    }
    /// nesting depth of subqueries in the expression
    pub fn sub_depth(&self) -> usize {
        match self {
            Sx::Col { .. } | Sx::Lit(_) => 0,
            Sx::Arith(_, a, b) | Sx::Cmp(_, a, b) | Sx::And(a, b) | Sx::Or(a, b) => a.sub_depth().max(b.sub_depth()),
            Sx::Not(a) | Sx::IsNull(_, a) => a.sub_depth(),
            Sx::In(_, a, q) => a.sub_depth().max(1 + q.sub_depth()),
            Sx::Exists(_, q) | Sx::Scalar(q) => 1 + q.sub_depth(),
        }
    }
    pub fn walk<'a>(&'a self, f: &mut dyn FnMut(&'a Sx)) {
        f(self);
        match self {
            Sx::Col { .. } | Sx::Lit(_) => {}
            Sx::Arith(_, a, b) | Sx::Cmp(_, a, b) | Sx::And(a, b) | Sx::Or(a, b) => { a.walk(f); b.walk(f); }
            Sx::Not(a) | Sx::IsNull(_, a) => a.walk(f),
            Sx::In(_, a, q) => { a.walk(f); q.walk(f); }
            Sx::Exists(_, q) | Sx::Scalar(q) => q.walk(f),
        }
    }
}

impl Qry {
    pub fn sel(items: Vec<Sx>, src: Src, w: Option<Sx>) -> Qry { Qry::Sel { items, src, w } }
    /// names of the output columns (as a derived table exposes them)
    pub fn out_names(&self, db: &Db) -> Vec<String> {
        match self {
            Qry::Sel { items, src, .. } => {
                let sn = src.names(db);
                items.iter().enumerate().map(|(p, it)| match it {
                    Sx::Col { lvl: 0, i, .. } => sn.get(*i).cloned().unwrap_or_else(|| format!("zz{}", i)),
                    _ => format!("x{}", p),
                }).collect()
            }
            Qry::Set(_, _, l, _) => l.out_names(db),
        }
    }
    pub fn to_sql(&self, db: &Db, d: usize, outer: &[Scope]) -> String {
        match self {
            Qry::Sel { items, src, w } => {
                let alias = format!("q{}", d);
                let names = src.names(db);
                let from = match src {
                    Src::Base(k) => format!("t{} AS {}", k, alias),
                    Src::Sub(q) => format!("({}) AS {}", q.to_sql(db, d + 1, outer), alias),
                };
                let mut sc = vec![Scope { alias, names }];
                sc.extend_from_slice(outer);
                let its: Vec<String> = items.iter().enumerate().map(|(p, it)| {
                    let s = it.to_sql(db, d, &sc);
                    if matches!(it, Sx::Col { lvl: 0, .. }) { s } else { format!("{} AS x{}", s, p) }
                }).collect();
                let mut s = format!("SELECT {} FROM {}", its.join(", "), from);
                if let Some(p) = w { s.push_str(&format!(" WHERE {}", p.to_sql(db, d, &sc))); }
                s
            }
            Qry::Set(k, all, l, r) => format!("{} {}{} {}", l.to_sql(db, d, outer), k.sql(), if *all { " ALL" } else { "" }, r.to_sql(db, d, outer)),
        }
    }
    pub fn to_coq(&self) -> String {
        match self {
            Qry::Sel { items, src, w } => format!("(QSel [{}] {} {})", items.iter().map(|x| x.to_coq()).collect::<Vec<_>>().join("; "), src.to_coq(),
                match w { Some(p) => format!("(Some {})", p.to_coq()), None => "None".into() }),
            Qry::Set(k, all, l, r) => format!("(QSet {} {} {} {})", k.coq(), cb(*all), l.to_coq(), r.to_coq()),
        }
    }
    /// (sel (items) SRC W) with SRC = (t K) | (sub Q), W = (w e) | (nw);  (set k a|d L R)
    pub fn to_line(&self) -> String {
        match self {
            Qry::Sel { items, src, w } => format!("(sel ({}) {} {})", items.iter().map(|x| x.to_line()).collect::<Vec<_>>().join(" "),
                match src { Src::Base(k) => format!("(t {})", k), Src::Sub(q) => format!("(sub {})", q.to_line()) },
                match w { Some(p) => format!("(w {})", p.to_line()), None => "(nw)".into() }),
            Qry::Set(k, all, l, r) => format!("(set {} {} {} {})", k.tok(), if *all { "a" } else { "d" }, l.to_line(), r.to_line()),
        }
    }
    pub fn sub_depth(&self) -> usize {
        match self {
            Qry::Sel { items, src, w } => {
                let a = items.iter().map(|x| x.sub_depth()).max().unwrap_or(0);
                let b = w.as_ref().map(|x| x.sub_depth()).unwrap_or(0);
                let c = match src { Src::Base(_) => 0, Src::Sub(q) => 1 + q.sub_depth() };
                a.max(b).max(c)
            }
            Qry::Set(_, _, l, r) => l.sub_depth().max(r.sub_depth()),
        }
    }
    pub fn walk<'a>(&'a self, f: &mut dyn FnMut(&'a Sx)) {
        match self {
            Qry::Sel { items, src, w } => {
                for it in items { it.walk(f); }
                if let Src::Sub(q) = src { q.walk(f); }
                if let Some(p) = w { p.walk(f); }
            }
            Qry::Set(_, _, l, r) => { l.walk(f); r.walk(f); }
        }
    }
}

impl Src {
    pub fn names(&self, db: &Db) -> Vec<String> {
        match self {
            Src::Base(k) => (0..db.tables.get(*k).map(|t| t.cols.len()).unwrap_or(0)).map(col_name).collect(),
            Src::Sub(q) => q.out_names(db),
        }
    }
    pub fn to_coq(&self) -> String {
        match self { Src::Base(k) => format!("(SBase {})", k), Src::Sub(q) => format!("(SSub {})", q.to_coq()) }
    }
}

impl Chain {
    pub fn single(q: Qry) -> Chain { Chain { first: q, rest: vec![] } }
    pub fn to_sql(&self, db: &Db) -> String {
        let mut s = self.first.to_sql(db, 0, &[]);
        for (k, all, q) in &self.rest { s.push_str(&format!(" {}{} {}", k.sql(), if *all { " ALL" } else { "" }, q.to_sql(db, 0, &[]))); }
        s
    }
    pub fn to_coq(&self) -> String {
        format!("({}, [{}])", self.first.to_coq(),
            self.rest.iter().map(|(k, all, q)| format!("({}, {}, {})", k.coq(), cb(*all), q.to_coq())).collect::<Vec<_>>().join("; "))
    }
    pub fn to_line(&self) -> String {
        let mut s = format!("(chain {}", self.first.to_line());
        for (k, all, q) in &self.rest { s.push_str(&format!(" (op {} {} {})", k.tok(), if *all { "a" } else { "d" }, q.to_line())); }
        s.push(')');
        s
    }
    pub fn walk<'a>(&'a self, f: &mut dyn FnMut(&'a Sx)) {
        self.first.walk(f);
        for (_, _, q) in &self.rest { q.walk(f); }
    }
    pub fn sub_depth(&self) -> usize { self.rest.iter().map(|(_, _, q)| q.sub_depth()).max().unwrap_or(0).max(self.first.sub_depth()) }
    /// standard reading: INTERSECT binds tighter, UNION / EXCEPT associate to the left
    pub fn parse_std(&self) -> Qry {
        fn take_i(mut acc: Qry, l: &[(SetK, bool, Qry)], pos: &mut usize) -> Qry {
            while *pos < l.len() && l[*pos].0 == SetK::Intersect {
                acc = Qry::Set(SetK::Intersect, l[*pos].1, Box::new(acc), Box::new(l[*pos].2.clone()));
                *pos += 1;
            }
            acc
        }
        let mut pos = 0;
        let mut acc = take_i(self.first.clone(), &self.rest, &mut pos);
        while pos < self.rest.len() {
            let (k, all, q) = &self.rest[pos];
            pos += 1;
            let rhs = take_i(q.clone(), &self.rest, &mut pos);
            acc = Qry::Set(*k, *all, Box::new(acc), Box::new(rhs));
        }
        acc
    }
    /// TurDB's reading: everything associates to the right
    pub fn parse_right(&self) -> Qry {
        fn go(first: &Qry, rest: &[(SetK, bool, Qry)]) -> Qry {
            match rest.split_first() {
                None => first.clone(),
                Some(((k, all, q), tl)) => Qry::Set(*k, *all, Box::new(first.clone()), Box::new(go(q, tl))),
            }
        }
        go(&self.first, &self.rest)
    }
}

impl Db {
    pub fn to_coq(&self) -> String { format!("[{}]", self.tables.iter().map(|t| t.to_coq()).collect::<Vec<_>>().join("; ")) }
    pub fn widths_coq(&self) -> String { format!("[{}]", self.tables.iter().map(|t| format!("{}%nat", t.cols.len())).collect::<Vec<_>>().join("; ")) }
    /// IIT:i1,i2,s61;i2,N,N|II:-
    pub fn to_line(&self) -> String {
        self.tables.iter().map(|t| {
            let cols: String = t.cols.iter().map(|c| c.ch()).collect();
            let rows: Vec<String> = t.rows.iter().map(|r| r.iter().map(|v| v.to_tok()).collect::<Vec<_>>().join(",")).collect();
            format!("{}:{}", cols, if rows.is_empty() { "-".to_string() } else { rows.join(";") })
        }).collect::<Vec<_>>().join("|")
    }
    pub fn from_line(s: &str) -> Option<Db> {
        let mut tables = vec![];
        for (k, part) in s.split('|').enumerate() {
            let (cols, rows) = part.split_once(':')?;
            tables.push(Table::from_line(&format!("t{}", k), cols, rows)?);
        }
        Some(Db { tables })
    }
}

pub fn replay_line(db: &Db, c: &Chain) -> String { format!("db={} q={}", db.to_line(), c.to_line()) }
pub fn parse_replay(l: &str) -> Option<(Db, Chain)> {
    let l = l.trim();
    let rest = l.strip_prefix("db=")?;
    let (dbs, q) = rest.split_once(" q=")?;
    let db = Db::from_line(dbs)?;
    let q = q.split(" #").next()?.trim();
    let toks = tokenize(q);
    let mut pos = 0;
    let c = parse_chain(&toks, &mut pos)?;
    if pos == toks.len() { Some((db, c)) } else { None }
}

// ------------------------------------------------------------------ replay parser
fn tokenize(s: &str) -> Vec<String> {
    let mut out = vec![];
    let mut cur = String::new();
    for ch in s.chars() {
        match ch {
            '(' | ')' => { if !cur.is_empty() { out.push(std::mem::take(&mut cur)); } out.push(ch.to_string()); }
            c if c.is_whitespace() => { if !cur.is_empty() { out.push(std::mem::take(&mut cur)); } }
            c => cur.push(c),
        }
    }
    if !cur.is_empty() { out.push(cur); }
    out
}
fn expect(t: &[String], pos: &mut usize, s: &str) -> Option<()> { if t.get(*pos)? == s { *pos += 1; Some(()) } else { None } }

fn parse_sx(t: &[String], pos: &mut usize) -> Option<Sx> {
    expect(t, pos, "(")?;
    let head = t.get(*pos)?.clone();
    *pos += 1;
    let e = match head.as_str() {
        "c" => {
            let lvl = t.get(*pos)?.parse::<usize>().ok()?; *pos += 1;
            let i = t.get(*pos)?.parse::<usize>().ok()?; *pos += 1;
            let q = t.get(*pos)?.clone(); *pos += 1;
            Sx::Col { lvl, i, qual: q == "q" }
        }
        "l" => { let v = Val::from_tok(t.get(*pos)?)?; *pos += 1; Sx::Lit(v) }
        "+" | "-" | "*" => {
            let op = match head.as_str() { "+" => ArithOp::Add, "-" => ArithOp::Sub, _ => ArithOp::Mul };
            let a = parse_sx(t, pos)?; let b = parse_sx(t, pos)?;
            Sx::Arith(op, Box::new(a), Box::new(b))
        }
        "=" | "<>" | "<" | "<=" | ">" | ">=" => {
            let op = CmpOp::from_sql(&head)?;
            let a = parse_sx(t, pos)?; let b = parse_sx(t, pos)?;
            Sx::Cmp(op, Box::new(a), Box::new(b))
        }
        "and" => { let a = parse_sx(t, pos)?; let b = parse_sx(t, pos)?; Sx::and(a, b) }
        "or" => { let a = parse_sx(t, pos)?; let b = parse_sx(t, pos)?; Sx::or(a, b) }
        "not" => { let a = parse_sx(t, pos)?; Sx::not(a) }
        "isnull" | "notnull" => { let a = parse_sx(t, pos)?; Sx::IsNull(head == "notnull", Box::new(a)) }
        "in" | "nin" => { let a = parse_sx(t, pos)?; let q = parse_qry(t, pos)?; Sx::In(head == "nin", Box::new(a), Box::new(q)) }
        "ex" | "nex" => { let q = parse_qry(t, pos)?; Sx::Exists(head == "nex", Box::new(q)) }
        "sc" => { let q = parse_qry(t, pos)?; Sx::Scalar(Box::new(q)) }
        _ => return None,
    };
    expect(t, pos, ")")?;
    Some(e)
}
fn parse_qry(t: &[String], pos: &mut usize) -> Option<Qry> {
    expect(t, pos, "(")?;
    let head = t.get(*pos)?.clone();
    *pos += 1;
    let q = match head.as_str() {
        "sel" => {
            expect(t, pos, "(")?;
            let mut items = vec![];
            while t.get(*pos)? != ")" { items.push(parse_sx(t, pos)?); }
            expect(t, pos, ")")?;
            expect(t, pos, "(")?;
            let sh = t.get(*pos)?.clone(); *pos += 1;
            let src = match sh.as_str() {
                "t" => { let k = t.get(*pos)?.parse::<usize>().ok()?; *pos += 1; Src::Base(k) }
                "sub" => Src::Sub(Box::new(parse_qry(t, pos)?)),
                _ => return None,
            };
            expect(t, pos, ")")?;
            expect(t, pos, "(")?;
            let wh = t.get(*pos)?.clone(); *pos += 1;
            let w = match wh.as_str() { "w" => Some(parse_sx(t, pos)?), "nw" => None, _ => return None };
            expect(t, pos, ")")?;
            Qry::Sel { items, src, w }
        }
        "set" => {
            let k = SetK::from_tok(t.get(*pos)?)?; *pos += 1;
            let all = t.get(*pos)? == "a"; *pos += 1;
            let l = parse_qry(t, pos)?; let r = parse_qry(t, pos)?;
            Qry::Set(k, all, Box::new(l), Box::new(r))
        }
        _ => return None,
    };
    expect(t, pos, ")")?;
    Some(q)
}
fn parse_chain(t: &[String], pos: &mut usize) -> Option<Chain> {
    expect(t, pos, "(")?;
    expect(t, pos, "chain")?;
    let first = parse_qry(t, pos)?;
    let mut rest = vec![];
    while t.get(*pos)? != ")" {
        expect(t, pos, "(")?;
        expect(t, pos, "op")?;
        let k = SetK::from_tok(t.get(*pos)?)?; *pos += 1;
        let all = t.get(*pos)? == "a"; *pos += 1;
        let q = parse_qry(t, pos)?;
        expect(t, pos, ")")?;
        rest.push((k, all, q));
    }
    expect(t, pos, ")")?;
    Some(Chain { first, rest })
}

// ------------------------------------------------------------------ reference semantics (Rust port of Model/SubqSpec.v)
#[derive(Clone, Debug, PartialEq)]
pub enum Res<T> { Ok(T), Undef, Err }

fn rmap2<A, B, C>(x: Res<A>, y: Res<B>, f: impl FnOnce(A, B) -> Res<C>) -> Res<C> {
    match (x, y) {
        (Res::Undef, _) | (_, Res::Undef) => Res::Undef,
        (Res::Err, _) | (_, Res::Err) => Res::Err,
        (Res::Ok(a), Res::Ok(b)) => f(a, b),
    }
}
fn of_opt<T>(o: Option<T>) -> Res<T> { match o { Some(v) => Res::Ok(v), None => Res::Undef } }
fn val_of_tv(t: Tv) -> Val { match t { Tv::T => Val::Bool(true), Tv::F => Val::Bool(false), Tv::U => Val::Null } }
fn rtv(x: Res<Val>) -> Res<Tv> { match x { Res::Ok(v) => of_opt(tv_of_val(&v)), Res::Undef => Res::Undef, Res::Err => Res::Err } }
fn rval(x: Res<Tv>) -> Res<Val> { match x { Res::Ok(t) => Res::Ok(val_of_tv(t)), Res::Undef => Res::Undef, Res::Err => Res::Err } }
fn and_res(a: Res<Tv>, b: Res<Tv>) -> Res<Tv> {
    match (a, b) {
        (Res::Undef, _) | (_, Res::Undef) => Res::Undef,
        (Res::Ok(Tv::F), Res::Err) | (Res::Err, Res::Ok(Tv::F)) => Res::Undef,
        (Res::Err, _) | (_, Res::Err) => Res::Err,
        (Res::Ok(x), Res::Ok(y)) => Res::Ok(tv_and(x, y)),
    }
}
fn or_res(a: Res<Tv>, b: Res<Tv>) -> Res<Tv> {
    match (a, b) {
        (Res::Undef, _) | (_, Res::Undef) => Res::Undef,
        (Res::Ok(Tv::T), Res::Err) | (Res::Err, Res::Ok(Tv::T)) => Res::Undef,
        (Res::Err, _) | (_, Res::Err) => Res::Err,
        (Res::Ok(x), Res::Ok(y)) => Res::Ok(tv_or(x, y)),
    }
}
fn arith_values(op: ArithOp, x: &Val, y: &Val) -> Option<Val> {
    match (x, y) {
        (Val::Int(x), Val::Int(y)) => match op { ArithOp::Add => x.checked_add(*y), ArithOp::Sub => x.checked_sub(*y), ArithOp::Mul => x.checked_mul(*y) }.map(Val::Int),
        (Val::Null, Val::Null) | (Val::Null, Val::Int(_)) | (Val::Int(_), Val::Null) => Some(Val::Null),
        _ => None,
    }
}
fn in_rows(neg: bool, x: &Val, t: &[Vec<Val>]) -> Res<Val> {
    let mut acc = Tv::F;
    let mut ys = vec![];
    for r in t { match r.first() { Some(v) => ys.push(v.clone()), None => return Res::Undef } }
    for y in ys.iter().rev() {
        match cmp3(CmpOp::Eq, x, y) { Some(t) => acc = tv_or(t, acc), None => return Res::Undef }
    }
    Res::Ok(val_of_tv(if neg { tv_not(acc) } else { acc }))
}
fn scalar_rows(t: &[Vec<Val>]) -> Res<Val> {
    match t.len() {
        0 => Res::Ok(Val::Null),
        1 => match t[0].first() { Some(v) => Res::Ok(v.clone()), None => Res::Undef },
        _ => Res::Err,
    }
}

fn row_key(r: &[Val]) -> String { r.iter().map(|v| v.to_tok()).collect::<Vec<_>>().join(",") }
pub fn spec_mult(k: SetK, all: bool, a: usize, b: usize) -> usize {
    match (k, all) {
        (SetK::Union, true) => a + b,
        (SetK::Union, false) => (a + b).min(1),
        (SetK::Intersect, true) => a.min(b),
        (SetK::Intersect, false) => a.min(b).min(1),
        (SetK::Except, true) => a.saturating_sub(b),
        (SetK::Except, false) => if b == 0 { a.min(1) } else { 0 },
    }
}
pub fn spec_op(k: SetK, all: bool, l: &[Vec<Val>], r: &[Vec<Val>]) -> Vec<Vec<Val>> {
    let mut cl: HashMap<String, usize> = HashMap::new();
    let mut cr: HashMap<String, usize> = HashMap::new();
    for x in l { *cl.entry(row_key(x)).or_insert(0) += 1; }
    for x in r { *cr.entry(row_key(x)).or_insert(0) += 1; }
    let mut seen: std::collections::HashSet<String> = Default::default();
    let mut out = vec![];
    for x in l.iter().chain(r.iter()) {
        let key = row_key(x);
        if !seen.insert(key.clone()) { continue; }
        let m = spec_mult(k, all, *cl.get(&key).unwrap_or(&0), *cr.get(&key).unwrap_or(&0));
        for _ in 0..m { out.push(x.clone()); }
    }
    out
}
fn vkind(v: &Val) -> u8 { match v { Val::Null => 0, Val::Int(_) => 1, Val::Float(_) => 2, Val::Text(_) => 3, Val::Bool(_) => 4 } }
fn val_plain(v: &Val) -> bool {
    match v {
        Val::Float(b) => { let f = f64::from_bits(*b); f.is_finite() && (b << 1) != 0 }
        Val::Bool(_) => false,
        _ => true,
    }
}
pub fn setop_defined(l: &[Vec<Val>], r: &[Vec<Val>]) -> bool {
    let all: Vec<&Vec<Val>> = l.iter().chain(r.iter()).collect();
    if !all.iter().all(|x| x.iter().all(val_plain)) { return false; }
    let Some(first) = all.first() else { return true };
    let w = first.len();
    let mut kinds = vec![0u8; w];
    for x in &all {
        if x.len() != w { return false; }
        for (c, v) in x.iter().enumerate() {
            let k = vkind(v);
            if k == 0 { continue; }
            if kinds[c] == 0 { kinds[c] = k; } else if kinds[c] != k { return false; }
        }
    }
    true
}
pub fn bag_eq(a: &[Vec<Val>], b: &[Vec<Val>]) -> bool {
    if a.len() != b.len() { return false; }
    let mut c: HashMap<String, i64> = HashMap::new();
    for x in a { *c.entry(row_key(x)).or_insert(0) += 1; }
    for x in b { *c.entry(row_key(x)).or_insert(0) -= 1; }
    c.values().all(|v| *v == 0)
}

pub fn xeval(db: &Db, env: &[&Vec<Val>], e: &Sx) -> Res<Val> {
    match e {
        Sx::Col { lvl, i, .. } => match env.get(*lvl) { Some(r) => of_opt(r.get(*i).cloned()), None => Res::Undef },
        Sx::Lit(v) => Res::Ok(v.clone()),
        Sx::Arith(op, a, b) => rmap2(xeval(db, env, a), xeval(db, env, b), |x, y| of_opt(arith_values(*op, &x, &y))),
        Sx::Cmp(op, a, b) => rmap2(xeval(db, env, a), xeval(db, env, b), |x, y| of_opt(cmp3(*op, &x, &y).map(val_of_tv))),
        Sx::And(a, b) => rval(and_res(rtv(xeval(db, env, a)), rtv(xeval(db, env, b)))),
        Sx::Or(a, b) => rval(or_res(rtv(xeval(db, env, a)), rtv(xeval(db, env, b)))),
        Sx::Not(a) => rval(match rtv(xeval(db, env, a)) { Res::Ok(t) => Res::Ok(tv_not(t)), o => o }),
        Sx::IsNull(neg, a) => match xeval(db, env, a) { Res::Ok(v) => Res::Ok(Val::Bool(v.is_null() != *neg)), o => o },
        Sx::In(neg, a, q) => rmap2(xeval(db, env, a), qeval(db, env, q), |x, t| in_rows(*neg, &x, &t)),
        Sx::Exists(neg, q) => match qeval(db, env, q) { Res::Ok(t) => Res::Ok(Val::Bool(*neg != !t.is_empty())), Res::Undef => Res::Undef, Res::Err => Res::Err },
        Sx::Scalar(q) => match qeval(db, env, q) { Res::Ok(t) => scalar_rows(&t), Res::Undef => Res::Undef, Res::Err => Res::Err },
    }
}
pub fn qeval(db: &Db, env: &[&Vec<Val>], q: &Qry) -> Res<Vec<Vec<Val>>> {
    match q {
        Qry::Sel { items, src, w } => {
            let rows = match src {
                Src::Base(k) => match db.tables.get(*k) { Some(t) => t.rows.clone(), None => return Res::Undef },
                Src::Sub(q2) => match qeval(db, env, q2) { Res::Ok(t) => t, Res::Undef => return Res::Undef, Res::Err => return Res::Err },
            };
            // go over the rows from the last to the first, combining like the Coq `go`
            let mut acc: Res<Vec<Vec<Val>>> = Res::Ok(vec![]);
            for r in rows.iter().rev() {
                let mut env2: Vec<&Vec<Val>> = vec![r];
                env2.extend_from_slice(env);
                let keep: Res<bool> = match w {
                    None => Res::Ok(true),
                    Some(p) => match rtv(xeval(db, &env2, p)) { Res::Ok(t) => Res::Ok(t == Tv::T), Res::Undef => Res::Undef, Res::Err => Res::Err },
                };
                let mut out: Res<Vec<Val>> = Res::Ok(vec![]);
                for it in items.iter().rev() {
                    out = rmap2(xeval(db, &env2, it), out, |v, mut vs: Vec<Val>| { vs.insert(0, v); Res::Ok(vs) });
                }
                acc = rmap2(keep, acc, |k, mut tl: Vec<Vec<Val>>| {
                    if k { match out { Res::Ok(o) => { tl.insert(0, o); Res::Ok(tl) } Res::Undef => Res::Undef, Res::Err => Res::Err } } else { Res::Ok(tl) }
                });
            }
            acc
        }
        Qry::Set(k, all, l, r) => rmap2(qeval(db, env, l), qeval(db, env, r), |a, b| if setop_defined(&a, &b) { Res::Ok(spec_op(*k, *all, &a, &b)) } else { Res::Undef }),
    }
}
pub fn spec_chain(db: &Db, c: &Chain) -> Res<Vec<Vec<Val>>> { qeval(db, &[], &c.parse_std()) }

fn own_scalars<'a>(e: &'a Sx, out: &mut Vec<&'a Qry>) {
    match e {
        Sx::Col { .. } | Sx::Lit(_) | Sx::Exists(..) => {}
        Sx::Arith(_, a, b) | Sx::Cmp(_, a, b) | Sx::And(a, b) | Sx::Or(a, b) => { own_scalars(a, out); own_scalars(b, out); }
        Sx::Not(a) | Sx::IsNull(_, a) => own_scalars(a, out),
        Sx::In(_, a, _) => own_scalars(a, out),
        Sx::Scalar(q) => out.push(q),
    }
}
/// Model/SubqSpec.v eager_error: an uncorrelated scalar subquery of the WHERE clause has, on its
/// own, more than one row (an engine may raise the cardinality error before the first row)
pub fn eager_error(db: &Db, c: &Chain) -> bool {
    if !c.rest.is_empty() { return false; }
    match &c.first {
        Qry::Sel { w: Some(p), .. } => {
            let mut qs = vec![];
            own_scalars(p, &mut qs);
            qs.iter().any(|q| matches!(qeval(db, &[], q), Res::Ok(t) if t.len() >= 2))
        }
        _ => false,
    }
}
