(* C14: the recorded finding classes as decidable predicates (definitions only).
   `cls_* = 0` is the hypothesis of the correctness theorems (Proof/PredCorrect*.v): outside
   every class the implementation model equals the reference semantics.  The same functions
   are known_class in Corr/C14.v, so the check and the theorems talk about one partition.

   class  mechanism in /repo (all confirmed on the real code, see known_findings.d/C14.json)
     1    eval_expr has no arm for NOT (nor for a bare NULL / column): `_ => true`
     2    compare_values: NULL against NULL is Ordering::Equal, so = <= >= are TRUE
     3    values_equal(NULL, NULL) = true: NULL IN (.., NULL, ..) is TRUE
     4    NOT IN / NOT BETWEEN / NOT LIKE negate a two-valued result: TRUE with a NULL operand
     5    a predicate used as an operand (IS [NOT] NULL of a comparison ...) is never NULL
     6    select list: an UNKNOWN sub-predicate is computed as FALSE (never NULL)
     7    constant folding compares literals by kind and text: NULL <> 1 is TRUE, 1 = 1.0 is FALSE
     8    a predicate folded to constant FALSE makes planning fail (the query returns an error)
     9    LIKE: a pattern '%' is first compared literally with the text character
    10    IN list: numbers closer than f64::EPSILON are equal
    11    the literal -9223372036854775808 does not parse
    12    NOT binds tighter than comparison in the parser (bare `NOT a = 1`)
    99    outside the implementation model (no finding; such cases are never generated) *)
From Coq Require Import ZArith List Bool.
From TV Require Import Model.SqlSpec Model.PredImpl.
Import ListNotations.
Open Scope Z_scope.

(* what the property demands of the two query shapes (observables of Model/PredImpl.qout) *)
Definition spec_rows (e : expr) (t : table) : list Z := map (fun r => Z.b2z (passes e r)) t.
Definition code_of_tv (o : option tv) : Z :=
  match o with Some TT => 1 | Some FF => 0 | _ => 2 end.
Definition spec_vals (e : expr) (t : table) : list Z := map (fun r => code_of_tv (sem3 e r)) t.

Definition first_nz (a b : Z) : Z := if a =? 0 then b else a.

Definition is_vnull (o : option value) : bool := match o with Some VNull => true | _ => false end.

(* the spec value as the implementation represents it *)
Definition inj (v : value) : ivalue :=
  match v with
  | VNull => INull
  | VInt z => IInt z
  | VFloat b => IFloat b
  | VText s => IText s
  | VBool b => ib b
  end.

(* ---------------------------------------------------------------- scalar operand position *)
Fixpoint cls_v (e : expr) (r : row) : Z :=
  match e with
  | ECol i => match nth_error r i with Some (VBool _) => 99 | _ => 0 end
  | ELit (VInt z) => if z =? - 2 ^ 63 then 11 else if i64_ok z then 0 else 99
  | ELit (VFloat b) => if f_finite b then 0 else 99
  | ELit _ => 0
  | EArith _ a b => first_nz (cls_v a r) (cls_v b r)
  | _ => 5
  end.
Fixpoint cls_vl (l : list expr) (r : row) : Z :=
  match l with [] => 0 | i :: l' => first_nz (cls_v i r) (cls_vl l' r) end.

(* the operand evaluates to Some(Value::Null) in eval_value (a NULL cell or the literal) *)
Definition dnull (e : expr) (r : row) : bool :=
  match e with
  | ECol i => is_vnull (nth_error r i)
  | ELit VNull => true
  | _ => false
  end.
Definition null_eq_op (op : cmpop) : bool :=
  match op with CEq | CLe | CGe => true | _ => false end.

(* IN list: values_equal and the reference equality differ on two defined, non-NULL values *)
Definition eq_differs (x y : option value) : bool :=
  match x, y with
  | Some vx, Some vy =>
      match cmp_values vx vy with
      | Some (Some c) => xorb (values_equal (inj vx) (inj vy)) (match c with Eq => true | _ => false end)
      | _ => false
      end
  | _, _ => false
  end.

Definition in_class (neg : bool) (a : expr) (l : list expr) (r : row) : Z :=
  first_nz
    (if neg then (if is_vnull (eval a r) || existsb (fun i => is_vnull (eval i r)) l then 4 else 0)
     else (if dnull a r && existsb (fun i => dnull i r) l then 3 else 0))
    (if existsb (fun i => eq_differs (eval a r) (eval i r)) l then 10 else 0).

Definition has_pct (s : list Z) : bool := existsb (fun c => c =? 37) s.
Definition like_class (neg : bool) (a p : expr) (r : row) : Z :=
  first_nz
    (if neg && (is_vnull (eval a r) || is_vnull (eval p r)) then 4 else 0)
    (match eval a r, eval p r with
     | Some (VText s), Some (VText q) => if has_pct s && has_pct q then 9 else 0
     | _, _ => 0
     end).

Definition between_class (neg : bool) (a lo hi : expr) (r : row) : Z :=
  if neg && (is_vnull (eval a r) || is_vnull (eval lo r) || is_vnull (eval hi r)) then 4 else 0.

(* ---------------------------------------------------------------- WHERE: predicate position *)
Fixpoint cls_p (e : expr) (r : row) : Z :=
  match e with
  | EAnd a b | EOr a b => first_nz (cls_p a r) (cls_p b r)
  | ENot _ => 1
  | ELit (VBool _) => 0
  | ELit _ | ECol _ | EArith _ _ _ => 1
  | ECmp op a b =>
      first_nz (cls_v a r) (first_nz (cls_v b r)
        (if dnull a r && dnull b r && null_eq_op op then 2 else 0))
  | EIsNull _ a => cls_v a r
  | EIn neg a l => first_nz (cls_v a r) (first_nz (cls_vl l r) (in_class neg a l r))
  | EBetween neg a lo hi =>
      first_nz (cls_v a r) (first_nz (cls_v lo r) (first_nz (cls_v hi r) (between_class neg a lo hi r)))
  | ELike neg a p => first_nz (cls_v a r) (first_nz (cls_v p r) (like_class neg a p r))
  end.

(* row-independent part: NOT / non-boolean leaves in predicate position, literal comparisons
   that constant folding gets wrong *)
Definition same_kind (a b : value) : bool :=
  match a, b with
  | VInt _, VInt _ | VFloat _, VFloat _ | VText _, VText _ | VBool _, VBool _ => true
  | _, _ => false
  end.
Fixpoint cls_syn (e : expr) : Z :=
  match e with
  | EAnd a b | EOr a b => first_nz (cls_syn a) (cls_syn b)
  | ENot _ => 1
  | ELit (VBool _) => 0
  | ELit _ | ECol _ | EArith _ _ _ => 1
  | ECmp (CEq | CNe) a b =>
      match as_literal a, as_literal b with
      | Some x, Some y => if same_kind x y then 0 else 7
      | _, _ => 0
      end
  | _ => 0
  end.

Fixpoint first_row (f : row -> Z) (t : table) : Z :=
  match t with [] => 0 | r :: t' => first_nz (f r) (first_row f t') end.

(* SELECT * FROM t WHERE e, printed in style sty *)
Definition cls_where (sty : Z) (e : expr) (t : table) : Z :=
  first_nz (if (sty =? 1) && has_bare e then 12 else 0)
  (first_nz (cls_syn e)
  (first_nz (match fold_iter 10 e with PNone => 8 | _ => 0 end)
            (first_row (cls_p e) t))).

(* ---------------------------------------------------------------- select list: value position *)
Definition unk (e : expr) (r : row) : Z :=
  match sem3 e r with Some UU => 6 | _ => 0 end.

Fixpoint cls_s (e : expr) (r : row) : Z :=
  match e with
  | EAnd a b | EOr a b => first_nz (cls_s a r) (first_nz (cls_s b r) (unk e r))
  | ENot a => first_nz (cls_s a r) (unk e r)
  | ELit (VBool _) => 0
  | ELit VNull => 6
  | ELit _ | ECol _ | EArith _ _ _ => 99
  | ECmp _ a b => first_nz (cls_v a r) (first_nz (cls_v b r) (unk e r))
  | EIsNull _ a => cls_v a r
  | EIn _ a [] => 99                         (* not SQL; never generated *)
  | EIn _ a l =>
      first_nz (cls_v a r) (first_nz (cls_vl l r) (first_nz (unk e r)
        (if existsb (fun i => eq_differs (eval a r) (eval i r)) l then 10 else 0)))
  | EBetween _ a lo hi =>
      first_nz (cls_v a r) (first_nz (cls_v lo r) (first_nz (cls_v hi r)
        (if is_vnull (eval a r) || is_vnull (eval lo r) || is_vnull (eval hi r) then 6 else 0)))
  | ELike _ a p =>
      first_nz (cls_v a r) (first_nz (cls_v p r) (first_nz (unk e r)
        (match eval a r, eval p r with
         | Some (VText s), Some (VText q) => if has_pct s && has_pct q then 9 else 0
         | _, _ => 0
         end)))
  end.

(* SELECT id, (e) FROM t, printed in style sty *)
Definition cls_select (sty : Z) (e : expr) (t : table) : Z :=
  first_nz (if (sty =? 1) && has_bare e then 12 else 0) (first_row (cls_s e) t).
