(* C30 proofs, part 3: the lane masks (lt_mask / eq_mask as 8 booleans) and what reading a batch of
   8 slot prefixes gives. *)
From Coq Require Import ZArith List Bool Lia ZifyBool.
From TV Require Import Lib.MachInt Lib.MachIntFacts Model.LeafSearch Proof.LeafSearchLex Proof.LeafSearchBase.
Import ListNotations.
Open Scope Z_scope.
Ltac Zify.zify_post_hook ::= Z.to_euclidean_division_equations.
Arguments Z.div : simpl never.
Arguments Z.modulo : simpl never.
Arguments Z.pow : simpl never.
Arguments Z.mul : simpl never.
Arguments Z.add : simpl never.
Arguments Z.sub : simpl never.
Arguments Z.of_nat : simpl never.
Arguments Z.to_nat : simpl never.

(* ---------------------------------------------------------------- masks *)
Lemma all_true_nth l : all_true l = true -> forall j, (j < length l)%nat -> nth j l false = true.
Proof.
  unfold all_true. intros H j Hj. rewrite forallb_forall in H. apply H. apply nth_In. exact Hj.
Qed.

Lemma leading_trues_spec l :
  0 <= leading_trues l <= Z.of_nat (length l) /\
  (forall j, Z.of_nat j < leading_trues l -> nth j l false = true) /\
  (leading_trues l < Z.of_nat (length l) -> nth (Z.to_nat (leading_trues l)) l false = false).
Proof.
  induction l as [|b l (IH1 & IH2 & IH3)]; cbn [leading_trues length].
  - split; [lia|]. split; [intros j Hj; lia | intro H; lia].
  - destruct b.
    + split; [lia|]. split.
      * intros j Hj. destruct j as [|j]; [reflexivity|]. cbn [nth]. apply IH2. lia.
      * intro H. replace (Z.to_nat (1 + leading_trues l)) with (S (Z.to_nat (leading_trues l))) by lia.
        cbn [nth]. apply IH3. lia.
    + split; [lia|]. split; [intros j Hj; lia | intros _; reflexivity].
Qed.

Lemma all_true_false_leading l : all_true l = false -> leading_trues l < Z.of_nat (length l).
Proof.
  unfold all_true. induction l as [|b l IH]; cbn [forallb leading_trues length]; intro H; [discriminate|].
  destruct b; cbn [andb] in H.
  - specialize (IH H). lia.
  - lia.
Qed.

Lemma none_true_nth l : none_true l = true -> forall j, nth j l false = false.
Proof.
  unfold none_true. induction l as [|b l IH]; intros H j.
  - destruct j; reflexivity.
  - cbn [existsb] in H. destruct b; cbn [orb negb] in H; [discriminate|].
    destruct j as [|j]; [reflexivity|]. cbn [nth]. apply IH. exact H.
Qed.

Lemma none_true_false_ex l : none_true l = false -> exists j, (j < length l)%nat /\ nth j l false = true.
Proof.
  unfold none_true. induction l as [|b l IH]; cbn [existsb]; intro H; [discriminate|].
  destruct b.
  - exists O. cbn [length nth]. split; [lia | reflexivity].
  - cbn [orb] in H. destruct (IH H) as (j & Hj & Hn). exists (S j). cbn [length nth]. split; [lia | exact Hn].
Qed.

Lemma first_true_spec l : 0 <= first_true l <= Z.of_nat (length l).
Proof.
  induction l as [|b l IH]; cbn [first_true length]; [lia|]. destruct b; lia.
Qed.

Lemma last_true_from_spec l : forall i acc,
  (none_true l = true -> last_true_from i acc l = acc) /\
  (none_true l = false ->
     i <= last_true_from i acc l < i + Z.of_nat (length l) /\
     nth (Z.to_nat (last_true_from i acc l - i)) l false = true /\
     forall j, last_true_from i acc l - i < Z.of_nat j -> nth j l false = false).
Proof.
  induction l as [|b l IH]; intros i acc.
  - split; [reflexivity | intro H; discriminate].
  - cbn [last_true_from length].
    destruct (IH (i + 1) (if b then i else acc)) as [IHn IHs].
    destruct (none_true l) eqn:En.
    + (* no later true lane *)
      rewrite (IHn eq_refl).
      destruct b.
      * split; [intro H; unfold none_true in H; cbn in H; discriminate|]. intros _.
        split; [lia|]. split.
        -- replace (Z.to_nat (i - i)) with O by lia. reflexivity.
        -- intros j Hj. destruct j as [|j]; [lia|]. cbn [nth]. apply none_true_nth. exact En.
      * split; [intros _; reflexivity|].
        intro H. unfold none_true in *. cbn [existsb orb] in H. rewrite H in En. discriminate.
    + destruct (IHs eq_refl) as (Hb & Hn & Ha).
      set (e := last_true_from (i + 1) (if b then i else acc) l) in *.
      split.
      * intro H. unfold none_true in *. cbn [existsb] in H. destruct b; cbn [orb] in H; [discriminate|].
        rewrite H in En. discriminate.
      * intros _. split; [lia|]. split.
        -- replace (Z.to_nat (e - i)) with (S (Z.to_nat (e - (i + 1)))) by lia. cbn [nth]. exact Hn.
        -- intros j Hj. destruct j as [|j]; [lia|]. cbn [nth]. apply Ha. lia.
Qed.

Lemma last_true_spec l : none_true l = false ->
  0 <= last_true l < Z.of_nat (length l) /\
  nth (Z.to_nat (last_true l)) l false = true /\
  forall j, last_true l < Z.of_nat j -> nth j l false = false.
Proof.
  intro H. unfold last_true. destruct (last_true_from_spec l 0 0) as [_ Hs].
  destruct (Hs H) as (Hb & Hn & Ha).
  rewrite Z.sub_0_r in Hn. split; [lia|]. split; [exact Hn|].
  intros j Hj. apply Ha. lia.
Qed.

Lemma nth_map_bool (f : Z -> bool) l j : (j < length l)%nat -> nth j (map f l) false = f (nth j l 0).
Proof.
  intro H. rewrite (nth_indep (map f l) false (f 0)) by (rewrite map_length; exact H).
  apply map_nth.
Qed.

(* ---------------------------------------------------------------- reading a batch *)
Lemma read_lanes_ok cnt : forall ps bs, 0 <= bs -> bs + Z.of_nat cnt <= klen ps ->
  exists lanes, read_lanes cnt ps bs = Some lanes /\ length lanes = cnt /\
    forall j, (j < cnt)%nat -> nth j lanes 0 = nth (Z.to_nat (bs + Z.of_nat j)) ps 0.
Proof.
  induction cnt as [|c IH]; intros ps bs Hbs Hn.
  - exists []. split; [reflexivity|]. split; [reflexivity|]. intros j Hj. lia.
  - cbn [read_lanes]. rewrite (zth_in ps bs 0) by lia.
    destruct (IH ps (bs + 1)) as (r & Hr & Hl & Hnth); [lia | lia |].
    rewrite Hr. exists (nth (Z.to_nat bs) ps 0 :: r). split; [reflexivity|]. split; [cbn [length]; lia|].
    intros j Hj. destruct j as [|j]; cbn [nth].
    + f_equal. lia.
    + rewrite Hnth by lia. f_equal. lia.
Qed.

(* the lanes of a batch read from a page: lt lane j <-> prefix(bs+j) < t, eq lane j <-> prefix(bs+j) = t *)
Lemma batch_facts keys t bs : keys_ok keys = true -> 0 <= t < 2 ^ 32 ->
  0 <= bs -> bs + 8 <= klen keys ->
  exists lanes, read_lanes 8 (prefixes keys) bs = Some lanes /\
    length (map (lane_lt t) lanes) = 8%nat /\ length (map (lane_eq t) lanes) = 8%nat /\
    (forall j, (j < 8)%nat -> nth j (map (lane_lt t) lanes) false = (pfx keys (bs + Z.of_nat j) <? t)) /\
    (forall j, (j < 8)%nat -> nth j (map (lane_eq t) lanes) false = (pfx keys (bs + Z.of_nat j) =? t)).
Proof.
  intros Hk Ht Hbs Hn.
  destruct (read_lanes_ok 8 (prefixes keys) bs Hbs) as (lanes & Hr & Hl & Hnth).
  { unfold prefixes. rewrite klen_map. exact Hn. }
  exists lanes. split; [exact Hr|]. rewrite !map_length. split; [exact Hl|]. split; [exact Hl|].
  assert (Hp : forall j, (j < 8)%nat -> nth j lanes 0 = pfx keys (bs + Z.of_nat j)).
  { intros j Hj. rewrite (Hnth j Hj). rewrite nth_prefixes. reflexivity. }
  split; intros j Hj; rewrite nth_map_bool by lia; rewrite (Hp j Hj).
  - apply lane_lt_unsigned; [exact Ht | apply pfx_range; exact Hk].
  - reflexivity.
Qed.

Lemma batch_start_bounds l r : 0 <= l -> 8 <= r - l -> l <= batch_start l r <= r - 8.
Proof. intros Hl Hr. unfold batch_start, sat_sub. lia. Qed.
