//! smoke test of the deterministic scheduler on MemoryBudget (to be replaced by the C39 harness)
use std::sync::Arc;
use tvh::sched::*;
use turdb::memory::{MemoryBudget, Pool};

fn run(sched_list: &[usize], progs: Vec<Vec<(bool, Pool, usize)>>) {
    let b = Arc::new(MemoryBudget::with_limit(4 * 1024 * 1024));
    let s = Scheduler::new(progs.len());
    s.install();
    let mut hs = vec![];
    for (id, prog) in progs.into_iter().enumerate() {
        let b2 = Arc::clone(&b);
        hs.push(s.spawn(id, move || {
            for (is_alloc, pool, n) in prog {
                if is_alloc { let r = b2.allocate(pool, n); eprintln!("  t{} alloc {:?} {} -> {}", id, pool, n, r.is_ok()); }
                else { b2.release(pool, n); eprintln!("  t{} release {:?} {}", id, pool, n); }
            }
        }));
    }
    s.wait_all_started();
    for &t in sched_list {
        let o = s.step(t);
        eprintln!("step t{} -> {:?}  total_used={} limit={}", t, o, b.total_used(), b.total_limit());
    }
    let ok = s.drain(100);
    for h in hs { let _ = h.join(); }
    Scheduler::uninstall();
    eprintln!("drained={} final total_used={} limit={}", ok, b.total_used(), b.total_limit());
}

fn main() {
    let m = 1024 * 1024;
    eprintln!("== cross pool");
    run(&[0, 0, 0, 1, 1, 1, 0, 1], vec![vec![(true, Pool::Cache, 3 * m)], vec![(true, Pool::Query, 3 * m)]]);
    eprintln!("== ABA same pool");
    // t1 prepared: pool Shared holds 1m already (by t1 itself first)
    run(&[1, 1, 1, 1, 0, 1, 1, 1, 0, 0, 1, 1, 1, 1, 0, 0], vec![vec![(true, Pool::Shared, 3 * m)], vec![(true, Pool::Shared, 1 * m), (false, Pool::Shared, 1 * m), (true, Pool::Shared, 1 * m)]]);
}
