(* C26: the recorded defect class of src/encoding/key.rs (known finding F-C26-3), as a
   decidable predicate on values.  Definitions only.
     class 3  encode_json Object whose FIRST key is empty or starts with a 0x00 byte: the
              escaped key starts with 0x00, which decode_json_object takes for the terminator
   (classes 1 and 2 -- -0.0 / sign-bit NaN in encode_vector and encode_json Number -- were
   repaired in /repo commit 22060f5; the numbering of class 3 is kept.) *)
From Coq Require Import ZArith List Bool.
From TV Require Import Lib.MachInt Model.KeySpec.
Import ListNotations.
Open Scope Z_scope.

Definition key_starts_nul (k : list Z) : bool :=
  match k with [] => true | b :: _ => b =? 0 end.

(* does some JSON node satisfy p? *)
Fixpoint jany (p : json -> bool) (j : json) : bool :=
  p j ||
  match j with
  | JArr l => existsb (jany p) l
  | JObj l => existsb (fun e => jany p (snd e)) l
  | _ => false
  end.

Definition jnode_bad3 (j : json) : bool :=
  match j with JObj ((k, _) :: _) => key_starts_nul k | _ => false end.
Definition jnode_nan (j : json) : bool := match j with JNum b => is_nan64 b | _ => false end.

(* does some scalar inside v satisfy p? *)
Fixpoint kany (p : sval -> bool) (v : kval) : bool :=
  match v with
  | KS s => p s
  | KArray l | KTuple l | KComposite _ l => existsb (kany p) l
  | KRange lo hi _ _ =>
      (match lo with Some x => kany p x | None => false end)
      || (match hi with Some x => kany p x | None => false end)
  | KDomain _ x => kany p x
  end.

Definition s_class3 (s : sval) : bool := match s with SJson j => jany jnode_bad3 j | _ => false end.

Definition s_known (s : sval) : bool := s_class3 s.
(* free of the recorded defect class *)
Definition known_free (v : kval) : bool := negb (kany s_known v).

Definition kclass_of (v : kval) : Z := if kany s_class3 v then 3 else 0.
