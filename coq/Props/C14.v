(* C14 - WHERE filtering follows SQL three-valued logic.  Property theorems only. *)
From Coq Require Import ZArith List Bool Permutation.
From TV Require Import Model.SqlSpec Proof.SqlSpecLaws.
Import ListNotations.
Open Scope Z_scope.

(* the reference semantics is a Kleene algebra and satisfies ternary-logic partitioning *)
Theorem tlp_partition :
  forall p t, defined_on p t = true ->
    Permutation (filter_spec p t ++ filter_spec (ENot p) t ++ filter_spec (EIsNull false p) t) t.
Proof. exact SqlSpecLaws.tlp_partition. Qed.

Check tlp_partition : forall p t, defined_on p t = true ->
    Permutation (filter_spec p t ++ filter_spec (ENot p) t ++ filter_spec (EIsNull false p) t) t.
Print Assumptions tlp_partition.
