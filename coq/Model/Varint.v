(* C27 model: the varint codec.  The three functions themselves are regenerated from
   src/encoding/varint.rs by tools/rs2v.py on every run (Gen/Varint.v); this file only
   packages `encode_varint`, which writes into a caller buffer, as a byte-string valued
   function.  Definitions only, no proofs. *)
From Coq Require Import ZArith List Bool.
From TV Require Import Lib.MachInt Gen.Varint.
Import ListNotations.
Open Scope Z_scope.

(* what a caller sees after `let n = encode_varint(v, &mut buf)` with a 9-byte zeroed buffer:
   the first n bytes *)
Definition enc (v : Z) : list Z :=
  let '(buf, n) := encode_varint v (repeat 0 9) in firstn (Z.to_nat n) buf.

Definition enc_n (v : Z) : Z := snd (encode_varint v (repeat 0 9)).

Definition dec (b : list Z) : option (Z * Z) := decode_varint b.

Definition u64_ok (v : Z) : bool := in_u 64 v.

(* one correspondence case: value v, the implementation's encoding and what the
   implementation decoded from (encoding ++ tail) *)
Definition case_enc_agrees (v : Z) (impl_bytes : list Z) (impl_len : Z) : bool :=
  zlist_eqb (enc v) impl_bytes && (varint_len v =? impl_len).

Definition opt_eqb (a b : option (Z * Z)) : bool :=
  match a, b with
  | None, None => true
  | Some (x, n), Some (y, m) => (x =? y) && (n =? m)
  | _, _ => false
  end.

Definition case_dec_agrees (b : list Z) (impl : option (Z * Z)) : bool :=
  opt_eqb (dec b) impl && decode_varint_safe b.

(* the property's own oracle on a case, independent of the model of the code *)
Definition spec_roundtrip_ok (v : Z) (impl_dec : option (Z * Z)) (impl_len : Z) : bool :=
  opt_eqb impl_dec (Some (v, impl_len)).
