(* C22 proofs, part 3: the remaining scan_* helpers ($ parameters and dollar quotes, : @ parameters,
   comments, .5 floats), the dispatch of next_token on the first byte (scan_token) and one iteration of
   next_token's comment-skipping loop (comment_or_token). *)
From Coq Require Import ZArith List Bool Arith Lia ZifyBool.
From TV Require Import Model.LexerKeywords Model.Lexer Proof.LexerBase Proof.LexerScan.
Import ListNotations.
Open Scope Z_scope.

Ltac Zify.zify_post_hook ::= Z.to_euclidean_division_equations.

Section Scan2.
Variable s : list Z.
Variable pan : bool.
Hypothesis Hgood : pan = false -> utf8_valid s = true /\ Z.of_nat (len s) < 2 ^ 31.

Notation inv := (inv s pan).
Notation bd := (bd s pan).
Notation wp := (wp pan).
Notation sc_post := (sc_post s pan).

(* ---- tactics: symbolic execution of the monadic code *)
Ltac eofs :=
  repeat match goal with
         | H : is_eof s _ = true |- _ => apply (proj1 (eof_true s _)) in H
         | H : is_eof s _ = false |- _ => apply (proj1 (eof_false s _)) in H
         end.

Ltac ex_bytes :=
  repeat match goal with
         | H : exists b, nth_error _ _ = Some b /\ _ |- _ => destruct H as (? & ? & ? & ?)
         end.

(* a goal `bd i` *)
Ltac bdt :=
  first
    [ assumption
    | apply (bd_len s pan)
    | eapply (bd_at s pan); [eassumption | cls]
    | match goal with
      | H : forall b, nth_error s _ = Some b -> is_ascii b = true -> LexerBase.bd s pan _ |- _ =>
          eapply H; [eassumption | cls]
      end ].

Ltac step :=
  match goal with
  | |- LexerBase.wp _ (bind (advance _ _) _) _ =>
      eapply wp_bind; [apply (wp_advance s pan Hgood); assumption|];
      let st' := fresh "st" in intros st' (? & ? & ? & ? & ? & ?)
  | |- LexerBase.wp _ (bind (skip_while _ _ (lfuel _) _) _) _ =>
      eapply wp_bind; [apply (wp_skip_while s pan Hgood); [assumption | unfold lfuel; lia]|];
      let st' := fresh "st" in intros st' (? & ? & ? & ? & ?)
  | |- LexerBase.wp _ (bind (slice _ _ _) _) _ =>
      eapply wp_bind; [apply (wp_slice s pan Hgood) | intros _ _]
  | |- LexerBase.wp _ (bind (at_byte _ _ _) _) _ =>
      eapply wp_bind; [apply (wp_at_byte s pan)|];
      let g := fresh "g" in intros g ?; destruct g
  | |- LexerBase.wp _ (bind (current _ _) _) _ =>
      eapply wp_bind; [apply (wp_current s pan); lia|]; let H := fresh "Hc" in intros ? H; cbv beta in H
  | |- LexerBase.wp _ (bind (Ok _) _) _ => cbn [bind]
  | |- LexerBase.wp _ (if is_eof _ _ then _ else _) _ =>
      let E := fresh "E" in destruct (is_eof s _) eqn:E; eofs
  | |- LexerBase.wp _ (if ?c then _ else _) _ => let E := fresh "E" in destruct c eqn:E
  end.

Ltac fin := simpl; split; [assumption | lia].

(* turn `pos a < len -> pos b = S (pos a)` into the equation when the premise is known *)
Ltac posn :=
  repeat match goal with
         | H : (pos ?a < len s)%nat -> pos ?b = S (pos ?a) |- _ =>
             let H' := fresh in assert (H' : (pos a < len s)%nat) by lia; specialize (H H'); clear H'
         end.


(* ---------------------------------------------------------------- $ *)
Lemma wp_scan_dollar_string : forall tag st, inv st -> (pos st < len s)%nat ->
  nth_error s (pos st) = Some 36 ->
  wp (scan_dollar_string s tag st) (fun r => sc_post st r).
Proof.
  intros tag st Hi Hp H36. unfold scan_dollar_string. step. posn.
  assert (Hb0 : bd (pos st0)) by bdt.
  eapply wp_bind; [apply (wp_dollar_loop s pan Hgood); [assumption | unfold lfuel; lia]|].
  intros [st2 found] (? & ? & Hc). cbn [fst snd] in *.
  destruct found; [|fin].
  eapply wp_bind; [apply (wp_advance_n s pan Hgood); assumption|].
  intros st3 [? ?]. step.
  - lia.
  - assumption.
  - eapply (bd_at s pan); [apply Hc; reflexivity | reflexivity].
  - fin.
Qed.

Lemma wp_scan_dollar_or_param : forall st, inv st -> (pos st < len s)%nat ->
  nth_error s (pos st) = Some 36 -> wp (scan_dollar_or_param s st) (sc_post st).
Proof.
  intros st Hi Hp H36. unfold scan_dollar_or_param. step. posn. step; [fin|]. step.
  step.
  { (* $digits *)
    step. step.
    - lia.
    - eapply (bd_at s pan); [eassumption | apply ascii_digit; assumption].
    - match goal with H : _ -> LexerBase.bd s pan (pos st0) -> LexerBase.bd s pan (pos st1) |- _ => apply H; [apply ascii_digit|] end.
      eapply (bd_at s pan); [eassumption | apply ascii_digit; assumption].
    - step; fin. }
  step.
  { (* $$ *)
    apply Z.eqb_eq in E1. subst a.
    eapply wp_weaken; [apply wp_scan_dollar_string; [assumption | assumption | assumption]|].
    intros [t st2|st2] [? ?]; simpl; split; try assumption; lia. }
  step; [|fin].
  (* $tag$ *)
  step. step.
  - ex_bytes. step.
    + lia.
    + eapply (bd_at s pan); [eassumption | apply ascii_ident_start; assumption].
    + eapply (bd_at s pan); [eassumption | cls].
    + match goal with H : (36 =? ?x) = true |- _ => apply Z.eqb_eq in H; subst x end.
      eapply wp_weaken; [apply wp_scan_dollar_string; [assumption | assumption | assumption]|].
      intros [t st2|st2] [? ?]; simpl; split; try assumption; lia.
  - fin.
Qed.

(* ---------------------------------------------------------------- : @ *)
Lemma wp_scan_named : forall c st0 st, inv st -> (pos st0 < pos st)%nat -> (pos st < len s)%nat ->
  nth_error s (pos st) = Some c -> is_ident_start c = true ->
  wp (scan_named s st) (sc_post st0).
Proof.
  intros c st0 st Hi Hlt Hp Hc Hs. unfold scan_named. step. step.
  - lia.
  - eapply (bd_at s pan); [eassumption | apply ascii_ident_start; assumption].
  - match goal with H : _ -> LexerBase.bd s pan (pos st) -> LexerBase.bd s pan (pos st1) |- _ => apply H; [apply ascii_ident_char|] end.
    eapply (bd_at s pan); [eassumption | apply ascii_ident_start; assumption].
  - fin.
Qed.

Lemma wp_scan_colon_or_param : forall st, inv st -> (pos st < len s)%nat ->
  wp (scan_colon_or_param s st) (sc_post st).
Proof.
  intros st Hi Hp. unfold scan_colon_or_param. step. posn. step; [fin|]. step.
  step; [step; fin|]. step; [step; fin|]. step; [|fin].
  eapply wp_scan_named; eauto. lia.
Qed.

Lemma wp_scan_at_param : forall st, inv st -> (pos st < len s)%nat ->
  wp (scan_at_param s st) (sc_post st).
Proof.
  intros st Hi Hp. unfold scan_at_param. step. posn. step; [fin|]. step.
  step; [step; fin|]. step; [|fin].
  eapply wp_scan_named; eauto. lia.
Qed.

(* ---------------------------------------------------------------- - *)
Lemma wp_scan_minus : forall st, inv st -> (pos st < len s)%nat -> wp (scan_minus s st) (sc_post st).
Proof.
  intros st Hi Hp. unfold scan_minus. step. posn. step; [fin|]. step.
  step; [|fin].
  step. step.
  - ex_bytes. step. fin.
  - fin.
Qed.

(* ---------------------------------------------------------------- . *)
Lemma wp_scan_dot : forall st, inv st -> (pos st < len s)%nat ->
  nth_error s (pos st) = Some 46 -> wp (scan_dot s st) (sc_post st).
Proof.
  intros st Hi Hp H46. unfold scan_dot. step. posn. step.
  { ex_bytes. step. fin. }
  step; [|fin].
  ex_bytes.
  replace (pos st0 =? 0)%nat with false by (symmetry; apply Nat.eqb_neq; lia).
  cbn [bind].
  assert (Hb0 : bd (pos st0)) by bdt.
  step.
  eapply wp_bind; [apply (wp_scan_exponent s pan Hgood); [assumption|]|].
  { match goal with H : _ -> LexerBase.bd s pan (pos st0) -> LexerBase.bd s pan (pos st1) |- _ => apply H; [apply ascii_digit | assumption] end. }
  intros [st3 ex] (? & ? & ?). cbn [fst snd] in *.
  step.
  - lia.
  - replace (pos st0 - 1)%nat with (pos st) by lia. eapply (bd_at s pan); [eassumption | reflexivity].
  - assumption.
  - fin.
Qed.

(* ---------------------------------------------------------------- dispatch on the first byte *)
Lemma wp_scan_token : forall st, inv st -> (pos st < len s)%nat -> wp (scan_token s st) (sc_post st).
Proof.
  intros st Hi Hp. unfold scan_token. step.
  step; [eapply (wp_scan_identifier_or_keyword s pan Hgood); eauto|].
  step; [eapply (wp_scan_number s pan Hgood); eauto|].
  step; [apply Z.eqb_eq in E1; subst a; eapply (wp_scan_quoted s pan Hgood); eauto|].
  step; [apply Z.eqb_eq in E2; subst a; eapply (wp_scan_quoted s pan Hgood); eauto|].
  step; [apply Z.eqb_eq in E3; subst a; eapply (wp_scan_quoted s pan Hgood); eauto|].
  step; [apply Z.eqb_eq in E4; subst a; apply wp_scan_dollar_or_param; assumption|].
  step; [apply wp_scan_colon_or_param; assumption|].
  step; [apply wp_scan_at_param; assumption|].
  step; [apply (wp_scan_question s pan Hgood); assumption|].
  step; [apply wp_scan_minus; assumption|].
  step; [apply (wp_scan_single s pan Hgood); assumption|].
  step; [apply (wp_scan_single s pan Hgood); assumption|].
  step; [apply (wp_scan_single s pan Hgood); assumption|].
  step; [apply (wp_scan_single s pan Hgood); assumption|].
  step; [apply (wp_scan_single s pan Hgood); assumption|].
  step; [apply (wp_scan_pair s pan Hgood); assumption|].
  step; [apply (wp_scan_pair s pan Hgood); assumption|].
  step; [apply (wp_scan_single s pan Hgood); assumption|].
  step; [apply (wp_scan_hash s pan Hgood); assumption|].
  step; [apply (wp_scan_pair s pan Hgood); assumption|].
  step; [apply (wp_scan_less_than s pan Hgood); assumption|].
  step; [apply (wp_scan_greater_than s pan Hgood); assumption|].
  step; [apply (wp_scan_pair s pan Hgood); assumption|].
  step; [apply (wp_scan_single s pan Hgood); assumption|].
  step; [apply (wp_scan_single s pan Hgood); assumption|].
  step; [apply (wp_scan_single s pan Hgood); assumption|].
  step; [apply (wp_scan_single s pan Hgood); assumption|].
  step; [apply (wp_scan_single s pan Hgood); assumption|].
  step; [apply (wp_scan_single s pan Hgood); assumption|].
  step; [apply (wp_scan_single s pan Hgood); assumption|].
  step; [apply (wp_scan_single s pan Hgood); assumption|].
  step; [apply Z.eqb_eq in E30; subst a; apply wp_scan_dot; assumption|].
  apply (wp_scan_single s pan Hgood); assumption.
Qed.

(* ---------------------------------------------------------------- one iteration of next_token's loop *)
Lemma wp_skip_block_comment : forall st, inv st -> (1 <= pos st)%nat ->
  wp (skip_block_comment s st) (fun r => inv (fst r) /\ (pos st <= pos (fst r))%nat).
Proof.
  intros st Hi Hp. unfold skip_block_comment.
  eapply wp_bind; [apply (wp_block_loop s pan Hgood); [assumption | unfold lfuel; lia | intros _; lia]|].
  intros [st1 depth] [? ?]. cbn [fst snd] in *. simpl. split; assumption.
Qed.

Lemma wp_comment_or_token : forall st, inv st -> (pos st < len s)%nat ->
  wp (comment_or_token s st) (sc_post st).
Proof.
  intros st Hi Hp. unfold comment_or_token. step.
  step.
  { (* -- comment: skip to the end of the line; the first '-' is consumed, so progress *)
    apply andb_prop in E as [E _]. apply Z.eqb_eq in E. subst a.
    step. simpl. split; [assumption|].
    match goal with H : (exists b, _) -> (pos st < pos st0)%nat |- _ => apply H end.
    exists 45. split; [assumption | reflexivity]. }
  step.
  { (* block comment *)
    step. posn. step.
    eapply wp_bind; [apply wp_skip_block_comment; [assumption | lia]|].
    intros [st2 closed] [? ?]. cbn [fst snd] in *.
    step; fin. }
  apply wp_scan_token; assumption.
Qed.

End Scan2.
