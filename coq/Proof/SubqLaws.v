(* C18: laws of the reference semantics of subqueries (Model/SubqSpec.v), independent of TurDB.
   They are the facts a rewriting of IN / NOT IN / EXISTS into semi / anti joins (what
   src/sql/optimizer/rules/decorrelate.rs does) has to respect. *)
From Coq Require Import ZArith List Bool Arith Lia.
From TV Require Import Model.SqlSpec Proof.SqlSpecLaws Model.SubqSpec.
Import ListNotations.
Open Scope Z_scope.

(* ------------------------------------------------------------------ one-step unfoldings *)
Lemma xeval_col : forall db env l i q, xeval db env (XCol l i q) =
  match nth_error env l with Some r => of_opt (nth_error r i) | None => RUndef end.
Proof. reflexivity. Qed.
Lemma xeval_lit : forall db env v, xeval db env (XLit v) = ROk v.
Proof. reflexivity. Qed.
Lemma xeval_arith : forall db env op a b, xeval db env (XArith op a b) =
  rmap2 (fun x y => of_opt (arith_values op x y)) (xeval db env a) (xeval db env b).
Proof. reflexivity. Qed.
Lemma xeval_cmp : forall db env op a b, xeval db env (XCmp op a b) =
  rmap2 (fun x y => of_opt (ret_tv (cmp3 op x y))) (xeval db env a) (xeval db env b).
Proof. reflexivity. Qed.
Lemma xeval_and : forall db env a b, xeval db env (XAnd a b) =
  rval (and_res (rtv (xeval db env a)) (rtv (xeval db env b))).
Proof. reflexivity. Qed.
Lemma xeval_or : forall db env a b, xeval db env (XOr a b) =
  rval (or_res (rtv (xeval db env a)) (rtv (xeval db env b))).
Proof. reflexivity. Qed.
Lemma xeval_not : forall db env a, xeval db env (XNot a) =
  rval (rbind (rtv (xeval db env a)) (fun x => ROk (tv_not x))).
Proof. reflexivity. Qed.
Lemma xeval_isnull : forall db env neg a, xeval db env (XIsNull neg a) =
  rbind (xeval db env a) (fun v => match v with VNull => ROk (VBool (negb neg)) | _ => ROk (VBool neg) end).
Proof. reflexivity. Qed.
Lemma xeval_in : forall db env neg a q, xeval db env (XIn neg a q) =
  rmap2 (in_rows neg) (xeval db env a) (qeval db env q).
Proof. reflexivity. Qed.
Lemma xeval_exists : forall db env neg q, xeval db env (XExists neg q) =
  rbind (qeval db env q) (fun t => ROk (VBool (xorb neg (negb (is_nil t))))).
Proof. reflexivity. Qed.
Lemma xeval_scalar : forall db env q, xeval db env (XScalar q) = rbind (qeval db env q) scalar_rows.
Proof. reflexivity. Qed.
Lemma qeval_set : forall db env k all l r, qeval db env (QSet k all l r) =
  rmap2 (fun a b => if setop_defined a b then ROk (spec_op k all a b) else RUndef) (qeval db env l) (qeval db env r).
Proof. reflexivity. Qed.
Lemma seval_base : forall db env k, seval db env (SBase k) = of_opt (nth_error db k).
Proof. reflexivity. Qed.
Lemma seval_sub : forall db env q, seval db env (SSub q) = qeval db env q.
Proof. reflexivity. Qed.

(* the row loop of SELECT items FROM .. WHERE w, as a function of its own *)
Definition sel_items (db : list table) (env : list row) (items : list sx) : res row :=
  (fix sel (l : list sx) : res row :=
     match l with
     | [] => ROk []
     | it :: l' => rmap2 (fun v vs => ROk (v :: vs)) (xeval db env it) (sel l')
     end) items.
Fixpoint sel_rows (db : list table) (env : list row) (items : list sx) (w : option sx) (rows : table) : res table :=
  match rows with
  | [] => ROk []
  | r :: rest =>
      let keep := match w with None => ROk true | Some p => pass_res (rtv (xeval db (r :: env) p)) end in
      rmap2 (fun k tl => if k : bool then rbind (sel_items db (r :: env) items) (fun o => ROk (o :: tl)) else ROk tl)
            keep (sel_rows db env items w rest)
  end.
Lemma qeval_sel : forall db env items s w, qeval db env (QSel items s w) =
  rbind (seval db env s) (sel_rows db env items w).
Proof.
  intros. change (qeval db env (QSel items s w)) with
    (rbind (seval db env s) (fun rows =>
      (fix go (rows : table) : res table :=
         match rows with
         | [] => ROk []
         | r :: rest =>
             let keep := match w with None => ROk true | Some p => pass_res (rtv (xeval db (r :: env) p)) end in
             let out := sel_items db (r :: env) items in
             rmap2 (fun k tl => if k : bool then rbind out (fun o => ROk (o :: tl)) else ROk tl) keep (go rest)
         end) rows)).
  destruct (seval db env s) as [rows| |]; cbn [rbind]; try reflexivity.
  induction rows as [|r rest IH]; [reflexivity|]. cbn [sel_rows]. rewrite <- IH. reflexivity.
Qed.

(* ------------------------------------------------------------------ EXISTS *)
(* EXISTS is TRUE iff the subquery has a row; it is never UNKNOWN *)
Theorem exists_iff_nonempty : forall db env neg q t,
  qeval db env q = ROk t ->
  xeval db env (XExists neg q) = ROk (VBool (xorb neg (negb (is_nil t)))).
Proof. intros db env neg q t H. rewrite xeval_exists, H. reflexivity. Qed.

Theorem exists_never_unknown : forall db env neg q, xeval db env (XExists neg q) <> ROk VNull.
Proof. intros db env neg q. rewrite xeval_exists. destruct (qeval db env q); cbn [rbind]; discriminate. Qed.

Theorem not_exists_is_negation : forall db env q b,
  xeval db env (XExists false q) = ROk (VBool b) -> xeval db env (XExists true q) = ROk (VBool (negb b)).
Proof.
  intros db env q b. rewrite !xeval_exists. destruct (qeval db env q) as [t| |]; cbn [rbind]; try discriminate.
  intro H. inversion H. cbn [xorb]. destruct (negb (is_nil t)); reflexivity.
Qed.

(* ------------------------------------------------------------------ scalar subqueries *)
Theorem scalar_no_row_is_null : forall db env q,
  qeval db env q = ROk [] -> xeval db env (XScalar q) = ROk VNull.
Proof. intros db env q H. rewrite xeval_scalar, H. reflexivity. Qed.

Theorem scalar_one_row_is_value : forall db env q v r,
  qeval db env q = ROk [v :: r] -> xeval db env (XScalar q) = ROk v.
Proof. intros db env q v r H. rewrite xeval_scalar, H. reflexivity. Qed.

Theorem scalar_many_rows_is_error : forall db env q r1 r2 t,
  qeval db env q = ROk (r1 :: r2 :: t) -> xeval db env (XScalar q) = RErr.
Proof. intros db env q r1 r2 t H. rewrite xeval_scalar, H. cbn [rbind scalar_rows]. destruct r1; reflexivity. Qed.

(* ------------------------------------------------------------------ IN over a list of values *)
Definition eq_tt (x y : value) : bool := match cmp3 CEq x y with Some TT => true | _ => false end.
Definition eq_ff (x y : value) : bool := match cmp3 CEq x y with Some FF => true | _ => false end.
Definition eq_def (x y : value) : bool := match cmp3 CEq x y with Some _ => true | None => false end.

(* where every comparison is defined, IN is TRUE exactly when some element compares equal:
   a semi join (which keeps the rows whose predicate is TRUE) is a correct reading of IN in
   a WHERE clause whether or not there are NULLs *)
Theorem in_true_iff_member : forall x ys,
  forallb (eq_def x) ys = true ->
  (in_vals x ys = Some TT <-> existsb (eq_tt x) ys = true).
Proof.
  intros x ys. induction ys as [|y ys IH]; cbn [forallb in_vals existsb]; intro Hd.
  - split; intro H; discriminate.
  - apply andb_true_iff in Hd. destruct Hd as [Hy Hd]. specialize (IH Hd).
    unfold eq_def in Hy. unfold eq_tt at 1.
    assert (Hdef : exists t, in_vals x ys = Some t).
    { clear IH. induction ys as [|z ys IHy]; cbn [in_vals]; [eexists; reflexivity|].
      cbn [forallb] in Hd. apply andb_true_iff in Hd. destruct Hd as [Hz Hd]. destruct (IHy Hd) as [t Ht]. rewrite Ht.
      unfold eq_def in Hz. destruct (cmp3 CEq x z); [eexists; reflexivity|discriminate]. }
    destruct Hdef as [t Ht]. rewrite Ht in *.
    destruct (cmp3 CEq x y) as [c|]; [|discriminate]. cbn [opt_tv_or].
    destruct c, t; cbn [tv_or orb]; split; intro H; try reflexivity; try discriminate;
      try (apply IH; reflexivity); try (apply IH in H; discriminate).
Qed.

(* NOT IN is TRUE exactly when EVERY element compares unequal (FALSE, not UNKNOWN) *)
Theorem not_in_true_iff_all_differ : forall x ys,
  forallb (eq_def x) ys = true ->
  (opt_tv_neg true (in_vals x ys) = Some TT <-> forallb (eq_ff x) ys = true).
Proof.
  intros x ys. induction ys as [|y ys IH]; cbn [forallb in_vals]; intro Hd.
  - cbn. split; reflexivity.
  - apply andb_true_iff in Hd. destruct Hd as [Hy Hd]. specialize (IH Hd).
    unfold eq_def in Hy. unfold eq_ff at 1.
    destruct (cmp3 CEq x y) as [c|]; [|discriminate].
    destruct (in_vals x ys) as [t|] eqn:Ht.
    + cbn [opt_tv_or opt_tv_neg] in *. destruct c, t; cbn [tv_or tv_not andb] in *; split; intro H; try reflexivity; try discriminate;
        try (apply IH; reflexivity); try (apply IH in H; discriminate).
    + cbn [opt_tv_or opt_tv_neg] in *. destruct c; split; intro H; try discriminate.
      cbn [andb] in H. apply IH in H. discriminate.
Qed.

(* a NULL among the elements: NOT IN is never TRUE (it is FALSE on a match, UNKNOWN otherwise) *)
Theorem not_in_null_unknown : forall x ys,
  In VNull ys -> opt_tv_neg true (in_vals x ys) <> Some TT.
Proof.
  intros x ys Hin. induction ys as [|y ys IH]; [destruct Hin|].
  cbn [in_vals]. destruct Hin as [Hy|Hin].
  - subst y. assert (Hc : cmp3 CEq x VNull = Some UU) by (destruct x; reflexivity). rewrite Hc.
    destruct (in_vals x ys) as [t|]; cbn [opt_tv_or opt_tv_neg]; [|discriminate]. destruct t; discriminate.
  - specialize (IH Hin). destruct (cmp3 CEq x y) as [c|]; [|cbn; discriminate].
    destruct (in_vals x ys) as [t|]; cbn [opt_tv_or opt_tv_neg] in *; [|discriminate].
    destruct c, t; cbn [tv_or tv_not] in *; congruence.
Qed.

(* a NULL on the left: NOT IN is TRUE only over the empty list *)
Theorem null_not_in_unknown : forall ys, ys <> [] -> opt_tv_neg true (in_vals VNull ys) <> Some TT.
Proof.
  intros ys Hne. destruct ys as [|y ys]; [congruence|]. cbn [in_vals].
  assert (Hc : cmp3 CEq VNull y = Some UU) by (destruct y; reflexivity). rewrite Hc.
  destruct (in_vals VNull ys) as [t|]; cbn [opt_tv_or opt_tv_neg]; [|discriminate]. destruct t; discriminate.
Qed.

(* the anti-join reading of NOT IN ("no element equals x") *)
Definition anti_join_keeps (x : value) (ys : list value) : bool := negb (existsb (eq_tt x) ys).

(* ... is exact when neither side has a NULL (integers) *)
Definition all_int (ys : list value) : Prop := forall y, In y ys -> exists z, y = VInt z.

Theorem in_as_semijoin : forall x ys, all_int ys ->
  in_vals (VInt x) ys = Some (tv_of_bool (existsb (eq_tt (VInt x)) ys)).
Proof.
  intros x ys H. induction ys as [|y ys IH]; cbn [in_vals existsb]; [reflexivity|].
  destruct (H y (or_introl eq_refl)) as [z Hz]. subst y.
  rewrite IH by (intros y Hy; apply H; right; exact Hy).
  change (eq_tt (VInt x) (VInt z)) with (match cmp3 CEq (VInt x) (VInt z) with Some TT => true | _ => false end).
  cbn [cmp3 cmp_values]. destruct (x ?= z); cbn [cmp_holds tv_of_bool opt_tv_or tv_or orb];
    try reflexivity; destruct (existsb (eq_tt (VInt x)) ys); reflexivity.
Qed.

Theorem not_in_as_antijoin : forall x ys, all_int ys ->
  opt_tv_neg true (in_vals (VInt x) ys) = Some (tv_of_bool (anti_join_keeps (VInt x) ys)).
Proof.
  intros x ys H. rewrite in_as_semijoin by exact H. unfold anti_join_keeps.
  destruct (existsb (eq_tt (VInt x)) ys); reflexivity.
Qed.

(* ... and wrong as soon as a NULL is involved: 3 NOT IN (1, NULL) is UNKNOWN, NULL NOT IN (1)
   is UNKNOWN, the anti join keeps both rows *)
Theorem antijoin_unsound_with_null :
  (anti_join_keeps (VInt 3) [VInt 1; VNull] = true /\ opt_tv_neg true (in_vals (VInt 3) [VInt 1; VNull]) = Some UU) /\
  (anti_join_keeps VNull [VInt 1] = true /\ opt_tv_neg true (in_vals VNull [VInt 1]) = Some UU).
Proof. repeat split; reflexivity. Qed.
