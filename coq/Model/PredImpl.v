(* Hand-written model of TurDB's predicate evaluation AS IT IS (including its wrong
   behaviour), for property C14.  Definitions only.

   Transcribed from /repo:
     src/sql/predicate.rs   CompiledPredicate::eval_expr (l.121, the bool evaluator used by
                            FilterExec), eval_value (l.151, Option<Value>, used for operands and by
                            the select list through evaluate_to_value l.1769), eval_unary_op,
                            values_equal, value_cmp, like_match_impl, eval_binary_op,
                            value_to_bool, eval_arithmetic_op, compare_values
     src/sql/optimizer/rules/constant_folding.rs   try_fold_filter_predicate, literals_equal
     src/sql/optimizer/mod.rs                      optimize (max_iterations = 10)
     src/sql/parser.rs      a negative numeric literal is UnaryOp{Minus, Literal}
   Not translatable by tools/rs2v.py (enums, Option, strings, recursion over an AST), hence
   hand-modelled; tied to the code by the correspondence run (Corr/C14.v).

   The SQL text is produced FULLY PARENTHESISED by the harness, so TurDB's parser precedence
   plays no role except where Corr/C14.v models it explicitly (bare NOT). *)
From Coq Require Import ZArith List Bool.
From TV Require Import Model.SqlSpec.
Import ListNotations.
Open Scope Z_scope.

(* crate::types::Value restricted to the variants a BIGINT / DOUBLE PRECISION / TEXT table
   and the literals can produce *)
Inductive ivalue := INull | IInt (z : Z) | IFloat (bits : Z) | IText (s : list Z).

(* outcome of running implementation code: a result, a panic (dev profile: overflow checks),
   or a construct this model does not cover (never produced by the generators; a case that
   reaches it is reported as a disagreement, not silently accepted) *)
Inductive res (A : Type) := Ok (a : A) | Panic | Unmod.
Arguments Ok {A} a.
Arguments Panic {A}.
Arguments Unmod {A}.

Definition bindr {A B} (x : res A) (f : A -> res B) : res B :=
  match x with Ok a => f a | Panic => Panic | Unmod => Unmod end.
(* the `?` on Option<Value>: None short-circuits *)
Definition bindo {A B} (x : res (option A)) (f : A -> res (option B)) : res (option B) :=
  match x with Ok (Some a) => f a | Ok None => Ok None | Panic => Panic | Unmod => Unmod end.

Definition ib (b : bool) : ivalue := IInt (Z.b2z b).

(* ------------------------------------------------------------------ floats in the implementation *)
(* `x as f64` for an i64: round to nearest, ties to even; the result is an integer *)
Definition round53 (x : Z) : Z :=
  let a := Z.abs x in
  if a <=? 2 ^ 53 then x else
  let k := Z.log2 a - 52 in
  let q := a / 2 ^ k in
  let r := a mod 2 ^ k in
  let half := 2 ^ (k - 1) in
  let q' := if (half <? r) || ((r =? half) && Z.odd q) then q + 1 else q in
  Z.sgn x * (q' * 2 ^ k).

(* f64::partial_cmp *)
Definition f_partial_cmp (a b : Z) : option comparison := fcmp a b.
(* (x as f64).partial_cmp(&b) *)
Definition if_partial_cmp (x b : Z) : option comparison :=
  if f_ok b && negb (f_is_nan b) then Some (ifcmp_exact (round53 x) b) else None.

(* (x - y).abs() < f64::EPSILON for two doubles given exactly (scaled by 2^1074):
   the rounded difference is below 2^-52 iff the exact one is below 2^-52 - 2^-106
   (midpoint between 2^-52 and its predecessor; the tie rounds to the even 2^-52) *)
Definition eps_close_scaled (x y : Z) : bool := Z.abs (x - y) <? 2 ^ 1022 - 2 ^ 968.
Definition f_eps_eq (a b : Z) : bool :=
  f_finite a && f_finite b && eps_close_scaled (f_scaled a) (f_scaled b).
Definition if_eps_eq (x b : Z) : bool :=
  f_finite b && eps_close_scaled (int_scaled (round53 x)) (f_scaled b).

(* ------------------------------------------------------------------ value helpers *)
(* values_equal (l.420): used by IN lists *)
Definition values_equal (a b : ivalue) : bool :=
  match a, b with
  | INull, INull => true
  | INull, _ | _, INull => false
  | IInt x, IInt y => x =? y
  | IFloat x, IFloat y => f_eps_eq x y
  | IInt x, IFloat y => if_eps_eq x y
  | IFloat x, IInt y => if_eps_eq y x
  | IText x, IText y => zlist_eqb' x y
  | _, _ => false
  end.

(* value_cmp (l.433): used by BETWEEN *)
Definition value_cmp (a b : ivalue) : option comparison :=
  match a, b with
  | INull, _ | _, INull => None
  | IInt x, IInt y => Some (Z.compare x y)
  | IFloat x, IFloat y => f_partial_cmp x y
  | IInt x, IFloat y => if_partial_cmp x y
  | IFloat x, IInt y => option_map CompOpp (if_partial_cmp y x)
  | IText x, IText y => Some (bytes_cmp x y)
  | _, _ => None
  end.

(* compare_values (l.1730): NULL against NULL is Ordering::Equal here *)
Definition cmp_ordering (a b : ivalue) : option comparison :=
  match a, b with
  | INull, INull => Some Eq
  | INull, _ | _, INull => None
  | IInt x, IInt y => Some (Z.compare x y)
  | IInt x, IFloat y => if_partial_cmp x y
  | IFloat x, IInt y => option_map CompOpp (if_partial_cmp y x)
  | IFloat x, IFloat y => f_partial_cmp x y
  | IText x, IText y => Some (bytes_cmp x y)
  | _, _ => None
  end.
Definition compare_values (l r : option ivalue) (op : cmpop) : bool :=
  match l, r with
  | Some a, Some b =>
      match cmp_ordering a b with
      | Some c => cmp_holds op c
      | None => false
      end
  | _, _ => false
  end.

(* value_to_bool (l.1134) *)
Definition value_to_bool (v : ivalue) : bool :=
  match v with
  | IInt n => negb (n =? 0)
  | IFloat f => negb (f_key f =? 0) || f_is_nan f
  | INull => false
  | IText s => match s with [] => false | _ => true end
  end.

(* eval_arithmetic_op (l.1710) with plain i64 + - * : overflow panics in the dev profile *)
Definition arith_i (op : arith) (a b : ivalue) : res (option ivalue) :=
  match a, b with
  | IInt x, IInt y => let z := arith_z op x y in if i64_ok z then Ok (Some (IInt z)) else Panic
  | IFloat _, (IInt _ | IFloat _) | IInt _, IFloat _ => Unmod      (* float arithmetic: not modelled *)
  | _, _ => Ok None
  end.

(* ------------------------------------------------------------------ LIKE (l.453 like_match_impl) *)
Fixpoint strip_pct (p : list Z) : list Z :=
  match p with c :: p' => if c =? 37 then strip_pct p' else p | [] => [] end.
Definition is_nil (p : list Z) : bool := match p with [] => true | _ => false end.

(* The two-index loop, on suffixes: t = text[ti..], p = pattern[pi..],
   star = Some (pattern[star_pi+1..], text[star_ti..]).  None = out of fuel. *)
Fixpoint like_loop (fuel : nat) (t p : list Z) (star : option (list Z * list Z)) : option bool :=
  match fuel with
  | O => None
  | S f =>
      match t with
      | [] => Some (is_nil (strip_pct p))
      | x :: t' =>
          let backtrack :=
            match star with
            | Some (sp, _ :: st') => like_loop f st' sp (Some (sp, st'))
            | Some (sp, []) => Some (is_nil (strip_pct sp))
            | None => Some false
            end in
          match p with
          | c :: p' =>
              if (c =? 95) || (c =? x) then like_loop f t' p' star
              else if c =? 37 then like_loop f t p' (Some (p', t))
              else backtrack
          | [] => backtrack
          end
      end
  end.
Definition like_fuel (t p : list Z) : nat := (length t + 2) * (length p + 2).
Definition like_impl (t p : list Z) : option bool := like_loop (like_fuel t p) t p None.

(* ------------------------------------------------------------------ literals and columns *)
(* how the harness prints a literal and what the parser + eval_value make of it:
   a negative number is UnaryOp{Minus, Literal |v|}; Literal::Integer(s) is s.parse::<i64>() *)
Definition lit_value (v : value) : res (option ivalue) :=
  match v with
  | VNull => Ok (Some INull)
  | VInt z =>
      if 0 <=? z then (if z <? 2 ^ 63 then Ok (Some (IInt z)) else Ok None)
      else (if - z <? 2 ^ 63 then Ok (Some (IInt z)) else Ok None)
  | VFloat b => if f_finite b then Ok (Some (IFloat b)) else Unmod
  | VText s => Ok (Some (IText s))
  | VBool b => Ok (Some (ib b))
  end.

Definition col_value (v : value) : res (option ivalue) :=
  match v with
  | VNull => Ok (Some INull)
  | VInt z => Ok (Some (IInt z))
  | VFloat b => Ok (Some (IFloat b))
  | VText s => Ok (Some (IText s))
  | VBool _ => Unmod
  end.

(* ------------------------------------------------------------------ eval_value (l.151) *)
Fixpoint eval_value (e : expr) (r : row) : res (option ivalue) :=
  match e with
  | ECol i => match nth_error r i with Some v => col_value v | None => Ok None end
  | ELit v => lit_value v
  | EArith op a b =>
      bindo (eval_value a r) (fun x => bindo (eval_value b r) (fun y => arith_i op x y))
  | ECmp op a b =>
      bindo (eval_value a r) (fun x => bindo (eval_value b r) (fun y =>
        Ok (Some (ib (compare_values (Some x) (Some y) op)))))
  | EAnd a b =>
      bindo (eval_value a r) (fun x => bindo (eval_value b r) (fun y =>
        Ok (Some (ib (value_to_bool x && value_to_bool y)))))
  | EOr a b =>
      bindo (eval_value a r) (fun x => bindo (eval_value b r) (fun y =>
        Ok (Some (ib (value_to_bool x || value_to_bool y)))))
  | ENot a =>
      bindo (eval_value a r) (fun x =>
        match x with IInt n => Ok (Some (ib (n =? 0))) | _ => Ok None end)
  | EIsNull neg a =>
      bindr (eval_value a r) (fun o =>
        let is_null := match o with Some INull | None => true | Some _ => false end in
        Ok (Some (ib (xorb neg is_null))))
  | EIn neg a l =>
      bindo (eval_value a r) (fun x =>
        bindr ((fix found (l : list expr) : res bool :=
                  match l with
                  | [] => Ok false
                  | i :: l' =>
                      bindr (eval_value i r) (fun o =>
                        match o with
                        | Some y => if values_equal x y then Ok true else found l'
                        | None => found l'
                        end)
                  end) l)
              (fun f => Ok (Some (ib (xorb neg f)))))
  | EBetween neg a lo hi =>
      bindo (eval_value a r) (fun x => bindo (eval_value lo r) (fun l => bindo (eval_value hi r) (fun h =>
        let in_range :=
          match value_cmp x l with Some Lt | None => false | Some _ => true end &&
          match value_cmp x h with Some Gt | None => false | Some _ => true end in
        Ok (Some (ib (xorb neg in_range))))))
  | ELike neg a p =>
      bindo (eval_value a r) (fun x => bindo (eval_value p r) (fun q =>
        match x, q with
        | IText s, IText pat =>
            match like_impl s pat with
            | Some m => Ok (Some (ib (xorb neg m)))
            | None => Unmod
            end
        | _, _ => Ok (Some (ib (xorb neg false)))
        end))
  end.

(* ------------------------------------------------------------------ eval_expr (l.121) *)
Definition truthy (o : option ivalue) : bool :=
  match o with Some (IInt n) => negb (n =? 0) | _ => false end.

Fixpoint eval_expr (e : expr) (r : row) : res bool :=
  match e with
  | EAnd a b => bindr (eval_expr a r) (fun x => if x then eval_expr b r else Ok false)
  | EOr a b => bindr (eval_expr a r) (fun x => if x then Ok true else eval_expr b r)
  | ECmp op a b =>
      bindr (eval_value a r) (fun x => bindr (eval_value b r) (fun y => Ok (compare_values x y op)))
  | ELit (VBool b) => Ok b
  | ELike _ _ _ | EBetween _ _ _ _ | EIn _ _ _ | EIsNull _ _ =>
      bindr (eval_value e r) (fun o => Ok (truthy o))
  | EArith _ _ _ => Ok true                    (* `_ => true` of the inner match on the operator *)
  | ENot _ | ECol _ | ELit _ => Ok true        (* `_ => true`: no UnaryOp arm *)
  end.

(* ------------------------------------------------------------------ constant folding *)
Inductive folded := FTrue | FFalse | FSimp (e : expr).

(* is this node an ast::Expr::Literal (negative numbers are UnaryOp nodes) *)
Definition as_literal (e : expr) : option value :=
  match e with
  | ELit VNull => Some VNull
  | ELit (VBool b) => Some (VBool b)
  | ELit (VText s) => Some (VText s)
  | ELit (VInt z) => if 0 <=? z then Some (VInt z) else None
  | ELit (VFloat b) => if f_sign b =? 0 then Some (VFloat b) else None
  | _ => None
  end.
(* literals_equal: same kind and same source text (the harness prints one text per value) *)
Definition literals_equal (l r : value) : bool :=
  match l, r with
  | VNull, _ | _, VNull => false
  | VBool a, VBool b => Bool.eqb a b
  | VInt a, VInt b => a =? b
  | VFloat a, VFloat b => a =? b
  | VText a, VText b => zlist_eqb' a b
  | _, _ => false
  end.

Fixpoint try_fold (e : expr) : option folded :=
  match e with
  | ELit (VBool true) => Some FTrue
  | ELit (VBool false) => Some FFalse
  | EAnd l r =>
      match try_fold l, try_fold r with
      | Some FFalse, _ | _, Some FFalse => Some FFalse
      | Some FTrue, None => Some (FSimp r)
      | None, Some FTrue => Some (FSimp l)
      | Some FTrue, Some FTrue => Some FTrue
      | _, _ => None
      end
  | EOr l r =>
      match try_fold l, try_fold r with
      | Some FTrue, _ | _, Some FTrue => Some FTrue
      | Some FFalse, None => Some (FSimp r)
      | None, Some FFalse => Some (FSimp l)
      | Some FFalse, Some FFalse => Some FFalse
      | _, _ => None
      end
  | ECmp CEq l r =>
      match as_literal l, as_literal r with
      | Some a, Some b => Some (if literals_equal a b then FTrue else FFalse)
      | _, _ => None
      end
  | ECmp CNe l r =>
      match as_literal l, as_literal r with
      | Some a, Some b => Some (if literals_equal a b then FFalse else FTrue)
      | _, _ => None
      end
  | ENot a =>
      match try_fold a with
      | Some FTrue => Some FFalse
      | Some FFalse => Some FTrue
      | _ => None
      end
  | _ => None
  end.

(* Optimizer::optimize: the rule is applied until nothing changes, at most 10 times *)
Inductive plan_pred := PAll | PNone | PFilter (e : expr).
Fixpoint fold_iter (n : nat) (e : expr) : plan_pred :=
  match n with
  | O => PFilter e
  | S n' =>
      match try_fold e with
      | None => PFilter e
      | Some FTrue => PAll            (* filter removed *)
      | Some FFalse => PNone          (* LogicalOperator::Values(empty): planning then fails *)
      | Some (FSimp e') => fold_iter n' e'
      end
  end.

(* ------------------------------------------------------------------ parser: NOT binds tighter than comparison *)
(* src/sql/parser.rs parse_prefix: `NOT` parses its operand with binding power 14, above the
   comparison / IS / IN / BETWEEN / LIKE level (6).  When the harness prints `NOT x <op> y`
   WITHOUT parentheses around the comparison (style 1; x an atom printed without parentheses),
   TurDB reads `(NOT x) <op> y`.  `reparse_bare e` is the tree TurDB builds for the style-1 text
   of e; in style 0 (fully parenthesised) the tree is e itself. *)
Definition bare_atom (e : expr) : bool :=
  match e with
  | ECol _ => true
  | ELit (VInt z) => 0 <=? z
  | ELit (VFloat b) => f_sign b =? 0
  | ELit _ => true
  | _ => false
  end.
(* the NOT nodes that style 1 prints bare *)
Definition bare_target (x : expr) : bool :=
  match x with
  | ECmp _ a _ | EIsNull _ a | EIn false a _ | EBetween false a _ _ | ELike false a _ => bare_atom a
  | _ => false      (* NOT IN / NOT BETWEEN / NOT LIKE under a bare NOT are never printed bare *)
  end.
Fixpoint reparse_bare (e : expr) : expr :=
  match e with
  | ECol _ | ELit _ => e
  | EArith op a b => EArith op (reparse_bare a) (reparse_bare b)
  | ECmp op a b => ECmp op (reparse_bare a) (reparse_bare b)
  | EAnd a b => EAnd (reparse_bare a) (reparse_bare b)
  | EOr a b => EOr (reparse_bare a) (reparse_bare b)
  | ENot x =>
      if bare_target x then
        match x with
        | ECmp op a b => ECmp op (ENot a) (reparse_bare b)
        | EIsNull neg a => EIsNull neg (ENot a)
        | EIn neg a l => EIn neg (ENot a) (map reparse_bare l)
        | EBetween neg a lo hi => EBetween neg (ENot a) (reparse_bare lo) (reparse_bare hi)
        | ELike neg a p => ELike neg (ENot a) (reparse_bare p)
        | _ => ENot (reparse_bare x)
        end
      else ENot (reparse_bare x)
  | EIn neg a l => EIn neg (reparse_bare a) (map reparse_bare l)
  | EBetween neg a lo hi => EBetween neg (reparse_bare a) (reparse_bare lo) (reparse_bare hi)
  | ELike neg a p => ELike neg (reparse_bare a) (reparse_bare p)
  | EIsNull neg a => EIsNull neg (reparse_bare a)
  end.
(* does style 1 print some NOT bare, i.e. does TurDB build a different tree *)
Fixpoint has_bare (e : expr) : bool :=
  match e with
  | ECol _ | ELit _ => false
  | EArith _ a b | ECmp _ a b | EAnd a b | EOr a b | ELike _ a b => has_bare a || has_bare b
  | ENot x => bare_target x || has_bare x
  | EIn _ a l => has_bare a || existsb has_bare l
  | EBetween _ a lo hi => has_bare a || has_bare lo || has_bare hi
  | EIsNull _ a => has_bare a
  end.
(* the tree TurDB evaluates for a query printed in the given style *)
Definition parsed (sty : Z) (e : expr) : expr := if sty =? 1 then reparse_bare e else e.

(* ------------------------------------------------------------------ the two query shapes *)
(* what a query is observed to do *)
Inductive qout :=
| QRows (counts : list Z)      (* WHERE: per table row, how many times it was returned *)
| QVals (codes : list Z)       (* select list: per table row 1 TRUE, 0 FALSE, 2 NULL, 3 other *)
| QErr                         (* the statement returned an error *)
| QPanic                       (* the statement panicked *)
| QBad.                        (* the result is not made of rows of the table *)

Inductive mout := MOut (q : qout) | MUnmod.

Fixpoint filter_rows (e : expr) (t : table) : res (list Z) :=
  match t with
  | [] => Ok []
  | r :: t' =>
      bindr (eval_expr e r) (fun b => bindr (filter_rows e t') (fun m => Ok (Z.b2z b :: m)))
  end.

(* SELECT * FROM t WHERE e *)
Definition model_where (e : expr) (t : table) : mout :=
  match fold_iter 10 e with
  | PAll => MOut (QRows (map (fun _ => 1) t))
  | PNone => MOut QErr
  | PFilter e' =>
      match filter_rows e' t with
      | Ok m => MOut (QRows m)
      | Panic => MOut QPanic
      | Unmod => MUnmod
      end
  end.

Definition code_of (o : option ivalue) : Z :=
  match o with
  | None | Some INull => 2
  | Some (IInt 1) => 1
  | Some (IInt 0) => 0
  | Some _ => 3
  end.
Fixpoint select_rows (e : expr) (t : table) : res (list Z) :=
  match t with
  | [] => Ok []
  | r :: t' =>
      bindr (eval_value e r) (fun o => bindr (select_rows e t') (fun m => Ok (code_of o :: m)))
  end.

(* SELECT id, (e) FROM t *)
Definition model_select (e : expr) (t : table) : mout :=
  match select_rows e t with
  | Ok m => MOut (QVals m)
  | Panic => MOut QPanic
  | Unmod => MUnmod
  end.
