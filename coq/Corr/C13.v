(* C13 correspondence: judge what the harness observed on the real implementation.
   Lex cases: the token stream of the real turdb::sql::Lexer and count_parameters against the model
              lexer of Model/ParamSubst.v.
   Run cases: one statement with placeholders, two parameter vectors and one execution path against
              Database::execute on the statement with the equivalent literals inlined (results and
              full-table state, as digests).
   Evaluated by vm_compute; definitions only. *)
From Coq Require Import ZArith List Bool.
From TV Require Export Model.ParamSubst.
Import ListNotations.
Open Scope Z_scope.

(* a statement template: literal text and placeholders (anonymous `?`, positional `$n`) *)
Inductive piece := Lit (t : list Z) | PhA | PhP (n : Z).
Inductive case :=
| Lex (sql : list Z) (toks : option (list (Z * Z * Z * Z))) (cnt : Z)
    (* every token of the real lexer as (code, n, start, end); None = the lexer panicked;
       cnt = count_parameters(sql) *)
| Run (path : Z) (st : list piece) (p1 p2 : list val)
      (h : list Z)      (* [fnv inlined1; fnv inlined2; fnv substituted1; fnv substituted2], -1 = none *)
      (d : list Z)      (* digests [ref1; ref2; got1; got2; raw1; raw2; qtx1; qtx2] *)
      (k : list Z)      (* outcome kinds [ref1; ref2; got1; got2]: 0 ok, 1 error, 2 panic *)
      (pc : Z).         (* PreparedStatement::param_count(), -1 if prepare failed *)

Definition path_ewp := 1.   (* Database::execute_with_params *)
Definition path_pex := 2.   (* prepare().bind()...execute(), the same prepared statement twice *)
Definition path_qry := 3.   (* prepare().bind()...query() *)

(* ---------------------------------------------------------------- Lex *)
Definition tok_code (k : tk) : Z * Z :=
  match k with
  | KAnon => (1, 0) | KPos n => (2, n) | KNamed => (3, 0)
  | KStr => (4, 0) | KInt => (5, 0) | KFlt => (6, 0) | KId => (7, 0) | KQid => (8, 0)
  | KHex => (9, 0) | KMinus => (10, 0) | KErr => (11, 0)
  | KOp | KWs | KCom => (0, 0)
  end.

Definition tok4_eqb (a b : Z * Z * Z * Z) : bool :=
  let '(a1, a2, a3, a4) := a in let '(b1, b2, b3, b4) := b in
  (a1 =? b1) && (a2 =? b2) && (a3 =? b3) && (a4 =? b4).

Fixpoint list_eqb {A} (e : A -> A -> bool) (a b : list A) : bool :=
  match a, b with
  | [], [] => true
  | x :: a', y :: b' => e x y && list_eqb e a' b'
  | _, _ => false
  end.

Definition model_tokens (sql : list Z) : option (list (Z * Z * Z * Z)) :=
  match lex sql with
  | Some items => Some (map (fun t => let '(k, s, e) := t in let '(c, n) := tok_code k in (c, n, s, e)) (spans_from 0 items))
  | None => None
  end.

Definition lex_agrees (sql : list Z) (toks : option (list (Z * Z * Z * Z))) (cnt : Z) : bool :=
  match toks, model_tokens sql, lex sql with
  | Some t, Some m, Some items => list_eqb tok4_eqb t m && (count_items items =? cnt)
  | _, _, _ => false
  end.

(* ---------------------------------------------------------------- Run: texts *)
Definition ph_text (p : piece) : list Z :=
  match p with
  | Lit t => t
  | PhA => [63]
  | PhP n => 36 :: show_nat n
  end.
Definition flat (st : list piece) : list Z := concat (map ph_text st).

(* the equivalent literal of the property's reference statement: NULL, TRUE / FALSE, the decimal
   digits, '...' with doubled quotes, X'..'; for a float Rust's shortest round-trip form (the oracle
   column `shown`) *)
Definition spec_lit (v : val) : list Z := render v.

(* the reference statement: every placeholder replaced by the equivalent literal as a token of its
   own (a space on either side); anonymous placeholders take the values in order, $n the n-th *)
Fixpoint spec_inline (st : list piece) (ps : list val) (k : nat) : option (list Z) :=
  match st with
  | [] => Some []
  | Lit t :: r => option_map (app t) (spec_inline r ps k)
  | PhA :: r =>
      match nth_error ps k with
      | Some p => option_map (fun o => 32 :: spec_lit p ++ 32 :: o) (spec_inline r ps (S k))
      | None => None
      end
  | PhP n :: r =>
      if n <=? 0 then None else
      match nth_error ps (Z.to_nat (n - 1)) with
      | Some p => option_map (fun o => 32 :: spec_lit p ++ 32 :: o) (spec_inline r ps k)
      | None => None
      end
  end.

Definition fnv (l : list Z) : Z :=
  fold_left (fun h b => Z.land (Z.lxor h b * 1099511628211) 18446744073709551615) l 14695981039346656037.

Definition vals (ps : list val) : list val := ps.

Definition hash_subst (sql : list Z) (ps : list val) : Z :=
  match subst sql (vals ps) with SOk o => fnv o | _ => -1 end.
Definition hash_inline (st : list piece) (ps : list val) : Z :=
  match spec_inline st ps O with Some o => fnv o | None => -1 end.

Definition nthz (l : list Z) (i : nat) : Z := nth i l (-7).

(* ---------------------------------------------------------------- Run: agreement with the model *)
Definition run_agrees (path : Z) (st : list piece) (p1 p2 : list val) (h d : list Z) (pc : Z) : bool :=
  let sql := flat st in
  (* the harness' reference text is the Spec's inline; its copy of substitute_parameters, driven by
     the REAL lexer, produced exactly the model's text *)
  (hash_inline st p1 =? nthz h 0) && (hash_inline st p2 =? nthz h 1) &&
  (hash_subst sql p1 =? nthz h 2) && (hash_subst sql p2 =? nthz h 3) &&
  (* prepare() counted the parameters like the model *)
  ((pc <? 0) || match lex sql with Some items => count_items items =? pc | None => false end) &&
  (* the query path behaves exactly like Database::query on the model's substituted text *)
  (negb (path =? path_qry) || ((nthz d 2 =? nthz d 6) && (nthz d 3 =? nthz d 7))).

(* ---------------------------------------------------------------- Run: the property *)
(* same result and same table contents as the statement with the literals inlined, on the first
   and on the second execution *)
Definition run_spec_ok (d : list Z) : bool :=
  (nthz d 2 =? nthz d 0) && (nthz d 3 =? nthz d 1).

(* ---------------------------------------------------------------- known findings: classes *)
Definition strip_ws (l : list Z) : list Z := filter (fun b => negb (is_ws b)) l.
(* the statement with all whitespace removed and every placeholder written `?` *)
Definition norm (st : list piece) : list Z :=
  concat (map (fun p => match p with Lit t => strip_ws t | _ => [63] end) st).

Definition has_prefix (p l : list Z) : bool := prefix_of p l.
Definition has_suffix (s l : list Z) : bool := prefix_of (rev s) (rev l).
Definition mem_byte (b : Z) (l : list Z) : bool := existsb (Z.eqb b) l.

Definition kw_select : list Z := [83;69;76;69;67;84].
Definition kw_insert : list Z := [73;78;83;69;82;84].
Definition kw_update : list Z := [85;80;68;65;84;69].
Definition kw_delete : list Z := [68;69;76;69;84;69].
Definition stmt_is (kw : list Z) (st : list piece) : bool := has_prefix kw (map upper (norm st)).

Definition has_ph (st : list piece) : bool := existsb (fun p => match p with Lit _ => false | _ => true end) st.

Definition any_param (f : val -> bool) (p1 p2 : list val) : bool := existsb f (vals p1) || existsb f (vals p2).

(* "INSERT INTO t VALUES (?,?,?,?,?,?)" with the six values in column order: the only shape for which
   the cached insert plan (which stores the bound values as the row, in order) is right *)
Definition canonical_insert_text : list Z :=
  [73;78;83;69;82;84;73;78;84;79;116;86;65;76;85;69;83;40;63;44;63;44;63;44;63;44;63;44;63;41].
Fixpoint ph_in_order (st : list piece) (k : Z) : bool :=
  match st with
  | [] => true
  | Lit _ :: r => ph_in_order r k
  | PhA :: r => ph_in_order r (k + 1)
  | PhP n :: r => (n =? k) && ph_in_order r (k + 1)
  end.
Definition canonical_insert (st : list piece) : bool :=
  list_eqb Z.eqb (norm st) canonical_insert_text && ph_in_order st 1.

(* "UPDATE t SET c = ?[, c = ?]* WHERE id = ?": the shape the cached simple-primary-key fast path
   (execute_update_param_only) takes over from the second execution on *)
Definition simple_pk_update (st : list piece) : bool :=
  let n := norm st in
  has_prefix [85;80;68;65;84;69;116;83;69;84] n          (* UPDATEtSET *)
  && has_suffix [87;72;69;82;69;105;100;61;63] n         (* WHEREid=? *)
  && negb (mem_byte 43 n) && negb (mem_byte 45 n) && negb (mem_byte 40 n).

(* an UPDATE whose SET clause adds a placeholder to something (`a = a + ?`) *)
Fixpoint plus_before_ph (st : list piece) : bool :=
  match st with
  | Lit t :: ((PhA | PhP _) :: _) as r => has_suffix [43] (strip_ws t) || plus_before_ph r
  | _ :: r => plus_before_ph r
  | [] => false
  end.

(* a Blob value bound to a placeholder of the WHERE clause (anonymous: k-th value, $n: n-th) *)
Definition is_blob (o : option val) : bool := match o with Some (VBlob _) => true | _ => false end.
Definition contains_where (t : list Z) : bool :=
  (fix go (l : list Z) : bool :=
     match l with
     | [] => false
     | _ :: r => prefix_of [87;72;69;82;69] (map upper l) || go r
     end) t.
Fixpoint blob_in_where (st : list piece) (p1 p2 : list val) (seen : bool) (k : nat) : bool :=
  match st with
  | [] => false
  | Lit t :: r => blob_in_where r p1 p2 (seen || contains_where t) k
  | PhA :: r => (seen && (is_blob (nth_error p1 k) || is_blob (nth_error p2 k))) || blob_in_where r p1 p2 seen (S k)
  | PhP n :: r => (seen && (is_blob (nth_error p1 (Z.to_nat (n - 1))) || is_blob (nth_error p2 (Z.to_nat (n - 1)))))
                  || blob_in_where r p1 p2 seen k
  end.

(* number of anonymous placeholders in the WHERE clause *)
Fixpoint anon_in_where (st : list piece) (seen : bool) : nat :=
  match st with
  | [] => O
  | Lit t :: r => anon_in_where r (seen || contains_where t)
  | PhA :: r => ((if seen then 1 else 0) + anon_in_where r seen)%nat
  | PhP _ :: r => anon_in_where r seen
  end.

(* "DELETE FROM t WHERE id = ?" executed twice with the same value *)
Definition pk_delete (st : list piece) : bool :=
  list_eqb Z.eqb (norm st) [68;69;76;69;84;69;70;82;79;77;116;87;72;69;82;69;105;100;61;63].
Definition val_eqb (a b : val) : bool :=
  match a, b with
  | VNull, VNull => true
  | VBool x, VBool y => Bool.eqb x y
  | VInt x, VInt y => x =? y
  | VText x, VText y => zl_eqb x y
  | VBlob x, VBlob y => zl_eqb x y
  | VFloat x _, VFloat y _ => x =? y
  | _, _ => false
  end.
Definition same_values (a b : list val) : bool := list_eqb val_eqb a b.

(* class of a Run case; 0 = not a recorded finding *)
Definition run_class (path : Z) (st : list piece) (p1 p2 : list val) (d k : list Z) : Z :=
  let first_ok := nthz d 2 =? nthz d 0 in
  let second_bad := negb (nthz d 3 =? nthz d 1) in
  (* the first execution that differs is one on which the bound statement raised an error (a later
     difference may just be its consequence: the first update is missing) *)
  let bound_errs := if nthz d 2 =? nthz d 0 then nthz k 3 =? 1 else nthz k 2 =? 1 in
  let upd_or_del := stmt_is kw_update st || stmt_is kw_delete st in
  (* classes 1, 2, 3, 5 and 9 were repaired in /repo (77099db, 82cbce6, 692c755, e081981) and are no
     longer recognised; class 7 (substitution changes the token structure, the model's own
     prediction) has no recorded finding any more: a case in it is a violation *)
  if any_param is_int_min p1 p2 then 6
  else if stmt_is kw_select st
          && (negb (subst_stable (flat st) p1) || negb (subst_stable (flat st) p2)) then 7
  else if path =? path_qry then 0
  else if stmt_is kw_update st && plus_before_ph st && bound_errs then 8
  else if upd_or_del && (2 <=? anon_in_where st false)%nat then 12
  else if upd_or_del && blob_in_where st p1 p2 false O then 10
  else if (path =? path_pex) && stmt_is kw_update st && simple_pk_update st && first_ok && second_bad then 4
  else if (path =? path_pex) && stmt_is kw_insert st && canonical_insert st && first_ok && second_bad
          && (nthz k 1 =? 1) && (nthz k 3 =? 0) then 11
  else 0.

(* ---------------------------------------------------------------- the contract *)
Definition model_agrees (c : case) : bool :=
  match c with
  | Lex sql toks cnt => lex_agrees sql toks cnt
  | Run path st p1 p2 h d k pc => run_agrees path st p1 p2 h d pc
  end.

Definition spec_ok (c : case) : bool :=
  match c with
  | Lex _ toks _ => match toks with Some _ => true | None => false end      (* the lexer must not panic *)
  | Run _ _ _ _ _ d _ _ => run_spec_ok d
  end.

Definition known_class (c : case) : Z :=
  match c with
  | Lex _ _ _ => 0
  | Run path st p1 p2 _ d k _ => if run_spec_ok d then 0 else run_class path st p1 p2 d k
  end.

Fixpoint failures_from (i : Z) (cs : list case) : list (Z * bool * bool * Z) :=
  match cs with
  | [] => []
  | c :: t =>
      let m := model_agrees c in
      let s := spec_ok c in
      if m && s then failures_from (i + 1) t else (i, m, s, known_class c) :: failures_from (i + 1) t
  end.
Definition failures := failures_from 0.
