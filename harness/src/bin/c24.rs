//! C24 vector distance: the kernels of turdb::hnsw::distance (scalar, AVX2, dispatch) on
//! generated vectors of every length, and ORDER BY vec <-> q / vec <=> q [LIMIT k] through SQL.
//!
//! Case lines (replay format, one case per line):
//!   kint a=1,-2,3 b=4,5,6            integer-valued components (|x| <= 64: all f32 arithmetic exact)
//!   kf32 a=3f800000,... b=...        components as f32 bit patterns (hex)
//!   sql m=<l2|cos> d=<dim> k=<limit|-> q=1,2 rows=1:3,4;2:5,6     integer-valued table
use tvh::*;
use turdb::hnsw::distance as dist;
use turdb::hnsw::DistanceFunction;

type Kern = fn(&[f32], &[f32]) -> f32;

fn simd_available() -> bool {
    #[cfg(target_arch = "x86_64")]
    { return is_x86_feature_detected!("avx2") && is_x86_feature_detected!("fma"); }
    #[allow(unreachable_code)]
    false
}

// The AVX2 kernels are `unsafe fn`s with #[target_feature]; wrap them (only called when the CPU has the features).
#[cfg(target_arch = "x86_64")]
mod avx {
    use turdb::hnsw::distance as dist;
    pub fn l2sq(a: &[f32], b: &[f32]) -> f32 { unsafe { dist::euclidean_squared_avx2(a, b) } }
    pub fn l2(a: &[f32], b: &[f32]) -> f32 { unsafe { dist::euclidean_avx2(a, b) } }
    pub fn dot(a: &[f32], b: &[f32]) -> f32 { unsafe { dist::dot_product_avx2(a, b) } }
    pub fn inner(a: &[f32], b: &[f32]) -> f32 { unsafe { dist::inner_product_avx2(a, b) } }
    pub fn cosine(a: &[f32], b: &[f32]) -> f32 { unsafe { dist::cosine_avx2(a, b) } }
}
#[cfg(not(target_arch = "x86_64"))]
mod avx {
    pub fn l2sq(_: &[f32], _: &[f32]) -> f32 { unreachable!() }
    pub fn l2(_: &[f32], _: &[f32]) -> f32 { unreachable!() }
    pub fn dot(_: &[f32], _: &[f32]) -> f32 { unreachable!() }
    pub fn inner(_: &[f32], _: &[f32]) -> f32 { unreachable!() }
    pub fn cosine(_: &[f32], _: &[f32]) -> f32 { unreachable!() }
}

#[derive(Clone, Copy, PartialEq)]
enum Obs { Bits(u32), Panic, NotRun }
impl Obs {
    fn term(&self) -> String {
        match self { Obs::Bits(w) => format!("OBits {}", w), Obs::Panic => "OPanic".into(), Obs::NotRun => "ONotRun".into() }
    }
}

/// (is the call an AVX2 path on this machine, the function)
fn calls(simd: bool) -> Vec<(bool, bool, Kern)> {
    // (needs_simd, uses_simd_path, f)
    vec![
        (false, false, dist::euclidean_squared_scalar as Kern), (true, true, avx::l2sq as Kern),
        (false, false, dist::euclidean_scalar as Kern), (true, true, avx::l2 as Kern),
        (false, false, dist::dot_product_scalar as Kern), (true, true, avx::dot as Kern),
        (false, false, dist::inner_product_scalar as Kern), (true, true, avx::inner as Kern),
        (false, false, dist::cosine_scalar as Kern), (true, true, avx::cosine as Kern),
        (false, simd, dist::euclidean_squared as Kern),
        (false, simd, dist::select_distance_fn(DistanceFunction::L2)),
        (false, simd, dist::select_distance_fn(DistanceFunction::Cosine)),
        (false, simd, dist::select_distance_fn(DistanceFunction::InnerProduct)),
        (false, simd, dist::select_squared_distance_fn(DistanceFunction::L2)),
    ]
}

/// Run the 15 calls.  A call that takes the AVX2 path is executed only if its unchecked
/// 8-lane loads stay inside `b` (b.len() >= 8*floor(a.len()/8)); otherwise it is undefined
/// behaviour and is reported as not run.
fn run_all(a: &[f32], b: &[f32]) -> (bool, Vec<Obs>) {
    let simd = simd_available();
    let mut out = vec![];
    for (needs_simd, simd_path, f) in calls(simd) {
        if needs_simd && !simd { out.push(Obs::NotRun); continue; }
        if simd_path && b.len() < (a.len() / 8) * 8 { out.push(Obs::NotRun); continue; }
        let (av, bv) = (a.to_vec(), b.to_vec());
        out.push(match catch(move || f(&av, &bv)) {
            Caught::Done(v) => Obs::Bits(v.to_bits()),
            Caught::Panicked(_) => Obs::Panic,
        });
    }
    (simd, out)
}

fn obs_list(o: &[Obs]) -> String { clist(&o.iter().map(|x| x.term()).collect::<Vec<_>>()) }
fn zlist(v: &[i64]) -> String { clist(&v.iter().map(|x| z(*x)).collect::<Vec<_>>()) }
fn csv_i(v: &[i64]) -> String { v.iter().map(|x| x.to_string()).collect::<Vec<_>>().join(",") }
fn csv_h(v: &[u32]) -> String { v.iter().map(|x| format!("{:08x}", x)).collect::<Vec<_>>().join(",") }
fn parse_i(s: &str) -> Vec<i64> { s.split(',').filter(|t| !t.is_empty()).filter_map(|t| t.trim().parse().ok()).collect() }
fn parse_h(s: &str) -> Vec<u32> { s.split(',').filter(|t| !t.is_empty()).filter_map(|t| u32::from_str_radix(t.trim(), 16).ok()).collect() }

#[derive(Clone)]
enum Case {
    KInt { a: Vec<i64>, b: Vec<i64> },
    KF32 { a: Vec<u32>, b: Vec<u32> },
    Sql { cos: bool, rows: Vec<(i64, Vec<i64>)>, q: Vec<i64>, limit: Option<u64> },
}

impl Case {
    fn replay(&self) -> String {
        match self {
            Case::KInt { a, b } => format!("kint a={} b={}", csv_i(a), csv_i(b)),
            Case::KF32 { a, b } => format!("kf32 a={} b={}", csv_h(a), csv_h(b)),
            Case::Sql { cos, rows, q, limit } => format!("sql m={} k={} q={} rows={}",
                if *cos { "cos" } else { "l2" },
                match limit { Some(k) => k.to_string(), None => "-".to_string() },
                csv_i(q),
                rows.iter().map(|(id, v)| format!("{}:{}", id, csv_i(v))).collect::<Vec<_>>().join(";")),
        }
    }
    fn parse(l: &str) -> Option<Case> {
        let l = l.trim();
        let field = |name: &str| -> Option<String> {
            l.split_whitespace().find_map(|t| t.strip_prefix(&format!("{}=", name)).map(|s| s.to_string()))
        };
        if l.starts_with("kint ") || l == "kint" {
            Some(Case::KInt { a: parse_i(&field("a").unwrap_or_default()), b: parse_i(&field("b").unwrap_or_default()) })
        } else if l.starts_with("kf32 ") {
            Some(Case::KF32 { a: parse_h(&field("a").unwrap_or_default()), b: parse_h(&field("b").unwrap_or_default()) })
        } else if l.starts_with("sql ") {
            let rows = field("rows").unwrap_or_default().split(';').filter(|t| !t.is_empty()).filter_map(|t| {
                let mut it = t.splitn(2, ':');
                let id: i64 = it.next()?.parse().ok()?;
                Some((id, parse_i(it.next().unwrap_or(""))))
            }).collect();
            Some(Case::Sql { cos: field("m").as_deref() == Some("cos"), rows, q: parse_i(&field("q").unwrap_or_default()),
                             limit: field("k").and_then(|k| k.parse().ok()) })
        } else { None }
    }
    fn floats(&self) -> (Vec<f32>, Vec<f32>) {
        match self {
            Case::KInt { a, b } => (a.iter().map(|x| *x as f32).collect(), b.iter().map(|x| *x as f32).collect()),
            Case::KF32 { a, b } => (a.iter().map(|x| f32::from_bits(*x)).collect(), b.iter().map(|x| f32::from_bits(*x)).collect()),
            Case::Sql { .. } => (vec![], vec![]),
        }
    }
    fn lens(&self) -> (usize, usize) {
        match self { Case::KInt { a, b } => (a.len(), b.len()), Case::KF32 { a, b } => (a.len(), b.len()), Case::Sql { q, .. } => (q.len(), q.len()) }
    }
    /// reaches the interesting regime: equal lengths, at least one full 8-lane chunk (the
    /// vector loop and the horizontal sum run) and not all-zero operands
    fn nontrivial(&self) -> bool {
        if let Case::Sql { rows, limit, .. } = self {
            // at least 3 rows with at least two different vectors, and a LIMIT (if any) that cuts
            let distinct = rows.iter().any(|(_, v)| *v != rows[0].1);
            return rows.len() >= 3 && distinct && limit.map_or(true, |k| k >= 1);
        }
        let (la, lb) = self.lens();
        let (a, b) = self.floats();
        la == lb && la >= 8 && (a.iter().any(|x| *x != 0.0) || b.iter().any(|x| *x != 0.0))
    }
}

// ------------------------------------------------------------------ generators
fn rand_ints(rng: &mut Rng, n: usize, style: u64) -> Vec<i64> {
    (0..n).map(|_| match style {
        0 => rng.range(-64, 64),
        1 => rng.range(-3, 3),
        2 => *rng.pick(&[-64i64, 64]),
        3 => *rng.pick(&[-64i64, -63, -1, 0, 1, 63, 64]),
        _ => rng.range(0, 64),
    }).collect()
}

/// random finite f32 with |x| in [2^lo, 2^hi)
fn rand_f32(rng: &mut Rng, lo: i32, hi: i32) -> u32 {
    let e = rng.range(lo as i64, (hi - 1) as i64) as i32 + 127;
    let m = (rng.next() as u32) & 0x7F_FFFF;
    let s = (rng.next() as u32 & 1) << 31;
    s | ((e as u32) << 23) | m
}

fn lengths(rng: &mut Rng, thorough: bool) -> Vec<usize> {
    let mut ls: Vec<usize> = (0..=70).collect();
    let bases: &[usize] = if thorough { &[72, 80, 96, 128, 160, 200, 256, 296] } else { &[72, 128, 296] };
    for base in bases { for d in 0..3 { ls.push(base - 1 + d); } }
    ls.push(300);
    let extra = if thorough { 60 } else { 6 };
    for _ in 0..extra { ls.push(71 + rng.below(230) as usize); }
    ls
}

fn gen_cases(rng: &mut Rng, thorough: bool) -> Vec<(Case, &'static str)> {
    let mut cs: Vec<(Case, &'static str)> = vec![];
    let reps = if thorough { 5 } else { 1 };
    let ls = lengths(rng, thorough);
    // ---- integer-valued, equal lengths
    for &n in &ls {
        for r in 0..reps {
            let style = (r as u64) % 5;
            cs.push((Case::KInt { a: rand_ints(rng, n, style), b: rand_ints(rng, n, (style + r as u64 / 5) % 5) }, "int_random"));
        }
        let a = rand_ints(rng, n, 0);
        cs.push((Case::KInt { a: a.clone(), b: a.clone() }, "int_equal_vectors"));
        cs.push((Case::KInt { a: vec![0; n], b: rand_ints(rng, n, 0) }, "int_zero_vector"));
        cs.push((Case::KInt { a: rand_ints(rng, n, 0), b: vec![0; n] }, "int_zero_vector"));
        if (n <= 70 && n % 2 == 0) || thorough {
            cs.push((Case::KInt { a: vec![0; n], b: vec![0; n] }, "int_zero_vector"));
            cs.push((Case::KInt { a: vec![64; n], b: vec![-64; n] }, "int_extreme"));
            cs.push((Case::KInt { a: vec![-64; n], b: vec![-64; n] }, "int_extreme"));
            // a single non-zero component at each end: a dropped lane / tail element shows
            if n > 0 {
                let mut a = vec![0i64; n]; a[n - 1] = 7;
                let mut b = vec![0i64; n]; b[0] = -5;
                cs.push((Case::KInt { a, b }, "int_single_component"));
                let k = rng.below(n as u64) as usize;
                let mut a = vec![1i64; n]; a[k] = 64;
                cs.push((Case::KInt { a, b: vec![1; n] }, "int_single_component"));
            }
        }
    }
    // ---- integer-valued, unequal lengths (outside the property; documents the precondition)
    let n_uneq = if thorough { 300 } else { 60 };
    for i in 0..n_uneq {
        let la = rng.below(if i % 3 == 0 { 100 } else { 40 }) as usize;
        let lb = match rng.below(3) {
            0 => la + 1 + rng.below(9) as usize,                                   // b longer: ignored tail
            1 => { let base = (la / 8) * 8; base + rng.below((la - base) as u64 + 1) as usize } // b shorter, only the scalar tail is short: panic
            _ => rng.below(la as u64 + 1) as usize,                                 // anything shorter (may be UB: not run)
        };
        cs.push((Case::KInt { a: rand_ints(rng, la, 0), b: rand_ints(rng, lb, 0) }, "int_unequal_len"));
    }
    // ---- arbitrary floats, equal lengths
    let freps = if thorough { 5 } else { 2 };
    for &n in &ls {
        for r in 0..freps {
            if !thorough && r == 1 && n % 2 == 1 { continue; }
            let (lo, hi) = match r % 4 { 0 => (-2, 3), 1 => (-30, 30), 2 => (-10, 10), _ => (0, 1) };
            let a: Vec<u32> = (0..n).map(|_| rand_f32(rng, lo, hi)).collect();
            let b: Vec<u32> = (0..n).map(|_| rand_f32(rng, lo, hi)).collect();
            cs.push((Case::KF32 { a, b }, "f32_random"));
        }
        if n > 0 && (thorough || n <= 70) {
            // nearly equal vectors: cancellation in a-b, cosine distance near 0
            let a: Vec<u32> = (0..n).map(|_| rand_f32(rng, -4, 4)).collect();
            let b: Vec<u32> = a.iter().map(|w| if rng.chance(1, 2) { w + rng.below(4) as u32 } else { *w }).collect();
            cs.push((Case::KF32 { a: a.clone(), b }, "f32_nearly_equal"));
            // parallel / antiparallel / with zeros
            let b2: Vec<u32> = a.iter().map(|w| f32::to_bits(f32::from_bits(*w) * -2.0)).collect();
            cs.push((Case::KF32 { a: a.clone(), b: b2 }, "f32_antiparallel"));
            let b3: Vec<u32> = a.iter().map(|w| if rng.chance(1, 3) { 0 } else if rng.chance(1, 5) { 0x8000_0000 } else { *w }).collect();
            cs.push((Case::KF32 { a: a.clone(), b: b3 }, "f32_with_zeros"));
            cs.push((Case::KF32 { a: a.clone(), b: vec![0; n] }, "f32_zero_vector"));
            // mixed magnitudes: small terms absorbed by large ones (summation order matters here)
            let a4: Vec<u32> = (0..n).map(|i| if i % 5 == 0 { rand_f32(rng, 20, 30) } else { rand_f32(rng, -30, -20) }).collect();
            let b4: Vec<u32> = (0..n).map(|_| rand_f32(rng, -30, 30)).collect();
            cs.push((Case::KF32 { a: a4, b: b4 }, "f32_mixed_magnitude"));
        }
    }
    // ---- special values: subnormals, overflow to infinity, infinities, NaN (model only: bit-exact)
    let n_wild = if thorough { 400 } else { 80 };
    let specials: [u32; 12] = [0, 0x8000_0000, 1, 0x8000_0001, 0x007F_FFFF, 0x0080_0000, 0x7F7F_FFFF, 0xFF7F_FFFF,
                               0x7F80_0000, 0xFF80_0000, 0x7FC0_0000, 0x3F80_0000];
    for i in 0..n_wild {
        let n = rng.below(40) as usize;
        let wild = |rng: &mut Rng| -> u32 {
            match rng.below(6) {
                0 => *rng.pick(&specials),
                1 => rand_f32(rng, -126, -100),
                2 => rand_f32(rng, 100, 128),
                3 => (rng.next() as u32) & 0x807F_FFFF,          // subnormal
                4 => if i % 4 == 0 { rng.next() as u32 } else { rand_f32(rng, -1, 2) },
                _ => rand_f32(rng, -64, 64),
            }
        };
        let a: Vec<u32> = (0..n).map(|_| wild(rng)).collect();
        let b: Vec<u32> = (0..n).map(|_| wild(rng)).collect();
        cs.push((Case::KF32 { a, b }, "f32_special_values"));
    }
    cs
}

// ------------------------------------------------------------------ SQL level
#[derive(Clone, PartialEq, Debug)]
enum SqlOut { Ok(Vec<i64>), Panic, Err(String) }

static DB_SEQ: std::sync::atomic::AtomicU64 = std::sync::atomic::AtomicU64::new(0);
/// scratch databases live on tmpfs when there is one (Database::create syncs several files)
fn scratch_root() -> std::path::PathBuf {
    let shm = std::path::Path::new("/dev/shm");
    let base = if shm.is_dir() { shm.to_path_buf() } else { std::env::temp_dir() };
    base.join(format!("tvh-c24-{}", std::process::id()))
}

/// fresh database, CREATE TABLE t (id BIGINT PRIMARY KEY, vec VECTOR(d)), the rows inserted in
/// the given order, then the one k-NN query
fn run_sql(cos: bool, rows: &[(i64, Vec<i64>)], q: &[i64], limit: Option<u64>) -> SqlOut {
    use turdb::{Database, OwnedValue};
    let n = DB_SEQ.fetch_add(1, std::sync::atomic::Ordering::Relaxed);
    let dir = scratch_root().join(format!("db{}", n));
    let _ = std::fs::remove_dir_all(&dir);
    std::fs::create_dir_all(scratch_root()).ok();
    let (rows, q) = (rows.to_vec(), q.to_vec());
    let dir2 = dir.clone();
    let res = catch(std::panic::AssertUnwindSafe(move || -> Result<Vec<i64>, String> {
        let db = Database::create(&dir2).map_err(|e| format!("create: {}", e))?;
        db.execute(&format!("CREATE TABLE t (id BIGINT PRIMARY KEY, vec VECTOR({}))", q.len())).map_err(|e| format!("ddl: {}", e))?;
        for (id, v) in &rows {
            db.execute(&format!("INSERT INTO t (id, vec) VALUES ({}, '[{}]')", id, csv_i(v))).map_err(|e| format!("insert: {}", e))?;
        }
        let sql = format!("SELECT id FROM t ORDER BY vec {} '[{}]'{}", if cos { "<=>" } else { "<->" }, csv_i(&q),
                          match limit { Some(k) => format!(" LIMIT {}", k), None => String::new() });
        let out = db.query(&sql).map_err(|e| format!("query: {}", e))?;
        let mut ids = vec![];
        for r in out {
            match r.values.get(0) { Some(OwnedValue::Int(i)) => ids.push(*i), other => return Err(format!("unexpected value {:?}", other)) }
        }
        Ok(ids)
    }));
    let _ = std::fs::remove_dir_all(&dir);
    match res {
        Caught::Done(Ok(ids)) => SqlOut::Ok(ids),
        Caught::Done(Err(e)) => SqlOut::Err(e),
        Caught::Panicked(_) => SqlOut::Panic,
    }
}

fn rand_row(rng: &mut Rng, d: usize, style: u64) -> Vec<i64> {
    (0..d).map(|_| match style {
        0 => rng.range(-3, 3),
        1 => rng.range(-64, 64),
        2 => rng.range(-1_000_000, 1_000_000),
        3 => *rng.pick(&[-1_000_000i64, -64, -1, 0, 0, 1, 64, 1_000_000]),
        _ => rng.range(0, 9),
    }).collect()
}

/// one generated k-NN case.  `edge`: may contain a zero vector among the rows under `<=>` (NULL
/// distance) and LIMIT 0 -- the regimes of the repaired findings F-C24-1 / F-C24-2
fn gen_sql(rng: &mut Rng, edge: bool) -> (Case, &'static str) {
    let cos = rng.chance(1, 2);
    let d = match rng.below(4) { 0 => 1 + rng.below(3) as usize, 1 => 1 + rng.below(8) as usize, _ => 1 + rng.below(70) as usize };
    let style = rng.below(5);
    let n_max = 45;
    let n = match rng.below(10) { 0 => rng.below(3) as usize, _ => 1 + rng.below(n_max) as usize };
    let mut rows: Vec<(i64, Vec<i64>)> = vec![];
    let zero_rows = edge && rng.chance(1, 4);
    let mut kind = if cos { "sql_cos" } else { "sql_l2" };
    for i in 0..n {
        let v = match rng.below(8) {
            0 if !rows.is_empty() => rows[rng.below(rows.len() as u64) as usize].1.clone(),            // duplicate: exact tie
            1 if !rows.is_empty() => {                                                                   // parallel: tie under cosine
                let m = *rng.pick(&[2i64, 3, -1, -2]);
                let base = rows[rng.below(rows.len() as u64) as usize].1.clone();
                if base.iter().all(|x| x.abs() <= 300_000) { base.iter().map(|x| x * m).collect() } else { base }
            }
            2 if zero_rows || !cos => vec![0; d],
            _ => rand_row(rng, d, style),
        };
        rows.push((i as i64 + 1, v));
    }
    if cos && !zero_rows {
        // no zero vector among the rows: every row has a cosine distance
        for (_, v) in rows.iter_mut() { if v.iter().all(|x| *x == 0) { v[0] = 1; } }
    }
    let q = if rng.chance(1, 12) { vec![0; d] }
            else if !rows.is_empty() && rng.chance(1, 4) { rows[rng.below(rows.len() as u64) as usize].1.clone() }
            else { rand_row(rng, d, style) };
    let limit = match rng.below(10) {
        0 | 1 | 2 => None,
        3 if edge && rng.chance(1, 3) => Some(0),
        4 => Some(n as u64 + rng.below(4)),
        _ => Some(1 + rng.below((n as u64).max(1))),
    };
    if cos && rows.iter().any(|(_, v)| v.iter().all(|x| *x == 0)) && q.iter().any(|x| *x != 0) { kind = "sql_cos_zero_vector_row"; }
    if limit == Some(0) { kind = "sql_limit_0"; }
    (Case::Sql { cos, rows, q, limit }, kind)
}

fn emit(w: &mut CaseWriter, weight: &mut usize, c: &Case, kind: &str) {
    let term = match c {
        Case::Sql { cos, rows, q, limit } => {
            let out = run_sql(*cos, rows, q, *limit);
            let out_t = match &out {
                SqlOut::Ok(ids) => format!("(SOk {})", zlist(ids)),
                SqlOut::Panic => "SPanic".to_string(),
                SqlOut::Err(_) => "SErr".to_string(),
            };
            *weight += 40 + rows.len() * (q.len() + 10);
            format!("Sql {} {} {} {} {}", if *cos { 1 } else { 0 },
                clist(&rows.iter().map(|(id, v)| format!("({}, {})", id, zlist(v))).collect::<Vec<_>>()),
                zlist(q), match limit { Some(k) => format!("(Some {})", k), None => "None".to_string() }, out_t)
        }
        _ => {
            let (a, b) = c.floats();
            let (simd, obs) = run_all(&a, &b);
            *weight += 30 + 2 * (a.len() + b.len());
            match c {
                Case::KInt { a, b } => format!("KInt {} {} {} {}", zlist(a), zlist(b), cbool(simd), obs_list(&obs)),
                Case::KF32 { a, b } => format!("KF32 {} {} {} {}",
                    clist(&a.iter().map(|x| x.to_string()).collect::<Vec<_>>()),
                    clist(&b.iter().map(|x| x.to_string()).collect::<Vec<_>>()), cbool(simd), obs_list(&obs)),
                Case::Sql { .. } => unreachable!(),
            }
        }
    };
    w.push(term, c.replay(), c.nontrivial(), kind);
    // shards are cut by evaluation weight (vector lengths), not by case count
    if *weight >= 6000 { w.flush(); *weight = 0; }
}

fn gen(a: &Args) {
    let mut rng = Rng::new(a.seed);
    let mut w = CaseWriter::new(&a.out, "C24", "Corr.C24", 400);
    let mut weight = 0usize;
    if let Some(lines) = a.replay_lines() {
        for l in lines { if let Some(c) = Case::parse(&l) { emit(&mut w, &mut weight, &c, "replay"); } }
    } else {
        // a few fixed small tables first (readable examples of each regime, incl. the witnesses of the repaired findings)
        for l in ["sql m=l2 k=- q=1,0,0 rows=1:3,0,0;2:0,0,0;3:1,1,0;4:-2,0,0;5:1,0,0;6:0,1,0;7:10,0,0;8:1,0,0",
                  "sql m=l2 k=3 q=1,0,0 rows=1:3,0,0;2:0,0,0;3:1,1,0;4:-2,0,0;5:1,0,0;6:0,1,0;7:10,0,0;8:1,0,0",
                  "sql m=cos k=- q=1,0,0 rows=1:3,0,0;2:0,2,0;3:1,1,0;4:-2,0,0;5:1,0,0;6:0,1,0;7:10,0,0;8:1,0,0",
                  "sql m=cos k=4 q=1,0,0 rows=1:3,0,0;2:0,2,0;3:1,1,0;4:-2,0,0;5:1,0,0;6:0,1,0;7:10,0,0;8:1,0,0",
                  "sql m=cos k=- q=1,0 rows=1:-2,0;2:0,0;3:1,0",
                  "sql m=cos k=4 q=1,0,0 rows=1:3,0,0;2:0,0,0;3:1,1,0;4:-2,0,0;5:1,0,0;6:0,1,0;7:10,0,0;8:1,0,0",
                  "sql m=l2 k=0 q=1,0 rows=1:-2,0;2:0,0;3:1,0",
                  "sql m=cos k=2 q=0,0 rows=1:-2,0;2:0,0;3:1,0",
                  "sql m=l2 k=5 q=7 rows="] {
            if let Some(c) = Case::parse(l) { emit(&mut w, &mut weight, &c, "sql_fixed_small"); }
        }
        for (c, kind) in gen_cases(&mut rng, a.thorough()) { emit(&mut w, &mut weight, &c, kind); }
        let n_sql = if a.thorough() { 2500 } else { 300 };
        for _ in 0..n_sql { let (c, kind) = gen_sql(&mut rng, true); emit(&mut w, &mut weight, &c, kind); }
    }
    let _ = std::fs::remove_dir_all(scratch_root());
    let simd = simd_available();
    w.finish(&[("cpu_avx2_fma".to_string(), cbool(simd).to_string())]);
}

// ------------------------------------------------------------------ oracle (no model)
/// exact sums in i128 on integer-valued vectors: every kernel must return exactly the
/// definition's value (all f32 arithmetic is exact in this regime).
fn oracle_int(a: &[i64], b: &[i64]) -> bool {
    if a.len() != b.len() { return true; }
    let e2: i64 = a.iter().zip(b).map(|(x, y)| (x - y) * (x - y)).sum();
    let d: i64 = a.iter().zip(b).map(|(x, y)| x * y).sum();
    let na: i64 = a.iter().map(|x| x * x).sum();
    let nb: i64 = b.iter().map(|x| x * x).sum();
    let (af, bf): (Vec<f32>, Vec<f32>) = (a.iter().map(|x| *x as f32).collect(), b.iter().map(|x| *x as f32).collect());
    let (_, obs) = run_all(&af, &bf);
    let val = |i: usize| -> Option<f64> { match obs[i] { Obs::Bits(w) => Some(f32::from_bits(w) as f64), Obs::NotRun => None, Obs::Panic => Some(f64::NAN) } };
    let n = a.len() as f64;
    let u = (2.0f64).powi(-23);
    for i in [0usize, 1, 10, 14] { if let Some(v) = val(i) { if v != e2 as f64 { return false; } } }
    for i in [4usize, 5] { if let Some(v) = val(i) { if v != d as f64 { return false; } } }
    for i in [6usize, 7, 13] { if let Some(v) = val(i) { if v != -(d as f64) { return false; } } }
    for i in [2usize, 3, 11] { if let Some(v) = val(i) { if !((v * v - e2 as f64).abs() <= (n + 7.0) * u * e2 as f64 + 1e-300) { return false; } } }
    for i in [8usize, 9, 12] {
        if let Some(v) = val(i) {
            if na == 0 || nb == 0 { if v != 1.0 { return false; } }
            else {
                let exact = 1.0 - d as f64 / ((na as f64) * (nb as f64)).sqrt();
                if !((v - exact).abs() <= (2.0 * n + 10.0) * u) { return false; }
            }
        }
    }
    true
}

/// floats in the safe range: compare with an f64 evaluation of the definition (f64 carries
/// 29 more bits than f32, its own error is negligible against the f32 tolerance)
fn oracle_f32(a: &[u32], b: &[u32]) -> bool {
    if a.len() != b.len() { return true; }
    let af: Vec<f32> = a.iter().map(|x| f32::from_bits(*x)).collect();
    let bf: Vec<f32> = b.iter().map(|x| f32::from_bits(*x)).collect();
    let safe = |x: &f32| *x == 0.0 || (x.abs() >= (2.0f32).powi(-30) && x.abs() <= (2.0f32).powi(30));
    if !af.iter().all(safe) || !bf.iter().all(safe) { return true; }
    let e2: f64 = af.iter().zip(&bf).map(|(x, y)| { let d = *x as f64 - *y as f64; d * d }).sum();
    let d: f64 = af.iter().zip(&bf).map(|(x, y)| *x as f64 * *y as f64).sum();
    let dabs: f64 = af.iter().zip(&bf).map(|(x, y)| (*x as f64 * *y as f64).abs()).sum();
    let na: f64 = af.iter().map(|x| *x as f64 * *x as f64).sum();
    let nb: f64 = bf.iter().map(|x| *x as f64 * *x as f64).sum();
    let (_, obs) = run_all(&af, &bf);
    let val = |i: usize| -> Option<f64> { match obs[i] { Obs::Bits(w) => Some(f32::from_bits(w) as f64), Obs::NotRun => None, Obs::Panic => Some(f64::NAN) } };
    let n = a.len() as f64;
    let u = (2.0f64).powi(-23);
    for i in [0usize, 1, 10, 14] { if let Some(v) = val(i) { if !((v - e2).abs() <= (n + 4.0) * u * e2) { return false; } } }
    for i in [4usize, 5] { if let Some(v) = val(i) { if !((v - d).abs() <= (n + 4.0) * u * dabs) { return false; } } }
    for i in [6usize, 7, 13] { if let Some(v) = val(i) { if !((v + d).abs() <= (n + 4.0) * u * dabs) { return false; } } }
    for i in [2usize, 3, 11] { if let Some(v) = val(i) { if !((v * v - e2).abs() <= (n + 7.0) * u * e2) { return false; } } }
    for i in [8usize, 9, 12] {
        if let Some(v) = val(i) {
            if na == 0.0 || nb == 0.0 { if v != 1.0 { return false; } }
            else if !((v - (1.0 - d / (na * nb).sqrt())).abs() <= (2.0 * n + 10.0) * u) { return false; }
        }
    }
    true
}

/// exact order oracle on the rows returned (integer-valued table): L2 by the integer squared
/// distance; cosine by f64 arithmetic on the exact integer sums with a tolerance of 1e-9
/// (rows with a zero vector have no distance and are not constrained)
fn oracle_sql(cos: bool, rows: &[(i64, Vec<i64>)], q: &[i64], limit: Option<u64>) -> bool {
    let out = match run_sql(cos, rows, q, limit) { SqlOut::Ok(ids) => ids, _ => return false };
    let want = match limit { Some(k) => (k as usize).min(rows.len()), None => rows.len() };
    if out.len() != want { return false; }
    let key = |v: &Vec<i64>| -> Option<f64> {
        if !cos { return Some(v.iter().zip(q).map(|(x, y)| ((x - y) as i128 * (x - y) as i128) as f64).sum::<f64>()); }
        let d: i128 = v.iter().zip(q).map(|(x, y)| *x as i128 * *y as i128).sum();
        let na: i128 = v.iter().map(|x| *x as i128 * *x as i128).sum();
        let nb: i128 = q.iter().map(|x| *x as i128 * *x as i128).sum();
        if na == 0 || nb == 0 { None } else { Some(1.0 - d as f64 / ((na as f64).sqrt() * (nb as f64).sqrt())) }
    };
    let tol = if cos { 1e-9 } else { 0.0 };
    let mut seen = std::collections::HashSet::new();
    let mut outk: Vec<f64> = vec![];
    for id in &out {
        if !seen.insert(*id) { return false; }
        match rows.iter().find(|(i, _)| i == id) { Some((_, v)) => { if let Some(k) = key(v) { outk.push(k); } } None => return false }
    }
    for i in 0..outk.len() { for j in i + 1..outk.len() { if outk[i] > outk[j] + tol { return false; } } }
    for (id, v) in rows {
        if seen.contains(id) { continue; }
        if let Some(k) = key(v) { if outk.iter().any(|o| *o > k + tol) { return false; } }
    }
    true
}

fn search(a: &Args) {
    let mut rng = Rng::new(a.seed ^ 0xC24_5EA7);
    let mut fails: Vec<String> = vec![];
    let mut tried: u64 = 0;
    // every length 0..=300 several times, then random lengths until the budget is used
    let budget = a.budget.min(400_000);
    let mut n_iter = 0u64;
    while tried < budget {
        let n = if n_iter < 301 * 4 { (n_iter % 301) as usize } else { rng.below(301) as usize };
        n_iter += 1;
        let style = rng.below(5);
        let mut av = rand_ints(&mut rng, n, style);
        let style_b = rng.below(5);
        let bv = rand_ints(&mut rng, n, style_b);
        if rng.chance(1, 8) { av = vec![0; n]; }
        if !oracle_int(&av, &bv) && fails.len() < 20 { fails.push(Case::KInt { a: av, b: bv }.replay()); }
        tried += 1;
        let (lo, hi) = *rng.pick(&[(-2, 3), (-30, 30), (-10, 10), (0, 1)]);
        let af: Vec<u32> = (0..n).map(|_| rand_f32(&mut rng, lo, hi)).collect();
        let bf: Vec<u32> = (0..n).map(|_| if rng.chance(1, 10) { 0 } else { rand_f32(&mut rng, lo, hi) }).collect();
        if !oracle_f32(&af, &bf) && fails.len() < 20 { fails.push(Case::KF32 { a: af, b: bf }.replay()); }
        tried += 1;
    }
    // SQL level (zero vectors under <=> and LIMIT 0 included)
    let n_sql = (a.budget / 200).clamp(200, 2000);
    for _ in 0..n_sql {
        let (c, _) = gen_sql(&mut rng, true);
        if let Case::Sql { cos, rows, q, limit } = &c {
            if !oracle_sql(*cos, rows, q, *limit) && fails.len() < 40 { fails.push(c.replay()); }
        }
        tried += 1;
    }
    let _ = std::fs::remove_dir_all(scratch_root());
    let mut out = format!("tried={}\n", tried);
    for f in &fails { out.push_str("FAIL "); out.push_str(f); out.push('\n'); }
    std::fs::write(&a.out, out).expect("write search output");
}

fn main() {
    let a = Args::parse();
    match a.mode.as_str() {
        "gen" => gen(&a),
        "search" => search(&a),
        _ => { eprintln!("c24: unknown mode"); std::process::exit(2); }
    }
}
