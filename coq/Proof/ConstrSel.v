(* C09 proofs, part 5: row selection of DELETE / UPDATE.  Outside class 11 (the selection contains
   a tombstoned entry) and under the invariant, the entries collected by the cursor scan or through
   the primary-key index are exactly the live entries whose row passes the WHERE clause. *)
From Coq Require Import ZArith List Bool Lia ZifyBool Arith.
From TV Require Import Model.SqlSpec Model.CheckStr Model.ConstrSpec Model.ConstrImpl Model.ConstrClass
                       Proof.ConstrBase Proof.ConstrIns.
Import ListNotations.
Open Scope Z_scope.

Definition live_sel (ts : tstate) (w : option expr) : list entry :=
  filter (fun e => live e && wpass w (e_row e)) (ents ts).

(* ---------------------------------------------------------------- WHERE pk = literal *)
Lemma pk_lit_shape ds w v :
  pk_lit ds w = Some v ->
  exists i, pk_pos ds = Some i /\
            (w = Some (ECmp CEq (ECol i) (ELit v)) \/ w = Some (ECmp CEq (ELit v) (ECol i))).
Proof.
  unfold pk_lit. destruct (pk_pos ds) as [i|]; [|discriminate].
  destruct w as [e|]; [|discriminate]. destruct e; try discriminate. destruct op; try discriminate.
  destruct e1; try discriminate.
  - destruct e2; try discriminate. destruct (Nat.eqb i i0) eqn:E; [|discriminate].
    apply Nat.eqb_eq in E. subst i0. intros H. injection H as <-. exists i. split; [reflexivity|left; reflexivity].
  - destruct e2; try discriminate. destruct (Nat.eqb i i0) eqn:E; [|discriminate].
    apply Nat.eqb_eq in E. subst i0. intros H. injection H as <-. exists i. split; [reflexivity|right; reflexivity].
Qed.

Lemma nth_error_col i (r : row) : nth_error r i = Some (col_val i r) \/ (nth_error r i = None /\ col_val i r = VNull).
Proof.
  unfold col_val. destruct (nth_error r i) eqn:E.
  - left. rewrite (nth_error_nth _ _ _ E). reflexivity.
  - right. split; [reflexivity|]. apply nth_overflow. apply nth_error_None. exact E.
Qed.

Lemma fits_col n (r : row) i : row_fits n r = true -> val_fits (col_val i r) = true.
Proof.
  intros H. destruct (nth_error_col i r) as [E|[_ E]]; [|rewrite E; reflexivity].
  unfold row_fits in H. apply andb_true_iff in H. destruct H as [_ H]. rewrite forallb_forall in H.
  apply H. exact (nth_error_In _ _ E).
Qed.

Lemma wpass_pk n i z (r : row) w :
  (w = Some (ECmp CEq (ECol i) (ELit (VInt z))) \/ w = Some (ECmp CEq (ELit (VInt z)) (ECol i))) ->
  row_fits n r = true ->
  wpass w r = value_eqb (col_val i r) (VInt z).
Proof.
  intros Hw Hfit. pose proof (fits_col n r i Hfit) as Hv.
  destruct (nth_error_col i r) as [E|[E1 E2]].
  - destruct (col_val i r) as [|y| | |] eqn:C; try discriminate.
    + destruct Hw as [->| ->]; unfold wpass, wsel, sem3; cbn [eval]; rewrite E; reflexivity.
    + destruct Hw as [->| ->]; unfold wpass, wsel, sem3; cbn [eval]; rewrite E;
        cbn [cmp3 cmp_values ret_tv option_map bind_tv value_eqb].
      * destruct (Z.compare_spec y z) as [H|H|H]; cbn [cmp_holds tv_of_bool value_of_tv tv_of_value]; lia.
      * destruct (Z.compare_spec z y) as [H|H|H]; cbn [cmp_holds tv_of_bool value_of_tv tv_of_value]; lia.
  - rewrite E2. destruct Hw as [->| ->]; unfold wpass, wsel, sem3; cbn [eval]; rewrite E1; reflexivity.
Qed.

(* ---------------------------------------------------------------- a unique value has one live holder *)
Lemma vmem_false_filter (es : list entry) i v :
  vmem v (colvals i (map e_row (filter live es))) = false ->
  filter (fun x => live x && value_eqb (col_val i (e_row x)) v) es = [].
Proof.
  induction es as [|x es IH]; [reflexivity|]. cbn [filter]. destruct (live x) eqn:L; cbn [andb map colvals].
  - unfold vmem. cbn [map existsb]. intros H. apply orb_false_iff in H. destruct H as [H1 H2].
    rewrite value_eqb_sym, H1. apply IH. exact H2.
  - exact IH.
Qed.

Lemma NoDup_id_eq (es : list entry) a b :
  NoDup (map e_id es) -> In a es -> In b es -> e_id a = e_id b -> a = b.
Proof.
  induction es as [|x es IH]; intros Hn Ha Hb E; [destruct Ha|].
  cbn [map] in Hn. inversion Hn as [|? ? Hx Hn']; subst.
  destruct Ha as [<-|Ha]; destruct Hb as [<-|Hb]; try reflexivity.
  - exfalso. apply Hx. rewrite E. apply in_map. exact Hb.
  - exfalso. apply Hx. rewrite <- E. apply in_map. exact Ha.
  - exact (IH Hn' Ha Hb E).
Qed.

Lemma live_filter_unique (es : list entry) i v e :
  nodupv (colvals i (map e_row (filter live es))) = true ->
  NoDup (map e_id es) -> In e es -> live e = true ->
  value_eqb (col_val i (e_row e)) v = true -> is_null v = false ->
  filter (fun x => live x && value_eqb (col_val i (e_row x)) v) es = [e].
Proof.
  induction es as [|x es IH]; intros Hnd Hid Hin Hl Hv Nv; [destruct Hin|].
  cbn [map] in Hid. inversion Hid as [|? ? Hx Hid']; subst.
  cbn [filter]. destruct Hin as [<-|Hin].
  - rewrite Hl, Hv. cbn [andb]. f_equal.
    cbn [filter] in Hnd. rewrite Hl in Hnd. cbn [map colvals nodupv] in Hnd.
    apply andb_true_iff in Hnd. destruct Hnd as [H1 _].
    apply value_eqb_eq in Hv. rewrite Hv in H1. rewrite Nv in H1. cbn [orb] in H1.
    apply negb_true_iff in H1. apply vmem_false_filter. exact H1.
  - destruct (live x && value_eqb (col_val i (e_row x)) v) eqn:Ex.
    + exfalso. apply andb_true_iff in Ex. destruct Ex as [Lx Vx].
      cbn [filter] in Hnd. rewrite Lx in Hnd. cbn [map colvals nodupv] in Hnd.
      apply andb_true_iff in Hnd. destruct Hnd as [H1 _].
      apply value_eqb_eq in Vx. rewrite Vx, Nv in H1. cbn [orb] in H1. apply negb_true_iff in H1.
      assert (Hm : vmem v (colvals i (map e_row (filter live es))) = true).
      { unfold vmem, colvals. apply existsb_exists. exists (col_val i (e_row e)). split.
        - apply in_map. apply in_map. apply filter_In. split; assumption.
        - rewrite value_eqb_sym. exact Hv. }
      unfold colvals in *. congruence.
    + apply IH; try assumption.
      cbn [filter] in Hnd. destruct (live x); [|exact Hnd].
      cbn [map colvals nodupv] in Hnd. apply andb_true_iff in Hnd. tauto.
Qed.

(* ---------------------------------------------------------------- the selection *)
Lemma filter_no_dead (p : entry -> bool) (es : list entry) :
  existsb e_del (filter p es) = false -> filter p es = filter (fun e => live e && p e) es.
Proof.
  induction es as [|x es IH]; [reflexivity|]. cbn [filter]. unfold live at 1.
  destruct (p x) eqn:P; cbn [existsb].
  - intros H. apply orb_false_iff in H. destruct H as [H1 H2]. rewrite H1. cbn [negb andb]. f_equal. exact (IH H2).
  - rewrite andb_false_r. exact IH.
Qed.

Lemma idx_find_in v ix k : idx_find v ix = Some k -> exists v', In (v', k) ix /\ value_eqb v' v = true.
Proof.
  unfold idx_find. destruct (find (fun p => value_eqb (fst p) v) ix) as [[v' k']|] eqn:F; [|discriminate].
  intros H. injection H as <-. apply find_some in F. destruct F as [F1 F2]. exists v'. split; assumption.
Qed.

Lemma get_idx_in ts i : In (get_idx ts i) (idxs ts) \/ get_idx ts i = [].
Proof.
  unfold get_idx. destruct (nth_in_or_default i (idxs ts) []) as [H|H]; [left; exact H|right; exact H].
Qed.

Lemma pk_pos_from_key ds : forall i j, pk_pos_from ds i = Some j ->
  exists d, nth_error ds (j - i) = Some d /\ c_key d = 1 /\ (i <= j)%nat.
Proof.
  induction ds as [|d ds IH]; intros i j H; [discriminate|]. cbn [pk_pos_from] in H.
  destruct (c_key d =? 1) eqn:K.
  - injection H as <-. exists d. rewrite Nat.sub_diag. repeat split; [lia|lia].
  - destruct (IH (S i) j H) as [d' [H1 [H2 H3]]]. exists d'.
    replace (j - i)%nat with (S (j - S i)) by lia. repeat split; [exact H1|exact H2|lia].
Qed.
Lemma pk_pos_key ds i : pk_pos ds = Some i -> exists d, nth_error ds i = Some d /\ is_key d = true.
Proof.
  intros H. destruct (pk_pos_from_key ds 0 i H) as [d [H1 [H2 _]]]. rewrite Nat.sub_0_r in H1.
  exists d. split; [exact H1|]. unfold is_key. rewrite H2. reflexivity.
Qed.

Lemma uniq_from_nth ds : forall i (t : table) j d,
  uniq_from ds i t = true -> nth_error ds j = Some d -> is_key d = true -> nodupv (colvals (i + j) t) = true.
Proof.
  induction ds as [|d0 ds IH]; intros i t j d H Hd K; [destruct j; discriminate|].
  cbn [uniq_from] in H. apply andb_true_iff in H. destruct H as [H0 H1]. destruct j as [|j].
  - cbn [nth_error] in Hd. injection Hd as ->. rewrite K in H0. cbn [negb orb] in H0. rewrite Nat.add_0_r. exact H0.
  - cbn [nth_error] in Hd. replace (i + S j)%nat with (S i + j)%nat by lia. exact (IH (S i) t j d H1 Hd K).
Qed.

Theorem select_rows_live ds ts next w :
  tinv ds ts next -> uniq_ok ds (visible ts) = true ->
  has_dead (select_rows ds ts w) = false ->
  select_rows ds ts w = live_sel ts w.
Proof.
  intros [Hex Hnn [Hnd Hid] [Hrf Hli]] Hu Hdead. unfold select_rows, live_sel in *.
  assert (Hscan : existsb e_del (scan_rows ts w) = false -> scan_rows ts w = filter (fun e => live e && wpass w (e_row e)) (ents ts)).
  { intros _. reflexivity. }
  destruct (pk_probe ds ts w) as [[k v]|] eqn:P; [|apply Hscan; exact Hdead].
  destruct (seek_row ds ts k v) as [|e l] eqn:S; [apply Hscan; exact Hdead|].
  (* the index hit leads to an entry with that key value *)
  unfold pk_probe in P. destruct (pk_lit ds w) as [v0|] eqn:PL; [|discriminate].
  destruct (pk_pos ds) as [i|] eqn:PP; [|discriminate].
  destruct (idx_find v0 (get_idx ts i)) as [k0|] eqn:F; [|discriminate]. injection P as <- <-.
  unfold seek_row in S. destruct (find_ent k0 (ents ts)) as [e0|] eqn:FE; [|discriminate].
  destruct (live e0 && value_eqb (pk_val ds (e_row e0)) v0) eqn:EV; [|discriminate]. injection S as <- <-.
  apply andb_true_iff in EV. destruct EV as [_ EV].
  unfold has_dead in Hdead. cbn [existsb] in Hdead. rewrite orb_false_r in Hdead.
  unfold find_ent in FE. apply find_some in FE. destruct FE as [Hin _].
  (* the literal is not NULL: it is a key of the index *)
  destruct (idx_find_in _ _ _ F) as [v' [Hv' Ev']]. apply value_eqb_eq in Ev'. subst v'.
  assert (Nv : is_null v0 = false).
  { destruct (get_idx_in ts i) as [Hi|Hi]; [exact (Hnn _ _ _ Hi Hv')|rewrite Hi in Hv'; destruct Hv']. }
  destruct (pk_lit_shape ds w v0 PL) as [i' [PP' Hw]]. rewrite PP in PP'. injection PP' as <-.
  destruct (pk_pos_key ds i PP) as [d [Hd K]].
  unfold pk_val in EV. rewrite PP in EV.
  assert (Hfz : exists z, v0 = VInt z).
  { pose proof (fits_col _ _ i (Hrf e0 Hin)) as Hf. apply value_eqb_eq in EV. rewrite EV in Hf.
    destruct v0; try discriminate. eexists; reflexivity. }
  destruct Hfz as [z ->].
  assert (Hfilter : filter (fun x => live x && wpass w (e_row x)) (ents ts) =
                    filter (fun x => live x && value_eqb (col_val i (e_row x)) (VInt z)) (ents ts)).
  { apply filter_ext_in. intros x Hx. rewrite (wpass_pk (length ds) i z (e_row x) w Hw (Hrf x Hx)). reflexivity. }
  rewrite Hfilter. symmetry. apply live_filter_unique; try assumption.
  - unfold uniq_ok in Hu. pose proof (uniq_from_nth ds 0 (visible ts) i d Hu Hd K) as H. exact H.
  - unfold live. rewrite Hdead. reflexivity.
Qed.
