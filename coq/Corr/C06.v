(* C06 correspondence: a statement that returns an error has no effect.  Same cases and the
   same implementation model as C05 (Model/DmlCase.v, Model/Tombstone.v); the property's
   oracle needs no reference model: after a statement that returned an error the table (as a
   bag) and COUNT star must be what they were before it.  Definitions only. *)
From Coq Require Import ZArith List Bool.
From TV Require Export Model.DmlCase.
Import ListNotations.
Open Scope Z_scope.

Fixpoint atomic_go (dict : list row) (prev_rows : table) (prev_cnt : Z) (steps : list (stmt * hobs)) : bool :=
  match steps with
  | [] => true
  | (_, HObs r (Some rows) (Some cnt)) :: rest =>
      let now := drows dict rows in
      match r with
      | HErr => bag_eqb prev_rows now && (prev_cnt =? cnt) && atomic_go dict now cnt rest
      | HAff _ _ => atomic_go dict now cnt rest
      | _ => false
      end
  | _ => false
  end.
Definition spec_ok (c : case) : bool :=
  match c with Hist _ dict steps => atomic_go dict [] 0 steps end.

(* class 1: the history contains an INSERT that fails after it has written at least one row *)
Fixpoint partial_insert (sch : schema) (st : tstate) (h : list stmt) : bool :=
  match h with
  | [] => false
  | s :: h' =>
      (match s with SInsert _ _ => stmt_class sch st s =? 4 | _ => false end)
      || partial_insert sch (snd (step false sch st s)) h'
  end.
Definition known_class (c : case) : Z :=
  match c with Hist sch _ steps => if partial_insert sch t_empty (map fst steps) then 1 else 0 end.

Fixpoint failures_from (i : Z) (cs : list case) : list (Z * bool * bool * Z) :=
  match cs with
  | [] => []
  | c :: t =>
      let m := model_agrees c in
      let s := spec_ok c in
      if m && s then failures_from (i + 1) t else (i, m, s, known_class c) :: failures_from (i + 1) t
  end.
Definition failures := failures_from 0.
