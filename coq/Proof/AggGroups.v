(* C16: the hash table of HashAggregate (Model/AggImpl.v hash_aggregate: insertion keyed by the
   classes of the encoded key) forms exactly the groups of the reference (Model/SqlSpecAgg.v
   groups_of: one per distinct key, NULL keys together), in order of first occurrence, and the
   aggregate states of a group are the fold of update over exactly the rows of that group. *)
From Coq Require Import ZArith List Bool Lia.
From TV Require Import Model.SqlSpecAgg Model.AggImpl Proof.AggKeys.
Import ListNotations.
Open Scope Z_scope.

(* ------------------------------------------------------------------ the reference groups, one row more *)
Lemma existsb_swap {A} (f : A -> bool) a l1 l2 : existsb f ((a :: l1) ++ l2) = existsb f (l1 ++ a :: l2).
Proof. cbn [app existsb]. rewrite !existsb_app. cbn [existsb]. destruct (f a), (existsb f l1), (existsb f l2); reflexivity. Qed.

Lemma distinct_keys_snoc : forall ks seen k,
  distinct_keys seen (ks ++ [k]) =
  distinct_keys seen ks ++ (if existsb (key_same k) (seen ++ distinct_keys seen ks) then [] else [k]).
Proof.
  induction ks as [|k0 t IH]; intros seen k; cbn [app distinct_keys].
  - rewrite app_nil_r. destruct (existsb (key_same k) seen); reflexivity.
  - destruct (existsb (key_same k0) seen) eqn:E.
    + apply IH.
    + rewrite IH, existsb_swap. reflexivity.
Qed.

Lemma distinct_in : forall ks seen d, In d (distinct_keys seen ks) -> In d ks.
Proof.
  induction ks as [|k0 t IH]; intros seen d H; cbn [distinct_keys] in H; [destruct H|].
  destruct (existsb (key_same k0) seen).
  - right; eapply IH; eauto.
  - destruct H as [<-|H]; [left; reflexivity|right; eapply IH; eauto].
Qed.

Lemma distinct_not_seen : forall ks seen d, In d (distinct_keys seen ks) -> existsb (key_same d) seen = false.
Proof.
  induction ks as [|k0 t IH]; intros seen d H; cbn [distinct_keys] in H; [destruct H|].
  destruct (existsb (key_same k0) seen) eqn:E.
  - eapply IH; eauto.
  - destruct H as [<-|H]; [exact E|]. apply IH in H. cbn [existsb] in H. apply orb_false_iff in H. tauto.
Qed.

Lemma filter_none {A} (f : A -> bool) l : (forall x, In x l -> f x = false) -> filter f l = [].
Proof.
  induction l as [|a t IH]; intros H; [reflexivity|]. cbn [filter].
  rewrite (H a (or_introl eq_refl)). apply IH. intros x Hx. apply H. now right.
Qed.

Lemma groups_keys : forall krs, map fst (groups_of krs) = distinct_keys [] (map fst krs).
Proof. intros; unfold groups_of. rewrite map_map. cbn [fst]. apply map_id. Qed.

(* ------------------------------------------------------------------ the hash table, one row more *)
Lemma run_agg_snoc : forall f rows s r,
  run_agg f s (rows ++ [r]) = sbind (run_agg f s rows) (fun s' => update f s' r).
Proof.
  induction rows as [|a t IH]; intros s r; cbn [app run_agg].
  - cbn [sbind]. destruct (update f s r); reflexivity.
  - destruct (update f s a); cbn [sbind]; [apply IH|reflexivity..].
Qed.

(* the states of a group are the folds of update over the rows of the group *)
Definition states_ok (fs : list mfn) (rows : list row) (ss : list astate) : Prop :=
  Forall2 (fun f s => run_agg f st0 rows = SOk s) fs ss.
(* a table entry against a reference group: the key classes are those of the group key, the group
   values shown are the key, the states are the folds over the rows *)
Definition entry_ok (fs : list mfn) (e : gentry) (g : list value * list row) : Prop :=
  fst (fst e) = cls (fst g) /\ snd (fst e) = fst g /\ states_ok fs (snd g) (snd e).

Lemma init_states_ok : forall fs, states_ok fs [] (map (fun _ => st0) fs).
Proof. induction fs as [|f t IH]; cbn [map]; constructor; [reflexivity|exact IH]. Qed.

Lemma update_all_ok : forall fs ss rows r ss',
  states_ok fs rows ss -> update_all fs ss r = SOk ss' -> states_ok fs (rows ++ [r]) ss'.
Proof.
  intros fs ss rows r ss' H. revert ss'. induction H as [|f s fs' ss0 H1 H2 IH]; intros ss' U; cbn [update_all] in U.
  - injection U as <-. constructor.
  - destruct (update f s r) as [a| | |] eqn:Ua; cbn [sbind] in U; try discriminate.
    destruct (update_all fs' ss0 r) as [l| | |] eqn:Ul; cbn [sbind] in U; try discriminate.
    injection U as <-. constructor; [|apply IH; reflexivity].
    rewrite run_agg_snoc, H1. cbn [sbind]. exact Ua.
Qed.

Lemma hash_aggregate_snoc : forall keys fs rows r tbl,
  hash_aggregate keys fs (rows ++ [r]) tbl =
  sbind (hash_aggregate keys fs rows tbl)
        (fun tbl' => sbind (key_of keys r) (fun kv => insert_row fs (fst kv) (snd kv) r tbl')).
Proof.
  induction rows as [|a t IH]; intros r tbl; cbn [app hash_aggregate sbind].
  - destruct (key_of keys r) as [kv| | |]; cbn [sbind]; try reflexivity.
    destruct (insert_row fs (fst kv) (snd kv) r tbl); reflexivity.
  - destruct (key_of keys a) as [kv| | |]; cbn [sbind]; try reflexivity.
    destruct (insert_row fs (fst kv) (snd kv) a tbl); cbn [sbind]; [apply IH|reflexivity..].
Qed.

Section Keys.
  (* a set of keys on which "same group" is equality of the encoded classes *)
  Variable P : list value -> Prop.
  Hypothesis Hc : forall a b, P a -> P b -> key_same a b = gkl_eqb (cls a) (cls b).

  Lemma same_iff a b : P a -> P b -> (key_same a b = true <-> cls a = cls b).
  Proof. intros; rewrite Hc by assumption. apply gkl_eqb_eq. Qed.
  Lemma same_refl a : P a -> key_same a a = true.
  Proof. intros; now apply same_iff. Qed.
  Lemma same_sym a b : P a -> P b -> key_same a b = key_same b a.
  Proof.
    intros Pa Pb. destruct (key_same b a) eqn:E.
    - apply same_iff; auto. symmetry. now apply (same_iff b a).
    - destruct (key_same a b) eqn:F; [|reflexivity]. apply same_iff in F; auto.
      assert (key_same b a = true) by (apply same_iff; auto). congruence.
  Qed.
  Lemma same_trans a b c : P a -> P b -> P c -> key_same a b = true -> key_same b c = true -> key_same a c = true.
  Proof. intros Pa Pb Pc H1 H2. apply same_iff in H1; auto. apply same_iff in H2; auto. apply same_iff; auto. congruence. Qed.

  Lemma distinct_cover : forall ks seen k, Forall P ks -> In k ks ->
    existsb (key_same k) (seen ++ distinct_keys seen ks) = true.
  Proof.
    induction ks as [|k0 t IH]; intros seen k F I; [destruct I|].
    inversion F as [|? ? P0 Ft]; subst. cbn [distinct_keys].
    destruct (existsb (key_same k0) seen) eqn:E.
    - destruct I as [<-|I]; [|now apply IH]. rewrite existsb_app, E. reflexivity.
    - rewrite <- existsb_swap. destruct I as [<-|I].
      + cbn [app existsb]. now rewrite same_refl.
      + now apply IH.
  Qed.

  Lemma distinct_pairwise : forall ks seen,
    ForallOrdPairs (fun d1 d2 => key_same d2 d1 = false) (distinct_keys seen ks).
  Proof.
    induction ks as [|k0 t IH]; intros seen; cbn [distinct_keys]; [constructor|].
    destruct (existsb (key_same k0) seen); [apply IH|]. constructor; [|apply IH].
    apply Forall_forall. intros d Hd. apply distinct_not_seen in Hd. cbn [existsb] in Hd.
    apply orb_false_iff in Hd. tauto.
  Qed.

  Lemma no_same_before : forall (krs : list (list value * row)) k, Forall P (map fst krs) -> P k ->
    existsb (key_same k) (distinct_keys [] (map fst krs)) = false ->
    forall kr, In kr krs -> key_same k (fst kr) = false.
  Proof.
    intros krs k F Pk E kr I. destruct (key_same k (fst kr)) eqn:Q; [|reflexivity].
    assert (I' : In (fst kr) (map fst krs)) by (apply in_map; exact I).
    pose proof (distinct_cover (map fst krs) [] (fst kr) F I') as Cv. cbn [app] in Cv.
    apply existsb_exists in Cv as [d [Hd Sd]].
    assert (Pd : P d) by (apply distinct_in in Hd; rewrite Forall_forall in F; auto).
    assert (Pkr : P (fst kr)) by (rewrite Forall_forall in F; auto).
    assert (existsb (key_same k) (distinct_keys [] (map fst krs)) = true).
    { apply existsb_exists. exists d. split; [exact Hd|]. apply (same_trans k (fst kr) d); auto. }
    congruence.
  Qed.

  Lemma groups_of_snoc : forall (krs : list (list value * row)) k r, Forall P (map fst krs) -> P k ->
    groups_of (krs ++ [(k, r)]) =
    if existsb (key_same k) (map fst (groups_of krs))
    then map (fun g => if key_same (fst g) k then (fst g, snd g ++ [r]) else g) (groups_of krs)
    else groups_of krs ++ [(k, [r])].
  Proof.
    intros krs k r F Pk. rewrite groups_keys. unfold groups_of.
    rewrite map_app. cbn [map fst]. rewrite distinct_keys_snoc. cbn [app].
    set (D := distinct_keys [] (map fst krs)).
    assert (PD : forall d, In d D -> P d).
    { intros d Hd. apply distinct_in in Hd. rewrite Forall_forall in F. auto. }
    destruct (existsb (key_same k) D) eqn:E.
    - rewrite app_nil_r, map_map. apply map_ext. intros k'. cbn [fst snd].
      rewrite filter_app, map_app. cbn [filter fst]. destruct (key_same k' k); cbn [map snd]; [reflexivity|now rewrite app_nil_r].
    - rewrite map_app. cbn [map]. f_equal.
      + apply map_ext_in. intros k' Hk'. rewrite filter_app, map_app. cbn [filter fst].
        assert (Hs : key_same k' k = false).
        { rewrite same_sym by auto. destruct (key_same k k') eqn:Q; [|reflexivity].
          assert (existsb (key_same k) D = true) by (apply existsb_exists; eauto). congruence. }
        rewrite Hs. cbn [map]. now rewrite app_nil_r.
      + f_equal. f_equal. rewrite filter_app, map_app. cbn [filter fst]. rewrite (same_refl k Pk). cbn [map snd].
        rewrite (filter_none _ krs (no_same_before krs k F Pk E)). reflexivity.
  Qed.
  Lemma insert_row_ok : forall fs k r tbl G tbl',
    Forall2 (entry_ok fs) tbl G -> Forall P (map fst G) -> P k ->
    ForallOrdPairs (fun d1 d2 => key_same d2 d1 = false) (map fst G) ->
    insert_row fs (cls k) k r tbl = SOk tbl' ->
    Forall2 (entry_ok fs) tbl'
      (if existsb (key_same k) (map fst G)
       then map (fun g => if key_same (fst g) k then (fst g, snd g ++ [r]) else g) G
       else G ++ [(k, [r])]).
  Proof.
    intros fs k r tbl G tbl' H. revert tbl'. induction H as [|e g tbl G He Ht IH]; intros tbl' F Pk O I.
    - cbn [insert_row] in I.
      destruct (update_all fs (map (fun _ => st0) fs) r) as [ss| | |] eqn:U; cbn [sbind] in I; try discriminate.
      injection I as <-. cbn [map existsb app]. constructor; [|constructor].
      split; [reflexivity|split; [reflexivity|]]. cbn [snd].
      apply (update_all_ok fs _ [] r ss (init_states_ok fs) U).
    - destruct e as [[ke ve] ss]. destruct He as [Hk [Hv Hs]]. cbn [fst snd] in Hk, Hv, Hs.
      cbn [map] in F, O. inversion F as [|? ? Pg Ft]; subst. inversion O as [|? ? Og Ot]; subst.
      cbn [insert_row] in I. rewrite <- (Hc k (fst g) Pk Pg) in I.
      cbn [map existsb]. destruct (key_same k (fst g)) eqn:Q; cbn [orb].
      + destruct (update_all fs ss r) as [ss'| | |] eqn:U; cbn [sbind] in I; try discriminate. injection I as <-.
        rewrite (same_sym (fst g) k Pg Pk), Q. constructor.
        * split; [reflexivity|split; [reflexivity|]]. cbn [fst snd]. eapply update_all_ok; eauto.
        * replace (map (fun g0 : list value * list row => if key_same (fst g0) k then (fst g0, snd g0 ++ [r]) else g0) G) with G; [exact Ht|].
          symmetry. erewrite map_ext_in; [apply map_id|]. intros g' Hg'. cbn beta.
          assert (Pg' : P (fst g')) by (rewrite Forall_forall in Ft; apply Ft; now apply in_map).
          destruct (key_same (fst g') k) eqn:Q'; [|reflexivity]. exfalso.
          rewrite Forall_forall in Og. specialize (Og (fst g') (in_map fst _ _ Hg')). cbn beta in Og.
          rewrite (same_trans (fst g') k (fst g) Pg' Pk Pg Q' Q) in Og. discriminate.
      + destruct (insert_row fs (cls k) k r tbl) as [t'| | |] eqn:R; cbn [sbind] in I; try discriminate. injection I as <-.
        specialize (IH t' Ft Pk Ot eq_refl).
        rewrite (same_sym (fst g) k Pg Pk), Q.
        destruct (existsb (key_same k) (map fst G)); cbn [app]; (constructor; [split; [reflexivity|split; [reflexivity|exact Hs]]|exact IH]).
  Qed.

  Theorem hash_groups : forall keys fs (krs : list (list value * row)) tbl,
    Forall (fun kr => key_of keys (snd kr) = SOk (cls (fst kr), fst kr)) krs ->
    Forall P (map fst krs) ->
    hash_aggregate keys fs (map snd krs) [] = SOk tbl ->
    Forall2 (entry_ok fs) tbl (groups_of krs).
  Proof.
    intros keys fs krs. induction krs as [|[k r] krs IH] using rev_ind; intros tbl Hk F H.
    - cbn in H. injection H as <-. constructor.
    - rewrite map_app in H, F. cbn [map fst snd] in H, F. rewrite hash_aggregate_snoc in H.
      destruct (hash_aggregate keys fs (map snd krs) []) as [tbl1| | |] eqn:H1; cbn [sbind] in H; try discriminate.
      apply Forall_app in Hk as [Hk1 Hk2]. inversion Hk2 as [|? ? Hkr _]; subst. cbn [fst snd] in Hkr.
      rewrite Hkr in H. cbn [sbind fst snd] in H.
      apply Forall_app in F as [F1 F2]. inversion F2 as [|? ? Pk _]; subst.
      rewrite (groups_of_snoc krs k r F1 Pk).
      apply insert_row_ok with (tbl := tbl1); auto.
      + rewrite groups_keys. apply Forall_forall. intros d Hd. apply distinct_in in Hd. rewrite Forall_forall in F1. auto.
      + rewrite groups_keys. apply distinct_pairwise.
  Qed.
End Keys.
