(* C28 proofs, part 10: the operations of the BTree handle (root split / create_new_root, the
   rightmost-hint fast paths) on top of the subtree lemmas. *)
From Coq Require Import ZArith List Bool Lia Sorting.Permutation Sorting.Sorted.
From TV Require Import Lib.MachInt Gen.Varint Model.BTree Model.BTreeSpec Model.BTreeInv
  Proof.BTreeOrder Proof.BTreeInv Proof.BTreeLeaf Proof.BTreeLeafIns Proof.BTreeNode Proof.BTreeIns.
Import ListNotations.
Open Scope Z_scope.
Arguments Z.sub : simpl never.
Arguments Z.add : simpl never.
Arguments Z.mul : simpl never.
Arguments Z.of_nat : simpl never.

Section T.
Variable V : Type.
Variable vlen : V -> Z.
Hypothesis vlen_nonneg : forall v, 0 <= vlen v.
Notation entry := (entry V).
Notation leaf := (leaf V).
Notation tree := (tree V).
Notation kid := (kid V).
Notation state := (state V).
Notation out := (out V).
Notation csize := (csize V vlen).
Notation bounded := (bounded V vlen).
Notation Inv := (Inv V vlen).
Notation abs := (abs V).
Notation abs_of := (abs_of V).
Notation keys := (keys V).
Notation kabs := (kabs V).

Lemma bounded_depth : forall h lo hi (t : tree), bounded h lo hi t -> depth V t = h.
Proof.
  induction h as [|h' IH]; intros lo hi t HB; destruct t as [l | id kids r]; cbn in HB; try contradiction; [reflexivity|].
  destruct HB as [_ HB]. destruct (kids_bounded_right_c28 V _ _ _ _ _ HB) as (lo' & Hr). cbn [depth]. f_equal. eapply IH. exact Hr.
Qed.

Lemma Inv_of_bounded (t : tree) np hn h : bounded h None None t -> Inv (mkState t np hn).
Proof. intros HB. unfold BTreeInv.Inv. cbn [root]. rewrite (bounded_depth _ _ _ _ HB). exact HB. Qed.

Lemma abs_of_bounded (t : tree) np hn h : bounded h None None t -> abs_of (mkState t np hn) = abs h t.
Proof. intros HB. unfold BTree.abs_of. cbn [root]. rewrite (bounded_depth _ _ _ _ HB). reflexivity. Qed.

Lemma leaf_in_tree_sizes : forall h lo hi (t : tree) l, bounded h lo hi t -> In l (leaves V h t) -> LEAF_START + SLOT * lcount V l <= lfe l.
Proof.
  induction h as [|h' IH]; intros lo hi t l HB Hin; destruct t as [l0 | id kids r]; cbn in HB; try contradiction.
  - destruct Hin as [<- | []]. apply HB.
  - destruct HB as [_ HB]. rewrite leaves_node in Hin. unfold BTreeInv.kleaves in Hin. apply in_app_or in Hin as [Hin | Hin].
    + apply in_flat_map in Hin as (sc & Hsc & Hl). revert lo HB. induction kids as [|x rest IHk]; intros lo HB; [destruct Hsc|].
      destruct HB as (_ & _ & H3 & H4). destruct Hsc as [<- | Hsc]; [eapply IH; eassumption | eapply IHk; eassumption].
    + destruct (kids_bounded_right_c28 V _ _ _ _ _ HB) as (lo' & Hr). eapply IH; eassumption.
Qed.

(* a key greater than a key stored in the rightmost leaf is routed to the rightmost leaf *)
Lemma rm_route_above : forall h lo hi (t : tree) k (c : entry), bounded h lo hi t ->
  In c (lcells (last_leaf V t)) -> klt (fst c) k -> rm_route V h t k = true.
Proof.
  induction h as [|h' IH]; intros lo hi t k c HB Hc Hk; destruct t as [l0 | id kids r]; cbn in HB; try contradiction; [reflexivity|].
  destruct HB as [_ HB]. cbn [rm_route last_leaf] in *.
  assert (Hr : exists lo', bounded h' lo' hi r /\ (forall sc, In sc kids -> lo_ok (Some (fst sc)) (fst c))).
  { clear IH Hk. revert lo HB. induction kids as [|x rest IHk]; intros lo HB.
    - exists lo. split; [exact HB | intros sc []].
    - destruct HB as (H1 & H2 & H3 & H4). destruct (IHk _ H4) as (lo' & Hb & Hall). exists lo'. split; [exact Hb|].
      intros sc [<- | Hsc]; [|apply Hall; exact Hsc].
      (* the rightmost leaf lies right of separator x *)
      assert (Hin : In c (kabs h' rest r)).
      { unfold BTreeInv.kabs. apply in_flat_map. exists (last_leaf V r). split; [|exact Hc].
        destruct (leaves_last_c28 V vlen _ _ _ _ Hb) as (pre & Hp). unfold BTreeInv.kleaves. rewrite Hp. apply in_or_app. right. apply in_or_app. right. left. reflexivity. }
      pose proof (kabs_in_bounds V vlen h' (abs_in_bounds V vlen h') _ _ _ _ H4) as B. unfold BTreeInv.cells_in in B. rewrite Forall_forall in B.
      exact (proj1 (B _ Hin)). }
  destruct Hr as (lo' & Hb & Hall). apply andb_true_iff. split; [|eapply IH; eassumption].
  apply Nat.eqb_eq. clear - Hall Hk. induction kids as [|x rest IHk]; [reflexivity|]. cbn [cidx length].
  assert (E : kltb k (fst x) = false).
  { apply kltb_false. intros H. specialize (Hall x (or_introl eq_refl)). cbn in Hall. apply Hall. eapply klt_trans; eassumption. }
  rewrite E. f_equal. apply IHk. intros sc Hsc. apply Hall. right. exact Hsc.
Qed.

(* ---------------------------------------------------------------- fast path *)
Lemma last_lt_all (cs : list entry) lk k : ssorted V cs -> last (map (fun c : entry => Some (fst c)) cs) None = Some lk ->
  klt lk k -> forall x, In x cs -> klt (fst x) k.
Proof.
  induction cs as [|c cs IH]; intros Hs Hl Hk x Hx; [destruct Hx|].
  apply ssorted_cons_inv in Hs as [Hs Hf]. rewrite Forall_forall in Hf. destruct cs as [|c2 cs2].
  - cbn in Hl. injection Hl as <-. destruct Hx as [<- | []]. exact Hk.
  - change (last (map (fun c : entry => Some (fst c)) (c2 :: cs2)) None = Some lk) in Hl.
    destruct Hx as [<- | Hx]; [|apply IH; assumption].
    assert (Hin : In lk (map fst (c2 :: cs2))).
    { clear - Hl. revert Hl. generalize (c2 :: cs2). intros l. induction l as [|y l IHl]; intros H; [discriminate|].
      destruct l as [|y2 l2]; [cbn in H; injection H as <-; left; reflexivity | right; apply IHl; exact H]. }
    apply in_map_iff in Hin as (y & Hy & Hyin). specialize (Hf _ Hyin). unfold elt in Hf. rewrite Hy in Hf.
    eapply klt_trans; eassumption.
Qed.
Lemma last_none_nil (cs : list entry) : last (map (fun c : entry => Some (fst c)) cs) None = None -> cs = [].
Proof.
  induction cs as [|c cs IH]; intros H; [reflexivity|]. destruct cs as [|c2 cs2]; [discriminate|].
  exfalso. specialize (IH H). discriminate.
Qed.

Lemma fast_ok : forall h lo hi (t : tree) (e : entry),
  bounded h lo hi t -> rm_route V h t (fst e) = true -> lo_ok lo (fst e) -> hi_ok hi (fst e) ->
  (forall x, In x (lcells (last_leaf V t)) -> klt (fst x) (fst e)) ->
  csize e + SLOT <= lfree V (last_leaf V t) ->
  let l' := leaf_put V vlen (last_leaf V t) (length (lcells (last_leaf V t))) e in
  bounded h lo hi (set_last_leaf V t l') /\ Permutation (abs h (set_last_leaf V t l')) (e :: abs h t).
Proof.
  induction h as [|h' IH]; intros lo hi t e HB Hrm Hlo Hhi Hall Hroom; destruct t as [l | id kids r]; cbn in HB; try contradiction.
  - cbn [last_leaf set_last_leaf] in *. destruct (leaf_put_ok V vlen vlen_nonneg lo hi l (length (lcells l)) e) as [H1 H2]; try assumption.
    + rewrite insert_at_length. apply append_ins. exact Hall.
    + apply all_lt_notin. exact Hall.
    + cbn [BTreeInv.bounded]. rewrite !abs_leaf. split; assumption.
  - destruct HB as [Hfree HB]. cbn [rm_route] in Hrm. apply andb_true_iff in Hrm as [Hi Hrm]. apply Nat.eqb_eq in Hi.
    destruct (kids_child V _ kids lo hi r (fst e) HB Hlo Hhi) as (Hc & Hl & Hh). rewrite Hi in Hc, Hl, Hh.
    assert (Hch : child_at V kids r (length kids) = r).
    { clear. induction kids as [|sc rest IHr]; [reflexivity | exact IHr]. }
    rewrite Hch in Hc. cbn [last_leaf set_last_leaf] in *.
    destruct (IH _ _ r e Hc Hrm Hl Hh Hall Hroom) as [H1 H2].
    set (r' := set_last_leaf V r _) in *.
    pose proof (kids_set_child V _ kids lo hi r (length kids) r' HB H1 (le_n _)) as HB2. rewrite set_child_end in HB2. cbn [fst snd] in HB2.
    split; [cbn [BTreeInv.bounded]; split; assumption|].
    destruct (kabs_decomp V h' kids r (length kids)) as (X & HX1 & HX2). specialize (HX2 r'). rewrite set_child_end in HX2. cbn [fst snd] in HX2.
    rewrite Hch in HX1. rewrite !abs_node. eapply Permutation_trans; [exact HX2|].
    eapply Permutation_trans; [apply Permutation_app_tail; exact H2|]. cbn [app]. apply perm_skip. apply Permutation_sym. exact HX1.
Qed.

(* ---------------------------------------------------------------- insert through the handle *)
Definition ok_out (m : imode) : out := match m with MIine => RUniq true | _ => RUnit end.
Definition dup_out (m : imode) : out := match m with MIine => RUniq false | _ => RErr end.

Definition ins_post (m : imode) (s : state) (e : entry) (res : state * out * Z) : Prop :=
  let s' := fst (fst res) in let r := snd (fst res) in
  Inv s' /\ ((In (fst e) (keys (abs_of s)) /\ abs_of s' = abs_of s /\ r = dup_out m)
             \/ (Permutation (abs_of s') (e :: abs_of s) /\ r = ok_out m)
             \/ (abs_of s' = abs_of s /\ r = RErr /\ ~ In (fst e) (keys (abs_of s)) /\ exists c, In c (e :: abs_of s) /\ ~ half_okP V vlen c)).

(* every insert from a well-formed tree is regular *)
Definition ins_res_ok (m : imode) (s : state) (e : entry) (res : state * out * Z) : Prop :=
  snd res = 0 /\ ins_post m s e res.

Lemma slow_insert_ok m (s : state) (e : entry) :
  Inv s -> cell_fits V vlen e -> (m = MAppend -> forall x, In x (abs_of s) -> klt (fst x) (fst e)) ->
  ins_res_ok m s e (slow_insert V vlen m s e).
Proof.
  intros HI Hfit Happ. unfold slow_insert, ins_res_ok. set (h := depth V (root s)) in *.
  assert (HB : bounded h None None (root s)) by exact HI.
  pose proof (ins_ok V vlen vlen_nonneg h m true (root s) e (npages s) None None HB I I Hfit Happ) as Hok.
  destruct (ins V vlen h m true (root s) e (npages s)) as [t np | L sp R np | np | np | er]; cbn [BTreeLeafIns.ires_ok] in Hok.
  - destruct Hok as [Hb Hp]. cbn [fst snd]. split; [reflexivity|]. unfold ins_post. cbn [fst snd].
    split; [eapply Inv_of_bounded; exact Hb|]. right; left.
    split; [|destruct m; reflexivity]. rewrite (abs_of_bounded _ _ _ _ Hb). exact Hp.
  - destruct Hok as (HL & HR & _ & _ & Hsf & Hp). cbn [build_kids ipos].
    unfold sep_fits in Hsf. destruct (Z.leb_spec (klen (fst (sp, L)) + ISLOT) (ifree V [])) as [Hroom | Hc].
    2:{ exfalso. cbn [fst] in Hc. unfold ifree in Hc. cbn [map] in Hc. unfold sumz in Hc. cbn [fold_right] in Hc. lia. }
    cbn [fst] in Hroom. unfold insert_at. cbn [firstn skipn app].
    assert (Hb : bounded (S h) None None (Node np [(sp, L)] R)).
    { cbn [BTreeInv.bounded BTreeInv.kids_bounded fst snd]. split.
      - rewrite ifree_cons. cbn [fst]. unfold BTree.kid in *. lia.
      - repeat split; assumption. }
    cbn [fst snd]. split; [reflexivity|]. unfold ins_post. cbn [fst snd]. split; [eapply Inv_of_bounded; exact Hb|]. right; left.
    split; [|destruct m; reflexivity]. rewrite (abs_of_bounded _ _ _ _ Hb), abs_node, kabs_cons, kabs_nil. cbn [snd]. exact Hp.
  - cbn [fst snd]. split; [reflexivity|]. unfold ins_post. cbn [fst snd]. split; [exact HI|]. left.
    split; [exact Hok|]. split; [reflexivity | destruct m; reflexivity].
  - cbn [fst snd]. split; [reflexivity|]. unfold ins_post. cbn [fst snd]. split; [exact HI|]. right; right.
    split; [reflexivity|]. split; [reflexivity | exact Hok].
  - contradiction.
Qed.

Lemma op_insert_ok m (s : state) (e : entry) :
  Inv s -> cell_fits V vlen e -> (m = MAppend -> forall x, In x (abs_of s) -> klt (fst x) (fst e)) ->
  ins_res_ok m s e (op_insert V vlen m s e).
Proof.
  intros HI Hfit Happ. unfold op_insert.
  destruct (match m with MIine => None | _ => fastpath V vlen s e end) as [[er | s'] |] eqn:Efp.
  3:{ apply slow_insert_ok; assumption. }
  - (* the guard of the hinted leaf cannot fail *)
    exfalso. assert (Hfast : fastpath V vlen s e = Some (inl er)) by (destruct m; [exact Efp | discriminate | exact Efp]).
    unfold fastpath in Hfast. destruct (hint s) as [p|]; [|discriminate].
    destruct ((p <? 0) || (npages s <=? p)); [discriminate|].
    destruct (negb (lid (last_leaf V (root s)) =? p)); [discriminate|].
    destruct (last _ None) as [lk|]; [|discriminate]. destruct (negb (kltb lk (fst e))); [discriminate|].
    assert (HB : bounded (depth V (root s)) None None (root s)) by exact HI.
    destruct (leaves_last_c28 V vlen _ _ _ _ HB) as (pre & Hp).
    assert (Hg : lguard V (last_leaf V (root s)) = true).
    { unfold lguard, lfstart. apply Z.leb_le. eapply (leaf_in_tree_sizes (depth V (root s)) None None (root s)); [exact HB|].
      rewrite Hp. apply in_or_app. right. left. reflexivity. }
    rewrite Hg in Hfast. cbn [negb] in Hfast. destruct (_ <? _); discriminate.
  - assert (Hfast : fastpath V vlen s e = Some (inr s')) by (destruct m; [exact Efp | discriminate | exact Efp]).
    assert (Hm : ok_out m = RUnit) by (destruct m; [reflexivity | discriminate | reflexivity]).
    clear Efp. unfold fastpath in Hfast. destruct (hint s) as [p|]; [|discriminate].
    destruct ((p <? 0) || (npages s <=? p)); [discriminate|].
    destruct (negb (lid (last_leaf V (root s)) =? p)); [discriminate|].
    set (l := last_leaf V (root s)) in *.
    destruct (last (map (fun c : entry => Some (fst c)) (lcells l)) None) as [lk|] eqn:El; [|discriminate].
    destruct (kltb lk (fst e)) eqn:Ek; cbn [negb] in Hfast; [|discriminate].
    destruct (negb (lguard V l)); [discriminate|].
    destruct (Z.ltb_spec (lfree V l) (csize e + SLOT)) as [|Hroom]; [discriminate|]. injection Hfast as <-.
    assert (HB : bounded (depth V (root s)) None None (root s)) by exact HI.
    assert (Hs : ssorted V (lcells l)).
    { destruct (leaves_last_c28 V vlen _ _ _ _ HB) as (pre & Hp). eapply (flat_sorted_each_c28 V); [exact (abs_sorted V vlen _ _ _ _ HB)|].
      rewrite Hp. apply in_or_app. right. left. reflexivity. }
    apply kltb_true in Ek.
    assert (Hall : forall x, In x (lcells l) -> klt (fst x) (fst e)) by (exact (last_lt_all _ _ _ Hs El Ek)).
    assert (Hrm : rm_route V (depth V (root s)) (root s) (fst e) = true).
    { (* a key above the last key of the non-empty rightmost leaf routes to that leaf *)
      destruct (lcells l) as [|c0 cs0] eqn:Ec; [discriminate|].
      apply (rm_route_above (depth V (root s)) None None (root s) (fst e) c0 HB); [unfold l in Ec; rewrite Ec; left; reflexivity|].
      apply Hall. left. reflexivity. }
    destruct (fast_ok _ None None (root s) e HB Hrm I I Hall Hroom) as [H1 H2].
    cbn [fst snd]. split; [reflexivity|]. unfold ins_post. cbn [fst snd]. split; [eapply Inv_of_bounded; exact H1|]. right; left.
    split; [|symmetry; exact Hm]. rewrite (abs_of_bounded _ _ _ _ H1). exact H2.
Qed.

End T.
