#!/usr/bin/env python3
"""(Re)write coq/_CoqProject from the tree: Lib, Gen (from rs2v.d/*.json), Model, Proof, Props, Corr."""
import glob, json, os
here = os.path.dirname(os.path.abspath(__file__))
coq = os.path.join(here, '..', 'coq')
lines = ['-Q . TV',
         '-arg -w -arg -notation-overridden,-deprecated-hint-without-locality,-deprecated-instance-without-locality,-deprecated-syntactic-definition']
targets = {'modules': [json.load(open(p)) for p in sorted(glob.glob(os.path.join(here, 'rs2v.d', '*.json')))]}
files = []
for d in ('Lib', 'Model', 'Proof', 'Props', 'Corr'):
    p = os.path.join(coq, d)
    if os.path.isdir(p):
        files += sorted('%s/%s' % (d, f) for f in os.listdir(p) if f.endswith('.v'))
files += ['Gen/%s.v' % m['module'] for m in targets['modules']]
text = '\n'.join(lines + sorted(files)) + '\n'
path = os.path.join(coq, '_CoqProject')
if not os.path.exists(path) or open(path).read() != text:
    open(path, 'w').write(text)
