(* C30 proofs, part 4: the narrowing steps and the end-to-end statements.
     scalar path:        correct for every sorted page and probe;
     AVX2 path (the code since commit 6f8c0a4): correct for every sorted page and probe;
     AVX2 path BEFORE commit 6f8c0a4 (avx2_loop_prefix_bug, historical): kept every smaller key left of the
                         window but could drop slots whose prefix EQUALS the probe's; correct whenever that
                         did not happen (defect_class = 0); refuted otherwise. *)
From Coq Require Import ZArith List Bool Lia ZifyBool.
From TV Require Import Lib.MachInt Lib.MachIntFacts Model.LeafSearch
  Proof.LeafSearchLex Proof.LeafSearchBase Proof.LeafSearchMask.
Import ListNotations.
Open Scope Z_scope.
Ltac Zify.zify_post_hook ::= Z.to_euclidean_division_equations.
Arguments Z.div : simpl never.
Arguments Z.modulo : simpl never.
Arguments Z.pow : simpl never.
Arguments Z.mul : simpl never.
Arguments Z.add : simpl never.
Arguments Z.sub : simpl never.
Arguments Z.of_nat : simpl never.
Arguments Z.to_nat : simpl never.

Section Page.
Variable keys : list (list Z).
Variable t : Z.
Hypothesis Hs : sorted_idx keys.
Hypothesis Hk : keys_ok keys = true.
Hypothesis Ht : 0 <= t < 2 ^ 32.

Let n := klen keys.
Let ps := prefixes keys.

Lemma klen_prefixes : klen (prefixes keys) = klen keys.
Proof. unfold prefixes. apply klen_map. Qed.
Lemma length_prefixes : length (prefixes keys) = length keys.
Proof. unfold prefixes. apply map_length. Qed.

Lemma pmono i j : 0 <= i -> i <= j -> j < klen keys -> pfx keys i <= pfx keys j.
Proof. intros. apply pfx_mono; assumption. Qed.

(* ---------------------------------------------------------------- scalar narrowing *)
Lemma scalar_loop_inv : forall fuel l r, pwindow keys t l r -> (Z.to_nat (r - l) < fuel)%nat ->
  exists l' r' e, scalar_loop fuel (prefixes keys) t l r = Done (l', r', e) /\ pwindow keys t l' r'.
Proof.
  induction fuel as [|f IH]; intros l r Hw Hf; [lia|].
  pose proof Hw as (Hl & Hlr & Hr & HL & HR).
  cbn [scalar_loop].
  destruct (Z.ltb_spec r l) as [C|_]; [lia|].
  destruct (Z.ltb_spec (r - l) 4) as [C|Hge].
  - exists l, r, 0. split; [reflexivity | exact Hw].
  - set (m := l + (r - l) / 2). assert (Hm : l <= m < r) by (unfold m; lia).
    rewrite (zth_prefixes keys m) by lia.
    destruct (Z.compare_spec (pfx keys m) t) as [E|E|E].
    + exists l, r, 1. split; [reflexivity | exact Hw].
    + apply IH; [|lia]. repeat split; try lia; try exact HR.
      intros j Hj. pose proof (pmono j m). lia.
    + apply IH; [|lia]. repeat split; try lia; try exact HL.
      intros j Hj. pose proof (pmono m j). lia.
Qed.

(* ---------------------------------------------------------------- AVX2 narrowing before commit 6f8c0a4 (historical) *)
(* what it does guarantee: smaller prefixes only on the left, no smaller prefix on the right *)
Definition wwindow (l r : Z) : Prop :=
  0 <= l /\ l <= r /\ r <= klen keys /\
  (forall j, 0 <= j < l -> pfx keys j < t) /\
  (forall j, r <= j < klen keys -> t <= pfx keys j).

Lemma wwindow_widen l r l' r' : wwindow l r -> 0 <= l' -> l' <= l -> r <= r' -> r' <= klen keys -> wwindow l' r'.
Proof.
  intros (Hl & Hlr & Hr & HL & HR) H0 H1 H2 H3. repeat split; try lia.
  all: intros j Hj; first [apply HL; lia | apply HR; lia].
Qed.

(* the window computed from a mixed batch (some lanes below the target, not all) *)
Lemma mixed_step l r bs (lt : list bool) :
  wwindow l r -> l <= bs -> bs + 8 <= r -> length lt = 8%nat ->
  (forall j, (j < 8)%nat -> nth j lt false = (pfx keys (bs + Z.of_nat j) <? t)) ->
  all_true lt = false ->
  let fge := leading_trues lt in
  wwindow (if 0 <? fge then bs + fge - 1 else l) (bs + Z.min fge 7 + 1) /\ 0 <= fge <= 7.
Proof.
  intros Hw Hlb Hbr Hlen Hlt Hall fge.
  pose proof Hw as (Hl & Hlr & Hr & HL & HR).
  destruct (leading_trues_spec lt) as (Hf1 & Hf2 & Hf3).
  pose proof (all_true_false_leading lt Hall) as Hf4. rewrite Hlen in *. fold fge in Hf1, Hf2, Hf3, Hf4.
  split; [|lia].
  assert (Hge : t <= pfx keys (bs + fge)).
  { specialize (Hf3 Hf4). rewrite Hlt in Hf3 by lia. rewrite Z2Nat.id in Hf3 by lia. lia. }
  replace (Z.min fge 7) with fge by lia.
  repeat split; try (destruct (Z.ltb_spec 0 fge); lia).
  - intros j Hj. destruct (Z.ltb_spec 0 fge) as [Hpos|Hz]; [|apply HL; lia].
    assert (Hlane : pfx keys (bs + (fge - 1)) < t).
    { specialize (Hf2 (Z.to_nat (fge - 1))). rewrite Hlt in Hf2 by lia. rewrite Z2Nat.id in Hf2 by lia.
      specialize (Hf2 ltac:(lia)). lia. }
    pose proof (pmono j (bs + (fge - 1))). lia.
  - intros j Hj. pose proof (pmono (bs + fge) j). lia.
Qed.

Lemma avx2_loop_weak : forall fuel l r, wwindow l r -> (Z.to_nat (r - l) < fuel)%nat ->
  exists l' r', avx2_loop_prefix_bug fuel (prefixes keys) t (klen keys) l r = Done (l', r') /\ wwindow l' r'.
Proof.
  induction fuel as [|f IH]; intros l r Hw Hf; [lia|].
  pose proof Hw as (Hl & Hlr & Hr & HL & HR).
  cbn [avx2_loop_prefix_bug].
  destruct (Z.ltb_spec r l) as [C|_]; [lia|].
  destruct (Z.ltb_spec (r - l) 8) as [C|Hge].
  { exists l, r. split; [reflexivity | exact Hw]. }
  cbv zeta.
  pose proof (batch_start_bounds l r Hl Hge) as Hbs. set (bs := batch_start l r) in *.
  destruct (Z.ltb_spec (klen keys) (bs + 8)) as [C|_]; [lia|].
  destruct (batch_facts keys t bs Hk Ht) as (lanes & Hread & Hlen & Hlen' & Hlt & Heq); [lia | lia |].
  rewrite Hread.
  set (lt := map (lane_lt t) lanes) in *. set (eq := map (lane_eq t) lanes) in *.
  destruct (all_true lt) eqn:Eall.
  { (* every lane below the target *)
    apply IH; [|lia]. repeat split; try lia; try exact HR.
    intros j Hj.
    pose proof (all_true_nth lt Eall 7%nat ltac:(lia)) as H7. rewrite Hlt in H7 by lia.
    pose proof (pmono j (bs + Z.of_nat 7)). lia. }
  destruct (none_true lt) eqn:Enone.
  { (* no lane below the target *)
    apply IH; [|lia]. repeat split; try lia; try exact HL.
    intros j Hj.
    pose proof (none_true_nth lt Enone 0%nat) as H0. rewrite Hlt in H0 by lia.
    pose proof (pmono (bs + Z.of_nat 0) j). lia. }
  destruct (mixed_step l r bs lt Hw ltac:(lia) ltac:(lia) Hlen Hlt Eall) as [Hmix Hfge].
  set (fge := leading_trues lt) in *.
  destruct (none_true eq) eqn:Eeq.
  { eexists _, _. split; [reflexivity | exact Hmix]. }
  eexists _, _. split; [reflexivity|].
  pose proof (first_true_spec eq) as Hfe.
  destruct (last_true_spec eq Eeq) as (Hle & _ & _). rewrite Hlen' in *.
  eapply wwindow_widen; [exact Hmix | | | |]; destruct (Z.ltb_spec 0 fge); lia.
Qed.

Lemma wwindow_full : wwindow 0 (klen keys).
Proof. pose proof (klen_nonneg keys). repeat split; try lia; intros j Hj; lia. Qed.

Lemma avx2_narrow_weak : 0 < klen keys ->
  exists l r, avx2_narrow_prefix_bug (prefixes keys) t = Done (l, r) /\ wwindow l r.
Proof.
  intro Hpos. unfold avx2_narrow_prefix_bug. rewrite !klen_prefixes, length_prefixes.
  destruct (Z.eqb_spec (klen keys) 0) as [C|_]; [lia|].
  apply avx2_loop_weak; [apply wwindow_full|].
  unfold klen. lia.
Qed.

(* no slot with the target prefix outside [l, r) *)
Lemma eq_outside_false : forall (qs : list Z) i0 l r, eq_outside_from i0 qs t l r = false ->
  forall j, (j < length qs)%nat -> nth j qs 0 = t -> l <= i0 + Z.of_nat j < r.
Proof.
  induction qs as [|p qs IH]; intros i0 l r H j Hj Hn; [cbn [length] in Hj; lia|].
  cbn [eq_outside_from] in H. apply orb_false_iff in H. destruct H as [H1 H2].
  destruct j as [|j]; cbn [nth] in Hn.
  - subst p. rewrite Z.eqb_refl in H1. cbn [andb] in H1. lia.
  - cbn [length] in Hj. specialize (IH (i0 + 1) l r H2 j ltac:(lia) Hn). lia.
Qed.

Lemma weak_to_strict l r : wwindow l r ->
  eq_outside_from 0 (prefixes keys) t l (Z.min r (klen (prefixes keys))) = false ->
  pwindow keys t l r.
Proof.
  intros (Hl & Hlr & Hr & HL & HR) Heq. repeat split; try lia; try exact HL.
  intros j Hj. specialize (HR j Hj).
  destruct (Z.eq_dec (pfx keys j) t) as [E|E]; [|lia].
  exfalso.
  pose proof (eq_outside_false (prefixes keys) 0 l _ Heq (Z.to_nat j)) as H.
  rewrite length_prefixes in H. rewrite klen_prefixes in H. unfold klen in *.
  rewrite nth_prefixes in H. specialize (H ltac:(lia) E). lia.
Qed.

(* ---------------------------------------------------------------- AVX2 narrowing, as it is (since commit 6f8c0a4) *)
Lemma avx2_loop_inv : forall fuel l r, pwindow keys t l r -> (Z.to_nat (r - l) < fuel)%nat ->
  exists l' r', avx2_loop fuel (prefixes keys) t (klen keys) l r = Done (l', r') /\ pwindow keys t l' r'.
Proof.
  induction fuel as [|f IH]; intros l r Hw Hf; [lia|].
  pose proof Hw as (Hl & Hlr & Hr & HL & HR).
  cbn [avx2_loop].
  destruct (Z.ltb_spec r l) as [C|_]; [lia|].
  destruct (Z.ltb_spec (r - l) 8) as [C|Hge].
  { exists l, r. split; [reflexivity | exact Hw]. }
  cbv zeta.
  pose proof (batch_start_bounds l r Hl Hge) as Hbs. set (bs := batch_start l r) in *.
  destruct (Z.ltb_spec (klen keys) (bs + 8)) as [C|_]; [lia|].
  destruct (batch_facts keys t bs Hk Ht) as (lanes & Hread & Hlen & Hlen' & Hlt & Heq); [lia | lia |].
  rewrite Hread.
  set (lt := map (lane_lt t) lanes) in *. set (eq := map (lane_eq t) lanes) in *.
  destruct (all_true lt) eqn:Eall.
  { apply IH; [|lia]. repeat split; try lia; try exact HR.
    intros j Hj.
    pose proof (all_true_nth lt Eall 7%nat ltac:(lia)) as H7. rewrite Hlt in H7 by lia.
    pose proof (pmono j (bs + Z.of_nat 7)). lia. }
  destruct (none_true lt && none_true eq) eqn:Enn.
  { (* every lane strictly above the target *)
    apply andb_true_iff in Enn. destruct Enn as [Enone Eeq].
    apply IH; [|lia]. repeat split; try lia; try exact HL.
    intros j Hj.
    pose proof (none_true_nth lt Enone 0%nat) as H0. rewrite Hlt in H0 by lia.
    pose proof (none_true_nth eq Eeq 0%nat) as H0'. rewrite Heq in H0' by lia.
    pose proof (pmono (bs + Z.of_nat 0) j). lia. }
  (* final step *)
  assert (Hww : wwindow l r).
  { repeat split; try lia; try exact HL. intros j Hj. specialize (HR j Hj). lia. }
  destruct (mixed_step l r bs lt Hww ltac:(lia) ltac:(lia) Hlen Hlt Eall) as [Hmix Hfge].
  set (fge := leading_trues lt) in *.
  pose proof Hmix as (Ml & Mlr & Mr & ML & MR).
  destruct (leading_trues_spec lt) as (_ & _ & Hf3). fold fge in Hf3. rewrite Hlen in Hf3.
  specialize (Hf3 ltac:(lia)). rewrite Hlt in Hf3 by lia. rewrite Z2Nat.id in Hf3 by lia.
  destruct (none_true eq) eqn:Eeq.
  { (* lane fge is neither below nor equal: strictly above *)
    eexists _, _. split; [reflexivity|].
    repeat split; try lia; try exact ML.
    intros j Hj.
    pose proof (none_true_nth eq Eeq (Z.to_nat fge)) as He. rewrite Heq in He by lia. rewrite Z2Nat.id in He by lia.
    replace (Z.min fge 7) with fge in Hj by lia.
    pose proof (pmono (bs + fge) j). lia. }
  eexists _, _. split; [reflexivity|].
  pose proof (first_true_spec eq) as Hfe.
  destruct (last_true_spec eq Eeq) as (Hle & Hle1 & Hle2). rewrite Hlen' in *.
  set (le := last_true eq) in *.
  rewrite Heq in Hle1 by lia. rewrite Z2Nat.id in Hle1 by lia.
  destruct (Z.eqb_spec le 7) as [E7|N7].
  - (* the run of equal prefixes reaches the end of the batch: keep the old right bound *)
    repeat split; try (destruct (Z.ltb_spec 0 fge); lia); try exact HR.
    intros j Hj. apply ML. lia.
  - (* lane le+1 exists, is not equal, and is not below (sorted): strictly above *)
    repeat split; try (destruct (Z.ltb_spec 0 fge); lia).
    + intros j Hj. apply ML. lia.
    + intros j Hj.
      pose proof (Hle2 (Z.to_nat (le + 1)) ltac:(lia)) as Hn. rewrite Heq in Hn by lia.
      rewrite Z2Nat.id in Hn by lia.
      pose proof (pmono (bs + le) (bs + (le + 1))).
      pose proof (pmono (bs + (le + 1)) j). lia.
Qed.

Lemma pwindow_full : pwindow keys t 0 (klen keys).
Proof. pose proof (klen_nonneg keys). repeat split; try lia; intros j Hj; lia. Qed.

End Page.

(* ================================================================ end-to-end *)
Section Find.
Variable keys : list (list Z).
Variable k : list Z.
Hypothesis Hsorted : strict_sorted keys = true.
Hypothesis Hk : keys_ok keys = true.
Hypothesis Hb : bytes_ok k = true.

Let Hs : sorted_idx keys := strict_sorted_idx keys Hsorted.
Let Ht : 0 <= prefix_of k < 2 ^ 32 := prefix_of_range k Hb.

Lemma find_from_pwindow narrow l r :
  0 < klen keys -> narrow (prefixes keys) (prefix_of k) = Done (l, r) -> pwindow keys (prefix_of k) l r ->
  find_with narrow keys k = Done (lin_search keys k).
Proof.
  intros Hpos Hn Hw. unfold find_with, find_with_ps.
  destruct (Z.eqb_spec (klen keys) 0) as [C|_]; [lia|].
  rewrite Hn.
  pose proof Hw as (Hl & Hlr & Hr & _).
  replace (Z.min r (klen keys)) with r by lia.
  apply final_loop_correct; try assumption.
  - apply pwindow_valid; assumption.
  - unfold klen in *. lia.
Qed.

Lemma find_empty narrow : klen keys = 0 -> find_with narrow keys k = Done (lin_search keys k).
Proof.
  intro H0. unfold find_with, find_with_ps. rewrite H0. cbn [Z.eqb].
  destruct keys; [reflexivity | unfold klen in H0; cbn [length] in H0; lia].
Qed.

Lemma scalar_path_correct_l : find_scalar keys k = Done (lin_search keys k).
Proof.
  destruct (Z.eq_dec (klen keys) 0) as [H0|Hn0]; [apply find_empty; exact H0|].
  pose proof (klen_nonneg keys) as Hnn.
  destruct (scalar_loop_inv keys (prefix_of k) Hs Hk (S (length keys)) 0 (klen keys)) as (l & r & e & Hrun & Hw).
  { apply pwindow_full. } { unfold klen. lia. }
  unfold find_scalar. apply (find_from_pwindow scalar_narrow2 l r); [lia | | exact Hw].
  unfold scalar_narrow2, scalar_narrow. rewrite !klen_prefixes, length_prefixes.
  destruct (Z.eqb_spec (klen keys) 0) as [C|_]; [lia|].
  rewrite Hrun. reflexivity.
Qed.

Lemma prefix_bug_correct_outside_class_l : defect_class keys k = 0 -> find_avx2_prefix_bug keys k = Done (lin_search keys k).
Proof.
  intro Hc.
  destruct (Z.eq_dec (klen keys) 0) as [H0|Hn0]; [apply find_empty; exact H0|].
  pose proof (klen_nonneg keys) as Hnn.
  destruct (avx2_narrow_weak keys (prefix_of k) Hs Hk Ht ltac:(lia)) as (l & r & Hrun & Hw).
  unfold find_avx2_prefix_bug. apply (find_from_pwindow avx2_narrow_prefix_bug l r); [lia | exact Hrun |].
  apply weak_to_strict; [exact Hw|].
  unfold defect_class, defect_class_ps in Hc. rewrite Hrun in Hc.
  destruct (eq_outside_from 0 (prefixes keys) (prefix_of k) l (Z.min r (klen (prefixes keys)))); [|reflexivity].
  destruct (avx2_cut_eq _ _ _ _ _ _); discriminate.
Qed.

Lemma avx2_path_correct_l : find_avx2 keys k = Done (lin_search keys k).
Proof.
  destruct (Z.eq_dec (klen keys) 0) as [H0|Hn0]; [apply find_empty; exact H0|].
  pose proof (klen_nonneg keys) as Hnn.
  destruct (avx2_loop_inv keys (prefix_of k) Hs Hk Ht (S (length keys)) 0 (klen keys)) as (l & r & Hrun & Hw).
  { apply pwindow_full. } { unfold klen. lia. }
  unfold find_avx2. apply (find_from_pwindow avx2_narrow l r); [lia | | exact Hw].
  unfold avx2_narrow. rewrite !klen_prefixes, length_prefixes.
  destruct (Z.eqb_spec (klen keys) 0) as [C|_]; [lia|].
  exact Hrun.
Qed.

(* the window returned by the real scalar narrowing function is what the correspondence run checks *)
Lemma scalar_window_l : 0 < klen keys ->
  exists l r e, scalar_narrow (prefixes keys) (prefix_of k) = Done (l, r, e) /\ window_valid keys k l r.
Proof.
  intro Hpos.
  destruct (scalar_loop_inv keys (prefix_of k) Hs Hk (S (length keys)) 0 (klen keys)) as (l & r & e & Hrun & Hw).
  { apply pwindow_full. } { unfold klen. lia. }
  exists l, r, e. split; [|apply pwindow_valid; assumption].
  unfold scalar_narrow. rewrite !klen_prefixes, length_prefixes.
  destruct (Z.eqb_spec (klen keys) 0) as [C|_]; [lia|].
  exact Hrun.
Qed.

End Find.

(* ---------------------------------------------------------------- statements used by Props/C30.v *)
Lemma scalar_path_correct_thm : forall keys k,
  strict_sorted keys = true -> keys_ok keys = true -> bytes_ok k = true ->
  find_scalar keys k = bsearch keys k /\ bsearch keys k = Done (lin_search keys k).
Proof.
  intros keys k H1 H2 H3. rewrite (bsearch_correct keys k H1). split; [|reflexivity].
  apply scalar_path_correct_l; assumption.
Qed.

Lemma prefix_bug_correct_outside_class_thm : forall keys k,
  strict_sorted keys = true -> keys_ok keys = true -> bytes_ok k = true ->
  defect_class keys k = 0 -> find_avx2_prefix_bug keys k = bsearch keys k.
Proof.
  intros keys k H1 H2 H3 H4. rewrite (bsearch_correct keys k H1). apply prefix_bug_correct_outside_class_l; assumption.
Qed.

Lemma avx2_path_correct_thm : forall keys k,
  strict_sorted keys = true -> keys_ok keys = true -> bytes_ok k = true ->
  find_avx2 keys k = bsearch keys k.
Proof.
  intros keys k H1 H2 H3. rewrite (bsearch_correct keys k H1). apply avx2_path_correct_l; assumption.
Qed.

(* the reference answer is the usual characterisation *)
Lemma lin_search_found_iff : forall keys k i, strict_sorted keys = true ->
  lin_search keys k = Found i -> 0 <= i < klen keys /\ nth (Z.to_nat i) keys [] = k.
Proof.
  intros keys k i Hsorted. unfold lin_search.
  assert (G : forall ks i0, lin_from i0 ks k = Found i ->
              i0 <= i < i0 + klen ks /\ nth (Z.to_nat (i - i0)) ks [] = k).
  { induction ks as [|x ks IH]; intros i0 H; cbn [lin_from] in H; [discriminate|].
    destruct (lex_cmp x k) eqn:E; try discriminate.
    - injection H as <-. unfold klen. cbn [length]. split; [lia|].
      replace (Z.to_nat (i0 - i0)) with O by lia. apply lex_cmp_eq. exact E.
    - destruct (IH (i0 + 1) H) as [Hr Hn]. unfold klen in *. cbn [length]. split; [lia|].
      replace (Z.to_nat (i - i0)) with (S (Z.to_nat (i - (i0 + 1)))) by lia. exact Hn. }
  intro H. destruct (G keys 0 H) as [Hr Hn]. rewrite Z.sub_0_r in Hn. split; [lia | exact Hn].
Qed.

Lemma lin_search_notfound_iff : forall keys k i,
  lin_search keys k = NotFound i ->
  0 <= i <= klen keys /\
  (forall j, (j < Z.to_nat i)%nat -> lex_cmp (nth j keys []) k = Lt) /\
  (i < klen keys -> lex_cmp (nth (Z.to_nat i) keys []) k = Gt).
Proof.
  intros keys k i. unfold lin_search.
  assert (G : forall ks i0, lin_from i0 ks k = NotFound i ->
              i0 <= i <= i0 + klen ks /\
              (forall j, (j < Z.to_nat (i - i0))%nat -> lex_cmp (nth j ks []) k = Lt) /\
              (i < i0 + klen ks -> lex_cmp (nth (Z.to_nat (i - i0)) ks []) k = Gt)).
  { induction ks as [|x ks IH]; intros i0 H; cbn [lin_from] in H.
    - injection H as <-. unfold klen. cbn [length]. split; [lia|]. split; [intros j Hj; lia | intro; lia].
    - destruct (lex_cmp x k) eqn:E; try discriminate.
      + destruct (IH (i0 + 1) H) as (Hr & HL & HG). unfold klen in *. cbn [length]. split; [lia|]. split.
        * intros j Hj. destruct j as [|j]; [exact E|]. cbn [nth]. apply HL. lia.
        * intro Hlt. replace (Z.to_nat (i - i0)) with (S (Z.to_nat (i - (i0 + 1)))) by lia. cbn [nth]. apply HG. lia.
      + injection H as <-. unfold klen. cbn [length]. split; [lia|]. split; [intros j Hj; lia|].
        intros _. replace (Z.to_nat (i0 - i0)) with O by lia. exact E. }
  intro H. destruct (G keys 0 H) as (Hr & HL & HG). rewrite Z.sub_0_r in HL, HG.
  split; [lia|]. split; [exact HL | intro Hlt; apply HG; lia].
Qed.

(* ---------------------------------------------------------------- the pre-fix loop refuted the property (historical) *)
(* 9 keys "aaaa" ++ [i]: the only batch has no lane below the target, so `right = batch_start = 0` *)
Definition wit1_keys : list (list Z) := map (fun i => [97; 97; 97; 97; i]) [0; 1; 2; 3; 4; 5; 6; 7; 8].
Definition wit1_probe : list Z := [97; 97; 97; 97; 5].
(* 5 keys "aaaa" ++ [i] then 11 keys "aaab" ++ [i]: the batch 4..11 is mixed, its last lane equals the
   target, and the window is cut at 12 although slots 12..15 carry the same prefix *)
Definition wit2_keys : list (list Z) :=
  map (fun i => [97; 97; 97; 97; i]) [0; 1; 2; 3; 4] ++
  map (fun i => [97; 97; 97; 98; i]) [5; 6; 7; 8; 9; 10; 11; 12; 13; 14; 15].
Definition wit2_probe : list Z := [97; 97; 97; 98; 14].

Lemma prefix_bug_refuted_lt_mask_zero_l :
  exists keys k, strict_sorted keys = true /\ keys_ok keys = true /\ bytes_ok k = true /\
    defect_class keys k = 1 /\ bsearch keys k = Done (Found 5) /\ find_avx2_prefix_bug keys k = Done (NotFound 0).
Proof. exists wit1_keys, wit1_probe. vm_compute. repeat split. Qed.

Lemma prefix_bug_refuted_batch_end_l :
  exists keys k, strict_sorted keys = true /\ keys_ok keys = true /\ bytes_ok k = true /\
    defect_class keys k = 2 /\ bsearch keys k = Done (Found 14) /\ find_avx2_prefix_bug keys k = Done (NotFound 12).
Proof. exists wit2_keys, wit2_probe. vm_compute. repeat split. Qed.

(* the current narrowing on the two former witnesses *)
Lemma avx2_on_former_witnesses :
  find_avx2 wit1_keys wit1_probe = Done (Found 5) /\ find_avx2 wit2_keys wit2_probe = Done (Found 14).
Proof. vm_compute. split; reflexivity. Qed.

(* example page used by the non-vacuity Example of Props/C30.v: 6 + 8 + 6 keys on three prefixes *)
Definition ex_keys : list (list Z) :=
  map (fun i => [97; 97; 97; 97; i]) [0; 1; 2; 3; 4; 5] ++
  map (fun i => [97; 97; 97; 98; i]) [0; 1; 2; 3; 4; 5; 6; 7] ++
  map (fun i => [128; 0; 0; 0; i]) [0; 1; 2; 3; 4; 5].
