(* C26 correspondence: judge what src/encoding/key.rs did on generated values (written by
   harness/src/bin/c26.rs as `case` terms) against the model (Model/Key.v) and against the
   property's own oracle (Model/KeySpec.v).  Evaluated by vm_compute; definitions only. *)
From Coq Require Import ZArith List Bool.
From TV Require Import Lib.MachInt Gen.KeyPrefix Model.KeyEq Model.Key Model.KeyKnown.
From TV Require Export Model.KeySpec.
Import ListNotations.
Open Scope Z_scope.

(* decode_key's observed outcome *)
Inductive obs := OOk (v : kval) (n : Z) | OErr | OPanic.
(* an encoder's observed outcome *)
Inductive eobs := EOk (bytes : list Z) | EPanic.

Inductive case :=
(* two multi-column keys xs, ys: their encodings (all columns into one buffer) and, for each,
   what decode_key returned column after column (stops after the first non-Ok) *)
| Tup (xs ys : list kval) (ex ey : eobs) (dx dy : list obs)
(* arbitrary bytes through decode_key *)
| Dec (b : list Z) (o : obs).

Definition obs_eqb (a b : obs) : bool :=
  match a, b with
  | OOk v n, OOk w m => kval_eqb v w && (n =? m)
  | OErr, OErr | OPanic, OPanic => true
  | _, _ => false
  end.

(* ---------------------------------------------------------------- model side *)
(* every nesting level and every loop iteration of the decoder uses up at least one byte *)
Definition dfuel (b : list Z) : nat := (length b + 4)%nat.

Definition model_dec (b : list Z) : obs :=
  match dec (dfuel b) b with
  | ROk v n => OOk v n
  | RErr => OErr
  | RFuel => OPanic       (* fuel exhausted: would show up as a disagreement *)
  end.

Fixpoint model_dec_seq (fuel : nat) (d : list Z) : list obs :=
  match fuel with
  | O => []
  | S f =>
    match d with
    | [] => []
    | _ =>
      match model_dec d with
      | OOk v n => OOk v n :: (if n <=? 0 then [] else model_dec_seq f (drop n d))
      | o => [o]
      end
    end
  end.

Definition enc_agrees (vs : list kval) (e : eobs) : bool :=
  match e with EOk b => zlist_eqb (enc_tuple vs) b | EPanic => false end.

Definition seq_agrees (e : eobs) (ds : list obs) : bool :=
  match e with
  | EOk b => list_eqb obs_eqb (model_dec_seq (S (length b)) b) ds
  | EPanic => true
  end.

Definition model_agrees (c : case) : bool :=
  match c with
  | Tup xs ys ex ey dx dy =>
      forallb kwf xs && forallb kwf ys
      && enc_agrees xs ex && enc_agrees ys ey && seq_agrees ex dx && seq_agrees ey dy
  | Dec b o => obs_eqb (model_dec b) o
  end.

(* ---------------------------------------------------------------- the property's oracle *)
(* values for which no order is demanded of the implementation (none is documented):
   INET, RANGE, and NaN inside a vector or a JSON number *)
Definition s_no_order (s : sval) : bool :=
  match s with
  | SInet _ _ _ => true
  | SVector l => existsb is_nan32 l
  | SJson j => jany jnode_nan j
  | _ => false
  end.
Definition order_demanded (v : kval) : bool := orderable v && negb (kany s_no_order v).

Definition cmp_eqb (a b : comparison) : bool :=
  match a, b with Eq, Eq | Lt, Lt | Gt, Gt => true | _, _ => false end.

(* decoding the key column after column returns the original values (canonical zero / NaN /
   infinities as documented) and uses up exactly the key *)
Fixpoint roundtrip_ok (vs : list kval) (ds : list obs) (left : Z) : bool :=
  match vs, ds with
  | [], [] => left =? 0
  | v :: vs', OOk w n :: ds' => kval_eqb (canon v) w && (1 <=? n) && roundtrip_ok vs' ds' (left - n)
  | _, _ => false
  end.

Definition spec_ok (c : case) : bool :=
  match c with
  | Tup xs ys (EOk bx) (EOk by_) dx dy =>
      (* invertible *)
      roundtrip_ok xs dx (blen bx) && roundtrip_ok ys dy (blen by_)
      (* distinct values <-> distinct keys (same number of columns) *)
      && (if (length xs =? length ys)%nat
          then Bool.eqb (zlist_eqb bx by_) (list_eqb kval_eqb (map canon xs) (map canon ys))
          else true)
      (* bytewise order = column-by-column value order *)
      && (if forallb order_demanded xs && forallb order_demanded ys
          then cmp_eqb (lex_cmp bx by_) (tcmp xs ys) else true)
  | Tup _ _ _ _ _ _ => false                 (* an encoder panicked *)
  | Dec b o =>
      match o with
      | OOk _ n => (1 <=? n) && (n <=? blen b)
      | OErr => true
      | OPanic => false
      end
  end.

Definition known_class (c : case) : Z :=
  match c with
  | Tup xs ys _ _ _ _ => kclass_of (KTuple (xs ++ ys))
  | Dec _ _ => 0
  end.

Fixpoint failures_from (i : Z) (cs : list case) : list (Z * bool * bool * Z) :=
  match cs with
  | [] => []
  | c :: t =>
      let m := model_agrees c in
      let s := spec_ok c in
      if m && s then failures_from (i + 1) t else (i, m, s, known_class c) :: failures_from (i + 1) t
  end.
Definition failures := failures_from 0.
