(* C22 proofs, part 6: consecutive comments are skipped by ITERATIONS of next_token's loop.
   lexer_comment_depth_l: on n consecutive line comments ONE call of next_token skips all n of them (the
   counter in its result = iterations that ended with `continue`) and returns Eof.  Before /repo d86c1b1
   the same counter counted nested self.next_token() calls, one Rust stack frame per comment (finding
   F-C22-12, fixed); in the repaired lexer modelled here there is no call in that path at all. *)
From Coq Require Import ZArith List Bool Arith Lia ZifyBool.
From TV Require Import Model.LexerKeywords Model.Lexer.
Import ListNotations.
Open Scope Z_scope.

(* n consecutive line comments "--\n" *)
Fixpoint comments (n : nat) : list Z :=
  match n with O => [] | S m => 45 :: 45 :: 10 :: comments m end.

Lemma comments_length : forall n, length (comments n) = (3 * n)%nat.
Proof. induction n; simpl; lia. Qed.

Lemma comments_nth : forall n k, (k < n)%nat ->
  nth_error (comments n) (3 * k) = Some 45 /\
  nth_error (comments n) (3 * k + 1) = Some 45 /\
  nth_error (comments n) (3 * k + 2) = Some 10.
Proof.
  induction n as [|m IH]; intros k Hk; [lia|].
  destruct k as [|j].
  - simpl. auto.
  - replace (3 * S j)%nat with (S (S (S (3 * j)))) by lia.
    cbn [comments Nat.add nth_error].
    destruct (IH j ltac:(lia)) as (H0 & H1 & H2). auto.
Qed.

Lemma comments_utf8 : forall n, utf8_valid (comments n) = true.
Proof. induction n; [reflexivity|]. cbn [comments utf8_valid]. exact IHn. Qed.

Section Rec.
Variable n : nat.
Let s := comments n.

Lemma len_s : len s = (3 * n)%nat.
Proof. unfold len, s. apply comments_length. Qed.

Lemma eof_at : forall p l c, is_eof s (mkLx p l c) = (3 * n <=? p)%nat.
Proof. intros. unfold is_eof. cbn [pos]. rewrite len_s. reflexivity. Qed.

Lemma cur_at : forall p l c b, nth_error s p = Some b -> current s (mkLx p l c) = Ok b.
Proof. intros p l c b H. unfold current. cbn [pos]. rewrite H. reflexivity. Qed.

Lemma adv_plain : forall p l c b, nth_error s p = Some b -> (b =? 10) = false -> c < u32_max ->
  advance s (mkLx p l c) = Ok (mkLx (S p) l (c + 1)).
Proof.
  intros p l c b H Hb Hc. unfold advance. rewrite eof_at.
  assert (p < 3 * n)%nat by (rewrite <- len_s; unfold len; apply nth_error_Some; congruence).
  replace (3 * n <=? p)%nat with false by (symmetry; apply Nat.leb_gt; lia).
  rewrite (cur_at _ _ _ _ H). cbn [bind pos line col]. rewrite Hb.
  replace (c <? u32_max) with true by lia. reflexivity.
Qed.

Lemma adv_newline : forall p l c, nth_error s p = Some 10 -> l < u32_max ->
  advance s (mkLx p l c) = Ok (mkLx (S p) (l + 1) 1).
Proof.
  intros p l c H Hl. unfold advance. rewrite eof_at.
  assert (p < 3 * n)%nat by (rewrite <- len_s; unfold len; apply nth_error_Some; congruence).
  replace (3 * n <=? p)%nat with false by (symmetry; apply Nat.leb_gt; lia).
  rewrite (cur_at _ _ _ _ H). cbn [bind pos line col].
  change (10 =? 10) with true. cbv iota.
  replace (l <? u32_max) with true by lia. reflexivity.
Qed.

(* one comment: one iteration of the loop, from the first '-' of comment k to its newline *)
Lemma one_comment : forall k f l, (k < n)%nat -> l < u32_max ->
  next_token s (S f) (mkLx (3 * k) l 1) =
  (do ' (t, ts, st3, d) <- next_token s f (mkLx (3 * k + 2) l 3); Ok (t, ts, st3, S d)).
Proof.
  intros k f l Hk Hl.
  destruct (comments_nth n k Hk) as (H0 & H1 & H2). fold s in H0, H1, H2.
  cbn [next_token]. unfold lfuel at 1. cbn [skip_while].
  rewrite eof_at. replace (3 * n <=? 3 * k)%nat with false by (symmetry; apply Nat.leb_gt; lia).
  rewrite (cur_at _ _ _ _ H0). cbn [bind]. change (is_ws 45) with false. cbv iota. cbn [bind].
  rewrite eof_at. replace (3 * n <=? 3 * k)%nat with false by (symmetry; apply Nat.leb_gt; lia).
  (* comment_or_token: "--" *)
  unfold comment_or_token. rewrite (cur_at _ _ _ _ H0). cbn [bind].
  unfold peek_char. cbn [pos]. replace (S (3 * k)) with (3 * k + 1)%nat by lia. rewrite H1.
  change ((45 =? 45) && opt_is (Some 45) 45) with true. cbv iota.
  (* skip to the newline: two '-' are consumed, the loop stops at the newline *)
  assert (Hlen : lfuel s = S (S (S (len s - 2)))) by (unfold lfuel; rewrite len_s; lia).
  rewrite Hlen at 1. cbn [skip_while].
  rewrite eof_at. replace (3 * n <=? 3 * k)%nat with false by (symmetry; apply Nat.leb_gt; lia).
  rewrite (cur_at _ _ _ _ H0). cbn [bind]. change (not_newline 45) with true. cbv iota.
  rewrite (adv_plain _ _ _ _ H0 eq_refl) by (unfold u32_max; lia). cbn [bind].
  replace (S (3 * k)) with (3 * k + 1)%nat by lia.
  rewrite eof_at. replace (3 * n <=? 3 * k + 1)%nat with false by (symmetry; apply Nat.leb_gt; lia).
  rewrite (cur_at _ _ _ _ H1). cbn [bind]. change (not_newline 45) with true. cbv iota.
  rewrite (adv_plain _ _ _ _ H1 eq_refl) by (unfold u32_max; lia). cbn [bind].
  replace (S (3 * k + 1)) with (3 * k + 2)%nat by lia.
  rewrite eof_at. replace (3 * n <=? 3 * k + 2)%nat with false by (symmetry; apply Nat.leb_gt; lia).
  rewrite (cur_at _ _ _ _ H2). cbn [bind]. change (not_newline 10) with false. cbv iota.
  change (1 + 1 + 1) with 3.
  reflexivity.
Qed.

Lemma skip_ws_stop : forall p l c fuel, (1 <= fuel)%nat ->
  (3 * n <= p)%nat \/ nth_error s p = Some 45 ->
  skip_while s is_ws fuel (mkLx p l c) = Ok (mkLx p l c).
Proof.
  intros p l c fuel Hf H. destruct fuel as [|f]; [lia|]. cbn [skip_while]. rewrite eof_at.
  destruct H as [H|H].
  - replace (3 * n <=? p)%nat with true by (symmetry; apply Nat.leb_le; lia). reflexivity.
  - assert (p < 3 * n)%nat by (rewrite <- len_s; unfold len; apply nth_error_Some; congruence).
    replace (3 * n <=? p)%nat with false by (symmetry; apply Nat.leb_gt; lia).
    rewrite (cur_at _ _ _ _ H). cbn [bind]. reflexivity.
Qed.

Lemma next_start : forall k, (k <= n)%nat -> (3 * n <= 3 * k)%nat \/ nth_error s (3 * k) = Some 45.
Proof.
  intros k Hk. destruct (Nat.eq_dec k n) as [->|Hne]; [left; lia|right].
  destruct (comments_nth n k ltac:(lia)) as (H0 & _). exact H0.
Qed.

(* the newline that ends comment k is white space of the next call *)
Lemma after_newline : forall k f l, (k < n)%nat -> l < u32_max ->
  next_token s (S f) (mkLx (3 * k + 2) l 3) = next_token s (S f) (mkLx (3 * (k + 1)) (l + 1) 1).
Proof.
  intros k f l Hk Hl.
  destruct (comments_nth n k Hk) as (_ & _ & H2). fold s in H2.
  cbn [next_token]. unfold lfuel. cbn [skip_while].
  rewrite eof_at. replace (3 * n <=? 3 * k + 2)%nat with false by (symmetry; apply Nat.leb_gt; lia).
  rewrite (cur_at _ _ _ _ H2). cbn [bind]. change (is_ws 10) with true. cbv iota.
  rewrite (adv_newline _ _ _ H2 Hl). cbn [bind].
  replace (S (3 * k + 2)) with (3 * (k + 1))%nat by lia.
  rewrite skip_ws_stop; [| rewrite len_s; lia | apply next_start; lia].
  rewrite eof_at.
  destruct (3 * n <=? 3 * (k + 1))%nat eqn:E.
  - reflexivity.
  - destruct (next_start (k + 1) ltac:(lia)) as [H|H]; [apply Nat.leb_gt in E; lia|].
    rewrite (cur_at _ _ _ _ H). cbn [bind]. change (is_ws 45) with false. cbv iota. reflexivity.
Qed.

(* m consecutive comments from comment k on: m iterations *)
Lemma comments_depth : forall m k f l, (k + m = n)%nat -> (m < f)%nat -> l + Z.of_nat m <= u32_max ->
  next_token s f (mkLx (3 * k) l 1) =
  Ok (T k_eof, (3 * n)%nat, mkLx (3 * n) (l + Z.of_nat m) 1, m).
Proof.
  induction m as [|m IH]; intros k f l Hk Hf Hl.
  - assert (k = n) by lia. subst k. destruct f as [|f]; [lia|].
    cbn [next_token]. rewrite skip_ws_stop; [| unfold lfuel; lia | left; lia].
    cbn [bind]. rewrite eof_at. rewrite Nat.leb_refl. cbn [pos].
    replace (l + Z.of_nat 0) with l by lia. reflexivity.
  - destruct f as [|f]; [lia|].
    rewrite one_comment by lia.
    destruct f as [|f]; [lia|].
    rewrite after_newline by lia.
    rewrite (IH (k + 1)%nat (S f) (l + 1)) by lia.
    cbn [bind]. replace (l + 1 + Z.of_nat m) with (l + Z.of_nat (S m)) by lia. reflexivity.
Qed.
End Rec.

(* n consecutive comments: n iterations of the loop inside one next_token call, then Eof *)
Lemma lexer_comment_depth_l : forall n, Z.of_nat n < u32_max ->
  lex (comments n) = Ok ([L (T k_eof) (3 * n) (3 * n)], mkLx (3 * n) (1 + Z.of_nat n) 1, n).
Proof.
  intros n Hn. unfold lex, init. unfold lfuel at 1. cbn [lex_all].
  replace 0%nat with (3 * 0)%nat by reflexivity.
  rewrite (comments_depth n n 0 (lfuel (comments n)) 1).
  - cbn [bind is_eof_tok]. change (k_eof =? k_eof) with true. cbv iota. cbn [pos]. reflexivity.
  - lia.
  - unfold lfuel. rewrite len_s. lia.
  - lia.
Qed.
