//! Shared helpers of the correspondence harness: one PRNG, Coq term printers,
//! panic capture, sharded case files and the run statistics that end up in the evidence.
use std::collections::BTreeMap;
use std::collections::HashSet;
use std::fmt::Write as _;
use std::io::Write as _;
use std::path::{Path, PathBuf};

/// splitmix64: every random choice of a run derives from the one seed.
pub struct Rng(pub u64);
impl Rng {
    pub fn new(seed: u64) -> Self {
        Rng(seed.wrapping_mul(0x9E37_79B9_7F4A_7C15) ^ 0xD1B5_4A32_D192_ED03)
    }
    pub fn next(&mut self) -> u64 {
        self.0 = self.0.wrapping_add(0x9E37_79B9_7F4A_7C15);
        let mut z = self.0;
        z = (z ^ (z >> 30)).wrapping_mul(0xBF58_476D_1CE4_E5B9);
        z = (z ^ (z >> 27)).wrapping_mul(0x94D0_49BB_1331_11EB);
        z ^ (z >> 31)
    }
    pub fn below(&mut self, n: u64) -> u64 {
        if n == 0 { 0 } else { self.next() % n }
    }
    pub fn range(&mut self, lo: i64, hi: i64) -> i64 {
        lo + self.below((hi - lo + 1) as u64) as i64
    }
    pub fn chance(&mut self, num: u64, den: u64) -> bool {
        self.below(den) < num
    }
    pub fn pick<'a, T>(&mut self, xs: &'a [T]) -> &'a T {
        &xs[self.below(xs.len() as u64) as usize]
    }
    pub fn bytes(&mut self, n: usize) -> Vec<u8> {
        (0..n).map(|_| self.next() as u8).collect()
    }
}

// ---------------------------------------------------------------- Coq term printers
pub fn z<T: Into<i128>>(v: T) -> String {
    let v: i128 = v.into();
    if v < 0 { format!("({})", v) } else { format!("{}", v) }
}
pub fn zu(v: u64) -> String { format!("{}", v) }
pub fn cbool(b: bool) -> &'static str { if b { "true" } else { "false" } }
pub fn clist(items: &[String]) -> String {
    let mut s = String::from("[");
    for (i, it) in items.iter().enumerate() {
        if i > 0 { s.push_str("; "); }
        s.push_str(it);
    }
    s.push(']');
    s
}
pub fn cbytes(b: &[u8]) -> String {
    let mut s = String::from("[");
    for (i, x) in b.iter().enumerate() {
        if i > 0 { s.push(';'); }
        let _ = write!(s, "{}", x);
    }
    s.push(']');
    s
}
pub fn copt(o: Option<String>) -> String {
    match o { Some(s) => format!("(Some {})", s), None => "None".to_string() }
}
pub fn hex(b: &[u8]) -> String {
    let mut s = String::with_capacity(b.len() * 2);
    for x in b { let _ = write!(s, "{:02x}", x); }
    s
}
pub fn jstr(s: &str) -> String {
    let mut o = String::from("\"");
    for c in s.chars() {
        match c {
            '"' => o.push_str("\\\""),
            '\\' => o.push_str("\\\\"),
            '\n' => o.push_str("\\n"),
            '\r' => o.push_str("\\r"),
            '\t' => o.push_str("\\t"),
            c if (c as u32) < 0x20 => { let _ = write!(o, "\\u{:04x}", c as u32); }
            c => o.push(c),
        }
    }
    o.push('"');
    o
}

/// Outcome of running implementation code under `catch_unwind`.
pub enum Caught<T> { Done(T), Panicked(String) }

pub fn catch<T, F: FnOnce() -> T + std::panic::UnwindSafe>(f: F) -> Caught<T> {
    match std::panic::catch_unwind(f) {
        Ok(v) => Caught::Done(v),
        Err(e) => {
            let msg = if let Some(s) = e.downcast_ref::<&str>() { s.to_string() }
                      else if let Some(s) = e.downcast_ref::<String>() { s.clone() }
                      else { "panic".to_string() };
            Caught::Panicked(msg)
        }
    }
}
pub fn quiet_panics() {
    std::panic::set_hook(Box::new(|_| {}));
}

/// Collects the cases of one run, shards them into `cases_NNN.v` files and records statistics.
pub struct CaseWriter {
    pub dir: PathBuf,
    pub prop: String,
    pub corr_module: String,
    pub shard_size: usize,
    cases: Vec<String>,
    replays: Vec<String>,
    pub shards: usize,
    pub total: usize,
    seen: HashSet<u64>,
    pub distinct_nontrivial: usize,
    pub dist: BTreeMap<String, u64>,
    pub samples: Vec<String>,
}

fn fnv(s: &str) -> u64 {
    let mut h: u64 = 0xcbf29ce484222325;
    for b in s.as_bytes() { h ^= *b as u64; h = h.wrapping_mul(0x100000001b3); }
    h
}

impl CaseWriter {
    pub fn new(dir: &Path, prop: &str, corr_module: &str, shard_size: usize) -> Self {
        std::fs::create_dir_all(dir).expect("out dir");
        CaseWriter { dir: dir.to_path_buf(), prop: prop.to_string(), corr_module: corr_module.to_string(),
            shard_size, cases: vec![], replays: vec![], shards: 0, total: 0, seen: HashSet::new(),
            distinct_nontrivial: 0, dist: BTreeMap::new(), samples: vec![] }
    }
    /// `term`: the Coq term of the case; `replay`: a one-line replayable description;
    /// `nontrivial`: whether the case reaches the property's interesting regime;
    /// `kind`: distribution bucket.
    pub fn push(&mut self, term: String, replay: String, nontrivial: bool, kind: &str) {
        *self.dist.entry(kind.to_string()).or_insert(0) += 1;
        if nontrivial && self.seen.insert(fnv(&replay)) { self.distinct_nontrivial += 1; }
        if self.samples.len() < 6 || (self.total % 997 == 0 && self.samples.len() < 12) { self.samples.push(replay.clone()); }
        self.cases.push(term);
        self.replays.push(replay);
        self.total += 1;
        if self.cases.len() >= self.shard_size { self.flush(); }
    }
    pub fn count(&mut self, kind: &str, n: u64) { *self.dist.entry(kind.to_string()).or_insert(0) += n; }
    pub fn flush(&mut self) {
        if self.cases.is_empty() { return; }
        let path = self.dir.join(format!("cases_{:03}.v", self.shards));
        let mut f = std::io::BufWriter::new(std::fs::File::create(&path).expect("case file"));
        writeln!(f, "From Coq Require Import ZArith List String.\nFrom TV Require Import {}.\nImport ListNotations.\nOpen Scope Z_scope.", self.corr_module).unwrap();
        writeln!(f, "Definition cases : list case := [").unwrap();
        for (i, c) in self.cases.iter().enumerate() {
            writeln!(f, "  {}{}", c, if i + 1 < self.cases.len() { ";" } else { "" }).unwrap();
        }
        writeln!(f, "].").unwrap();
        writeln!(f, "Eval vm_compute in (failures cases).").unwrap();
        f.flush().unwrap();
        let rpath = self.dir.join(format!("cases_{:03}.replay", self.shards));
        let mut r = std::io::BufWriter::new(std::fs::File::create(&rpath).expect("replay file"));
        for l in &self.replays { writeln!(r, "{}", l).unwrap(); }
        r.flush().unwrap();
        self.cases.clear();
        self.replays.clear();
        self.shards += 1;
    }
    pub fn finish(mut self, extra: &[(String, String)]) {
        self.flush();
        let mut s = String::from("{");
        let _ = write!(s, "\"property\": {}, \"evaluations\": {}, \"distinct_nontrivial\": {}, \"shards\": {}, ",
            jstr(&self.prop), self.total, self.distinct_nontrivial, self.shards);
        s.push_str("\"distribution\": {");
        for (i, (k, v)) in self.dist.iter().enumerate() {
            if i > 0 { s.push_str(", "); }
            let _ = write!(s, "{}: {}", jstr(k), v);
        }
        s.push_str("}, \"samples\": [");
        for (i, x) in self.samples.iter().enumerate() {
            if i > 0 { s.push_str(", "); }
            s.push_str(&jstr(x));
        }
        s.push(']');
        for (k, v) in extra { let _ = write!(s, ", {}: {}", jstr(k), v); }
        s.push('}');
        std::fs::write(self.dir.join("meta.json"), s).expect("meta");
    }
}
