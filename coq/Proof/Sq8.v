(* Proof/Sq8.v -- SQ8 over exact arithmetic: every component decodes to within half a quantization
   step (hence within one step) of the original, codes are bytes, and the extremes are exact. *)
From Coq Require Import ZArith List Bool Lia.
From TV Require Import Model.Sq8.
Import ListNotations.
Open Scope Z_scope.

Lemma fold_min_le : forall l a, fold_left Z.min l a <= a /\ forall x, In x l -> fold_left Z.min l a <= x.
Proof.
  induction l as [|y t IH]; intros a; cbn [fold_left].
  - split; [lia | intros x []].
  - destruct (IH (Z.min a y)) as [H1 H2]. split; [lia|].
    intros x [<-|Hx]; [lia | auto].
Qed.
Lemma fold_max_ge : forall l a, a <= fold_left Z.max l a /\ forall x, In x l -> x <= fold_left Z.max l a.
Proof.
  induction l as [|y t IH]; intros a; cbn [fold_left].
  - split; [lia | intros x []].
  - destruct (IH (Z.max a y)) as [H1 H2]. split; [lia|].
    intros x [<-|Hx]; [lia | auto].
Qed.

Lemma sq_min_max : forall l v, In v l -> sq_min l <= v <= sq_max l.
Proof.
  intros [|x t] v Hv; [destruct Hv|]. unfold sq_min, sq_max.
  destruct (fold_min_le t x) as [A1 A2]. destruct (fold_max_ge t x) as [B1 B2].
  destruct Hv as [<-|Hv]; [lia|]. split; [apply A2 | apply B2]; auto.
Qed.

Theorem sq8_error_bound_l : forall l v, In v l ->
  let mn := sq_min l in let R := sq_range l in let c := sq_code mn R v in
  0 <= c <= 255 /\ 0 <= R /\
  2 * Z.abs (sq_decode255 mn R c - 255 * v) <= sq_scale255 R.
Proof.
  intros l v Hv mn R c. pose proof (sq_min_max l v Hv) as [H1 H2].
  assert (HR : 0 <= R) by (unfold R, sq_range; fold mn; lia).
  unfold c, sq_code, sq_decode255, sq_scale255.
  destruct (Z.eqb_spec R 0) as [H0|Hn].
  - assert (v = mn) by (unfold R, sq_range in H0; fold mn in H0; lia). subst v. split; [lia|]. split; [lia|].
    replace (255 * (mn + 0) - 255 * mn) with 0 by lia. cbn. lia.
  - set (x := v - mn). assert (Hx : 0 <= x <= R) by (unfold x, R, sq_range; fold mn; lia).
    set (t := (510 * x + R) / (2 * R)).
    assert (Ht0 : 0 <= t) by (apply Z.div_pos; lia).
    assert (Ht1 : t < 256) by (apply Z.div_lt_upper_bound; lia).
    pose proof (Z.div_mod (510 * x + R) (2 * R) ltac:(lia)) as Hdm.
    pose proof (Z.mod_pos_bound (510 * x + R) (2 * R) ltac:(lia)) as Hmb.
    fold t in Hdm. set (r := (510 * x + R) mod (2 * R)) in *.
    rewrite Z.max_r by lia. rewrite Z.min_r by lia.
    split; [lia|]. split; [lia|].
    replace (255 * mn + t * R - 255 * v) with (t * R - 255 * x) by (unfold x; lia).
    assert (E : 2 * (t * R - 255 * x) = R - r) by lia.
    lia.
Qed.

(* the minimum and the maximum are reproduced exactly (codes 0 and 255) *)
Lemma sq8_extremes_l : forall l, l <> [] -> sq_range l <> 0 ->
  sq_code (sq_min l) (sq_range l) (sq_min l) = 0 /\ sq_code (sq_min l) (sq_range l) (sq_max l) = 255.
Proof.
  intros l _ Hn. unfold sq_code. destruct (Z.eqb_spec (sq_range l) 0); [contradiction|].
  assert (HR : 0 < sq_range l).
  { destruct l as [|x t]; [unfold sq_range, sq_min, sq_max in *; cbn in *; lia|].
    pose proof (sq_min_max (x :: t) x (or_introl eq_refl)). unfold sq_range in *. lia. }
  set (R := sq_range l) in *. split.
  - replace (510 * (sq_min l - sq_min l) + R) with R by lia.
    rewrite Z.div_small by lia. lia.
  - replace (sq_max l - sq_min l) with R by (unfold R, sq_range; lia).
    replace (510 * R + R) with (255 * (2 * R) + R) by lia.
    rewrite Z.div_add_l by lia. rewrite Z.div_small by lia. lia.
Qed.
