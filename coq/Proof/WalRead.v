(* C03 proofs, reader side: replay (Wal::recover / recover_for_file) and read_page after
   Wal::open, for ARBITRARY segment file contents (any list of slots). *)
From Coq Require Import ZArith List Bool Lia ZifyBool Arith.
From TV Require Import Model.Wal Model.WalSpec.
Import ListNotations.
Open Scope Z_scope.

Arguments Z.mul : simpl never.
Arguments Z.add : simpl never.
Arguments Z.sub : simpl never.
Arguments Z.leb : simpl never.
Arguments Z.ltb : simpl never.
Arguments Z.eqb : simpl never.
Arguments Z.max : simpl never.
Arguments Z.of_nat : simpl never.
Arguments Z.to_nat : simpl never.

(* ---------------------------------------------------------------- storage *)
Lemma set_page_length : forall pages p v, (p < length pages)%nat -> length (set_page pages p v) = length pages.
Proof.
  intros pages p v Hp. unfold set_page.
  rewrite app_length, firstn_length. cbn [length]. rewrite skipn_length. lia.
Qed.

Lemma set_page_nth : forall pages p v i, (p < length pages)%nat ->
  nth i (set_page pages p v) 0 = if (i =? p)%nat then v else nth i pages 0.
Proof.
  intros pages p v i Hp. unfold set_page.
  destruct (Nat.eqb_spec i p) as [->|Hne].
  - rewrite app_nth2; rewrite firstn_length; [|lia].
    replace (p - Nat.min p (length pages))%nat with O by lia. reflexivity.
  - destruct (Nat.lt_ge_cases i p) as [Hlt|Hge].
    + rewrite app_nth1 by (rewrite firstn_length; lia).
      rewrite <- (firstn_skipn p pages) at 2. rewrite app_nth1 by (rewrite firstn_length; lia). reflexivity.
    + rewrite app_nth2 by (rewrite firstn_length; lia). rewrite firstn_length.
      replace (Nat.min p (length pages)) with p by lia.
      destruct (i - p)%nat as [|k] eqn:Hk; [lia|]. cbn [nth].
      rewrite <- (firstn_skipn (S p) pages) at 2.
      rewrite app_nth2 by (rewrite firstn_length; lia). rewrite firstn_length.
      replace (Nat.min (S p) (length pages)) with (S p) by lia.
      f_equal. lia.
Qed.

Lemma page_expect_app : forall a b p acc, page_expect (a ++ b) p acc = page_expect b p (page_expect a p acc).
Proof. induction a as [|f a IH]; intros b p acc; cbn [app page_expect]; [reflexivity|apply IH]. Qed.

Lemma page_expect_none : forall fs p acc, Forall (fun f => f_page f <> p) fs -> page_expect fs p acc = acc.
Proof.
  induction fs as [|f fs IH]; intros p acc H; cbn [page_expect]; [reflexivity|].
  inversion H as [|? ? Hf Hr]; subst. rewrite IH by exact Hr.
  destruct (Z.eqb_spec (f_page f) p); [contradiction|reflexivity].
Qed.

(* what the storage looks like after replaying the frames `done` into a fresh file *)
Definition replayed (done : list frame) (pages : list Z) : Prop :=
  Forall (fun f => f_page f < Z.of_nat (length pages)) done /\
  (forall i, (i < length pages)%nat -> nth i pages 0 = page_expect done (Z.of_nat i) 0).

Lemma replayed_init : replayed [] [0].
Proof.
  split; [constructor|]. intros i Hi. cbn [length] in Hi. destruct i; [reflexivity|lia].
Qed.

Lemma apply_frame_replayed : forall done pages f,
  frame_ok f = true -> replayed done pages ->
  exists pages', apply_frame pages f = Some pages' /\ replayed (done ++ [f]) pages'.
Proof.
  intros done pages f Hok [Hin Hnth].
  unfold frame_ok in Hok. unfold U32_MAX in *.
  assert (Hp0 : 0 <= f_page f) by lia. assert (Hp1 : f_page f < 4294967295) by lia.
  unfold apply_frame. unfold U32_MAX.
  destruct (Z.ltb_spec (f_page f) (Z.of_nat (length pages))) as [Hlt|Hge].
  - eexists; split; [reflexivity|].
    assert (Hpn : (Z.to_nat (f_page f) < length pages)%nat) by lia.
    split.
    + rewrite set_page_length by exact Hpn. apply Forall_app; split; [exact Hin|]. constructor; [exact Hlt|constructor].
    + intros i Hi. rewrite set_page_length in Hi by exact Hpn.
      rewrite set_page_nth by exact Hpn. rewrite page_expect_app. cbn [page_expect].
      destruct (Nat.eqb_spec i (Z.to_nat (f_page f))) as [->|Hne].
      * rewrite Z2Nat.id by lia. rewrite Z.eqb_refl. reflexivity.
      * destruct (Z.eqb_spec (f_page f) (Z.of_nat i)) as [He|_]; [lia|]. apply Hnth; exact Hi.
  - destruct (Z.leb_spec 4294967295 (f_page f)) as [Hbad|_]; [lia|].
    eexists; split; [reflexivity|].
    set (req := Z.max (f_dbs f) (f_page f + 1)).
    set (grown := pages ++ repeat 0 (Z.to_nat req - length pages)).
    assert (Hreq : f_page f + 1 <= req) by (unfold req; lia).
    assert (Hgl : length grown = Z.to_nat req).
    { unfold grown. rewrite app_length, repeat_length. lia. }
    assert (Hpn : (Z.to_nat (f_page f) < length grown)%nat) by lia.
    split.
    + rewrite set_page_length by exact Hpn. apply Forall_app; split.
      * eapply Forall_impl; [|exact Hin]. cbv beta. intros a Ha. lia.
      * constructor; [lia|constructor].
    + intros i Hi. rewrite set_page_length in Hi by exact Hpn.
      rewrite set_page_nth by exact Hpn. rewrite page_expect_app. cbn [page_expect].
      destruct (Nat.eqb_spec i (Z.to_nat (f_page f))) as [->|Hne].
      * rewrite Z2Nat.id by lia. rewrite Z.eqb_refl. reflexivity.
      * destruct (Z.eqb_spec (f_page f) (Z.of_nat i)) as [He|_]; [lia|].
        unfold grown. destruct (Nat.lt_ge_cases i (length pages)) as [Hil|Hig].
        -- rewrite app_nth1 by exact Hil. apply Hnth; exact Hil.
        -- rewrite app_nth2 by exact Hig.
           rewrite page_expect_none.
           ++ apply nth_repeat.
           ++ eapply Forall_impl; [|exact Hin]. cbv beta. intros a Ha. lia.
Qed.

Lemma apply_all_replayed : forall fs done pages n,
  Forall (fun f => frame_ok f = true) fs -> replayed done pages ->
  exists pages', apply_all pages n fs = RecOk (n + Z.of_nat (length fs)) pages' /\ replayed (done ++ fs) pages'.
Proof.
  induction fs as [|f fs IH]; intros done pages n Hok Hrep.
  - exists pages. cbn [apply_all length]. rewrite app_nil_r. split; [f_equal; lia|exact Hrep].
  - inversion Hok as [|? ? Hf Hr]; subst.
    destruct (apply_frame_replayed done pages f Hf Hrep) as [p1 [Hap Hrep1]].
    destruct (IH (done ++ [f]) p1 (n + 1) Hr Hrep1) as [p2 [Hall Hrep2]].
    exists p2. cbn [apply_all]. rewrite Hap, Hall. rewrite <- app_assoc in Hrep2. cbn [app] in Hrep2.
    split; [f_equal; cbn [length]; lia|exact Hrep2].
Qed.

Lemma check_pages_ok : forall fs pages i,
  (forall k, (k < length pages)%nat -> nth k pages 0 = page_expect fs (i + Z.of_nat k) 0) ->
  check_pages fs i pages = true.
Proof.
  intros fs pages. induction pages as [|v t IH]; intros i H; cbn [check_pages]; [reflexivity|].
  apply andb_true_intro; split.
  - specialize (H O). cbn [length nth] in H. rewrite H by lia. replace (i + Z.of_nat 0) with i by lia. apply Z.eqb_refl.
  - apply IH. intros k Hk. specialize (H (S k)). cbn [length nth] in H. rewrite H by lia. f_equal. lia.
Qed.

Lemma replayed_rec_ok : forall fs pages, replayed fs pages -> rec_ok fs (RecOk (Z.of_nat (length fs)) pages) = true.
Proof.
  intros fs pages [Hin Hnth]. unfold rec_ok. rewrite Z.eqb_refl. cbn [andb].
  apply andb_true_intro; split.
  - apply forallb_forall. intros f Hf. rewrite Forall_forall in Hin. specialize (Hin f Hf). cbv beta in Hin. lia.
  - apply check_pages_ok. intros k Hk. rewrite Hnth by exact Hk. f_equal.
Qed.

(* replay of ANY frame list whose page numbers fit the API: never panics, applies every frame
   in order, each page ends with its last image, untouched pages stay zero *)
Lemma replay_exact : forall fs, Forall (fun f => frame_ok f = true) fs -> rec_ok fs (apply_all [0] 0 fs) = true.
Proof.
  intros fs Hok.
  destruct (apply_all_replayed fs [] [0] 0 Hok replayed_init) as [p [Hall Hrep]].
  rewrite Hall. cbn [app] in Hrep. replace (0 + Z.of_nat (length fs)) with (Z.of_nat (length fs)) by lia.
  apply replayed_rec_ok; exact Hrep.
Qed.

Lemma filter_frames_ok : forall (g : frame -> bool) fs,
  Forall (fun f => frame_ok f = true) fs -> Forall (fun f => frame_ok f = true) (filter g fs).
Proof.
  intros g fs H. rewrite Forall_forall in *. intros f Hf. apply filter_In in Hf. apply H; tauto.
Qed.

(* ---------------------------------------------------------------- valid_frames *)
Lemma valid_frames_ideal : forall l, valid_frames (map SFrame l) = l.
Proof. induction l as [|f l IH]; cbn [map valid_frames slot_frame]; [reflexivity|rewrite IH; reflexivity]. Qed.

Lemma valid_frames_app_ideal : forall l t, valid_frames (map SFrame l ++ t) = l ++ valid_frames t.
Proof. induction l as [|f l IH]; intro t; cbn [map app valid_frames slot_frame]; [reflexivity|rewrite IH; reflexivity]. Qed.

Lemma seg_frames_ideal : forall log, seg_frames (map (map SFrame) log) = concat log.
Proof.
  induction log as [|g log IH]; cbn [map seg_frames concat]; [reflexivity|].
  rewrite valid_frames_ideal, map_length, Nat.eqb_refl, IH. reflexivity.
Qed.

Lemma valid_frames_nth : forall fl o f, nth_error (valid_frames fl) o = Some f ->
  exists sl, nth_error fl o = Some sl /\ slot_frame sl = Some f.
Proof.
  induction fl as [|s t IH]; intros o f H; cbn [valid_frames] in H.
  - destruct o; discriminate.
  - destruct (slot_frame s) as [g|] eqn:Hs.
    + destruct o as [|o]; cbn [nth_error] in *.
      * injection H as <-. exists s. split; [reflexivity|exact Hs].
      * apply IH; exact H.
    + destruct o; discriminate.
Qed.

Lemma valid_frames_length_le : forall fl, (length (valid_frames fl) <= length fl)%nat.
Proof.
  induction fl as [|s t IH]; cbn [valid_frames length]; [lia|].
  destruct (slot_frame s); cbn [length]; lia.
Qed.

(* cutting a file behind its valid frames does not change what the reader accepts *)
Lemma valid_frames_cut : forall fl, valid_frames (firstn (length (valid_frames fl)) fl) = valid_frames fl.
Proof.
  induction fl as [|s t IH]; [reflexivity|]. cbn [valid_frames].
  destruct (slot_frame s) as [g|] eqn:Hs; cbn [length firstn valid_frames]; [|reflexivity].
  rewrite Hs, IH. reflexivity.
Qed.

Lemma valid_frames_cut_clean : forall fl,
  length (valid_frames (firstn (length (valid_frames fl)) fl)) = length (firstn (length (valid_frames fl)) fl).
Proof.
  intro fl. rewrite valid_frames_cut, firstn_length. pose proof (valid_frames_length_le fl). lia.
Qed.

(* replay looks at the last segment only through the frames the reader accepts in it *)
Lemma seg_frames_last : forall cl x y, valid_frames x = valid_frames y -> seg_frames (cl ++ [x]) = seg_frames (cl ++ [y]).
Proof.
  induction cl as [|c cl IH]; intros x y H; cbn [app seg_frames].
  - rewrite H, !app_nil_r. destruct (length (valid_frames y) =? length x)%nat, (length (valid_frames y) =? length y)%nat; reflexivity.
  - rewrite (IH x y H). reflexivity.
Qed.

(* ---------------------------------------------------------------- read_page after Wal::open *)
Definition look (s : st) (v : Z * nat) : rd :=
  match seg_file s (fst v) with
  | None => RNone
  | Some fl =>
      match nth_error fl (snd v) with
      | None => RErr
      | Some sl => match slot_frame sl with None => RErr | Some f => RSome (f_fill f) end
      end
  end.

Definition lookR (R : Z * nat -> rd) (v : option (Z * nat)) : rd :=
  match v with None => RNone | Some x => R x end.

Lemma read_page_look : forall s k, read_page s k = lookR (look s) (idx_get k (s_idx s)).
Proof. intros s k. unfold read_page, lookR, look. destruct (idx_get k (s_idx s)) as [[seg o]|]; reflexivity. Qed.

Lemma last_image_app : forall a b k acc, last_image (a ++ b) k acc = last_image b k (last_image a k acc).
Proof. induction a as [|f a IH]; intros b k acc; cbn [app last_image]; [reflexivity|apply IH]. Qed.

Lemma scan_from_look : forall R k seg fs o ix,
  (forall j f, nth_error fs j = Some f -> R (seg, (o + j)%nat) = RSome (f_fill f)) ->
  lookR R (idx_get k (scan_from seg o fs ix)) = last_image fs k (lookR R (idx_get k ix)).
Proof.
  intros R k seg fs. induction fs as [|f fs IH]; intros o ix H; cbn [scan_from last_image]; [reflexivity|].
  rewrite IH.
  - f_equal. unfold idx_set. cbn [idx_get].
    destruct (key_eqb k (fkey f)); [|reflexivity].
    cbn [lookR]. specialize (H O f eq_refl). rewrite Nat.add_0_r in H. exact H.
  - intros j g Hj. specialize (H (S j) g Hj). replace (S o + j)%nat with (o + S j)%nat by lia. exact H.
Qed.

Lemma scan_all_look : forall R k files seg ended ix,
  (forall j fl o f, nth_error files j = Some fl -> nth_error (valid_frames fl) o = Some f ->
     R (seg + Z.of_nat j, o) = RSome (f_fill f)) ->
  lookR R (idx_get k (scan_all seg files ended ix))
  = last_image (if ended then [] else seg_frames files) k (lookR R (idx_get k ix)).
Proof.
  intros R k. induction files as [|fl t IH]; intros seg ended ix H.
  - cbn [scan_all seg_frames]. destruct ended; reflexivity.
  - cbn [scan_all]. rewrite IH.
    2:{ intros j g o f Hj Ho. replace (seg + 1 + Z.of_nat j) with (seg + Z.of_nat (S j)) by lia.
        apply (H (S j) g o f); assumption. }
    destruct ended; cbn [orb]; [reflexivity|].
    rewrite scan_from_look.
    2:{ intros j f Hj. specialize (H O fl (0 + j)%nat f eq_refl Hj).
        replace (seg + Z.of_nat 0) with seg in H by lia. exact H. }
    cbn [seg_frames].
    destruct (length (valid_frames fl) =? length fl)%nat; cbn [negb].
    + rewrite last_image_app. reflexivity.
    + reflexivity.
Qed.

Lemma nth_error_firstn_lt : forall {A} (l : list A) n o, (o < n)%nat -> nth_error (firstn n l) o = nth_error l o.
Proof.
  intros A. induction l as [|x l IH]; intros n o H.
  - rewrite firstn_nil. reflexivity.
  - destruct n as [|n]; [lia|]. destruct o as [|o]; cbn [firstn nth_error]; [reflexivity|]. apply IH. lia.
Qed.

(* after Wal::open, read_page returns the last image of the page among exactly the frames that
   recovery applies -- whatever the segment files contain *)
Lemma read_after_open : forall lo files k, files <> [] ->
  read_page (open_st lo files) k = last_image (seg_frames files) k RNone.
Proof.
  intros lo files k Hne. rewrite read_page_look.
  set (s := open_st lo files).
  change (s_idx s) with (scan_all lo files false []).
  rewrite scan_all_look; [reflexivity|].
  intros j fl o f Hj Ho.
  pose proof (app_removelast_last [] Hne) as Hsplit.
  set (cl := removelast files) in *. set (fl0 := last files []) in *.
  assert (Ho' : (o < length (valid_frames fl))%nat) by (apply nth_error_Some; congruence).
  destruct (valid_frames_nth fl o f Ho) as [sl [Hsl Hfr]].
  unfold look. cbn [fst snd]. unfold seg_file.
  assert (Hseq : seq_no s = lo + Z.of_nat (length cl)) by reflexivity.
  rewrite Hseq.
  rewrite Hsplit in Hj.
  destruct (Nat.lt_ge_cases j (length cl)) as [Hlt|Hge].
  - rewrite nth_error_app1 in Hj by exact Hlt.
    destruct (Z.eqb_spec (lo + Z.of_nat j) (lo + Z.of_nat (length cl))) as [E|_]; [lia|].
    replace ((s_lo s <=? lo + Z.of_nat j) && (lo + Z.of_nat j <? lo + Z.of_nat (length cl))) with true
      by (change (s_lo s) with lo; lia).
    change (s_lo s) with lo. change (s_closed s) with cl.
    replace (Z.to_nat (lo + Z.of_nat j - lo)) with j by lia.
    rewrite Hj, Hsl, Hfr. reflexivity.
  - rewrite nth_error_app2 in Hj by exact Hge.
    destruct (j - length cl)%nat as [|x] eqn:Ej; [|destruct x; discriminate].
    cbn [nth_error] in Hj. injection Hj as <-.
    assert (Ejj : j = length cl) by lia. subst j.
    rewrite Z.eqb_refl.
    change (s_file s) with (firstn (length (valid_frames fl0)) fl0).
    rewrite nth_error_firstn_lt by exact Ho'. rewrite Hsl, Hfr. reflexivity.
Qed.

Lemma reads_after_open : forall lo files keys, files <> [] ->
  map (read_page (open_st lo files)) keys = expect_reads (seg_frames files) keys.
Proof.
  intros lo files keys Hne. unfold expect_reads. apply map_ext. intro k. apply read_after_open. exact Hne.
Qed.

(* recovery through the reopened handle sees the same frames as recovery of the files before
   Wal::open cut the torn tail of the current segment *)
Lemma seg_frames_open : forall lo files, files <> [] ->
  seg_frames (files_of (open_st lo files)) = seg_frames files.
Proof.
  intros lo files Hne. unfold files_of, open_st. cbn [s_closed s_file].
  pose proof (app_removelast_last [] Hne) as Hsplit.
  set (cl := removelast files) in *. set (fl0 := last files []) in *.
  rewrite Hsplit. apply seg_frames_last. apply valid_frames_cut.
Qed.

Lemma rd_eqb_refl : forall a, rd_eqb a a = true.
Proof. destruct a; cbn [rd_eqb]; try reflexivity. apply Z.eqb_refl. Qed.
Lemma rds_eqb_refl : forall l, rds_eqb l l = true.
Proof. induction l as [|a l IH]; cbn [rds_eqb]; [reflexivity|]. rewrite rd_eqb_refl, IH. reflexivity. Qed.
Lemma rd_eqb_eq : forall a b, rd_eqb a b = true -> a = b.
Proof. destruct a, b; cbn [rd_eqb]; intro H; try discriminate; try reflexivity. f_equal. lia. Qed.
Lemma rds_eqb_eq : forall a b, rds_eqb a b = true -> a = b.
Proof.
  induction a as [|x a IH]; destruct b as [|y b]; cbn [rds_eqb]; intro H; try discriminate; [reflexivity|].
  apply andb_prop in H. destruct H as [H1 H2]. f_equal; [apply rd_eqb_eq; exact H1|apply IH; exact H2].
Qed.
