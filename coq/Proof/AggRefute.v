(* C16: each recorded class contains a query that the faithful model answers wrongly (the same
   queries are the witnesses of known_findings.d/C16.json and are run on the real Database by
   every check). *)
From Coq Require Import ZArith List Bool.
From TV Require Import Model.SqlSpecAgg Model.AggImpl Model.AggClass Model.AggJoin.
Import ListNotations.
Open Scope Z_scope.

(* the model returns rows that are not the rows the reference demands *)
Definition wrong_rows (q : aquery) (t : table) : Prop :=
  exists ms rs, model_query q t = MRows ms /\ spec_query q t = SRows rs /\ bag_equiv rs ms = false.

Definition t_count : table := [[VInt 1; VInt 1]; [VInt 2; VNull]].
Definition q_count := mkQ None [] [mkAgg FCount (ECol 1)] [0%nat] None.
(* COUNT(c1) counts the NULL: 2 instead of 1 *)
Lemma count_null_refuted_l : q_class q_count t_count = 1 /\ wrong_rows q_count t_count /\ model_query q_count t_count = MRows [[VInt 2]].
Proof. split; [reflexivity|split; [|reflexivity]]. exists [[VInt 2]], [[VInt 1]]. repeat split; vm_compute; reflexivity. Qed.

Definition t_sum : table := [[VInt 1; VNull]].
Definition q_sum := mkQ None [] [mkAgg FSum (ECol 1)] [0%nat] None.
(* SUM over NULLs only: 0 instead of NULL; the same over an empty table *)
Lemma sum_empty_refuted_l : q_class q_sum t_sum = 2 /\ wrong_rows q_sum t_sum /\ model_query q_sum t_sum = MRows [[VInt 0]] /\
                            q_class q_sum [] = 2 /\ wrong_rows q_sum [].
Proof.
  split; [reflexivity|split; [|split; [reflexivity|split; [reflexivity|]]]].
  - exists [[VInt 0]], [[VNull]]. repeat split; vm_compute; reflexivity.
  - exists [[VInt 0]], [[VNull]]. repeat split; vm_compute; reflexivity.
Qed.

Definition t_ovf : table := [[VInt 1; VInt 9223372036854775807]; [VInt 2; VInt 1]].
(* SUM beyond i64: `attempt to add with overflow` where an error is demanded *)
Lemma sum_overflow_panics_l : q_class q_sum t_ovf = 3 /\ model_query q_sum t_ovf = MPanic /\ spec_query q_sum t_ovf = SError.
Proof. repeat split; vm_compute; reflexivity. Qed.

Definition t_text : table := [[VInt 1; VText [97]]; [VInt 2; VText [98]]].
Definition q_min := mkQ None [] [mkAgg FMin (ECol 1)] [0%nat] None.
(* MIN over text: NULL instead of 'a' *)
Lemma text_min_refuted_l : q_class q_min t_text = 4 /\ wrong_rows q_min t_text /\ model_query q_min t_text = MRows [[VNull]].
Proof. split; [reflexivity|split; [|reflexivity]]. exists [[VNull]], [[VText [97]]]. repeat split; vm_compute; reflexivity. Qed.

Definition t_two : table := [[VInt 1; VInt 10]; [VInt 2; VInt 20]].
Definition q_arg := mkQ None [] [mkAgg FSum (EArith AAdd (ECol 1) (ELit (VInt 1)))] [0%nat] None.
(* SUM(c1 + 1) sums column 0: 3 instead of 32 *)
Lemma arg_expr_refuted_l : q_class q_arg t_two = 5 /\ wrong_rows q_arg t_two /\ model_query q_arg t_two = MRows [[VInt 3]].
Proof. split; [reflexivity|split; [|reflexivity]]. exists [[VInt 3]], [[VInt 32]]. repeat split; vm_compute; reflexivity. Qed.

Definition q_key := mkQ None [EArith AAdd (ECol 1) (ELit (VInt 1))] [mkAgg FCountStar (ECol 0)] [0%nat; 1%nat] None.
(* GROUP BY c1 + 1 shows the key as NULL *)
Lemma key_expr_refuted_l : q_class q_key t_two = 6 /\ wrong_rows q_key t_two.
Proof. split; [reflexivity|]. exists [[VNull; VInt 1]; [VNull; VInt 1]], [[VInt 11; VInt 1]; [VInt 21; VInt 1]]. repeat split; vm_compute; reflexivity. Qed.

Definition t_nk : table := [[VInt 1; VNull; VInt 5]; [VInt 2; VInt 5; VNull]].
Definition q_nk := mkQ None [EArith AAdd (ECol 1) (ELit (VInt 0)); EArith AAdd (ECol 2) (ELit (VInt 0))]
                       [mkAgg FCountStar (ECol 0)] [2%nat] None.
(* ... and NULL key expressions vanish from the group key: (NULL, 5) and (5, NULL) become one group *)
Lemma key_null_merge_refuted_l : q_class q_nk t_nk = 6 /\ wrong_rows q_nk t_nk /\ model_query q_nk t_nk = MRows [[VInt 2]].
Proof. split; [reflexivity|split; [|reflexivity]]. exists [[VInt 2]], [[VInt 1]; [VInt 1]]. repeat split; vm_compute; reflexivity. Qed.

Definition t_hav : table := [[VInt 1; VInt 1]; [VInt 2; VInt 1]; [VInt 3; VInt 2]].
Definition q_hav := mkQ None [ECol 1] [mkAgg FCountStar (ECol 0)] [0%nat] (Some (ECmp CGt (ECol 1) (ELit (VInt 1)))).
(* HAVING COUNT( * ) > 1 without COUNT( * ) in the select list keeps no group *)
Lemma having_agg_refuted_l : q_class q_hav t_hav = 7 /\ wrong_rows q_hav t_hav /\ model_query q_hav t_hav = MRows [].
Proof. split; [reflexivity|split; [|reflexivity]]. exists [], [[VInt 1]]. repeat split; vm_compute; reflexivity. Qed.

(* ------------------------------------------------------------------ the hand-written path for aggregates over a join *)
Definition jl : table := [[VInt 1; VInt 1]; [VInt 2; VInt 1]].
Definition jr : table := [[VInt 1; VInt 1; VInt 10]].
Definition q_join := mkQ None [ECol 1] [mkAgg FCountStar (ECol 0)] [0%nat; 1%nat] None.
(* SELECT t.c1, COUNT( * ) FROM t JOIN u ON t.c1 = u.c1 GROUP BY t.c1: one group (1, 2) is demanded;
   the hand-written path groups the PROJECTED rows by their second entry (the NULL that stands in for
   COUNT( * )) and returns (NULL, 2) *)
Lemma join_agg_refuted_l :
  spec_join_query jl jr 1 1 q_join = SRows [[VInt 1; VInt 2]] /\
  model_join_query jl jr 1 1 q_join = MRows [[VNull; VInt 2]].
Proof. split; vm_compute; reflexivity. Qed.
(* ... and without any joined row it returns no row where COUNT( * ) = 0 is demanded *)
Lemma join_agg_empty_refuted_l :
  spec_join_query jl [] 1 1 (mkQ None [] [mkAgg FCountStar (ECol 0)] [0%nat] None) = SRows [[VInt 0]] /\
  model_join_query jl [] 1 1 (mkQ None [] [mkAgg FCountStar (ECol 0)] [0%nat] None) = MRows [].
Proof. split; vm_compute; reflexivity. Qed.
