(* Interleaving semantics for the concurrency properties (C35-C39).

   A system is a state type [St] and a partial step function: [step t s] is the next atomic
   step of thread [t] in state [s], or None when thread [t] cannot move (it is blocked or has
   finished).  A schedule is any list of thread ids; scheduling a thread that cannot move is a
   no-op.  Everything a theorem states with [forall sched] therefore holds for every number of
   threads (thread ids are arbitrary naturals), every interleaving and every length.

   Memory model: sequential consistency at the granularity of the atomic operations and
   mutex critical sections that the individual models choose as their steps (named in each
   property's trusted base). *)
From Coq Require Import List Bool Arith.
Import ListNotations.

Section Interleave.
  Variable St : Type.
  Variable step : nat -> St -> option St.

  Fixpoint run (sched : list nat) (s : St) : St :=
    match sched with
    | [] => s
    | t :: rest => match step t s with Some s' => run rest s' | None => run rest s end
    end.

  Definition reachable (init s : St) : Prop := exists sched, run sched init = s.

  Lemma run_app a b s : run (a ++ b) s = run b (run a s).
  Proof. revert s. induction a as [|t a IH]; intros s; cbn [run app]; [reflexivity|]. destruct (step t s); apply IH. Qed.

  (* the proof rule: an inductive invariant holds in every reachable state *)
  Theorem invariant_rule (Inv : St -> Prop) (init : St) :
    Inv init ->
    (forall t s s', Inv s -> step t s = Some s' -> Inv s') ->
    forall sched, Inv (run sched init).
  Proof.
    intros H0 Hstep sched. revert init H0.
    induction sched as [|t rest IH]; intros s Hs; cbn [run]; [exact Hs|].
    destruct (step t s) as [s'|] eqn:E; [apply IH; eapply Hstep; eauto | apply IH; exact Hs].
  Qed.

  Corollary invariant_reachable (Inv : St -> Prop) (init : St) :
    Inv init -> (forall t s s', Inv s -> step t s = Some s' -> Inv s') ->
    forall s, reachable init s -> Inv s.
  Proof. intros H0 Hs s [sched <-]. apply invariant_rule; assumption. Qed.

  (* Coarse steps: the harness can only preempt at hook sites.  [at_site t s] says thread t is
     parked at a hook site (or finished); a coarse step of t runs fine steps of t until it is
     parked again.  Fuel bounds the number of fine steps between two sites. *)
  Variable at_site : nat -> St -> bool.

  Fixpoint run_until (fuel : nat) (t : nat) (s : St) : St :=
    match fuel with
    | O => s
    | S f => match step t s with
             | None => s
             | Some s' => if at_site t s' then s' else run_until f t s'
             end
    end.

  Fixpoint run_coarse (fuel : nat) (sched : list nat) (s : St) : St :=
    match sched with
    | [] => s
    | t :: rest => run_coarse fuel rest (run_until fuel t s)
    end.

  (* every coarse run is a fine run: invariants proved for all fine schedules transfer *)
  Lemma run_until_is_run fuel t s : exists sched, run_until fuel t s = run sched s.
  Proof.
    revert s. induction fuel as [|f IH]; intros s; cbn [run_until]; [exists []; reflexivity|].
    destruct (step t s) as [s'|] eqn:E; [|exists []; reflexivity].
    destruct (at_site t s').
    - exists [t]. cbn [run]. rewrite E. reflexivity.
    - destruct (IH s') as [sch Hs]. exists (t :: sch). cbn [run]. rewrite E. exact Hs.
  Qed.

  Lemma run_coarse_is_run fuel sched s : exists fine, run_coarse fuel sched s = run fine s.
  Proof.
    revert s. induction sched as [|t rest IH]; intros s; cbn [run_coarse]; [exists []; reflexivity|].
    destruct (run_until_is_run fuel t s) as [f1 H1]. destruct (IH (run_until fuel t s)) as [f2 H2].
    exists (f1 ++ f2). rewrite run_app, <- H1. exact H2.
  Qed.

  Corollary invariant_coarse (Inv : St -> Prop) (init : St) :
    Inv init -> (forall t s s', Inv s -> step t s = Some s' -> Inv s') ->
    forall fuel sched, Inv (run_coarse fuel sched init).
  Proof.
    intros H0 Hs fuel sched. destruct (run_coarse_is_run fuel sched init) as [fine ->].
    apply invariant_rule; assumption.
  Qed.
End Interleave.

Arguments run {St} step sched s.
Arguments reachable {St} step init s.
Arguments run_until {St} step at_site fuel t s.
Arguments run_coarse {St} step at_site fuel sched s.

(* finite maps from thread id to a local state, as association lists *)
Section Locals.
  Variable L : Type.
  Fixpoint lget (ls : list (nat * L)) (t : nat) : option L :=
    match ls with
    | [] => None
    | (k, v) :: r => if Nat.eqb k t then Some v else lget r t
    end.
  Fixpoint lset (ls : list (nat * L)) (t : nat) (v : L) : list (nat * L) :=
    match ls with
    | [] => [(t, v)]
    | (k, w) :: r => if Nat.eqb k t then (k, v) :: r else (k, w) :: lset r t v
    end.
  Lemma lget_lset_same ls t v : lget (lset ls t v) t = Some v.
  Proof.
    induction ls as [|[k w] r IH]; cbn [lset lget].
    - rewrite Nat.eqb_refl. reflexivity.
    - destruct (Nat.eqb k t) eqn:E; cbn [lget]; rewrite E; [reflexivity | exact IH].
  Qed.
  Lemma lget_lset_other ls t u v : t <> u -> lget (lset ls t v) u = lget ls u.
  Proof.
    intros Hne. induction ls as [|[k w] r IH]; cbn [lset lget].
    - destruct (Nat.eqb t u) eqn:E; [apply Nat.eqb_eq in E; contradiction | reflexivity].
    - destruct (Nat.eqb k t) eqn:E; cbn [lget].
      + apply Nat.eqb_eq in E. subst k.
        destruct (Nat.eqb t u) eqn:E2; [apply Nat.eqb_eq in E2; contradiction | reflexivity].
      + destruct (Nat.eqb k u); [reflexivity | exact IH].
  Qed.
End Locals.
Arguments lget {L} ls t.
Arguments lset {L} ls t v.
