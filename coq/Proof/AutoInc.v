(* C12 proofs about the AUTO_INCREMENT counter model (Model/AutoInc.v). *)
From Coq Require Import ZArith List Bool Lia ZifyBool.
From TV Require Import Lib.MachInt Model.AutoInc.
Import ListNotations.
Open Scope Z_scope.

Ltac Zify.zify_post_hook ::= Z.to_euclidean_division_equations.

Arguments Z.div : simpl never.
Arguments Z.modulo : simpl never.
Arguments Z.mul : simpl never.
Arguments Z.add : simpl never.
Arguments Z.sub : simpl never.
Arguments Z.pow : simpl never.
Arguments Z.leb : simpl never.
Arguments Z.ltb : simpl never.
Arguments Z.gtb : simpl never.
Arguments Z.eqb : simpl never.
Arguments wrap_s : simpl never.
Arguments in_u : simpl never.

Ltac consts :=
  change (2 ^ 63) with 9223372036854775808 in *;
  change (2 ^ 64) with 18446744073709551616 in *.

(* ------------------------------------------------------------------ machine integers *)
Lemma wrap_s_small : forall c, 0 <= c < 2 ^ 63 -> wrap_s 64 c = c.
Proof.
  intros c Hc. unfold wrap_s. change (64 - 1) with 63. consts. lia.
Qed.

Lemma in_u_64 : forall c, in_u 64 c = true <-> 0 <= c < 2 ^ 64.
Proof. intros c. unfold in_u. consts. lia. Qed.

(* ------------------------------------------------------------------ lists *)
Lemma app_cons_snoc : forall (A : Type) (pre post tr : list A) (x y : A),
  pre ++ x :: post = tr ++ [y] ->
  (post = [] /\ pre = tr /\ x = y) \/ (exists post', post = post' ++ [y] /\ tr = pre ++ x :: post').
Proof.
  intros A pre. induction pre as [|a pre IH]; intros post tr x y E.
  - destruct tr as [|b tr]; cbn [app] in E.
    + inversion E; subst. left. repeat split.
    + inversion E; subst. right. exists tr. split; reflexivity.
  - destruct tr as [|b tr]; cbn [app] in E.
    + inversion E as [[Ha Hn]]. destruct pre; discriminate Hn.
    + inversion E as [[Ha Hn]]. subst b. apply IH in Hn.
      destruct Hn as [(Hp & Hq & Hx) | (post' & Hp & Hq)].
      * left. subst. repeat split.
      * right. exists post'. subst. split; reflexivity.
Qed.

Lemma fi_nil : fresh_increasing [].
Proof. intros pre g post E. destruct pre; discriminate E. Qed.

Lemma fi_snoc : forall tr g b,
  fresh_increasing tr ->
  (b = true -> ~ In g (map fst tr) /\ (forall g', In (g', true) tr -> g' < g)) ->
  fresh_increasing (tr ++ [(g, b)]).
Proof.
  intros tr g b F H pre g0 post E.
  symmetry in E. apply app_cons_snoc in E. destruct E as [(Hp & Hq & Hx) | (post' & Hp & Hq)].
  - inversion Hx; subst. apply H. reflexivity.
  - apply (F pre g0 post'). exact Hq.
Qed.

Lemma not_in_fst_le : forall (tr : list (Z * bool)) m g,
  (forall x, In x tr -> fst x <= m) -> m < g -> ~ In g (map fst tr).
Proof.
  intros tr m g H Hg Hin. apply in_map_iff in Hin. destruct Hin as (x & Hx & Hi).
  specialize (H x Hi). lia.
Qed.

Lemma fi_app_explicit : forall w tr,
  fresh_increasing tr -> (forall x, In x w -> snd x = false) -> fresh_increasing (tr ++ w).
Proof.
  induction w as [|[v b] w IH]; intros tr F H.
  - rewrite app_nil_r. exact F.
  - change (tr ++ (v, b) :: w) with (tr ++ [(v, b)] ++ w). rewrite app_assoc. apply IH.
    + apply fi_snoc; [exact F|]. intros Hb. specialize (H (v, b) (or_introl eq_refl)). cbn in H. congruence.
    + intros x Hx. apply H. right. exact Hx.
Qed.

(* ------------------------------------------------------------------ the checker decides the property *)
Lemma existsb_fst_false : forall (pre : list (Z * bool)) g,
  existsb (fun x => fst x =? g) pre = false <-> ~ In g (map fst pre).
Proof.
  induction pre as [|a pre IH]; intros g; cbn [existsb map In].
  - split; [intros _ []|reflexivity].
  - rewrite orb_false_iff, IH. split.
    + intros (Ha & Hn) [Hg|Hg]; [lia|exact (Hn Hg)].
    + intros Hn. split; [|intros Hg; apply Hn; right; exact Hg].
      destruct (Z.eqb_spec (fst a) g) as [He|He]; [exfalso; apply Hn; left; exact He|reflexivity].
Qed.

Lemma forallb_gen_lt : forall (pre : list (Z * bool)) g,
  forallb (fun x => negb (snd x) || (fst x <? g)) pre = true <-> (forall g', In (g', true) pre -> g' < g).
Proof.
  intros pre g. rewrite forallb_forall. split.
  - intros H g' Hin. specialize (H _ Hin). cbn [fst snd negb orb] in H. lia.
  - intros H [v b] Hin. cbn [fst snd]. destruct b; cbn [negb orb]; [|reflexivity].
    specialize (H v Hin). lia.
Qed.

Definition fi_rel (pre tr : list (Z * bool)) : Prop :=
  forall p g post, tr = p ++ (g, true) :: post ->
    ~ In g (map fst (pre ++ p)) /\ (forall g', In (g', true) (pre ++ p) -> g' < g).

Lemma fi_chk_rel : forall tr pre, fi_chk pre tr = true <-> fi_rel pre tr.
Proof.
  induction tr as [|[g0 b] t IH]; intros pre.
  - cbn [fi_chk]. split; [|reflexivity]. intros _ p g post E. destruct p; discriminate E.
  - cbn [fi_chk]. rewrite andb_true_iff, IH. split.
    + intros (Hhd & Htl) p g post E. destruct p as [|x p]; cbn [app] in E.
      * inversion E; subst. rewrite app_nil_r. cbn [negb orb] in Hhd.
        apply andb_true_iff in Hhd. destruct Hhd as (H1 & H2).
        apply negb_true_iff in H1. split; [apply existsb_fst_false; exact H1|apply forallb_gen_lt; exact H2].
      * inversion E; subst. specialize (Htl p g post eq_refl).
        rewrite <- app_assoc in Htl. exact Htl.
    + intros H. split.
      * destruct b; cbn [negb orb]; [|reflexivity].
        specialize (H [] g0 t eq_refl). rewrite app_nil_r in H. destruct H as (H1 & H2).
        apply andb_true_iff. split; [apply negb_true_iff, existsb_fst_false; exact H1|apply forallb_gen_lt; exact H2].
      * intros p g post E. specialize (H ((g0, b) :: p) g post). cbn [app] in H.
        rewrite <- app_assoc. cbn [app]. apply H. rewrite E. reflexivity.
Qed.

Lemma fresh_increasing_chk_correct_l : forall tr,
  fresh_increasing_chk tr = true <-> fresh_increasing tr.
Proof. intros tr. unfold fresh_increasing_chk. rewrite fi_chk_rel. unfold fi_rel, fresh_increasing. cbn [app]. tauto. Qed.

Lemma wrap_s_in_range : forall w x, 0 < w -> in_s w x = true -> wrap_s w x = x.
Proof.
  intros w x Hw Hin. unfold in_s in Hin. unfold wrap_s.
  assert (H2 : 2 ^ w = 2 * 2 ^ (w - 1)).
  { replace w with (Z.succ (w - 1)) at 1 by lia. rewrite Z.pow_succ_r by lia. reflexivity. }
  assert (Hp : 0 < 2 ^ (w - 1)) by (apply Z.pow_pos_nonneg; lia).
  apply andb_true_iff in Hin. destruct Hin as (Hlo & Hhi).
  apply Z.leb_le in Hlo. apply Z.ltb_lt in Hhi.
  rewrite Z.mod_small; [ring|]. rewrite H2. split; [|]; generalize dependent (2 ^ (w - 1)); intros; lia.
Qed.


(* ------------------------------------------------------------------ the column type's maximum *)
Lemma col_bits_cases : forall w, col_bits w = 16 \/ col_bits w = 32 \/ col_bits w = 64.
Proof. intros w. unfold col_bits. destruct (w =? 16); [tauto|]. destruct (w =? 32); tauto. Qed.

Lemma limit_bounds : forall w, 0 < limit w < 2 ^ 63.
Proof.
  intros w. unfold limit. destruct (col_bits_cases w) as [H|[H|H]]; rewrite H.
  - change (2 ^ (16 - 1)) with 32768. consts. lia.
  - change (2 ^ (32 - 1)) with 2147483648. consts. lia.
  - change (2 ^ (64 - 1)) with (2 ^ 63). consts. lia.
Qed.

Lemma limit_in_range : forall w x, 0 <= x <= limit w -> in_s (col_bits w) x = true.
Proof.
  intros w x Hx. unfold limit in Hx. unfold in_s.
  assert (Hp : 0 < 2 ^ (col_bits w - 1)) by (apply Z.pow_pos_nonneg; [lia|destruct (col_bits_cases w) as [H|[H|H]]; rewrite H; lia]).
  apply andb_true_iff. split; [apply Z.leb_le|apply Z.ltb_lt]; lia.
Qed.

(* ------------------------------------------------------------------ the row loop *)
Lemma match_ext : forall (A : Type) (ext : option nat) (a b : A),
  ext <> Some O -> match ext with Some O => a | _ => b end = b.
Proof. intros A [[|k]|] a b H; [congruence|reflexivity|reflexivity]. Qed.

Lemma ext_dec : forall ext : option nat, {ext = Some O} + {ext <> Some O}.
Proof. intros [[|k]|]; [left; reflexivity|right; discriminate|right; discriminate]. Qed.

Lemma stmt_loop_cons : forall lim r t ext cur max hdr,
  stmt_loop lim (r :: t) ext cur max hdr =
  match assign lim cur max r with
  | AErr => ([], Failed, hdr)
  | AGen c m id =>
      let hdr' := if m >? hdr then m else hdr in
      match ext with
      | Some O => ([], Failed, hdr')
      | _ => let '(w, e, h) := stmt_loop lim t (option_map Nat.pred ext) c m hdr' in ((id, true) :: w, e, h)
      end
  | AExp c m id =>
      let hdr' := if m >? hdr then m else hdr in
      match ext with
      | Some O => ([], Failed, hdr')
      | _ => let '(w, e, h) := stmt_loop lim t (option_map Nat.pred ext) c m hdr' in ((id, false) :: w, e, h)
      end
  end.
Proof. reflexivity. Qed.

Definition le_all (m : Z) (tr : list (Z * bool)) : Prop := forall x, In x tr -> fst x <= m.
Definition gens_in (lo hi : Z) (w : list (Z * bool)) : Prop :=
  forall x, In x w -> snd x = true -> lo < fst x <= hi.
Definition end_ok (h : Z) (e : stmt_end) : Prop :=
  match e with Done m => m = h | Failed => True end.

(* generation below the limit: cur, max and the header move together *)
Lemma assign_null_ok : forall lim c, 0 <= c -> c + 1 <= lim -> lim < 2 ^ 63 ->
  assign lim c c RNull = AGen (c + 1) (c + 1) (c + 1).
Proof.
  intros lim c Hc Hl Hlim. unfold assign. cbv zeta.
  assert (Hin : in_u 64 (c + 1) = true) by (apply in_u_64; consts; lia).
  rewrite Hin. replace (c + 1 <=? lim) with true by lia. cbn [andb].
  rewrite wrap_s_small by lia. destruct (Z.gtb_spec (c + 1) c); [reflexivity|lia].
Qed.

(* ... and at the limit it is an error: no id is produced *)
Lemma assign_null_overflow : forall lim cur max, lim < cur + 1 -> assign lim cur max RNull = AErr.
Proof.
  intros lim cur max H. unfold assign. cbv zeta.
  replace (cur + 1 <=? lim) with false by lia. rewrite andb_false_r. reflexivity.
Qed.

Lemma loop_ok : forall lim rows ext c trp wr e h,
  0 <= c -> lim < 2 ^ 63 ->
  le_all c trp -> fresh_increasing trp ->
  stmt_loop lim rows ext c c c = (wr, e, h) ->
  fresh_increasing (trp ++ wr) /\ le_all h (trp ++ wr) /\ c <= h /\ gens_in c lim wr /\ end_ok h e.
Proof.
  intros lim. induction rows as [|r t IH]; intros ext c trp wr e h Hc Hlim Hle Hfi Hrun.
  - cbn [stmt_loop] in Hrun. inversion Hrun; subst. rewrite app_nil_r.
    split; [exact Hfi|]. split; [exact Hle|]. split; [lia|]. split; [intros x []|reflexivity].
  - assert (Hnil : forall h', c <= h' -> wr = [] -> e = Failed -> h = h' ->
              fresh_increasing (trp ++ wr) /\ le_all h (trp ++ wr) /\ c <= h /\ gens_in c lim wr /\ end_ok h e).
    { intros h' Hh' -> -> ->. rewrite app_nil_r. split; [exact Hfi|]. split.
      - intros x Hx. specialize (Hle x Hx). lia.
      - split; [lia|]. split; [intros x []|exact I]. }
    rewrite stmt_loop_cons in Hrun. destruct r as [|v].
    + (* NULL id *)
      destruct (Z_le_gt_dec (c + 1) lim) as [Hroom|Hfull].
      * rewrite assign_null_ok in Hrun by assumption. cbv zeta in Hrun.
        replace (c + 1 >? c) with true in Hrun by lia.
        destruct (ext_dec ext) as [He|He].
        { subst ext. inversion Hrun; subst. apply (Hnil (c + 1)); try reflexivity. lia. }
        rewrite match_ext in Hrun by exact He.
        destruct (stmt_loop lim t (option_map Nat.pred ext) (c + 1) (c + 1) (c + 1)) as [[w' e'] h'] eqn:Hrun'.
        inversion Hrun; subst.
        destruct (IH (option_map Nat.pred ext) (c + 1) (trp ++ [(c + 1, true)]) w' e h) as (F & L & C & G & E); try assumption; try lia.
        { intros x Hx. apply in_app_or in Hx. destruct Hx as [Hx|[<-|[]]]; [specialize (Hle x Hx); lia|cbn; lia]. }
        { apply fi_snoc; [exact Hfi|]. intros _. split.
          - eapply not_in_fst_le; [exact Hle|lia].
          - intros g' Hg'. specialize (Hle _ Hg'). cbn in Hle. lia. }
        rewrite <- app_assoc in F, L. cbn [app] in F, L.
        split; [exact F|]. split; [exact L|]. split; [lia|]. split; [|exact E].
        intros x [<-|Hx] Hs; [cbn; lia|]. specialize (G x Hx Hs). lia.
      * rewrite assign_null_overflow in Hrun by lia. injection Hrun as Hw0 He0 Hh0. apply (Hnil c); [lia|symmetry; exact Hw0|symmetry; exact He0|symmetry; exact Hh0].
    + (* explicit id *)
      unfold assign in Hrun.
      destruct (Z.ltb_spec v 0) as [Hneg|Hpos].
      { injection Hrun as Hw0 He0 Hh0. apply (Hnil c); [lia|symmetry; exact Hw0|symmetry; exact He0|symmetry; exact Hh0]. }
      destruct (Z.gtb_spec v lim) as [Hbig|Hfit].
      { injection Hrun as Hw0 He0 Hh0. apply (Hnil c); [lia|symmetry; exact Hw0|symmetry; exact He0|symmetry; exact Hh0]. }
      set (c' := if v >? c then v else c) in *.
      assert (Hc' : c <= c' /\ v <= c') by (subst c'; destruct (Z.gtb_spec v c); lia).
      cbv zeta in Hrun.
      assert (Hh : (if c' >? c then c' else c) = c') by (destruct (Z.gtb_spec c' c); lia).
      rewrite Hh in Hrun.
      destruct (ext_dec ext) as [He|He].
      { subst ext. cbv iota in Hrun. injection Hrun as Hw0 He0 Hh0. apply (Hnil c'); [lia|symmetry; exact Hw0|symmetry; exact He0|symmetry; exact Hh0]. }
      rewrite match_ext in Hrun by exact He.
      destruct (stmt_loop lim t (option_map Nat.pred ext) c' c' c') as [[w' e'] h'] eqn:Hrun'.
      inversion Hrun; subst.
      destruct (IH (option_map Nat.pred ext) c' (trp ++ [(v, false)]) w' e h) as (F & L & C & G & E); try assumption; try lia.
      { intros x Hx. apply in_app_or in Hx. destruct Hx as [Hx|[<-|[]]]; [specialize (Hle x Hx); lia|cbn; lia]. }
      { apply fi_snoc; [exact Hfi|]. intros Hb. discriminate Hb. }
      rewrite <- app_assoc in F, L. cbn [app] in F, L.
      split; [exact F|]. split; [exact L|]. split; [lia|]. split; [|exact E].
      intros x [<-|Hx] Hs; [cbn in Hs; discriminate Hs|]. specialize (G x Hx Hs). lia.
Qed.

(* every id an INSERT writes lies in 0 .. limit *)
Lemma loop_range : forall lim rows ext cur max hdr wr e h,
  lim < 2 ^ 63 ->
  stmt_loop lim rows ext cur max hdr = (wr, e, h) ->
  forall x, In x wr -> 0 <= fst x <= lim.
Proof.
  intros lim. induction rows as [|r t IH]; intros ext cur max hdr wr e h Hlim Hrun x Hx.
  - cbn [stmt_loop] in Hrun. inversion Hrun; subst. destruct Hx.
  - rewrite stmt_loop_cons in Hrun.
    destruct (assign lim cur max r) as [c m id|c m id|] eqn:Ha; cbv zeta in Hrun.
    + destruct (ext_dec ext) as [He|He]; [subst ext; inversion Hrun; subst; destruct Hx|].
      rewrite match_ext in Hrun by exact He.
      destruct (stmt_loop lim t (option_map Nat.pred ext) c m (if m >? hdr then m else hdr)) as [[w' e'] h'] eqn:Hrun'.
      inversion Hrun; subst. destruct Hx as [<-|Hx]; [|eapply IH; eassumption].
      destruct r as [|v]; unfold assign in Ha; cbv zeta in Ha.
      * destruct (in_u 64 (cur + 1)) eqn:Hin; [|discriminate Ha].
        destruct (Z.leb_spec (cur + 1) lim); [|discriminate Ha]. cbn [andb] in Ha. inversion Ha; subst.
        apply in_u_64 in Hin. rewrite wrap_s_small by (consts; lia). cbn [fst]. lia.
      * destruct (v <? 0); [discriminate Ha|]. destruct (v >? lim); discriminate Ha.
    + destruct (ext_dec ext) as [He|He]; [subst ext; inversion Hrun; subst; destruct Hx|].
      rewrite match_ext in Hrun by exact He.
      destruct (stmt_loop lim t (option_map Nat.pred ext) c m (if m >? hdr then m else hdr)) as [[w' e'] h'] eqn:Hrun'.
      inversion Hrun; subst. destruct Hx as [<-|Hx]; [|eapply IH; eassumption].
      destruct r as [|v]; unfold assign in Ha; cbv zeta in Ha.
      * destruct (in_u 64 (cur + 1) && (cur + 1 <=? lim)); discriminate Ha.
      * destruct (Z.ltb_spec v 0); [discriminate Ha|]. destruct (Z.gtb_spec v lim); [discriminate Ha|].
        inversion Ha; subst. cbn [fst]. lia.
    + inversion Hrun; subst. destruct Hx.
Qed.

(* ------------------------------------------------------------------ one statement *)
Definition gens_pos (w : Z) (tr : list (Z * bool)) : Prop :=
  forall x, In x tr -> snd x = true -> 1 <= fst x <= limit w.

Lemma stmt_ok : forall w ai rows ext tr0 ai' wr ok,
  0 <= ai -> le_all ai tr0 -> fresh_increasing tr0 -> gens_pos w tr0 ->
  insert_stmt w ai rows ext = (ai', wr, ok) ->
  ai <= ai' /\ le_all ai' (tr0 ++ wr) /\ fresh_increasing (tr0 ++ wr) /\ gens_pos w (tr0 ++ wr).
Proof.
  intros w ai rows ext tr0 ai' wr ok Hai Hle Hfi Hgp Hst. unfold insert_stmt in Hst.
  destruct (stmt_loop (limit w) rows ext ai ai ai) as [[wr' e] h] eqn:Hrun.
  pose proof (limit_bounds w) as Hlim.
  destruct (loop_ok (limit w) rows ext ai tr0 wr' e h) as (F & L & C & G & E); try assumption; try lia.
  assert (Hgp' : gens_pos w (tr0 ++ wr')).
  { intros x Hx Hs. apply in_app_or in Hx. destruct Hx as [Hx|Hx]; [exact (Hgp x Hx Hs)|].
    specialize (G x Hx Hs). lia. }
  destruct e as [m|].
  - cbn [end_ok] in E. subst m. inversion Hst; subst.
    assert (Hnew : (if (h >? 0) && (h >? h) then h else h) = h) by (destruct ((h >? 0) && (h >? h)); reflexivity).
    rewrite Hnew. split; [lia|]. split; [exact L|]. split; assumption.
  - inversion Hst; subst. split; [lia|]. split; [exact L|]. split; assumption.
Qed.

(* ------------------------------------------------------------------ insert_batch *)
Lemma bulk_written_explicit : forall rows x, In x (bulk_written rows) -> snd x = false.
Proof.
  induction rows as [|[|v] t IH]; intros x Hin; cbn [bulk_written] in Hin.
  - destruct Hin.
  - exact (IH x Hin).
  - destruct Hin as [<-|Hin]; [reflexivity|exact (IH x Hin)].
Qed.

Lemma bulk_written_le_max : forall rows x, In x (bulk_written rows) -> fst x <= bulk_max rows.
Proof.
  induction rows as [|[|v] t IH]; intros x Hin; cbn [bulk_written bulk_max] in *.
  - destruct Hin.
  - exact (IH x Hin).
  - destruct Hin as [<-|Hin]; [cbn; lia|]. specialize (IH x Hin). lia.
Qed.

(* ------------------------------------------------------------------ histories *)
Lemma run_cons : forall w ai o t,
  run w ai (o :: t) = let '(ai', wr) := step w ai o in let '(aif, tr) := run w ai' t in (aif, wr ++ tr).
Proof. reflexivity. Qed.

Lemma run_ok : forall w h ai tr0 aif tr,
  0 <= ai -> le_all ai tr0 -> fresh_increasing tr0 -> gens_pos w tr0 ->
  run w ai h = (aif, tr) ->
  ai <= aif /\ le_all aif (tr0 ++ tr) /\ fresh_increasing (tr0 ++ tr) /\ gens_pos w (tr0 ++ tr).
Proof.
  intros w. induction h as [|o t IH]; intros ai tr0 aif tr Hai Hle Hfi Hgp Hrun.
  - cbn [run] in Hrun. inversion Hrun; subst. rewrite app_nil_r. split; [lia|]. split; [assumption|split; assumption].
  - rewrite run_cons in Hrun.
    destruct o as [rows ext|rows| | | | |];
      try (cbn [step] in Hrun;
           destruct (run w ai t) as [aif' tr'] eqn:Hrun'; inversion Hrun; subst;
           cbn [app]; eapply IH; eassumption).
    + cbn [step] in Hrun.
      destruct (insert_stmt w ai rows ext) as [[ai' wr] ok] eqn:Hst.
      destruct (run w ai' t) as [aif' tr'] eqn:Hrun'. inversion Hrun; subst.
      destruct (stmt_ok w ai rows ext tr0 ai' wr ok) as (S1 & S2 & S3 & S4); try assumption.
      destruct (IH ai' (tr0 ++ wr) aif tr') as (R1 & R2 & R3 & R4); try assumption; try lia.
      rewrite <- app_assoc in R2, R3, R4. split; [lia|]. split; [assumption|split; assumption].
    + cbn [step] in Hrun. cbv zeta in Hrun.
      set (ai' := if bulk_max rows >? ai then bulk_max rows else ai) in *.
      assert (Hai' : ai <= ai' /\ bulk_max rows <= ai') by (subst ai'; destruct (Z.gtb_spec (bulk_max rows) ai); lia).
      destruct (run w ai' t) as [aif' tr'] eqn:Hrun'. inversion Hrun; subst.
      destruct (IH ai' (tr0 ++ bulk_written rows) aif tr') as (R1 & R2 & R3 & R4); try assumption; try lia.
      * intros x Hx. apply in_app_or in Hx. destruct Hx as [Hx|Hx]; [specialize (Hle x Hx); lia|].
        pose proof (bulk_written_le_max rows x Hx). lia.
      * apply fi_app_explicit; [exact Hfi|]. intros x Hx. exact (bulk_written_explicit _ x Hx).
      * intros x Hx Hs. apply in_app_or in Hx. destruct Hx as [Hx|Hx]; [exact (Hgp x Hx Hs)|].
        rewrite (bulk_written_explicit _ x Hx) in Hs. discriminate Hs.
      * rewrite <- app_assoc in R2, R3, R4. split; [lia|]. split; [assumption|split; assumption].
Qed.

Lemma autoinc_invariant_l : forall w h,
  0 <= counter w h /\ le_all (counter w h) (trace w h) /\ fresh_increasing (trace w h) /\ gens_pos w (trace w h).
Proof.
  intros w h. unfold counter, trace. destruct (run w 0 h) as [aif tr] eqn:Hrun. cbn [fst snd].
  destruct (run_ok w h 0 [] aif tr) as (R1 & R2 & R3 & R4); try assumption; try lia.
  - intros x [].
  - exact fi_nil.
  - intros x [].
  - cbn [app] in *. split; [lia|]. split; [assumption|split; assumption].
Qed.

(* C12, on the model, for ALL histories *)
Lemma autoinc_fresh_increasing_l : forall w h, fresh_increasing (trace w h).
Proof. intros w h. pose proof (autoinc_invariant_l w h). tauto. Qed.

(* the header counter is an upper bound of everything the column ever held *)
Lemma autoinc_counter_dominates_l : forall w h v b, In (v, b) (trace w h) -> v <= counter w h.
Proof.
  intros w h v b Hin. destruct (autoinc_invariant_l w h) as (_ & H & _). exact (H (v, b) Hin).
Qed.

(* generated ids are positive and within the id column's type *)
Lemma autoinc_no_wrap_l : forall w h g, In (g, true) (trace w h) -> 1 <= g <= limit w.
Proof.
  intros w h g Hin. destruct (autoinc_invariant_l w h) as (_ & _ & _ & H). exact (H (g, true) Hin eq_refl).
Qed.

(* at the type's maximum a generating INSERT is an error: nothing written, counter unchanged *)
Lemma autoinc_overflow_is_error_l : forall w ai rows,
  limit w <= ai -> insert_stmt w ai (RNull :: rows) None = (ai, [], false).
Proof.
  intros w ai rows H. unfold insert_stmt. rewrite stmt_loop_cons.
  rewrite assign_null_overflow by lia. reflexivity.
Qed.

(* DELETE, BEGIN / COMMIT / ROLLBACK and reopening never touch the counter *)
Lemma run_filter_insert : forall w h ai, run w ai h = run w ai (filter is_insert h).
Proof.
  intros w. induction h as [|o t IH]; intros ai; [reflexivity|].
  destruct o as [rows ext|rows| | | | |]; cbn [filter is_insert]; rewrite ?run_cons; cbn [step].
  - destruct (insert_stmt w ai rows ext) as [[ai' wr] ok]. rewrite IH. reflexivity.
  - cbv zeta. rewrite IH. reflexivity.
  - rewrite IH. destruct (run w ai (filter is_insert t)); reflexivity.
  - rewrite IH. destruct (run w ai (filter is_insert t)); reflexivity.
  - rewrite IH. destruct (run w ai (filter is_insert t)); reflexivity.
  - rewrite IH. destruct (run w ai (filter is_insert t)); reflexivity.
  - rewrite IH. destruct (run w ai (filter is_insert t)); reflexivity.
Qed.

Lemma autoinc_other_ops_irrelevant_l : forall w h,
  trace w h = trace w (filter is_insert h) /\ counter w h = counter w (filter is_insert h).
Proof. intros w h. unfold trace, counter. rewrite <- run_filter_insert. split; reflexivity. Qed.

(* ------------------------------------------------------------------ what the column stores *)
Lemma run_range : forall w h ai x,
  forallb (bulk_fits w) h = true -> In x (snd (run w ai h)) -> in_s (col_bits w) (fst x) = true.
Proof.
  intros w. induction h as [|o t IH]; intros ai x Hfit Hx; [destruct Hx|].
  cbn [forallb] in Hfit. apply andb_true_iff in Hfit. destruct Hfit as (Ho & Ht).
  rewrite run_cons in Hx.
  destruct (step w ai o) as [ai' wr] eqn:Hstep. destruct (run w ai' t) as [aif tr] eqn:Hrun.
  cbn [snd] in Hx. apply in_app_or in Hx. destruct Hx as [Hx|Hx].
  - destruct o as [rows ext|rows| | | | |]; cbn [step] in Hstep; try (inversion Hstep; subst; destruct Hx).
    + unfold insert_stmt in Hstep.
      destruct (stmt_loop (limit w) rows ext ai ai ai) as [[wr' e] h'] eqn:Hl.
      pose proof (limit_bounds w) as Hlim.
      assert (Hr : forall y, In y wr' -> 0 <= fst y <= limit w) by (eapply loop_range; [|exact Hl]; lia).
      destruct e; inversion Hstep; subst; apply limit_in_range; apply Hr; exact Hx.
    + inversion Hstep; subst. cbn [bulk_fits] in Ho. rewrite forallb_forall in Ho. exact (Ho x Hx).
  - apply (IH ai' x Ht). rewrite Hrun. exact Hx.
Qed.

Lemma autoinc_fresh_increasing_stored_l : forall w h,
  forallb (bulk_fits w) h = true -> trace_w w h = trace w h /\ fresh_increasing (trace_w w h).
Proof.
  intros w h Hfit.
  assert (Hid : trace_w w h = trace w h).
  { unfold trace_w. rewrite <- (map_id (trace w h)) at 2. apply map_ext_in. intros [v b] Hin.
    cbn [fst snd]. unfold stored. rewrite wrap_s_in_range; [reflexivity| |].
    - destruct (col_bits_cases w) as [H|[H|H]]; rewrite H; lia.
    - exact (run_range w h 0 (v, b) Hfit Hin). }
  rewrite Hid. split; [reflexivity|]. apply autoinc_fresh_increasing_l.
Qed.
