(* C24 proofs: the TopK executor's array heap (Model/KnnOrder.v: upd, sift, topk_feed, topk)
   returns the k smallest rows in order, for every comparison that is a total preorder. *)
From Coq Require Import ZArith List Bool Arith Lia Permutation Sorted.
From TV Require Import Model.KnnOrder Proof.KnnOrder.
Import ListNotations.

Section UpdFacts.
  Context {A : Type}.

  Lemma upd_length : forall (l : list A) i x, length (upd l i x) = length l.
  Proof. induction l as [|h t IH]; intros [|i] x; cbn [upd length]; auto. Qed.

  Lemma nth_upd_eq : forall (l : list A) i x, (i < length l)%nat -> nth_error (upd l i x) i = Some x.
  Proof.
    induction l as [|h t IH]; intros [|i] x Hl; cbn [upd length nth_error] in *; try lia; auto.
    apply IH. lia.
  Qed.

  Lemma nth_upd_neq : forall (l : list A) i j x, i <> j -> nth_error (upd l i x) j = nth_error l j.
  Proof.
    induction l as [|h t IH]; intros [|i] [|j] x Hn; cbn [upd nth_error]; try reflexivity; try lia.
    apply IH. lia.
  Qed.

  Lemma nth_some : forall (l : list A) i, (i < length l)%nat -> exists x, nth_error l i = Some x.
  Proof.
    intros l i H. destruct (nth_error l i) eqn:E; [eauto|]. apply nth_error_None in E. lia.
  Qed.

  Lemma upd_perm_one : forall (t : list A) j a b, nth_error t j = Some b ->
    Permutation (b :: upd t j a) (a :: t).
  Proof.
    induction t as [|c t IH]; intros [|j] a b H; cbn [nth_error upd] in *; try discriminate.
    - inversion H; subst. apply perm_swap.
    - rewrite perm_swap. rewrite (IH j a b H). apply perm_swap.
  Qed.

  Lemma swap_perm : forall (h : list A) i j a b, (i < j)%nat ->
    nth_error h i = Some a -> nth_error h j = Some b ->
    Permutation (upd (upd h i b) j a) h.
  Proof.
    induction h as [|c t IH]; intros i j a b Hij Hi Hj.
    - destruct i; discriminate.
    - destruct j as [|j]; [lia|]. destruct i as [|i]; cbn [nth_error upd] in *.
      + inversion Hi; subst. apply upd_perm_one. exact Hj.
      + apply perm_skip. apply IH; auto. lia.
  Qed.
End UpdFacts.

Section Heap.
  Context {A : Type} (cmp : A -> A -> comparison).
  Hypothesis Hcmp : cmp_total_preorder cmp.
  Local Notation le := (cle cmp).

  Definition heap_at (h : list A) (p : nat) : Prop :=
    forall c hp hc, (c = 2 * p + 1 \/ c = 2 * p + 2)%nat ->
      nth_error h p = Some hp -> nth_error h c = Some hc -> le hc hp.
  Definition heap_ok (h : list A) : Prop := forall p, heap_at h p.

  Lemma heap_root_max : forall h h0, heap_ok h -> nth_error h 0 = Some h0 ->
    forall j hj, nth_error h j = Some hj -> le hj h0.
  Proof.
    intros h h0 Hh H0 j. induction j as [j IH] using lt_wf_ind. intros hj Hj.
    destruct j as [|j].
    - rewrite H0 in Hj. inversion Hj; subst. apply (cle_refl cmp Hcmp).
    - set (p := (j / 2)%nat).
      assert (Hp : (S j = 2 * p + 1 \/ S j = 2 * p + 2)%nat).
      { unfold p. pose proof (Nat.div_mod j 2 ltac:(lia)) as E.
        pose proof (Nat.mod_upper_bound j 2 ltac:(lia)). lia. }
      assert (Hlt : (p < S j)%nat) by lia.
      destruct (nth_some h p) as [hp Hhp].
      { assert (S j < length h)%nat by (apply nth_error_Some; congruence). lia. }
      apply (cle_trans cmp Hcmp _ hp).
      + apply (Hh p (S j) hp hj Hp Hhp Hj).
      + apply (IH p Hlt hp Hhp).
  Qed.

  Ltac ord := eauto 4 using (cle_refl cmp Hcmp), (cle_trans cmp Hcmp).

  (* one iteration of the sift-down loop: the index [m] it picks holds a maximum of
     { h[i], h[2i+1], h[2i+2] } *)
  Lemma sift_step : forall fuel h i hi, nth_error h i = Some hi ->
    exists m hm, nth_error h m = Some hm /\
      (m = i \/ (m = 2 * i + 1 \/ m = 2 * i + 2)%nat) /\
      le hi hm /\
      (forall c hc, (c = 2 * i + 1 \/ c = 2 * i + 2)%nat -> nth_error h c = Some hc -> le hc hm) /\
      sift cmp (S fuel) h i =
        if (m =? i)%nat then Some h else sift cmp fuel (upd (upd h i hm) m hi) m.
  Proof.
    intros fuel h i hi Hhi.
    assert (Hnone : forall c hc, (c <? length h)%nat = false -> nth_error h c = Some hc -> False).
    { intros c hc Hc Hn. apply Nat.ltb_ge in Hc. apply nth_error_None in Hc. congruence. }
    assert (Hne1 : ((2 * i + 1 =? i) = false)%nat) by (apply Nat.eqb_neq; lia).
    assert (Hne2 : ((2 * i + 2 =? i) = false)%nat) by (apply Nat.eqb_neq; lia).
    pose proof (Nat.eqb_refl i) as Hrefl.
    Ltac simp := repeat (cbv beta iota zeta; match goal with H : _ = _ |- _ => rewrite H end).
    Ltac kids Hnone :=
      let c := fresh "c" in let hc := fresh "hc" in let Hc := fresh "Hc" in let Hn := fresh "Hn" in
      intros c hc Hc Hn; destruct Hc; subst c;
      try (exfalso; refine (Hnone _ _ _ Hn); assumption);
      match goal with H : nth_error _ _ = Some _ |- _ =>
        tryif constr_eq H Hn then fail else (rewrite H in Hn; inversion Hn; subst; clear Hn) end.
    destruct (2 * i + 1 <? length h)%nat eqn:El;
      [destruct (nth_some h (2 * i + 1)%nat ltac:(apply Nat.ltb_lt; exact El)) as [hl Hhl];
       destruct (c_greater cmp hl hi) eqn:Gl;
       [pose proof (c_greater_true cmp Hcmp _ _ Gl) as [Ol _]|pose proof (c_greater_false cmp _ _ Gl) as Ol]|];
    (destruct (2 * i + 2 <? length h)%nat eqn:Er;
      [destruct (nth_some h (2 * i + 2)%nat ltac:(apply Nat.ltb_lt; exact Er)) as [hr Hhr]|]).
    all: try (exfalso; apply Nat.ltb_lt in Er; apply Nat.ltb_ge in El; lia).
    Ltac leaf m hm Hnone :=
      exists m, hm; split; [assumption|]; split; [lia|]; split; [ord|]; split; [kids Hnone; ord|];
      cbn [sift]; simp; reflexivity.
    - destruct (c_greater cmp hr hl) eqn:Gr;
        [pose proof (c_greater_true cmp Hcmp _ _ Gr) as [Or _]|pose proof (c_greater_false cmp _ _ Gr) as Or].
      + leaf (2 * i + 2)%nat hr Hnone.
      + leaf (2 * i + 1)%nat hl Hnone.
    - leaf (2 * i + 1)%nat hl Hnone.
    - destruct (c_greater cmp hr hi) eqn:Gr;
        [pose proof (c_greater_true cmp Hcmp _ _ Gr) as [Or _]|pose proof (c_greater_false cmp _ _ Gr) as Or].
      + leaf (2 * i + 2)%nat hr Hnone.
      + leaf i hi Hnone.
    - leaf i hi Hnone.
    - leaf i hi Hnone.
  Qed.

  Lemma sift_ok : forall fuel h i,
    (length h - i <= fuel)%nat -> (i < length h)%nat ->
    (forall p, p <> i -> heap_at h p) ->
    (forall g hg c hc, (i = 2 * g + 1 \/ i = 2 * g + 2)%nat -> nth_error h g = Some hg ->
        (c = 2 * i + 1 \/ c = 2 * i + 2)%nat -> nth_error h c = Some hc -> le hc hg) ->
    exists h', sift cmp fuel h i = Some h' /\ Permutation h' h /\ heap_ok h'.
  Proof.
    induction fuel as [|fuel IH]; intros h i Hf Hi Hothers Hgp; [lia|].
    destruct (nth_some h i Hi) as [hi Hhi].
    destruct (sift_step fuel h i hi Hhi) as [m [hm [Hhm [Hm [Him [Hkids Heq]]]]]].
    rewrite Heq. destruct (m =? i)%nat eqn:Emi.
    - (* h[i] is at least both children: the heap property holds at i as well *)
      apply Nat.eqb_eq in Emi. subst m. rewrite Hhi in Hhm. inversion Hhm; subst hm.
      exists h. split; [reflexivity|]. split; [reflexivity|].
      intros p. destruct (Nat.eq_dec p i) as [->|Hne]; [|apply Hothers; exact Hne].
      intros c hp hc Hc Hp Hcn. rewrite Hhi in Hp. inversion Hp; subst hp. eapply Hkids; eauto.
    - apply Nat.eqb_neq in Emi.
      assert (Hmk : (m = 2 * i + 1 \/ m = 2 * i + 2)%nat) by (destruct Hm; [contradiction|assumption]).
      assert (Hml : (m < length h)%nat) by (apply nth_error_Some; congruence).
      set (h2 := upd (upd h i hm) m hi).
      assert (Hlen2 : length h2 = length h) by (unfold h2; rewrite !upd_length; reflexivity).
      assert (H2i : nth_error h2 i = Some hm).
      { unfold h2. rewrite nth_upd_neq by lia. apply nth_upd_eq. exact Hi. }
      assert (H2m : nth_error h2 m = Some hi).
      { unfold h2. apply nth_upd_eq. rewrite upd_length. exact Hml. }
      assert (H2o : forall j, j <> i -> j <> m -> nth_error h2 j = nth_error h j).
      { intros j Hji Hjm. unfold h2. rewrite !nth_upd_neq by lia. reflexivity. }
      destruct (IH h2 m) as [h' [Hs [Hperm Hheap]]].
      + rewrite Hlen2. lia.
      + rewrite Hlen2. exact Hml.
      + (* heap property everywhere except at m *)
        intros p Hpm c hp hc Hc Hp Hcn.
        destruct (Nat.eq_dec p i) as [->|Hpi].
        * rewrite H2i in Hp. inversion Hp; subst hp.
          destruct (Nat.eq_dec c m) as [->|Hcm].
          -- rewrite H2m in Hcn. inversion Hcn; subst hc. exact Him.
          -- rewrite H2o in Hcn by lia. eapply Hkids; eauto.
        * rewrite H2o in Hp by assumption.
          destruct (Nat.eq_dec c i) as [->|Hci].
          -- (* p is the parent of i: the element moved up is a child of i *)
             rewrite H2i in Hcn. inversion Hcn; subst hc.
             eapply (Hgp p hp m hm); eauto.
          -- assert (c <> m) by lia. rewrite H2o in Hcn by assumption.
             eapply (Hothers p Hpi); eauto.
      + (* the children of m are below what now sits at i (the old h[m]) *)
        intros g hg c hc Hg Hgn Hc Hcn.
        assert (g = i) by lia. subst g. rewrite H2i in Hgn. inversion Hgn; subst hg.
        rewrite H2o in Hcn by lia.
        eapply (Hothers m ltac:(lia)); eauto.
      + exists h'. split; [exact Hs|]. split; [|exact Hheap].
        rewrite Hperm. unfold h2. apply swap_perm; auto. lia.
  Qed.

  (* ---------------------------------------------------------------- descending array = max-heap *)
  Definition flipc (a b : A) : comparison := cmp b a.

  Lemma flipc_preorder : cmp_total_preorder flipc.
  Proof.
    destruct Hcmp as [Ha Ht]. split.
    - intros a b. unfold flipc. apply Ha.
    - intros a b c H1 H2. unfold flipc in *. eapply Ht; eauto.
  Qed.

  Lemma c_greater_flip : forall a b, c_greater cmp a b = c_less flipc a b.
  Proof.
    intros a b. unfold c_greater, c_less, flipc. destruct Hcmp as [Ha _].
    rewrite (Ha a b). destruct (cmp a b); reflexivity.
  Qed.

  Lemma ss_nth : forall (R : A -> A -> Prop) l, StronglySorted R l ->
    forall i j x y, (i < j)%nat -> nth_error l i = Some x -> nth_error l j = Some y -> R x y.
  Proof.
    intros R l Hs. induction Hs as [|a l Hs IH Hall]; intros i j x y Hij Hi Hj.
    - destruct i; discriminate.
    - destruct j as [|j]; [lia|]. cbn [nth_error] in Hj. destruct i as [|i]; cbn [nth_error] in Hi.
      + inversion Hi; subst. rewrite Forall_forall in Hall. apply Hall. eapply nth_error_In; eauto.
      + apply (IH i j x y); [lia|exact Hi|exact Hj].
  Qed.

  Lemma isort_desc_heap : forall l, heap_ok (isort (c_greater cmp) l).
  Proof.
    intros l. rewrite (isort_ext (c_greater cmp) (c_less flipc)) by (intros; apply c_greater_flip).
    pose proof (isort_sorted flipc flipc_preorder l) as Hs.
    intros p c hp hc Hc Hp Hcn.
    apply (ss_nth _ _ Hs p c hp hc); auto. lia.
  Qed.

  (* ---------------------------------------------------------------- the feeding loop *)
  Lemma heap_dominates : forall h b t, h = b :: t -> heap_ok h -> forall y, In y h -> le y b.
  Proof.
    intros h b t -> Hh y Hy. apply In_nth_error in Hy. destruct Hy as [n Hn].
    eapply (heap_root_max (b :: t) b Hh); eauto.
  Qed.

  Lemma topk_feed_ok : forall k rows h D, (0 < k)%nat -> (length h <= k)%nat ->
    (length h = k -> heap_ok h) -> ((length h < k)%nat -> D = []) ->
    (forall x d, In x h -> In d D -> le x d) ->
    exists h' D', topk_feed cmp k h rows = TOk h' /\
      Permutation (h' ++ D') (h ++ D ++ rows) /\
      length h' = Nat.min k (length h + length rows) /\
      (forall x d, In x h' -> In d D' -> le x d).
  Proof.
    intros k rows. induction rows as [|x rest IH]; intros h D Hk Hlen Hheap Hd Hdom.
    - exists h, D. cbn [topk_feed]. split; [reflexivity|]. split; [rewrite app_nil_r; reflexivity|].
      split; [cbn [length]; lia|exact Hdom].
    - cbn [topk_feed]. destruct (length h <? k)%nat eqn:Efull.
      + apply Nat.ltb_lt in Efull. rewrite (Hd Efull) in *.
        set (h1 := h ++ [x]).
        assert (Hl1 : length h1 = S (length h)) by (unfold h1; rewrite app_length; cbn [length]; lia).
        set (h2 := if (length h1 =? k)%nat then isort (c_greater cmp) h1 else h1).
        assert (Hp2 : Permutation h2 h1).
        { unfold h2. destruct (length h1 =? k)%nat; [apply isort_perm|reflexivity]. }
        assert (Hl2 : length h2 = S (length h)) by (rewrite (Permutation_length Hp2); exact Hl1).
        destruct (IH h2 []) as [h' [D' [Hf [Hperm [Hlen' Hdom']]]]]; auto.
        * lia.
        * intros Hk2. unfold h2. destruct (length h1 =? k)%nat eqn:E.
          -- apply isort_desc_heap.
          -- apply Nat.eqb_neq in E. lia.
        * intros ? ? ? [].
        * exists h', D'. split; [exact Hf|]. split; [|split; [|exact Hdom']].
          -- rewrite Hperm. cbn [app]. rewrite Hp2. unfold h1. rewrite <- app_assoc. reflexivity.
          -- rewrite Hlen'. rewrite Hl2. cbn [length]. lia.
      + apply Nat.ltb_ge in Efull. assert (Hlk : length h = k) by lia.
        replace (0 <? k)%nat with true by (symmetry; apply Nat.ltb_lt; exact Hk).
        specialize (Hheap Hlk).
        destruct h as [|b t]; [cbn [length] in Hlk; lia|].
        destruct (c_less cmp x b) eqn:Ex.
        * apply (c_less_true cmp Hcmp) in Ex. destruct Ex as [Exb _].
          destruct (sift_ok (S (length (b :: t))) (upd (b :: t) 0 x) 0) as [h'' [Hs [Hp'' Hh'']]].
          -- rewrite upd_length. lia.
          -- rewrite upd_length. cbn [length]. lia.
          -- intros p Hp0 c hp hc Hc Hp Hcn. rewrite nth_upd_neq in Hp, Hcn by lia.
             eapply (Hheap p); eauto.
          -- intros g hg c hc Hg. lia.
          -- rewrite Hs. cbn [upd] in Hp''.
             destruct (IH h'' (b :: D)) as [h' [D' [Hf [Hperm [Hlen' Hdom']]]]]; auto.
             ++ rewrite (Permutation_length Hp''). cbn [length] in *. lia.
             ++ rewrite (Permutation_length Hp''). cbn [length] in *. lia.
             ++ intros y d Hy Hdd. apply (Permutation_in _ Hp'') in Hy.
                assert (Hyb : le y b).
                { destruct Hy as [<-|Hy]; [exact Exb|].
                  eapply (heap_dominates (b :: t) b t eq_refl Hheap). right. exact Hy. }
                destruct Hdd as [<-|Hdd]; [exact Hyb|].
                apply (cle_trans cmp Hcmp _ b); [exact Hyb|]. apply Hdom; [left; reflexivity|exact Hdd].
             ++ exists h', D'. split; [exact Hf|]. split; [|split; [|exact Hdom']].
                ** rewrite Hperm. rewrite Hp''. cbn [app].
                   rewrite <- (Permutation_middle t (D ++ rest) b).
                   rewrite perm_swap. apply perm_skip.
                   rewrite (app_assoc t D (x :: rest)). rewrite <- (Permutation_middle (t ++ D) rest x).
                   rewrite <- app_assoc. reflexivity.
                ** rewrite Hlen'. rewrite (Permutation_length Hp''). cbn [length] in *. lia.
        * apply (c_less_false cmp Hcmp) in Ex.
          destruct (IH (b :: t) (x :: D)) as [h' [D' [Hf [Hperm [Hlen' Hdom']]]]]; auto.
          -- intros Hlt. lia.
          -- intros y d Hy Hdd. destruct Hdd as [<-|Hdd]; [|apply Hdom; assumption].
             apply (cle_trans cmp Hcmp _ b); [|exact Ex].
             eapply (heap_dominates (b :: t) b t eq_refl Hheap). exact Hy.
          -- exists h', D'. split; [exact Hf|]. split; [|split; [|exact Hdom']].
             ++ rewrite Hperm. apply Permutation_app_head. cbn [app]. apply Permutation_middle.
             ++ rewrite Hlen'. cbn [length] in *. lia.
  Qed.

  (* LIMIT k through the heap, every k (k = 0: no row): min(k, n) rows, in non-decreasing order,
     and every row left out is at least as large as every row returned *)
  Lemma topk_ok : forall k rows,
    exists out rest, topk cmp k rows = TOk out /\
      Permutation (out ++ rest) rows /\
      length out = Nat.min k (length rows) /\
      StronglySorted le out /\
      (forall x y, In x out -> In y rest -> le x y).
  Proof.
    intros k rows. destruct k as [|k'].
    { exists [], rows. rewrite topk_limit0_empty_l. repeat split; try reflexivity; try constructor.
      intros x y []. }
    set (k := S k'). assert (Hk : (0 < k)%nat) by (unfold k; lia).
    destruct (topk_feed_ok k rows [] [] Hk) as [h' [D' [Hf [Hperm [Hlen Hdom]]]]].
    - cbn [length]. lia.
    - cbn [length]. intros. lia.
    - reflexivity.
    - intros ? ? [].
    - cbn [length Nat.add app] in *.
      assert (Hall : firstn k (isort (c_less cmp) h') = isort (c_less cmp) h').
      { apply firstn_all2. rewrite (Permutation_length (isort_perm (c_less cmp) h')). lia. }
      exists (isort (c_less cmp) h'), D'. unfold topk. rewrite Hf, Hall.
      split; [reflexivity|]. split; [|split; [|split]].
      + rewrite (isort_perm (c_less cmp) h'). exact Hperm.
      + rewrite (Permutation_length (isort_perm (c_less cmp) h')). exact Hlen.
      + apply isort_sorted. exact Hcmp.
      + intros x y Hx Hy. apply Hdom; [|exact Hy].
        apply (Permutation_in _ (isort_perm (c_less cmp) h')). exact Hx.
  Qed.
End Heap.

(* ------------------------------------------------------------------ two comparisons that agree on the rows *)
Section TopKExt.
  Context {A : Type} (cmp1 cmp2 : A -> A -> comparison) (P : A -> Prop).
  Hypothesis Hagree : forall x y, P x -> P y -> cmp1 x y = cmp2 x y.

  Lemma c_greater_agree : forall x y, P x -> P y -> c_greater cmp1 x y = c_greater cmp2 x y.
  Proof. intros x y Hx Hy. unfold c_greater. rewrite Hagree by assumption. reflexivity. Qed.
  Lemma c_less_agree : forall x y, P x -> P y -> c_less cmp1 x y = c_less cmp2 x y.
  Proof. intros x y Hx Hy. unfold c_less. rewrite Hagree by assumption. reflexivity. Qed.

  Lemma Forall_upd : forall (l : list A) i x, Forall P l -> P x -> Forall P (upd l i x).
  Proof.
    induction l as [|h t IH]; intros [|i] x Hl Hx; cbn [upd]; auto; inversion Hl; subst; constructor; auto.
  Qed.

  Lemma Forall_nth : forall (l : list A) i x, Forall P l -> nth_error l i = Some x -> P x.
  Proof. intros l i x Hl Hn. rewrite Forall_forall in Hl. apply Hl. eapply nth_error_In; eauto. Qed.

  Lemma sift_ext : forall fuel h i, Forall P h ->
    sift cmp1 fuel h i = sift cmp2 fuel h i /\
    (forall h', sift cmp2 fuel h i = Some h' -> Forall P h').
  Proof.
    induction fuel as [|fuel IH]; intros h i Hh; cbn [sift]; [split; [reflexivity|discriminate]|].
    destruct (nth_error h i) as [hi|] eqn:Ei; [|split; [reflexivity|discriminate]].
    pose proof (Forall_nth h i hi Hh Ei) as Phi.
    assert (Hl : (if (2 * i + 1 <? length h)%nat
                  then match nth_error h (2 * i + 1) with Some hl => if c_greater cmp1 hl hi then (2 * i + 1)%nat else i | None => i end
                  else i) =
                 (if (2 * i + 1 <? length h)%nat
                  then match nth_error h (2 * i + 1) with Some hl => if c_greater cmp2 hl hi then (2 * i + 1)%nat else i | None => i end
                  else i)).
    { destruct (2 * i + 1 <? length h)%nat; [|reflexivity].
      destruct (nth_error h (2 * i + 1)) as [hl|] eqn:El; [|reflexivity].
      rewrite (c_greater_agree hl hi); [reflexivity|eapply Forall_nth; eauto|exact Phi]. }
    rewrite Hl. clear Hl.
    set (l1 := if (2 * i + 1 <? length h)%nat then _ else i).
    destruct (nth_error h l1) as [hg|] eqn:Eg; [|split; [reflexivity|discriminate]].
    pose proof (Forall_nth h l1 hg Hh Eg) as Phg.
    assert (Hr : (if (2 * i + 2 <? length h)%nat
                  then match nth_error h (2 * i + 2) with Some hr => if c_greater cmp1 hr hg then (2 * i + 2)%nat else l1 | None => l1 end
                  else l1) =
                 (if (2 * i + 2 <? length h)%nat
                  then match nth_error h (2 * i + 2) with Some hr => if c_greater cmp2 hr hg then (2 * i + 2)%nat else l1 | None => l1 end
                  else l1)).
    { destruct (2 * i + 2 <? length h)%nat; [|reflexivity].
      destruct (nth_error h (2 * i + 2)) as [hr|] eqn:Er; [|reflexivity].
      rewrite (c_greater_agree hr hg); [reflexivity|eapply Forall_nth; eauto|exact Phg]. }
    rewrite Hr. clear Hr.
    set (l2 := if (2 * i + 2 <? length h)%nat then _ else l1).
    destruct (l2 =? i)%nat; [split; [reflexivity|intros h' E; inversion E; subst; exact Hh]|].
    destruct (nth_error h l2) as [hm|] eqn:Em; [|split; [reflexivity|discriminate]].
    apply IH. apply Forall_upd; [apply Forall_upd; [exact Hh|]|exact Phi]. eapply Forall_nth; eauto.
  Qed.

  Lemma isort_ext_P : forall l, Forall P l ->
    isort (c_less cmp1) l = isort (c_less cmp2) l /\ isort (c_greater cmp1) l = isort (c_greater cmp2) l.
  Proof.
    intros l Hl. rewrite Forall_forall in Hl.
    split; apply isort_ext; intros x y Hx Hy; [apply c_less_agree|apply c_greater_agree]; auto.
  Qed.

  Lemma topk_feed_ext : forall k rows h, Forall P h -> Forall P rows ->
    topk_feed cmp1 k h rows = topk_feed cmp2 k h rows /\
    (forall h', topk_feed cmp2 k h rows = TOk h' -> Forall P h').
  Proof.
    intros k rows. induction rows as [|x rest IH]; intros h Hh Hr; cbn [topk_feed].
    - split; [reflexivity|]. intros h' E. inversion E; subst. exact Hh.
    - inversion Hr as [|? ? Px Prest]; subst.
      destruct (length h <? k)%nat.
      + assert (H1 : Forall P (h ++ [x])) by (apply Forall_app; split; [exact Hh|constructor; [exact Px|constructor]]).
        destruct (isort_ext_P (h ++ [x]) H1) as [_ Eg]. rewrite Eg.
        apply IH; [|exact Prest].
        destruct (length (h ++ [x]) =? k)%nat; [|exact H1].
        rewrite Forall_forall in *. intros y Hy. apply H1.
        apply (Permutation_in _ (isort_perm (c_greater cmp2) (h ++ [x]))). exact Hy.
      + destruct (0 <? k)%nat; [|apply IH; assumption].
        destruct h as [|b t]; [split; [reflexivity|discriminate]|].
        inversion Hh as [|? ? Pb Pt]; subst.
        rewrite (c_less_agree x b Px Pb).
        destruct (c_less cmp2 x b).
        * destruct (sift_ext (S (length (b :: t))) (upd (b :: t) 0 x) 0) as [Es Ps].
          { apply Forall_upd; assumption. }
          rewrite Es. destruct (sift cmp2 (S (length (b :: t))) (upd (b :: t) 0 x) 0) as [h'|] eqn:E.
          -- apply IH; [apply Ps; reflexivity|exact Prest].
          -- split; [reflexivity|discriminate].
        * apply IH; assumption.
  Qed.

  Lemma topk_ext : forall k rows, Forall P rows -> topk cmp1 k rows = topk cmp2 k rows.
  Proof.
    intros k rows Hr. unfold topk.
    destruct (topk_feed_ext k rows [] (Forall_nil P) Hr) as [E Ph]. rewrite E.
    destruct (topk_feed cmp2 k [] rows) as [h'| |] eqn:Ef; try reflexivity.
    destruct (isort_ext_P h' (Ph h' eq_refl)) as [El _]. rewrite El. reflexivity.
  Qed.
End TopKExt.

(* ORDER BY <distance> LIMIT k in the executor model, every k, no NaN key (NULL keys allowed,
   they are the least): the ids returned are min(k, n) rows in non-decreasing order of the key,
   and every row left out has a key at least as large as every row returned *)
Lemma sql_topk_smallest_l : forall metric q rows k ids,
  (forall r, In r (keyed metric q rows) -> key_comparable (snd r) = true) ->
  sql_order metric q rows (Some k) = ROk ids ->
  exists out rest, ids = map fst out /\ Permutation (out ++ rest) (keyed metric q rows) /\
     length out = Nat.min (Z.to_nat k) (length rows) /\
     StronglySorted (cle row_cmp_rank) out /\
     (forall x y, In x out -> In y rest -> cle row_cmp_rank x y).
Proof.
  intros metric q rows k ids Hc H. unfold sql_order in H.
  destruct (_ || _)%bool in H; [|discriminate].
  assert (Hext : topk row_cmp (Z.to_nat k) (keyed metric q rows) =
                 topk row_cmp_rank (Z.to_nat k) (keyed metric q rows)).
  { apply (topk_ext row_cmp row_cmp_rank (fun r => key_comparable (snd r) = true)).
    - intros x y Hx Hy. apply row_cmp_is_rank; assumption.
    - rewrite Forall_forall. exact Hc. }
  rewrite Hext in H.
  destruct (topk_ok row_cmp_rank row_cmp_rank_preorder (Z.to_nat k) (keyed metric q rows))
    as [out [rest [Ht [Hperm [Hlen [Hs Hd]]]]]].
  rewrite Ht in H. inversion H; subst ids.
  exists out, rest. split; [reflexivity|]. split; [exact Hperm|]. split; [|split; [exact Hs|exact Hd]].
  etransitivity; [exact Hlen|]. unfold keyed. rewrite map_length. reflexivity.
Qed.
