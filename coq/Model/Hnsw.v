(* Model/Hnsw.v -- executable model of src/hnsw (PersistentHnswIndex) over integer-valued vectors.
   DEFINITIONS ONLY.  Hand transcription of
     mod.rs        HnswNode::{new, neighbors_at_level, add_neighbor_at_level, remove_neighbor_at_level},
                   HnswIndex::set_entry_point, PersistentHnswIndex::{read_node, delete_by_row_id, delete,
                   vacuum_batch, find_new_entry_point, insert_with_callback, insert, search, sync+open,
                   rebuild_row_id_map}
     search.rs     Candidate / ReverseCandidate orderings, HnswSearchContext::{add_result,
                   worst_result_distance, finalize_results}, greedy_search(_step), beam_search
     operations.rs insert_descent_phase, insert_connection_phase
     storage.rs    only the fact that read_node_data refuses a slot that is not Active
   and of std::collections::BinaryHeap (push = sift_up, pop = swap-in last + sift_down_to_bottom +
   sift_up), because the order in which equal distances leave the heaps decides which neighbours are
   linked and reported.  The model is faithful to the code AS IT IS (tree at /repo 4d4f2e6: a deleted slot
   cannot be read, so a deleted node is a dead end with distance +inf, dropped from the results since
   68d5b43; vacuum_batch cannot read the node it is supposed to unlink; insert fails half way when it
   meets such a node).  Slot offsets are correct since 672ee79, so pages need not be modelled.

   Node ids are allocation indices (0,1,2,..; pages/slots are append-only so this is the order of
   (page_no, slot)); NodeId::none() is -1.  Distances are exact because all vectors are integer valued:
   `Fin d` is the squared L2 distance, `Inf` is f32::INFINITY (NaN cannot arise). *)
From Coq Require Import ZArith List Bool.
Import ListNotations.
Open Scope Z_scope.

(* ------------------------------------------------------------------ distances *)
Inductive dist := Fin (d : Z) | Inf.

Definition dlt (a b : dist) : bool :=
  match a, b with Fin x, Fin y => x <? y | Fin _, Inf => true | Inf, _ => false end.
Definition dle (a b : dist) : bool :=
  match a, b with Fin x, Fin y => x <=? y | _, Inf => true | Inf, Fin _ => false end.
Definition dist_eqb (a b : dist) : bool :=
  match a, b with Fin x, Fin y => x =? y | Inf, Inf => true | _, _ => false end.

Definition dist2 (a b : list Z) : Z :=
  fold_left (fun acc p => acc + (fst p - snd p) * (fst p - snd p)) (combine a b) 0.

Record cand := C { cid : Z; cd : dist }.

(* `a <= b` of Rust's Ord for Candidate (reversed: BinaryHeap<Candidate> pops the smallest distance)
   and for ReverseCandidate (BinaryHeap<ReverseCandidate> pops the largest distance) *)
Definition le_min (a b : cand) : bool := dle (cd b) (cd a).
Definition le_max (a b : cand) : bool := dle (cd a) (cd b).

(* ------------------------------------------------------------------ std::collections::BinaryHeap *)
Section Heap.
  Context {A : Type}.
  Variable le : A -> A -> bool.

  Fixpoint upd (h : list A) (i : nat) (x : A) {struct h} : list A :=
    match h with
    | [] => []
    | y :: t => match i with O => x :: t | S j => y :: upd t j x end
    end.

  Definition swap (h : list A) (i j : nat) : list A :=
    match nth_error h i, nth_error h j with
    | Some x, Some y => upd (upd h i y) j x
    | _, _ => h
    end.

  (* sift_up(0, pos): move the element at pos up while it is not <= its parent *)
  Fixpoint sift_up (fuel : nat) (h : list A) (pos : nat) {struct fuel} : list A :=
    match fuel with
    | O => h
    | S f =>
        match pos with
        | O => h
        | S p' =>
            let parent := Nat.div p' 2 in
            match nth_error h pos, nth_error h parent with
            | Some x, Some p => if le x p then h else sift_up f (swap h pos parent) parent
            | _, _ => h
            end
        end
    end.

  (* sift_down_to_bottom: move the element at pos all the way down along the greater children
     (the right child wins when left <= right); returns the array and the final position *)
  Fixpoint sift_down (fuel : nat) (h : list A) (pos : nat) {struct fuel} : list A * nat :=
    match fuel with
    | O => (h, pos)
    | S f =>
        let child := (2 * pos + 1)%nat in
        if (child + 1 <? length h)%nat then
          match nth_error h child, nth_error h (child + 1)%nat with
          | Some a, Some b =>
              let c := if le a b then (child + 1)%nat else child in
              sift_down f (swap h pos c) c
          | _, _ => (h, pos)
          end
        else if (child + 1 =? length h)%nat then (swap h pos child, child)
        else (h, pos)
    end.

  Definition push (x : A) (h : list A) : list A :=
    sift_up (S (length h)) (h ++ [x]) (length h).

  Definition pop (h : list A) : option (A * list A) :=
    match rev h with
    | [] => None
    | last :: rfront =>
        match rev rfront with
        | [] => Some (last, [])
        | top :: rest =>
            let h1 := last :: rest in
            let '(h2, p) := sift_down (length h1) h1 0 in
            Some (top, sift_up (length h1) h2 p)
        end
    end.

  (* while let Some(x) = heap.pop() { out.push(x) } *)
  Fixpoint drain (fuel : nat) (h : list A) {struct fuel} : list A :=
    match fuel with
    | O => []
    | S f => match pop h with None => [] | Some (x, h') => x :: drain f h' end
    end.
End Heap.

(* ------------------------------------------------------------------ nodes and index state *)
Record node := N { n_row : Z; n_level : Z; n_active : bool; n_nbrs : list (list Z) }.
(* n_nbrs: index 0 = l0_neighbors[..l0_count], index l >= 1 = higher_levels[l-1]; length = level + 1 *)

Record st := St {
  nodes : list node;          (* index = node id *)
  entry : option Z;           (* HnswIndex.entry_point : Option<NodeId>; Some (-1) = Some(NodeId::none()) *)
  maxlvl : Z;
  rowmap : list (Z * Z);      (* row_id_map, keys unique *)
  vq : list Z                 (* vacuum queue *)
}.

Record params := Pm { dims : Z; pm : Z; efc : Z }.

Definition NONE_ID : Z := -1.
Definition MAX_L0_NEIGHBORS : Z := 32.
Definition MAX_LEVEL_NEIGHBORS : Z := 16.

Definition empty_st : st := St [] None 0 [] [].

(* read_node: page lookup + read_node_data (ensure slot.is_active) + HnswNode::read_from *)
Definition read_node (s : st) (id : Z) : option node :=
  if id <? 0 then None
  else match nth_error (nodes s) (Z.to_nat id) with
       | Some n => if n_active n then Some n else None
       | None => None
       end.

Definition set_node (s : st) (id : Z) (n : node) : st :=
  St (upd (nodes s) (Z.to_nat id) n) (entry s) (maxlvl s) (rowmap s) (vq s).

Definition nbrs_at (n : node) (lvl : Z) : list Z :=
  if lvl <? 0 then []
  else match nth_error (n_nbrs n) (Z.to_nat lvl) with Some l => l | None => [] end.

Definition add_nbr (n : node) (lvl : Z) (x : Z) : node :=
  if lvl <? 0 then n
  else match nth_error (n_nbrs n) (Z.to_nat lvl) with
       | Some l =>
           let cap := if lvl =? 0 then MAX_L0_NEIGHBORS else MAX_LEVEL_NEIGHBORS in
           if Z.of_nat (length l) <? cap
           then N (n_row n) (n_level n) (n_active n) (upd (n_nbrs n) (Z.to_nat lvl) (l ++ [x]))
           else n
       | None => n
       end.

Fixpoint remove_first (x : Z) (l : list Z) : list Z :=
  match l with [] => [] | y :: t => if y =? x then t else y :: remove_first x t end.

Definition remove_nbr (n : node) (lvl : Z) (x : Z) : node :=
  if lvl <? 0 then n
  else match nth_error (n_nbrs n) (Z.to_nat lvl) with
       | Some l => N (n_row n) (n_level n) (n_active n) (upd (n_nbrs n) (Z.to_nat lvl) (remove_first x l))
       | None => n
       end.

Definition new_node (row lvl : Z) : node := N row lvl true (repeat [] (S (Z.to_nat lvl))).

(* assoc lists with unique keys (HashMap / the caller's table) *)
Section Assoc.
  Context {V : Type}.
  Definition a_remove (k : Z) (l : list (Z * V)) : list (Z * V) := filter (fun p => negb (fst p =? k)) l.
  Definition a_put (k : Z) (v : V) (l : list (Z * V)) : list (Z * V) := (k, v) :: a_remove k l.
  Fixpoint a_get (k : Z) (l : list (Z * V)) : option V :=
    match l with [] => None | (k', v) :: t => if k' =? k then Some v else a_get k t end.
End Assoc.

(* ------------------------------------------------------------------ search.rs *)
Definition mem (x : Z) (l : list Z) : bool := existsb (Z.eqb x) l.

Fixpoint greedy_step (nbrs : list Z) (cdf : Z -> dist) (best : Z) (bd : dist) : Z * dist :=
  match nbrs with
  | [] => (best, bd)
  | n :: t => let d := cdf n in
              if dlt d bd then greedy_step t cdf n d else greedy_step t cdf best bd
  end.

(* greedy_search(.., max_iterations): `iters` is the code's own bound (1000), not model fuel *)
Fixpoint greedy (iters : nat) (gn : Z -> list Z) (cdf : Z -> dist) (cur : Z) (d : dist) : Z * dist :=
  match iters with
  | O => (cur, d)
  | S f => let '(n', d') := greedy_step (gn cur) cdf cur d in
           if n' =? cur then (cur, d) else greedy f gn cdf n' d'
  end.

Definition GREEDY_MAX_ITER : nat := 1000.

Record bctx := B { b_cands : list cand; b_res : list cand; b_vis : list Z }.

Definition worst (rs : list cand) : dist := match rs with [] => Inf | c :: _ => cd c end.

Definition add_result (ef : Z) (c : cand) (rs : list cand) : list cand :=
  let rs' := push le_max c rs in
  if ef <? Z.of_nat (length rs')
  then match pop le_max rs' with Some (_, r) => r | None => rs' end
  else rs'.

Fixpoint beam_nbrs (nbrs : list Z) (cdf : Z -> dist) (ef : Z) (c : bctx) : bctx :=
  match nbrs with
  | [] => c
  | n :: t =>
      if mem n (b_vis c) then beam_nbrs t cdf ef c
      else
        let d := cdf n in
        if dlt d (worst (b_res c)) || (Z.of_nat (length (b_res c)) <? ef)
        then beam_nbrs t cdf ef (B (push le_min (C n d) (b_cands c)) (add_result ef (C n d) (b_res c)) (n :: b_vis c))
        else beam_nbrs t cdf ef (B (b_cands c) (b_res c) (n :: b_vis c))
  end.

(* the while-let loop of beam_search; None = model fuel exhausted (never, see Proof: beam_fuel_enough) *)
Fixpoint beam_loop (fuel : nat) (gn : Z -> list Z) (cdf : Z -> dist) (ef : Z) (c : bctx) : option bctx :=
  match fuel with
  | O => None
  | S f =>
      match pop le_min (b_cands c) with
      | None => Some c
      | Some (cur, rest) =>
          if dlt (worst (b_res c)) (cd cur) then Some (B rest (b_res c) (b_vis c))
          else beam_loop f gn cdf ef (beam_nbrs (gn (cid cur)) cdf ef (B rest (b_res c) (b_vis c)))
      end
  end.

Definition beam_init (ef : Z) (e : cand) : bctx :=
  B (push le_min e []) (add_result ef e []) [cid e].

(* beam_search with one entry point; returns the results heap *)
Definition beam (fuel : nat) (gn : Z -> list Z) (cdf : Z -> dist) (ef : Z) (e : cand) : option (list cand) :=
  option_map b_res (beam_loop fuel gn cdf ef (beam_init ef e)).

(* finalize_results(k) on a results heap: pop everything, reverse, truncate *)
Definition finalize (k : Z) (rs : list cand) : list cand :=
  firstn (Z.to_nat k) (rev (drain le_max (length rs) rs)).

(* ------------------------------------------------------------------ callbacks over the state *)
Definition gn_at (s : st) (lvl : Z) (n : Z) : list Z :=
  match read_node s n with Some nd => nbrs_at nd lvl | None => [] end.

(* search: an unreadable node is at distance +inf *)
Definition cd_search (s : st) (getv : Z -> option (list Z)) (q : list Z) (n : Z) : dist :=
  match read_node s n with
  | None => Inf
  | Some nd => match getv (n_row nd) with Some v => Fin (dist2 q v) | None => Inf end
  end.

(* insert: an unreadable node is looked up as row id 0 (unwrap_or(0)) *)
Definition cd_insert (s : st) (getv : Z -> option (list Z)) (vec : list Z) (n : Z) : dist :=
  let row := match read_node s n with Some nd => n_row nd | None => 0 end in
  match getv row with Some v => Fin (dist2 vec v) | None => Inf end.

(* greedy descent over levels lvl, lvl-1, .. (n of them) *)
Fixpoint descend (n : nat) (lvl : Z) (s : st) (cdf : Z -> dist) (ep : Z) (ed : dist) : Z * dist :=
  match n with
  | O => (ep, ed)
  | S n' => let '(e', d') := greedy GREEDY_MAX_ITER (gn_at s lvl) cdf ep ed in
            descend n' (lvl - 1) s cdf e' d'
  end.

(* every neighbour id stored anywhere in the graph *)
Definition all_links (s : st) : list Z := flat_map (fun nd => concat (n_nbrs nd)) (nodes s).
Definition total_links (s : st) : nat := length (all_links s).

(* model fuel for one beam search: every iteration pops a candidate, every candidate is a distinct
   visited id, every visited id but the entry occurs in some neighbour list *)
Definition beam_fuel (s : st) : nat := S (S (S (total_links s))).

(* ------------------------------------------------------------------ insert_with_callback *)
Inductive ires := IOk (s : st) | IErr (s : st) | IFuel.

(* insert_connection_phase: levels lvl, lvl-1, .. (n of them); current_entry is never advanced
   (the second finalize_results(1) finds the heap already drained) *)
Fixpoint connect (n : nat) (lvl : Z) (p : params) (s : st) (cdf : Z -> dist) (e : cand)
  : option (list (Z * list Z)) :=
  match n with
  | O => Some []
  | S n' =>
      match beam (beam_fuel s) (gn_at s lvl) cdf (efc p) e with
      | None => None
      | Some rs =>
          let sel := map cid (finalize (if lvl =? 0 then 2 * pm p else pm p) rs) in
          match connect n' (lvl - 1) p s cdf e with
          | None => None
          | Some rest => Some ((lvl, sel) :: rest)
          end
      end
  end.

Fixpoint apply_nbrs (s : st) (id lvl : Z) (cur : node) (nbrs : list Z) : (st * node) + st :=
  match nbrs with
  | [] => inl (s, cur)
  | nb :: t =>
      let cur' := add_nbr cur lvl nb in
      match read_node s nb with
      | None => inr s                                  (* self.read_node(neighbor_id)? *)
      | Some nbn => apply_nbrs (set_node s nb (add_nbr nbn lvl id)) id lvl cur' t
      end
  end.

Fixpoint apply_levels (s : st) (id : Z) (l : list (Z * list Z)) : ires :=
  match l with
  | [] => IOk s
  | (lvl, nbrs) :: t =>
      match read_node s id with
      | None => IErr s
      | Some cur =>
          match apply_nbrs s id lvl cur nbrs with
          | inr s' => IErr s'
          | inl (s', cur') => apply_levels (set_node s' id cur') id t
          end
      end
  end.

Definition set_entry_point (s : st) (id lvl : Z) : st :=
  St (nodes s) (Some id) (if maxlvl s <? lvl then lvl else maxlvl s) (rowmap s) (vq s).

Definition insert (p : params) (getv : Z -> option (list Z)) (s : st) (row : Z) (vec : list Z) (lvl : Z) : ires :=
  if negb (Z.of_nat (length vec) =? dims p) then IErr s else
  let id := Z.of_nat (length (nodes s)) in
  let s1 := St (nodes s ++ [new_node row lvl]) (entry s) (maxlvl s) (a_put row id (rowmap s)) (vq s) in
  match entry s1 with
  | None => IOk (set_entry_point s1 id lvl)
  | Some ep =>
      match read_node s1 ep with
      | None => IErr s1                                (* self.read_node(entry_point)? *)
      | Some epn =>
          let ed := match getv (n_row epn) with
                    | Some (x :: v') => Fin (dist2 vec (x :: v'))
                    | _ => Inf                         (* unwrap_or_default() is empty *)
                    end in
          let cdf := cd_insert s1 getv vec in
          let '(e', d') := descend (Z.to_nat (maxlvl s1 - lvl)) (maxlvl s1) s1 cdf ep ed in
          match connect (S (Z.to_nat lvl)) lvl p s1 cdf (C e' d') with
          | None => IFuel
          | Some todo =>
              match apply_levels s1 id todo with
              | IOk s2 => IOk (if maxlvl s2 <? lvl then set_entry_point s2 id lvl else s2)
              | r => r
              end
          end
      end
  end.

(* ------------------------------------------------------------------ delete / vacuum / reopen *)
Inductive dres := DOk (s : st) | DErr (s : st).

Definition delete_by_row_id (s : st) (row : Z) : dres :=
  match a_get row (rowmap s) with
  | None => DOk s
  | Some id =>
      let s1 := St (nodes s) (entry s) (maxlvl s) (a_remove row (rowmap s)) (vq s) in
      match read_node s1 id with
      | None => DErr s1                                (* mark_deleted: invalid slot / slot is not active *)
      | Some nd =>
          DOk (St (upd (nodes s1) (Z.to_nat id) (N (n_row nd) (n_level nd) false (n_nbrs nd)))
                  (entry s1) (maxlvl s1) (rowmap s1) (vq s1 ++ [id]))
      end
  end.

Definition unlink_one (s : st) (lvl del nb : Z) : st :=
  if nb =? NONE_ID then s
  else match read_node s nb with
       | Some nbn => set_node s nb (remove_nbr nbn lvl del)
       | None => s
       end.

(* for level in 0..=max_level: for neighbor in deleted_node.neighbors_at_level(level) *)
Fixpoint unlink_levels (n : nat) (lvl : Z) (s : st) (del : Z) (dn : node) : st :=
  match n with
  | O => s
  | S n' => unlink_levels n' (lvl + 1) (fold_left (fun s' nb => unlink_one s' lvl del nb) (nbrs_at dn lvl) s) del dn
  end.

Definition vacuum_one (s : st) (del : Z) : st :=
  match read_node s del with
  | None => s                                          (* Err(_) => continue *)
  | Some dn =>
      let s1 := unlink_levels (S (Z.to_nat (n_level dn))) 0 s del dn in
      match entry s1 with
      | Some e => if e =? del then set_entry_point s1 NONE_ID 0 else s1   (* find_new_entry_point *)
      | None => s1
      end
  end.

Definition vacuum_batch (s : st) (n : Z) : st * Z :=
  let batch := firstn (Z.to_nat n) (vq s) in
  let s0 := St (nodes s) (entry s) (maxlvl s) (rowmap s) (skipn (Z.to_nat n) (vq s)) in
  (fold_left vacuum_one batch s0, Z.of_nat (length batch)).

Fixpoint rebuild_map (ns : list node) (i : Z) (acc : list (Z * Z)) : list (Z * Z) :=
  match ns with
  | [] => acc
  | nd :: t => rebuild_map t (i + 1) (if n_active nd then a_put (n_row nd) i acc else acc)
  end.

(* sync() then open(): the header keeps entry point (page u32::MAX reads back as None) and max_level *)
Definition reopen (s : st) : st :=
  St (nodes s)
     (match entry s with Some e => if e <? 0 then None else Some e | None => None end)
     (maxlvl s) (rebuild_map (nodes s) 0 []) [].

(* ------------------------------------------------------------------ search *)
Inductive sres := SOk (l : list (Z * dist)) | SErr | SAbort | SFuel.
(* SAbort: entry point Some(NodeId::none()): VisitedSet::insert would resize to 2^48 words; not reachable
   (Proof: entry_never_none). SFuel: model fuel exhausted (never). *)

Definition row_of (s : st) (id : Z) : Z :=
  match read_node s id with Some nd => n_row nd | None => 0 end.

(* results.filter_map(|c| { let node = self.read_node(c.node_id).ok()?; Some(..) }): a candidate whose
   node cannot be read (deleted slot) is dropped AFTER the truncation to k *)
Definition result_of (s : st) (c : cand) : list (Z * dist) :=
  match read_node s (cid c) with Some nd => [(n_row nd, cd c)] | None => [] end.

Definition search (p : params) (getv : Z -> option (list Z)) (s : st) (q : list Z) (k ef : Z) : sres :=
  if negb (Z.of_nat (length q) =? dims p) then SErr else
  match entry s with
  | None => SOk []
  | Some ep =>
      if ep <? 0 then SAbort else
      let cdf := cd_search s getv q in
      let '(cur, d) := descend (Z.to_nat (maxlvl s)) (maxlvl s) s cdf ep (cdf ep) in
      match beam (beam_fuel s) (gn_at s 0) cdf ef (C cur d) with
      | None => SFuel
      | Some rs => SOk (flat_map (result_of s) (finalize k rs))
      end
  end.

(* ------------------------------------------------------------------ caller protocol + histories *)
Inductive op :=
| Ins (row : Z) (v : list Z) (lvl : Z) (blind : bool)   (* blind = PersistentHnswIndex::insert (callback |_| None) *)
| Del (row : Z)
| Vac (n : Z)
| Reopen
| Search (q : list Z) (k ef : Z).

Inductive obs :=
| OIns (ok : bool) | ODel (ok : bool) | OVac (n : Z) | OVacErr | OReopen (ok : bool)
| OSearch (r : sres) | OPanic | OFuel
| OAbort.   (* the process died (allocation-failure abort) in this call; never produced by the model *)

(* the index together with the caller's table of live rows (what get_vector answers from) *)
Record world := W { ix : st; tbl : list (Z * list Z) }.

Definition getv_of (t : list (Z * list Z)) : Z -> option (list Z) := fun r => a_get r t.

Definition step (p : params) (w : world) (o : op) : world * obs :=
  match o with
  | Ins row v lvl blind =>
      match insert p (if blind then (fun _ => None) else getv_of (tbl w)) (ix w) row v lvl with
      | IOk s => (W s (a_put row v (tbl w)), OIns true)
      | IErr s => (W s (tbl w), OIns false)
      | IFuel => (w, OFuel)
      end
  | Del row =>
      match delete_by_row_id (ix w) row with
      | DOk s => (W s (a_remove row (tbl w)), ODel true)
      | DErr s => (W s (a_remove row (tbl w)), ODel false)
      end
  | Vac n => let '(s, c) := vacuum_batch (ix w) n in (W s (tbl w), OVac c)
  | Reopen => (W (reopen (ix w)) (tbl w), OReopen true)
  | Search q k ef => (w, OSearch (search p (getv_of (tbl w)) (ix w) q k ef))
  end.

Fixpoint run (p : params) (w : world) (ops : list op) : world * list obs :=
  match ops with
  | [] => (w, [])
  | o :: t => let '(w1, b) := step p w o in
              let '(w2, bs) := run p w1 t in (w2, b :: bs)
  end.

Definition w0 : world := W empty_st [].
Definition run0 (p : params) (ops : list op) : world := fst (run p w0 ops).

(* ------------------------------------------------------------------ classes of histories *)
(* caller protocol: a row id is inserted only while it is not in the caller's table (not live),
   levels are what select_level can return, counts are unsigned *)
Definition op_wf (w : world) (o : op) : bool :=
  match o with
  | Ins row _ lvl _ => match a_get row (tbl w) with Some _ => false | None => true end && (0 <=? lvl) && (lvl <=? 15)
  | Del _ => true
  | Vac n => 0 <=? n
  | Reopen => true
  | Search _ k ef => (0 <=? k) && (0 <=? ef)
  end.

Fixpoint wf_ops (p : params) (w : world) (ops : list op) : bool :=
  match ops with
  | [] => true
  | o :: t => op_wf w o && wf_ops p (fst (step p w o)) t
  end.

Definition entry_dead (s : st) : bool :=
  match entry s with
  | Some e => match read_node s e with None => true | Some _ => false end
  | None => false
  end.
Definition any_inactive (s : st) : bool := existsb (fun n => negb (n_active n)) (nodes s).

(* an insert of a vector of the right dimension that returns Err: it has allocated its node (readable,
   in the row-id map) and possibly written some back-links before giving up *)
Definition ins_failed (p : params) (w : world) (o : op) : bool :=
  match o with
  | Ins row v lvl blind =>
      (Z.of_nat (length v) =? dims p) &&
      match insert p (if blind then (fun _ => None) else getv_of (tbl w)) (ix w) row v lvl with
      | IErr _ => true | _ => false end
  | _ => false
  end.

(* no insert of the history has failed half way *)
Fixpoint clean (p : params) (w : world) (ops : list op) : bool :=
  match ops with
  | [] => true
  | o :: t => negb (ins_failed p w o) && clean p (fst (step p w o)) t
  end.

(* a neighbour list that has reached its fixed capacity (32 at level 0, 16 above): add_neighbor_at_level
   silently drops every further back-link to this node *)
Definition node_full (nd : node) : bool :=
  match n_nbrs nd with
  | [] => false
  | l0 :: hs => (MAX_L0_NEIGHBORS <=? Z.of_nat (length l0)) ||
                existsb (fun l => MAX_LEVEL_NEIGHBORS <=? Z.of_nat (length l)) hs
  end.
Definition any_full (s : st) : bool := existsb node_full (nodes s).

(* 0: no node has been deleted so far and no neighbour list is full;
   1: some node is deleted (slot not Active) but the entry point is readable;
   2: the entry point itself is deleted;
   3: no node is deleted but some neighbour list is full (back-links are being dropped) *)
Definition class_of (s : st) : Z :=
  if entry_dead s then 2 else if any_inactive s then 1 else if any_full s then 3 else 0.
