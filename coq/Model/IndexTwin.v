(* C10 -- IMPLEMENTATION model of how TurDB answers `SELECT * FROM t WHERE ...` on a table with
   indexes, next to the same history on an index-free twin.  Definitions only; hand-written,
   tied to the code by the correspondence run (harness/src/bin/c10.rs).

   Table A:  t(x0 BIGINT PRIMARY KEY, x1 BIGINT, x2 BIGINT) with up to two secondary indexes that
             the history creates and drops:  slot 0 = ix1 ON t(x1),  slot 1 = ix2 ON t(x2, x1).
   Table B:  t(x0 BIGINT, x1 BIGINT, x2 BIGINT), nothing declared: every query is a full scan.
   The DML mechanisms of the table itself (row selection through the primary-key index, tombstones,
   the unique index x0_pkey) are those of Model/ConstrImpl.v (C09) on a one-table schema.

   Secondary (non-unique) indexes, as coded:
     key    encode_value_as_key of the indexed columns (src/encoding/key.rs, Model/Key.v `enc`;
            NULL has its own prefix) ++ the 8 bytes of the row id; value = the row id.
     INSERT (insert.rs:1070)   inserts that key for every row, NULLs included.
     DELETE (delete.rs, since 653471d)  deletes that key (with the row-id suffix) for every selected row.
     UPDATE (update.rs, since f7aa3d3)  some indexed column assigned (then the statement takes the
            multi-pass path): deletes the old key and inserts the new key, both with the suffix.
     CREATE INDEX (ddl.rs, since 772f5ce) back-fills from ALL B-tree entries -- tombstones
            included --, NULLs included.
   SELECT (optimizer/index_selection.rs:117, database.rs:1931): the first `column = literal`
     found in the AND-tree of the WHERE clause (non-negative integer literal) whose column is the
     first column of an index turns the query into a prefix scan of that index: cursor_seek(prefix),
     take entries while the key starts with the prefix, read the row id from the value (unique
     index) or from the last 8 bytes of the key, fetch those rows from the table B-tree WITHOUT
     looking at DELETE_BIT, then apply the residual filter = the WHERE clause minus every
     comparison / BETWEEN that mentions the index column.  Everything else: scan of the live rows
     + filter. *)
From Coq Require Import ZArith List Bool.
From TV Require Import Lib.MachInt Model.SqlSpec Model.CheckStr Model.ConstrSpec Model.ConstrImpl
                       Model.KeySpec Model.Key.
Import ListNotations.
Open Scope Z_scope.

(* ------------------------------------------------------------------ the two tables *)
Definition colP : cdecl := mkCol 1 false None None.
Definition col0 : cdecl := mkCol 0 false None None.
Definition schA : schema := mkSch [colP; col0; col0] [].
Definition schB : schema := mkSch [col0; col0; col0] [].
Definition slot_cols (s : nat) : list nat := match s with O => [1%nat] | _ => [2%nat; 1%nat] end.

(* ------------------------------------------------------------------ secondary index *)
Definition kenc (v : value) : list Z :=
  match v with VNull => enc (KS SNull) | VInt z => enc (KS (SInt z)) | _ => [] end.
Definition ktuple (cs : list nat) (r : row) : list Z := flat_map (fun c => kenc (col_val c r)) cs.
Definition rid8 (k : Z) : list Z := be_bytes 8 k.
Definition all_nn (cs : list nat) (r : row) : bool := forallb (fun c => negb (is_null (col_val c r))) cs.

Definition sidx := list (list Z * Z).           (* sorted by key bytes *)
Fixpoint sidx_ins (k : list Z) (v : Z) (ix : sidx) : sidx :=
  match ix with
  | [] => [(k, v)]
  | (k', v') :: ix' =>
      match lex_cmp k k' with
      | Lt => (k, v) :: ix
      | Eq => ix                                  (* "key already exists", ignored or impossible *)
      | Gt => (k', v') :: sidx_ins k v ix'
      end
  end.
Definition key_eqb (a b : list Z) : bool := match lex_cmp a b with Eq => true | _ => false end.
Definition sidx_del (k : list Z) (ix : sidx) : sidx := filter (fun e => negb (key_eqb (fst e) k)) ix.

Fixpoint starts_with (p k : list Z) : bool :=
  match p, k with
  | [], _ => true
  | x :: p', y :: k' => (x =? y) && starts_with p' k'
  | _ :: _, [] => false
  end.
Fixpoint drop_below (p : list Z) (ix : sidx) : sidx :=
  match ix with
  | [] => []
  | e :: ix' => match lex_cmp (fst e) p with Lt => drop_below p ix' | _ => ix end
  end.
Fixpoint take_prefix (p : list Z) (ix : sidx) : sidx :=
  match ix with
  | [] => []
  | e :: ix' => if starts_with p (fst e) then e :: take_prefix p ix' else []
  end.
(* cursor_seek(prefix), then entries while the key starts with the prefix *)
Definition scan_prefix (p : list Z) (ix : sidx) : sidx := take_prefix p (drop_below p ix).
(* the row key of a non-unique entry: the last 8 bytes of its key *)
Definition key_rid (k : list Z) : option Z :=
  if (length k <? 8)%nat then None else Some (from_be (skipn (length k - 8) k)).

(* ------------------------------------------------------------------ state *)
Record astate := mkA { a_d : dstate; a_six : list (option sidx) }.      (* table A *)
Definition a_empty : astate := mkA (d_empty schA) [None; None].
Definition b_empty : dstate := d_empty schB.

Fixpoint map_slots (f : nat -> sidx -> sidx) (s : nat) (l : list (option sidx)) : list (option sidx) :=
  match l with
  | [] => []
  | o :: l' => (match o with Some ix => Some (f s ix) | None => None end) :: map_slots f (S s) l'
  end.

(* ------------------------------------------------------------------ statements *)
Inductive tstmt :=
| TIns (r : row)
| TDel (w : option expr)
| TUpd (sets : list (nat * value)) (w : option expr)
| TCreate (s : nat)
| TDrop (s : nat)
| TQuery (e : expr).

Definition ins_six (r : row) (rid : Z) (s : nat) (ix : sidx) : sidx :=
  sidx_ins (ktuple (slot_cols s) r ++ rid8 rid) rid ix.
Definition del_six (sel : list entry) (s : nat) (ix : sidx) : sidx :=
  fold_left (fun a e => sidx_del (ktuple (slot_cols s) (e_row e) ++ rid8 (e_id e)) a) sel ix.
Definition slot_mod (sets : list (nat * value)) (s : nat) : bool := existsb (modified sets) (slot_cols s).
Definition upd_six (sets : list (nat * value)) (sel : list entry) (s : nat) (ix : sidx) : sidx :=
  if slot_mod sets s then
    fold_left (fun a e =>
      let old := e_row e in let new := upd_row sets old in
      sidx_ins (ktuple (slot_cols s) new ++ rid8 (e_id e)) (e_id e)
               (sidx_del (ktuple (slot_cols s) old ++ rid8 (e_id e)) a)) sel ix
  else ix.
Definition backfill (s : nat) (es : list entry) : sidx :=
  fold_left (fun a e => sidx_ins (ktuple (slot_cols s) (e_row e) ++ rid8 (e_id e)) (e_id e) a) es [].

(* ------------------------------------------------------------------ SELECT *)
Definition lit_ok (v : value) : bool := match v with VInt z => 0 <=? z | VNull => true | _ => false end.
Fixpoint extract_eq (e : expr) : option (nat * value) :=
  match e with
  | ECmp CEq (ECol c) (ELit v) => if lit_ok v then Some (c, v) else None
  | ECmp CEq (ELit v) (ECol c) => if lit_ok v then Some (c, v) else None
  | EAnd a b => match extract_eq a with Some x => Some x | None => extract_eq b end
  | _ => None
  end.
Fixpoint uses_col (c : nat) (e : expr) : bool :=
  match e with
  | ECol j => Nat.eqb j c
  | EArith _ a b | ECmp _ a b | EAnd a b | EOr a b => uses_col c a || uses_col c b
  | EBetween _ a _ _ => uses_col c a
  | _ => false
  end.
Definition and_opt (a b : option expr) : option expr :=
  match a, b with
  | Some x, Some y => Some (EAnd x y)
  | Some x, None => Some x
  | None, o => o
  end.
Fixpoint residual (c : nat) (e : expr) : option expr :=
  match e with
  | EAnd a b => and_opt (residual c a) (residual c b)
  | ECmp CNe _ _ => Some e
  | ECmp _ a b => if uses_col c a || uses_col c b then None else Some e
  | EBetween _ a _ _ => if uses_col c a then None else Some e
  | _ => Some e
  end.
Definition pass_opt (o : option expr) (r : row) : bool := match o with Some e => passes e r | None => true end.

(* the row keys an index scan on column c = v yields; None = no usable index *)
Definition index_rids (a : astate) (c : nat) (v : value) : option (list Z) :=
  match v with
  | VInt _ =>
      match c with
      | O => Some (match idx_find v (get_idx (d_p (a_d a)) 0) with Some k => [k] | None => [] end)
      | S c' =>
          match nth_error (a_six a) c' with
          | Some (Some ix) =>
              Some (flat_map (fun e => match key_rid (fst e) with Some k => [k] | None => [] end)
                             (scan_prefix (kenc v) ix))
          | _ => None
          end
      end
  | _ => None
  end.
Definition fetch (es : list entry) (rids : list Z) : table :=
  flat_map (fun k => match find_ent k es with Some e => [e_row e] | None => [] end) rids.
Definition full_scan (t : tstate) (e : expr) : table := filter (passes e) (visible t).
Definition query_a (a : astate) (e : expr) : table :=
  match extract_eq e with
  | Some (c, v) =>
      match index_rids a c v with
      | Some rids => filter (pass_opt (residual c e)) (fetch (ents (d_p (a_d a))) rids)
      | None => full_scan (d_p (a_d a)) e
      end
  | None => full_scan (d_p (a_d a)) e
  end.
Definition query_b (b : dstate) (e : expr) : table := full_scan (d_p b) e.

(* ------------------------------------------------------------------ one step on both tables *)
(* what a step shows: DML / DDL -> accepted? on A and on B; query -> the rows from A and from B *)
Inductive tout := ODml (oka okb : option bool) | ORows (ra rb : table).

Definition step_a (a : astate) (s : tstmt) : option bool * astate :=
  match s with
  | TIns r =>
      let rid := d_next (a_d a) in
      match impl_step schA (a_d a) (SIns TP [r]) with
      | (Some true, d') => (Some true, mkA d' (map_slots (ins_six r rid) 0 (a_six a)))
      | (o, d') => (o, mkA d' (a_six a))
      end
  | TDel w =>
      let sel := select_rows (s_p schA) (d_p (a_d a)) w in
      match impl_step schA (a_d a) (SDel TP w) with
      | (Some true, d') => (Some true, mkA d' (map_slots (del_six sel) 0 (a_six a)))
      | (o, d') => (o, mkA d' (a_six a))
      end
  | TUpd sets w =>
      let sel := select_rows (s_p schA) (d_p (a_d a)) w in
      match impl_step schA (a_d a) (SUpd TP sets w) with
      | (Some true, d') => (Some true, mkA d' (map_slots (upd_six sets sel) 0 (a_six a)))
      | (o, d') => (o, mkA d' (a_six a))
      end
  | TCreate s =>
      match nth_error (a_six a) s with
      | Some None => (Some true, mkA (a_d a) (set_nth s (Some (backfill s (ents (d_p (a_d a))))) (a_six a)))
      | _ => (Some false, a)
      end
  | TDrop s =>
      match nth_error (a_six a) s with
      | Some (Some _) => (Some true, mkA (a_d a) (set_nth s None (a_six a)))
      | _ => (Some false, a)
      end
  | TQuery _ => (Some true, a)
  end.
Definition step_b (b : dstate) (s : tstmt) : option bool * dstate :=
  match s with
  | TIns r => impl_step schB b (SIns TP [r])
  | TDel w => impl_step schB b (SDel TP w)
  | TUpd sets w => impl_step schB b (SUpd TP sets w)
  | _ => (Some true, b)
  end.
Definition step_out (a : astate) (b : dstate) (s : tstmt) : tout :=
  match s with
  | TQuery e => ORows (query_a a e) (query_b b e)
  | _ => ODml (fst (step_a a s)) (fst (step_b b s))
  end.

(* ------------------------------------------------------------------ the reference *)
(* indexes are not part of the relational meaning: both tables answer a query with the rows
   that pass the predicate *)
Definition defined_q (e : expr) (t : table) : bool := defined_on e t.

(* ------------------------------------------------------------------ finding classes of a query *)
(*  1  the index scan returns a row that has been deleted (index entries survive DELETE, the
       fetch ignores DELETE_BIT)
    2  the index holds an entry left or planted by an UPDATE of an indexed column (old key not
       removed, new key without row-id suffix / with the primary-key value as row key), or the
       one-pass UPDATE path skipped index maintenance
    3  the residual filter dropped a conjunct that mentions the index column
    4  a live row that holds the value is not in the index because another column of the
       (composite) index is NULL: CREATE INDEX back-fill skips such rows, INSERT indexes them
    0  otherwise *)
Fixpoint nodupz (l : list Z) : bool :=
  match l with [] => true | x :: l' => negb (existsb (Z.eqb x) l') && nodupz l' end.
Definition q_class (a : astate) (e : expr) : Z :=
  match extract_eq e with
  | Some (c, v) =>
      match index_rids a c v with
      | Some rids =>
          let es := ents (d_p (a_d a)) in
          let got := flat_map (fun k => match find_ent k es with Some x => [x] | None => [] end) rids in
          if existsb e_del got then 1
          else if (match c with S c' => true | O => false end) &&
                  existsb (fun x => live x && value_eqb (col_val c (e_row x)) v &&
                                    negb (existsb (Z.eqb (e_id x)) rids) &&
                                    negb (all_nn (slot_cols (c - 1)) (e_row x))) es then 4
          else if negb (forallb (fun x => value_eqb (col_val c (e_row x)) v) got) ||
                  negb (forallb (fun x => negb (live x && value_eqb (col_val c (e_row x)) v) ||
                                          existsb (Z.eqb (e_id x)) rids) es) ||
                  negb (Nat.eqb (length got) (length rids)) || negb (nodupz rids) then 2
          else if negb (forallb (fun x => Bool.eqb (pass_opt (residual c e) (e_row x)) (passes e (e_row x))) got) then 3
          else 0
      | None => 0
      end
  | None => 0
  end.
