(* C27 - Varints round-trip with canonical length.
   Property theorems only.  The three functions are the regenerated Gen/Varint.v
   (tools/rs2v.py reads src/encoding/varint.rs on every run). *)
From Coq Require Import ZArith List Bool.
From TV Require Import Lib.MachInt Gen.Varint Model.Varint Proof.Varint.
Import ListNotations.
Open Scope Z_scope.

(* every u64: decode (encode v) = (v, varint_len v) *)
Theorem varint_roundtrip :
  forall v, 0 <= v < 2 ^ 64 -> dec (enc v) = Some (v, varint_len v).
Proof. exact varint_roundtrip_l. Qed.

(* ... also when followed by arbitrary further bytes (the way callers use it) *)
Theorem varint_decode_prefix :
  forall v rest, 0 <= v < 2 ^ 64 -> decode_varint (enc v ++ rest) = Some (v, varint_len v).
Proof. exact varint_decode_prefix_l. Qed.

(* the encoder writes exactly varint_len v bytes and reports that count *)
Theorem varint_len_matches :
  forall v, 0 <= v < 2 ^ 64 -> blen (enc v) = varint_len v /\ enc_n v = varint_len v.
Proof. exact varint_len_matches_l. Qed.

(* no overflow / out-of-bounds write in the encoder whenever the buffer has varint_len v bytes *)
Theorem varint_encode_no_panic :
  forall v buf, 0 <= v < 2 ^ 64 -> varint_len v <= blen buf -> encode_varint_safe v buf = true.
Proof. exact varint_encode_no_panic_l. Qed.

(* every byte string: the decoder never reads out of bounds nor overflows ... *)
Theorem varint_decode_no_panic :
  forall buf, bytes_ok buf = true -> decode_varint_safe buf = true.
Proof. exact varint_decode_no_panic_l. Qed.

(* ... and what it returns is a u64 together with a consumed length inside the input *)
Theorem varint_decode_bounds :
  forall buf v n, bytes_ok buf = true -> decode_varint buf = Some (v, n) ->
    1 <= n <= blen buf /\ 0 <= v < 2 ^ 64.
Proof. exact varint_decode_bounds_l. Qed.

(* framing is unambiguous: distinct values never share an encoding, and a stream that starts with
   an encoded value determines both that value and the remainder (no encoding is a proper prefix
   of another followed by more bytes) *)
Theorem varint_enc_injective :
  forall a b, 0 <= a < 2 ^ 64 -> 0 <= b < 2 ^ 64 -> enc a = enc b -> a = b.
Proof. exact varint_enc_injective_l. Qed.

Theorem varint_prefix_free :
  forall a b r1 r2, 0 <= a < 2 ^ 64 -> 0 <= b < 2 ^ 64 ->
    enc a ++ r1 = enc b ++ r2 -> a = b /\ r1 = r2.
Proof. exact varint_prefix_free_l. Qed.

(* non-vacuity: the hypotheses are met by concrete non-trivial inputs, and both outcomes occur *)
Example c27_witness :
  dec (enc 67824) = Some (67824, 4) /\ enc 18446744073709551615 = [255;255;255;255;255;255;255;255;255]
  /\ decode_varint [252; 1; 2] = None /\ decode_varint [250; 1] = None /\ bytes_ok [252; 1; 2] = true.
Proof. vm_compute. repeat split. Qed.

Check varint_roundtrip : forall v, 0 <= v < 2 ^ 64 -> dec (enc v) = Some (v, varint_len v).
Check varint_decode_prefix : forall v rest, 0 <= v < 2 ^ 64 -> decode_varint (enc v ++ rest) = Some (v, varint_len v).
Check varint_len_matches : forall v, 0 <= v < 2 ^ 64 -> blen (enc v) = varint_len v /\ enc_n v = varint_len v.
Check varint_encode_no_panic : forall v buf, 0 <= v < 2 ^ 64 -> varint_len v <= blen buf -> encode_varint_safe v buf = true.
Check varint_decode_no_panic : forall buf, bytes_ok buf = true -> decode_varint_safe buf = true.
Check varint_decode_bounds : forall buf v n, bytes_ok buf = true -> decode_varint buf = Some (v, n) -> 1 <= n <= blen buf /\ 0 <= v < 2 ^ 64.
Check varint_enc_injective : forall a b, 0 <= a < 2 ^ 64 -> 0 <= b < 2 ^ 64 -> enc a = enc b -> a = b.
Check varint_prefix_free : forall a b r1 r2, 0 <= a < 2 ^ 64 -> 0 <= b < 2 ^ 64 -> enc a ++ r1 = enc b ++ r2 -> a = b /\ r1 = r2.

Print Assumptions varint_roundtrip.
Print Assumptions varint_decode_prefix.
Print Assumptions varint_len_matches.
Print Assumptions varint_encode_no_panic.
Print Assumptions varint_decode_no_panic.
Print Assumptions varint_decode_bounds.
Print Assumptions varint_enc_injective.
Print Assumptions varint_prefix_free.
