(* C15, ORDER BY / LIMIT / OFFSET on top of GROUP BY (definitions only):

     SELECT g1, .., gk, COUNT( * ) AS n FROM t [WHERE id > w] GROUP BY g1, .., gk
       ORDER BY key [ASC|DESC], ..  [LIMIT l] [OFFSET o]

   where every key is an output column (a grouping column by name, or the alias n) and EVERY
   grouping column is among the keys: then no two groups tie, the result does not depend on the
   order in which HashAggregate emits the groups (a hashbrown map: not modelled), and the plan is
   HashAggregate -> ProjectExec -> SortExec | TopKExec [-> LimitExec] with the keys resolved on the
   projection's output by name -- the same DynamicExecutor::Sort / TopK / Limit code as for a plain
   table.  The groups themselves (NULLs form one group, COUNT( * ) = size) are the reference
   meaning of GROUP BY and are shared by the model and the specification: whether TurDB groups
   correctly is property C16's business; a disagreement there would show up as a model
   disagreement here. *)
From Coq Require Import ZArith List Bool.
From TV Require Import Model.KnnOrder.
From TV Require Import Model.SqlSpec Model.SortSpec Model.SortQuery Model.SortImpl.
Import ListNotations.
Open Scope Z_scope.

Record gquery := mkG {
  g_cols : list nat;                     (* grouping columns (table columns) *)
  g_where : option Z;                    (* WHERE id > w *)
  g_keys : list (nat * bool);            (* position in the output row [g1; ..; gk; n], ascending? *)
  g_limit : option Z;
  g_offset : option Z
}.

Fixpoint add_group (g : row) (acc : list (row * Z)) : list (row * Z) :=
  match acc with
  | [] => [(g, 1)]
  | (h, c) :: acc' => if row_eqb g h then (h, c + 1) :: acc' else (h, c) :: add_group g acc'
  end.
(* one output row per group, in order of first occurrence *)
Definition group_rows (gq : gquery) (t : table) : list row :=
  map (fun gc => fst gc ++ [VInt (snd gc)])
      (fold_left (fun acc r => add_group (proj (g_cols gq) r) acc)
                 (filter (passes_where (g_where gq)) t) []).
Definition g_elts (gq : gquery) (t : table) : list elt :=
  map (fun r => (map (fun kb => nth (fst kb) r VNull) (g_keys gq), r)) (group_rows gq t).
Definition g_dirs (gq : gquery) : list bool := map snd (g_keys gq).
Definition g_off (gq : gquery) : nat := match g_offset gq with Some o => Z.to_nat o | None => O end.
Definition g_lim (gq : gquery) : option nat := option_map Z.to_nat (g_limit gq).

(* the keys are output positions and cover every grouping column *)
Definition g_well_formed (ncols : nat) (gq : gquery) : bool :=
  let k := length (g_cols gq) in
  negb (Nat.eqb k 0) &&
  forallb (fun c => (c <? ncols)%nat) (g_cols gq) &&
  forallb (fun kb => (fst kb <=? k)%nat) (g_keys gq) &&
  forallb (fun i => existsb (fun kb => Nat.eqb (fst kb) i) (g_keys gq)) (seq 0 k) &&
  nonneg (g_limit gq) && nonneg (g_offset gq).

Definition model_group (ncols : nat) (gq : gquery) (t : table) : mres :=
  if negb (g_well_formed ncols gq) then MUnmod else
  let elts := g_elts gq t in
  let cmp := impl_elt_cmp (g_dirs gq) in
  match g_lim gq with
  | Some l =>
      match topk cmp (l + g_off gq) elts with
      | TOk out => MRows (map snd (firstn l (skipn (g_off gq) out)))
      | _ => MUnmod
      end
  | None => MRows (map snd (limit_exec None (g_off gq) (isort (c_less cmp) elts)))
  end.
