(* C37 group commit: the atomic steps of Model/GroupCommit.v as an inductive relation (one
   constructor per branch of [tstep]), so that invariant proofs do the case analysis once. *)
From Coq Require Import ZArith List Bool Arith Lia.
From TV Require Import Lib.Interleave Model.GroupCommit.
Import ListNotations.
Open Scope Z_scope.

Inductive TS (fx : bool) (t : nat) (s : shared) : thr -> shared -> thr -> Prop :=
| ts_begin o r cu k id el b w :
    TS fx t s (Thr (o :: r) cu Idle k id el b w) s (Thr r o S401 (k + 1) 0 false [] true)
| ts_empty pr cu k id el b w : op_empty cu = true ->
    TS fx t s (Thr pr cu S401 k id el b w) s (Thr pr cu S402 k id el b w)
| ts_push pr cu k id el b w : op_empty cu = false ->
    TS fx t s (Thr pr cu S401 k id el b w) (sh_push s t k) (Thr pr cu S301 k (next_id s) false b w)
| ts_load_done p0 pr cu k id el b w : p0 = S301 \/ p0 = WHead -> memZ id (completed s) = true ->
    TS fx t s (Thr pr cu p0 k id el b w) s (Thr pr cu WDone k id el b w)
| ts_load_not p0 pr cu k id el b w : p0 = S301 \/ p0 = WHead -> memZ id (completed s) = false ->
    TS fx t s (Thr pr cu p0 k id el b w) s (Thr pr cu S302 k id el b w)
| ts_chk_done pr cu k id el b w : memZ id (completed s) = true ->
    TS fx t s (Thr pr cu S302 k id el b w) s (Thr pr cu WDone k id el b w)
| ts_elect pr cu k id el b w : memZ id (completed s) = false -> fip s = false -> nonempty (pending s) = true ->
    TS fx t s (Thr pr cu S302 k id el b w) (sh_set_fip s true) (Thr pr cu S402 k id true b w)
| ts_wait pr cu k id el b w : memZ id (completed s) = false -> negb (fip s) && nonempty (pending s) = false ->
    TS fx t s (Thr pr cu S302 k id el b w) (sh_wait s t) (Thr pr cu Waiting k id el b w)
| ts_woken pr cu k id el b w : memN t (waiters s) = false ->
    TS fx t s (Thr pr cu Waiting k id el b w) s (Thr pr cu WHead k id el b w)
| ts_err pr cu k id el b w : memZ id (errs s) = true ->
    TS fx t s (Thr pr cu WDone k id el b w)
       (sh_ack s t (Thr pr cu WDone k id el b w) RErrReported) (Thr pr cu Idle k id el b w)
| ts_noerr pr cu k id el b w : memZ id (errs s) = false ->
    TS fx t s (Thr pr cu WDone k id el b w) s (Thr pr cu S402 k id el b w)
| ts_skip pr cu k id b w : fx = true ->
    TS fx t s (Thr pr cu S402 k id false b w)
       (sh_ack s t (Thr pr cu S402 k id false b w) ROk) (Thr pr cu Idle k id false b w)
| ts_to304 pr cu k id el b w : fx && negb el = false ->
    TS fx t s (Thr pr cu S402 k id el b w) s (Thr pr cu S304 k id el b w)
| ts_none pr cu k id el b w : nonempty (pending s) = false ->
    TS fx t s (Thr pr cu S304 k id el b w)
       (sh_ack (sh_steal s el) t (Thr pr cu S304 k id el b w) ROk) (Thr pr cu Idle k id el b w)
| ts_drain pr cu k id el b w : nonempty (pending s) = true ->
    TS fx t s (Thr pr cu S304 k id el b w)
       (sh_drain s t (el && negb (memZ id (pending s)))) (Thr pr cu S404 k id el (pending s) w)
| ts_write pr cu k id el b w :
    TS fx t s (Thr pr cu S404 k id el b w)
       (sh_write s (op_wfail cu) b) (Thr pr cu S403 k id el b (write_ok (op_wfail cu) b))
| ts_403ok pr cu k id el b :
    TS fx t s (Thr pr cu S403 k id el b true) s (Thr pr cu (MarkC b) k id el b true)
| ts_403fail pr cu k id el b :
    TS fx t s (Thr pr cu S403 k id el b false) s (Thr pr cu (MarkF1 b) k id el b false)
| ts_markc_nil pr cu k id el b w :
    TS fx t s (Thr pr cu (MarkC []) k id el b w) s (Thr pr cu S305 k id el b w)
| ts_markc c r pr cu k id el b w :
    TS fx t s (Thr pr cu (MarkC (c :: r)) k id el b w) (sh_complete s c) (Thr pr cu (MarkC r) k id el b w)
| ts_markf_nil pr cu k id el b w :
    TS fx t s (Thr pr cu (MarkF1 []) k id el b w) s (Thr pr cu FUnlock k id el b w)
| ts_markf1 c r pr cu k id el b w :
    TS fx t s (Thr pr cu (MarkF1 (c :: r)) k id el b w) (sh_err s c) (Thr pr cu (MarkF2 c r) k id el b w)
| ts_markf2 c r pr cu k id el b w :
    TS fx t s (Thr pr cu (MarkF2 c r) k id el b w) (sh_complete s c) (Thr pr cu (MarkF1 r) k id el b w)
| ts_305 pr cu k id el b w :
    TS fx t s (Thr pr cu S305 k id el b w) (sh_set_fip s false) (Thr pr cu CNotify k id el b w)
| ts_cnotify pr cu k id el b w :
    TS fx t s (Thr pr cu CNotify k id el b w) (sh_notify_all s) (Thr pr cu S306 k id el b w)
| ts_306 pr cu k id el b w :
    TS fx t s (Thr pr cu S306 k id el b w)
       (sh_ack s t (Thr pr cu S306 k id el b w) ROk) (Thr pr cu Idle k id el b w)
| ts_funlock pr cu k id el b w :
    TS fx t s (Thr pr cu FUnlock k id el b w) (sh_set_fip s false) (Thr pr cu FNotify k id el b w)
| ts_fnotify pr cu k id el b w :
    TS fx t s (Thr pr cu FNotify k id el b w) (sh_notify_all s) (Thr pr cu S406 k id el b w)
| ts_406 pr cu k id el b w :
    TS fx t s (Thr pr cu S406 k id el b w)
       (sh_ack s t (Thr pr cu S406 k id el b w) RErrFlush) (Thr pr cu Idle k id el b w).

Lemma tstep_TS fx t s th s' th' : tstep fx t s th = Some (s', th') -> TS fx t s th s' th'.
Proof.
  intros Hst. unfold tstep in Hst.
  destruct th as [pr cu p k id el b w]. cbn [pc prog cur kidx myid elected batch wok] in Hst.
  destruct p.
  - destruct pr as [|o r]; [discriminate|]. injection Hst as <- <-. apply ts_begin.
  - destruct (op_empty cu) eqn:E; injection Hst as <- <-; [apply ts_empty | apply ts_push]; exact E.
  - destruct (memZ id (completed s)) eqn:E; injection Hst as <- <-;
      [apply ts_load_done | apply ts_load_not]; auto.
  - destruct (memZ id (completed s)) eqn:E; injection Hst as <- <-;
      [apply ts_load_done | apply ts_load_not]; auto.
  - destruct (memZ id (completed s)) eqn:E.
    + injection Hst as <- <-. apply ts_chk_done. exact E.
    + destruct (negb (fip s) && nonempty (pending s)) eqn:E2; injection Hst as <- <-.
      * apply andb_true_iff in E2. destruct E2 as [E2 E3]. apply negb_true_iff in E2. apply ts_elect; assumption.
      * apply ts_wait; assumption.
  - destruct (memN t (waiters s)) eqn:E; [discriminate|]. injection Hst as <- <-. apply ts_woken. exact E.
  - destruct (memZ id (errs s)) eqn:E; injection Hst as <- <-; [apply ts_err | apply ts_noerr]; exact E.
  - destruct (fx && negb el) eqn:E; injection Hst as <- <-.
    + apply andb_true_iff in E. destruct E as [E1 E2]. apply negb_true_iff in E2. subst el. apply ts_skip. exact E1.
    + apply ts_to304. exact E.
  - destruct (nonempty (pending s)) eqn:E; injection Hst as <- <-; [apply ts_drain | apply ts_none]; exact E.
  - injection Hst as <- <-. apply ts_write.
  - injection Hst as <- <-. destruct w; [apply ts_403ok | apply ts_403fail].
  - destruct todo as [|c r]; injection Hst as <- <-; [apply ts_markc_nil | apply ts_markc].
  - destruct todo as [|c r]; injection Hst as <- <-; [apply ts_markf_nil | apply ts_markf1].
  - injection Hst as <- <-. apply ts_markf2.
  - injection Hst as <- <-. apply ts_305.
  - injection Hst as <- <-. apply ts_cnotify.
  - injection Hst as <- <-. apply ts_306.
  - injection Hst as <- <-. apply ts_funlock.
  - injection Hst as <- <-. apply ts_fnotify.
  - injection Hst as <- <-. apply ts_406.
Qed.

(* every thread that is neither finished nor in the condvar's wait set can take a step *)
Lemma tstep_enabled fx t s th :
  tstep fx t s th = None ->
  (pc th = Idle /\ prog th = []) \/ (pc th = Waiting /\ memN t (waiters s) = true).
Proof.
  unfold tstep. destruct th as [pr cu p k id el b w]. cbn [pc prog cur kidx myid elected batch wok].
  destruct p; try discriminate.
  - destruct pr; [auto | discriminate].
  - destruct (op_empty cu); discriminate.
  - destruct (memZ id (completed s)); [discriminate|]. destruct (negb (fip s) && nonempty (pending s)); discriminate.
  - destruct (memN t (waiters s)); [auto | discriminate].
  - destruct (memZ id (errs s)); discriminate.
  - destruct (fx && negb el); discriminate.
  - destruct (nonempty (pending s)); discriminate.
  - destruct todo; discriminate.
  - destruct todo; discriminate.
Qed.

Lemma nonempty_true {A} (l : list A) : nonempty l = true <-> l <> [].
Proof. destruct l; cbn; split; intros; congruence. Qed.
Lemma nonempty_false {A} (l : list A) : nonempty l = false <-> l = [].
Proof. destruct l; cbn; split; intros; congruence. Qed.
