(* C09 proofs, part 2: on the fragment OR-of-ANDs of `<column> {<,<=,>,>=} <integer literal>` the
   string evaluator of CHECK constraints, run on the text that CREATE TABLE stores, agrees with
   the three-valued reference semantics (check_eval_agrees); witnesses for the shapes outside. *)
From Coq Require Import ZArith List Bool Lia ZifyBool Arith.
From TV Require Import Model.SqlSpec Model.CheckStr Model.ConstrSpec Model.ConstrImpl Model.ConstrClass
                       Proof.CheckStrBase.
Import ListNotations.
Open Scope Z_scope.
Ltac Zify.zify_post_hook ::= Z.to_euclidean_division_equations.

Definition atomr := (cmpop * Z)%type.
Definition patom (ci : nat) (a : atomr) : list Z := bin_str (cname ci) (cmp_str (fst a)) (show_int (snd a)).
Fixpoint join (sep : list Z) (l : list (list Z)) : list Z :=
  match l with
  | [] => []
  | x :: l' => match l' with [] => x | _ => x ++ sep ++ join sep l' end
  end.
Definition S_AND : list Z := [32; 65; 78; 68; 32].
Definition S_OR : list Z := [32; 79; 82; 32].
Definition pconj (ci : nat) (l : list atomr) : list Z := join S_AND (map (patom ci) l).
Definition pdnf (ci : nat) (ll : list (list atomr)) : list Z := join S_OR (map (pconj ci) ll).

Fixpoint conj_list (e : expr) : list atomr :=
  match e with
  | EAnd a b => conj_list a ++ conj_list b
  | ECmp op _ (ELit (VInt n)) => [(op, n)]
  | _ => []
  end.
Fixpoint dnf_list (e : expr) : list (list atomr) :=
  match e with
  | EOr a b => dnf_list a ++ dnf_list b
  | _ => [conj_list e]
  end.
Definition atom_good (a : atomr) : Prop := op_ord (fst a) = true /\ Z.abs (snd a) < 2 ^ 53.
Definition atom_holds (v : Z) (a : atomr) : bool := cmp_holds (fst a) (Z.compare v (snd a)).

(* ---------------------------------------------------------------- printing = joining *)
Lemma join_app sep l1 l2 :
  l1 <> [] -> l2 <> [] -> join sep (l1 ++ l2) = join sep l1 ++ sep ++ join sep l2.
Proof.
  intros H1 H2. induction l1 as [|x l1 IH]; [contradiction|].
  destruct l1 as [|y l1].
  - cbn [app join]. destruct l2; [contradiction|reflexivity].
  - change ((x :: y :: l1) ++ l2) with (x :: (y :: l1) ++ l2).
    cbn [join]. cbn [app]. cbn [app] in IH. rewrite IH by discriminate.
    rewrite <- !app_assoc. reflexivity.
Qed.

Lemma nth_cnames n ci : (ci < n)%nat -> nth_error (cnames n) ci = Some (cname ci).
Proof.
  intros H. unfold cnames. rewrite nth_error_map.
  rewrite (nth_error_nth' _ 0%nat) by (rewrite seq_length; exact H).
  rewrite seq_nth by exact H. reflexivity.
Qed.

Lemma print_conj n ci e :
  (ci < n)%nat -> conj_ok ci e = true ->
  print_chk (cnames n) e = Some (pconj ci (conj_list e)) /\ conj_list e <> [] /\
  Forall atom_good (conj_list e).
Proof.
  intros Hci. induction e; cbn [conj_ok atom_ok]; try discriminate.
  - (* ECmp *)
    destruct e1; try discriminate. destruct e2; try discriminate. destruct v; try discriminate.
    intros H. apply andb_true_iff in H. destruct H as [H Hn]. apply andb_true_iff in H. destruct H as [Hi Hop].
    apply Nat.eqb_eq in Hi. subst i.
    cbn [print_chk conj_list]. rewrite (nth_cnames n ci Hci).
    split; [reflexivity|]. split; [discriminate|].
    constructor; [|constructor]. split; [exact Hop|]. cbn [snd]. lia.
  - (* EAnd *)
    intros H. apply andb_true_iff in H. destruct H as [H1 H2].
    destruct (IHe1 H1) as [P1 [N1 G1]]. destruct (IHe2 H2) as [P2 [N2 G2]].
    cbn [print_chk conj_list]. rewrite P1, P2. split.
    + unfold pconj. rewrite map_app, join_app.
      * reflexivity.
      * destruct (conj_list e1); [contradiction|discriminate].
      * destruct (conj_list e2); [contradiction|discriminate].
    + split; [destruct (conj_list e1); [contradiction|discriminate]|].
      apply Forall_app. split; assumption.
Qed.

Definition conj_good (l : list atomr) : Prop := l <> [] /\ Forall atom_good l.

Lemma conj_ok_not_or ci e : conj_ok ci e = true -> dnf_list e = [conj_list e].
Proof. destruct e; cbn [conj_ok atom_ok]; try discriminate; reflexivity. Qed.

Lemma print_dnf n ci e :
  (ci < n)%nat -> dnf_ok ci e = true ->
  print_chk (cnames n) e = Some (pdnf ci (dnf_list e)) /\ dnf_list e <> [] /\
  Forall conj_good (dnf_list e).
Proof.
  intros Hci. induction e; intros H;
    try (cbn [dnf_ok] in H; destruct (print_conj n ci _ Hci H) as [P [N G]];
         rewrite (conj_ok_not_or ci _ H); split; [exact P|]; split; [discriminate|];
         constructor; [split; assumption|constructor]).
  (* EOr *)
  cbn [dnf_ok] in H. apply andb_true_iff in H. destruct H as [H1 H2].
  destruct (IHe1 H1) as [P1 [N1 G1]]. destruct (IHe2 H2) as [P2 [N2 G2]].
  cbn [print_chk dnf_list]. rewrite P1, P2. split.
  - unfold pdnf. rewrite map_app, join_app.
    + reflexivity.
    + destruct (dnf_list e1); [contradiction|discriminate].
    + destruct (dnf_list e2); [contradiction|discriminate].
  - split; [destruct (dnf_list e1); [contradiction|discriminate]|].
    apply Forall_app. split; assumption.
Qed.

Lemma atoms_dnf ci e : dnf_ok ci e = true -> atoms e = length (concat (dnf_list e)).
Proof.
  assert (Hc : forall e, conj_ok ci e = true -> atoms e = length (conj_list e)).
  { induction e0; cbn [conj_ok atom_ok]; try discriminate.
    - destruct e0_1; try discriminate. destruct e0_2; try discriminate. destruct v; try discriminate. reflexivity.
    - intros H. apply andb_true_iff in H. destruct H as [H1 H2].
      cbn [atoms conj_list]. rewrite app_length, IHe0_1, IHe0_2 by assumption. reflexivity. }
  induction e; intros H;
    try (cbn [dnf_ok] in H; rewrite (conj_ok_not_or ci _ H); cbn [concat]; rewrite app_nil_r; apply Hc; exact H).
  cbn [dnf_ok] in H. apply andb_true_iff in H. destruct H as [H1 H2].
  cbn [atoms dnf_list]. rewrite concat_app, app_length, IHe1, IHe2 by assumption. reflexivity.
Qed.

(* ---------------------------------------------------------------- reference semantics of the fragment *)
Lemma tv_of_value_of_tv t : tv_of_value (value_of_tv t) = Some t.
Proof. destruct t; reflexivity. Qed.

Lemma sem3_and a b r x y : sem3 a r = Some x -> sem3 b r = Some y -> sem3 (EAnd a b) r = Some (tv_and x y).
Proof.
  unfold sem3. cbn [eval]. intros -> ->. cbn [opt_tv_and ret_tv option_map bind_tv].
  apply tv_of_value_of_tv.
Qed.
Lemma sem3_or a b r x y : sem3 a r = Some x -> sem3 b r = Some y -> sem3 (EOr a b) r = Some (tv_or x y).
Proof.
  unfold sem3. cbn [eval]. intros -> ->. cbn [opt_tv_or ret_tv option_map bind_tv].
  apply tv_of_value_of_tv.
Qed.

Lemma sem3_conj ci e r v :
  conj_ok ci e = true -> nth_error r ci = Some (VInt v) ->
  sem3 e r = Some (tv_of_bool (forallb (atom_holds v) (conj_list e))).
Proof.
  intros H Hr. induction e; cbn [conj_ok atom_ok] in H; try discriminate.
  - destruct e1; try discriminate. destruct e2; try discriminate. destruct v0; try discriminate.
    apply andb_true_iff in H. destruct H as [H _]. apply andb_true_iff in H. destruct H as [Hi _].
    apply Nat.eqb_eq in Hi. subst i.
    unfold sem3. cbn [eval conj_list forallb]. rewrite Hr.
    cbn [cmp3 cmp_values ret_tv option_map bind_tv]. rewrite tv_of_value_of_tv.
    unfold atom_holds. cbn [fst snd]. rewrite andb_true_r. reflexivity.
  - apply andb_true_iff in H. destruct H as [H1 H2].
    rewrite (sem3_and _ _ _ _ _ (IHe1 H1) (IHe2 H2)). cbn [conj_list]. rewrite forallb_app.
    destruct (forallb (atom_holds v) (conj_list e1)), (forallb (atom_holds v) (conj_list e2)); reflexivity.
Qed.

Lemma sem3_dnf ci e r v :
  dnf_ok ci e = true -> nth_error r ci = Some (VInt v) ->
  sem3 e r = Some (tv_of_bool (existsb (forallb (atom_holds v)) (dnf_list e))).
Proof.
  intros H Hr. induction e;
    try (cbn [dnf_ok] in H; rewrite (conj_ok_not_or ci _ H); cbn [existsb]; rewrite orb_false_r;
         apply (sem3_conj ci); assumption).
  cbn [dnf_ok] in H. apply andb_true_iff in H. destruct H as [H1 H2].
  rewrite (sem3_or _ _ _ _ _ (IHe1 H1) (IHe2 H2)). cbn [dnf_list]. rewrite existsb_app.
  destruct (existsb _ (dnf_list e1)), (existsb _ (dnf_list e2)); reflexivity.
Qed.

Lemma sem3_dnf_null ci e r :
  dnf_ok ci e = true -> nth_error r ci = Some VNull -> sem3 e r = Some UU.
Proof.
  intros H Hr.
  assert (Hc : forall e, conj_ok ci e = true -> sem3 e r = Some UU).
  { induction e0; cbn [conj_ok atom_ok]; try discriminate.
    - destruct e0_1; try discriminate. destruct e0_2; try discriminate. destruct v; try discriminate.
      intros H0. apply andb_true_iff in H0. destruct H0 as [H0 _]. apply andb_true_iff in H0. destruct H0 as [Hi _].
      apply Nat.eqb_eq in Hi. subst i. unfold sem3. cbn [eval]. rewrite Hr. reflexivity.
    - intros H0. apply andb_true_iff in H0. destruct H0 as [H1 H2].
      rewrite (sem3_and _ _ _ _ _ (IHe0_1 H1) (IHe0_2 H2)). reflexivity. }
  induction e; try (cbn [dnf_ok] in H; apply Hc; exact H).
  cbn [dnf_ok] in H. apply andb_true_iff in H. destruct H as [H1 H2].
  rewrite (sem3_or _ _ _ _ _ (IHe1 H1) (IHe2 H2)). reflexivity.
Qed.

(* ---------------------------------------------------------------- well-formed strings *)
Definition isO (c : Z) : bool := (c =? 111) || (c =? 79).
Definition isA (c : Z) : bool := (c =? 97) || (c =? 65).

Lemma eq_ic_o c : eq_ic 111 c = true -> isO c = true.
Proof.
  unfold eq_ic, lower, isO. change ((65 <=? 111) && (111 <=? 90)) with false. cbv iota.
  destruct ((65 <=? c) && (c <=? 90)) eqn:E; lia.
Qed.
Lemma eq_ic_a c : eq_ic 97 c = true -> isA c = true.
Proof.
  unfold eq_ic, lower, isA. change ((65 <=? 97) && (97 <=? 90)) with false. cbv iota.
  destruct ((65 <=? c) && (c <=? 90)) eqn:E; lia.
Qed.

(* tight, no parentheses, no space followed by a `bad` byte (also when a space follows the
   string), starts with 'x' *)
Definition gs (bad : Z -> bool) (s : list Z) : Prop :=
  tight s = true /\ nopar s = true /\ after_sp bad (s ++ [32]) = true /\ firstn 1 s = [120].

Lemma after_sp_prefix bad a b : after_sp bad (a ++ b) = true -> after_sp bad a = true.
Proof.
  induction a as [|c a IH]; [reflexivity|]. cbn [app after_sp]. intros H.
  apply andb_true_iff in H. destruct H as [H1 H2]. rewrite (IH H2), andb_true_r.
  destruct (c =? 32); [|reflexivity]. destruct a as [|d a]; [reflexivity|exact H1].
Qed.

Lemma after_sp_nosp_app bad s t :
  forallb (fun c => negb (c =? 32)) s = true -> after_sp bad (s ++ t) = after_sp bad t.
Proof.
  induction s as [|c s IH]; [reflexivity|]. cbn [forallb app after_sp]. intros H.
  apply andb_true_iff in H. destruct H as [H1 H2]. apply negb_true_iff in H1. rewrite H1.
  cbn [andb]. exact (IH H2).
Qed.

Lemma numch_facts s :
  forallb numch s = true ->
  forallb (fun c => negb (c =? 32)) s = true /\ nopar s = true /\
  forallb (fun c => negb (is_ws c)) s = true /\
  forallb (fun c => negb (c =? 60) && negb (c =? 62)) s = true.
Proof.
  induction s as [|c s IH]; [repeat split|]. cbn [forallb nopar]. intros H.
  apply andb_true_iff in H. destruct H as [Hc Hs]. destruct (IH Hs) as [I1 [I2 [I3 I4]]].
  unfold nopar in I2. rewrite I1, I2, I3, I4, !andb_true_r.
  unfold numch, is_dig in Hc. unfold is_ws. repeat split; lia.
Qed.

Lemma last_not_ws s : s <> [] -> forallb (fun c => negb (is_ws c)) s = true ->
  match rev s with [] => false | c :: _ => negb (is_ws c) end = true.
Proof.
  intros Hn H. destruct (rev s) as [|c r] eqn:E.
  - apply (f_equal (@rev Z)) in E. rewrite rev_involutive in E. contradiction.
  - rewrite forallb_forall in H. apply H. apply in_rev. rewrite E. left. reflexivity.
Qed.

Lemma patom_shape ci a :
  (ci < 10)%nat -> atom_good a ->
  exists c s, show_int (snd a) = c :: s /\ forallb numch (c :: s) = true /\
              numeric_operand (32 :: c :: s) = NumInt (snd a) /\
              patom ci a = 120 :: (48 + Z.of_nat ci) :: 32 :: cmp_str (fst a) ++ 32 :: c :: s.
Proof.
  intros Hci [Hop Hn].
  destruct (show_int_spec (snd a)) as [c [s [E1 [E2 E3]]]].
  { assert (2 ^ 53 < 10 ^ 40) by (vm_compute; reflexivity). lia. }
  exists c, s. repeat split; try assumption.
  unfold patom, bin_str, cname. rewrite E1. reflexivity.
Qed.

Lemma patom_gs bad ci a :
  (ci < 10)%nat -> atom_good a ->
  (forall c, numch c = true -> bad c = false) -> bad 60 = false -> bad 62 = false ->
  gs bad (patom ci a).
Proof.
  intros Hci Hg Hb1 Hb2 Hb3. destruct (patom_shape ci a Hci Hg) as [c [s [E1 [E2 [_ E4]]]]].
  destruct (numch_facts _ E2) as [F1 [F2 [F3 F4]]].
  destruct Hg as [Hop _].
  assert (Hd : 48 <= 48 + Z.of_nat ci <= 57) by lia.
  set (d := 48 + Z.of_nat ci) in *.
  assert (Hbc : bad c = false).
  { apply Hb1. cbn [forallb] in E2. apply andb_true_iff in E2. tauto. }
  assert (E5 : patom ci a = ([120; d; 32] ++ cmp_str (fst a) ++ [32]) ++ (c :: s)).
  { rewrite E4. rewrite <- !app_assoc. reflexivity. }
  unfold gs. rewrite E5. repeat split.
  - unfold tight. cbn [app]. change (is_ws 120) with false. cbn [negb andb].
    change (120 :: d :: 32 :: (cmp_str (fst a) ++ [32]) ++ c :: s)
      with (([120; d; 32] ++ cmp_str (fst a) ++ [32]) ++ (c :: s)).
    rewrite rev_app_distr.
    pose proof (last_not_ws (c :: s) ltac:(discriminate) F3) as L.
    destruct (rev (c :: s)) as [|z r]; [discriminate|]. exact L.
  - rewrite !nopar_app, F2.
    assert (H : nopar [120; d; 32] = true) by (cbn [nopar forallb]; lia).
    assert (H0 : nopar (cmp_str (fst a)) = true) by (destruct (fst a); reflexivity).
    rewrite H, H0. reflexivity.
  - rewrite <- app_assoc. rewrite after_sp_app.
    change (firstn 1 ((c :: s) ++ [32])) with [c].
    rewrite (after_sp_nosp_app bad (c :: s) [32] F1).
    change (after_sp bad [32]) with true. rewrite andb_true_r.
    assert (Hd32 : (d =? 32) = false) by lia.
    destruct (fst a); try discriminate; cbn [cmp_str app after_sp];
      change (120 =? 32) with false; change (32 =? 32) with true;
      change (60 =? 32) with false; change (62 =? 32) with false; change (61 =? 32) with false;
      rewrite Hd32; cbv iota; rewrite ?Hb2, ?Hb3, Hbc; cbn [negb andb];
      destruct (c =? 32); reflexivity.
Qed.

Lemma numch_not_O c : numch c = true -> isO c = false.
Proof. unfold numch, is_dig, isO. lia. Qed.
Lemma numch_not_A c : numch c = true -> isA c = false.
Proof. unfold numch, is_dig, isA. lia. Qed.

(* joining two good strings with " AND " / " OR " *)
Lemma gs_join bad SEP a b :
  gs bad a -> gs bad b ->
  tight SEP = false -> nopar SEP = true ->
  firstn 1 SEP = [32] -> after_sp bad (SEP ++ [120]) = true ->
  gs bad (a ++ SEP ++ b).
Proof.
  intros [Ta [Pa [Sa Ha]]] [Tb [Pb [Sb Hb]]] _ PS HS SS. unfold gs. repeat split.
  - apply tight_app; assumption.
  - rewrite !nopar_app, Pa, PS, Pb. reflexivity.
  - rewrite <- !app_assoc. rewrite after_sp_app.
    assert (F1 : firstn 1 (SEP ++ b ++ [32]) = [32]).
    { destruct SEP as [|x SEP]; [discriminate|]. exact HS. }
    rewrite F1, Sa. cbn [andb]. rewrite after_sp_app.
    assert (F2 : firstn 1 (b ++ [32]) = [120]).
    { destruct b as [|x b]; [discriminate|]. exact Hb. }
    rewrite F2, SS, Sb. reflexivity.
  - destruct a as [|x a]; [discriminate|]. exact Ha.
Qed.

(* ---------------------------------------------------------------- evaluating an atom *)
Lemma strip_outer_head c r : (c =? 40) = false -> strip_outer (c :: r) = None.
Proof. intros H. unfold strip_outer. rewrite H. reflexivity. Qed.

Lemma eq_ic_refl c : eq_ic c c = true.
Proof. unfold eq_ic. apply Z.eqb_refl. Qed.

Lemma cmp_threshold_small op v n :
  op_ord op = true -> Z.abs n < 2 ^ 53 ->
  cmp_threshold (match op with CLt => OLt | CLe => OLe | CGt => OGt | _ => OGe end) v n =
  cmp_holds op (Z.compare v n).
Proof.
  intros Hop Hn. unfold cmp_threshold, rne53.
  assert (E : (Z.abs n <? 2 ^ 53) = true) by lia. rewrite E.
  assert (E2 : ((- 2 ^ 63 <=? n) && (n <=? 2 ^ 63)) = true) by lia. rewrite E2.
  assert (E3 : Z.min n (2 ^ 63 - 1) = n) by lia. rewrite E3.
  destruct op; try discriminate; cbn [cop_holds cmp_holds];
    destruct (Z.compare_spec v n); lia.
Qed.

Lemma find_op_patom ci (a : atomr) c s :
  (ci < 10)%nat -> op_ord (fst a) = true ->
  find_op (120 :: (48 + Z.of_nat ci) :: 32 :: cmp_str (fst a) ++ 32 :: c :: s) =
  Some (match fst a with CLt => OLt | CLe => OLe | CGt => OGt | _ => OGe end, 32 :: c :: s).
Proof.
  intros Hci Hop. cbn [find_op].
  change (120 =? 62) with false. change (120 =? 60) with false. cbv iota.
  assert (H1 : (48 + Z.of_nat ci =? 62) = false) by lia.
  assert (H2 : (48 + Z.of_nat ci =? 60) = false) by lia.
  rewrite H1, H2. change (32 =? 62) with false. change (32 =? 60) with false. cbv iota.
  destruct (fst a); try discriminate; reflexivity.
Qed.

Lemma ev_atom ci a v f :
  (ci < 10)%nat -> atom_good a ->
  ev_chk (S f) (patom ci a) (cname ci) v = COk (atom_holds v a).
Proof.
  intros Hci Hg.
  destruct (patom_gs isO ci a Hci Hg numch_not_O eq_refl eq_refl) as [T [P [SO _]]].
  destruct (patom_gs isA ci a Hci Hg numch_not_A eq_refl eq_refl) as [_ [_ [SA _]]].
  destruct (patom_shape ci a Hci Hg) as [c [s [E1 [E2 [E3 E4]]]]].
  destruct Hg as [Hop Hn].
  cbn [ev_chk]. rewrite (trim_tight _ T).
  unfold s_or. rewrite (split_op_none isO 111 [114; 32] _ eq_ic_o P (after_sp_prefix _ _ _ SO)).
  unfold s_and. rewrite (split_op_none isA 97 [110; 100; 32] _ eq_ic_a P (after_sp_prefix _ _ _ SA)).
  rewrite E4. rewrite strip_outer_head by reflexivity.
  unfold simple_cmp.
  assert (Hc : contains_ic (120 :: (48 + Z.of_nat ci) :: 32 :: cmp_str (fst a) ++ 32 :: c :: s) (cname ci) = true).
  { unfold cname. cbn [contains_ic length Nat.ltb Nat.leb prefix_ic]. rewrite !eq_ic_refl. reflexivity. }
  rewrite Hc. cbn [negb]. rewrite (find_op_patom ci a c s Hci Hop). rewrite E3.
  rewrite (cmp_threshold_small (fst a) v (snd a) Hop Hn). reflexivity.
Qed.

(* ---------------------------------------------------------------- conjunctions, disjunctions *)
Lemma SAND_match b : prefix_ic (32 :: 97 :: [110; 100; 32]) (S_AND ++ b) = true.
Proof. reflexivity. Qed.
Lemma SOR_match b : prefix_ic (32 :: 111 :: [114; 32]) (S_OR ++ b) = true.
Proof. reflexivity. Qed.

Lemma pconj_cons ci a b l :
  pconj ci (a :: b :: l) = patom ci a ++ S_AND ++ pconj ci (b :: l).
Proof. reflexivity. Qed.
Lemma pdnf_cons ci a b l :
  pdnf ci (a :: b :: l) = pconj ci a ++ S_OR ++ pdnf ci (b :: l).
Proof. reflexivity. Qed.

Lemma pconj_gs ci l :
  (ci < 10)%nat -> l <> [] -> Forall atom_good l -> gs isO (pconj ci l).
Proof.
  intros Hci. induction l as [|a l IH]; [contradiction|]. intros _ HG.
  inversion HG as [|? ? Ga Gl]; subst.
  destruct l as [|b l].
  - apply patom_gs; try assumption; try reflexivity. exact numch_not_O.
  - rewrite pconj_cons. apply gs_join.
    + apply patom_gs; try assumption; try reflexivity. exact numch_not_O.
    + apply IH; [discriminate|exact Gl].
    + reflexivity.
    + reflexivity.
    + reflexivity.
    + reflexivity.
Qed.

Lemma ev_conj ci v :
  (ci < 10)%nat ->
  forall l f, l <> [] -> Forall atom_good l -> (length l <= f)%nat ->
    ev_chk f (pconj ci l) (cname ci) v = COk (forallb (atom_holds v) l).
Proof.
  intros Hci. induction l as [|a l IH]; [contradiction|]. intros f _ HG Hf.
  inversion HG as [|? ? Ga Gl]; subst.
  destruct l as [|b l].
  - destruct f as [|f]; [cbn [length] in Hf; lia|].
    change (pconj ci [a]) with (patom ci a). rewrite (ev_atom ci a v f Hci Ga).
    cbn [forallb]. rewrite andb_true_r. reflexivity.
  - destruct f as [|f]; [cbn [length] in Hf; lia|].
    pose proof (pconj_gs ci (a :: b :: l) Hci ltac:(discriminate) HG) as [T [P [SO _]]].
    pose proof (pconj_gs ci (b :: l) Hci ltac:(discriminate) Gl) as [Tb _].
    destruct (patom_gs isA ci a Hci Ga numch_not_A eq_refl eq_refl) as [Ta [Pa [SA _]]].
    cbn [ev_chk]. rewrite (trim_tight _ T).
    unfold s_or. rewrite (split_op_none isO 111 [114; 32] _ eq_ic_o P (after_sp_prefix _ _ _ SO)).
    unfold s_and. rewrite pconj_cons.
    rewrite (split_op_at isA 97 [110; 100; 32] S_AND (patom ci a) (pconj ci (b :: l)) eq_ic_a
               eq_refl (SAND_match _) eq_refl Pa SA Ta Tb).
    destruct f as [|f]; [cbn [length] in Hf; lia|].
    rewrite (ev_atom ci a v f Hci Ga).
    rewrite (IH (S f) ltac:(discriminate) Gl ltac:(cbn [length] in *; lia)).
    cbn [cres_and forallb]. reflexivity.
Qed.

Lemma pdnf_tight ci ll :
  (ci < 10)%nat -> ll <> [] -> Forall conj_good ll -> tight (pdnf ci ll) = true.
Proof.
  intros Hci. induction ll as [|a ll IH]; [contradiction|]. intros _ HG.
  inversion HG as [|? ? Ga Gl]; subst. destruct Ga as [Na Ga].
  destruct ll as [|b ll].
  - apply (pconj_gs ci a Hci Na Ga).
  - rewrite pdnf_cons. apply tight_app.
    + apply (pconj_gs ci a Hci Na Ga).
    + apply IH; [discriminate|exact Gl].
Qed.

Lemma ev_dnf ci v :
  (ci < 10)%nat ->
  forall ll f, ll <> [] -> Forall conj_good ll -> (length (concat ll) <= f)%nat ->
    ev_chk f (pdnf ci ll) (cname ci) v = COk (existsb (forallb (atom_holds v)) ll).
Proof.
  intros Hci. induction ll as [|a ll IH]; [contradiction|]. intros f _ HG Hf.
  inversion HG as [|? ? Ga Gl]; subst. destruct Ga as [Na Ga].
  destruct ll as [|b ll].
  - change (pdnf ci [a]) with (pconj ci a). cbn [concat] in Hf. rewrite app_nil_r in Hf.
    rewrite (ev_conj ci v Hci a f Na Ga Hf). cbn [existsb]. rewrite orb_false_r. reflexivity.
  - assert (Hla : (1 <= length a)%nat) by (destruct a; [contradiction|cbn [length]; lia]).
    assert (Hlb : (1 <= length (concat (b :: ll)))%nat).
    { inversion Gl as [|? ? [Nb _] _]; subst. cbn [concat]. rewrite app_length.
      destruct b; [contradiction|cbn [length]; lia]. }
    cbn [concat] in Hf, Hlb. rewrite app_length in Hf.
    destruct f as [|f]; [lia|].
    pose proof (pconj_gs ci a Hci Na Ga) as [Ta [Pa [SOa _]]].
    pose proof (pdnf_tight ci (a :: b :: ll) Hci ltac:(discriminate) HG) as T.
    pose proof (pdnf_tight ci (b :: ll) Hci ltac:(discriminate) Gl) as Tb.
    cbn [ev_chk]. rewrite (trim_tight _ T).
    unfold s_or. rewrite pdnf_cons.
    rewrite (split_op_at isO 111 [114; 32] S_OR (pconj ci a) (pdnf ci (b :: ll)) eq_ic_o
               eq_refl (SOR_match _) eq_refl Pa SOa Ta Tb).
    rewrite (ev_conj ci v Hci a f Na Ga ltac:(lia)).
    rewrite (IH f ltac:(discriminate) Gl ltac:(cbn [concat]; lia)).
    cbn [cres_or existsb]. reflexivity.
Qed.

(* ---------------------------------------------------------------- the theorem *)
(* On the fragment, for a row whose column ci holds v (an integer or NULL), what INSERT / UPDATE
   compute from the stored text of the CHECK is "the expression is not FALSE". *)
Theorem check_eval_agrees_l :
  forall n ci e r,
    (ci < n)%nat -> (n <= 10)%nat -> chk_frag ci e = true ->
    (exists z, nth_error r ci = Some (VInt z)) \/ nth_error r ci = Some VNull ->
    impl_check (cnames n) ci e (col_val ci r) = COk (chk_b e r).
Proof.
  intros n ci e r Hci Hn Hf Hr. unfold chk_frag in Hf. apply andb_true_iff in Hf. destruct Hf as [Hd Ha].
  apply Nat.leb_le in Ha.
  destruct (print_dnf n ci e Hci Hd) as [P [N G]].
  unfold impl_check. rewrite P, (nth_cnames n ci Hci).
  destruct Hr as [[z Hz]|Hz].
  - unfold col_val. rewrite (nth_error_nth _ _ _ Hz). unfold check_str.
    rewrite (ev_dnf ci z ltac:(lia) (dnf_list e) 32%nat N G).
    + unfold chk_b. rewrite (sem3_dnf ci e r z Hd Hz).
      destruct (existsb _ (dnf_list e)); reflexivity.
    + rewrite <- (atoms_dnf ci e Hd). lia.
  - unfold col_val. rewrite (nth_error_nth _ _ _ Hz). unfold check_str, chk_b.
    rewrite (sem3_dnf_null ci e r Hd Hz). reflexivity.
Qed.

(* ---------------------------------------------------------------- outside the fragment *)
(* x0 = 5 rejects the row (5): class 2 *)
Lemma chk_refuted_eq :
  let e := ECmp CEq (ECol 0) (ELit (VInt 5)) in
  chk_class (cnames 1) 0 e = 2 /\ impl_check (cnames 1) 0 e (VInt 5) = COk false /\ chk_b e [VInt 5] = true.
Proof. vm_compute. repeat split. Qed.
(* NOT (x0 > 5) accepts 7 and rejects 3: class 3 *)
Lemma chk_refuted_not :
  let e := ENot (ECmp CGt (ECol 0) (ELit (VInt 5))) in
  chk_class (cnames 1) 0 e = 3 /\
  impl_check (cnames 1) 0 e (VInt 7) = COk true /\ chk_b e [VInt 7] = false /\
  impl_check (cnames 1) 0 e (VInt 3) = COk false /\ chk_b e [VInt 3] = true.
Proof. vm_compute. repeat split. Qed.
(* (x0 > 5 OR x0 < 0) AND x0 < 10 accepts 20: class 4 *)
Lemma chk_refuted_paren :
  let e := EAnd (EOr (ECmp CGt (ECol 0) (ELit (VInt 5))) (ECmp CLt (ECol 0) (ELit (VInt 0))))
                (ECmp CLt (ECol 0) (ELit (VInt 10))) in
  chk_class (cnames 1) 0 e = 4 /\ impl_check (cnames 1) 0 e (VInt 20) = COk true /\ chk_b e [VInt 20] = false.
Proof. vm_compute. repeat split. Qed.
(* x0 BETWEEN 1 AND 10 is dropped and accepts 70: class 1 *)
Lemma chk_refuted_dropped :
  let e := EBetween false (ECol 0) (ELit (VInt 1)) (ELit (VInt 10)) in
  chk_class (cnames 1) 0 e = 1 /\ impl_check (cnames 1) 0 e (VInt 70) = COk true /\ chk_b e [VInt 70] = false.
Proof. vm_compute. repeat split. Qed.
(* literals beyond 2^53 are compared after rounding to a double (side condition of the fragment) *)
Lemma chk_refuted_big_literal :
  let e := ECmp CLt (ECol 0) (ELit (VInt 9007199254740993)) in
  impl_check (cnames 1) 0 e (VInt 9007199254740992) = COk false /\ chk_b e [VInt 9007199254740992] = true.
Proof. vm_compute. repeat split. Qed.
