(* C21: inside each recorded defect class the implementation model leaves the relational model;
   concrete witnesses (every one is replayed on the real database by the correspondence run,
   known_findings.d/C21.json).  The witnesses of the classes repaired in /repo (2, 3, 4, 5, 7, 9:
   commits 2b262ce, c3e8980, e35ce21, 6de60fd) now lie outside every class and agree. *)
From Coq Require Import ZArith List Bool.
From TV Require Import Model.DdlSpec Model.AlterImpl.
Import ListNotations.
Open Scope Z_scope.

Definition ci (n : Z) : col := mkCol n 0 VN.        (* c<n> INT *)
Definition ct (n : Z) : col := mkCol n 2 VN.        (* c<n> TEXT *)

Definition w1 : list stmt := [CreateTable 0 [ci 0]; Insert 0 [VI 1]; AddCol 0 (mkCol 1 0 (VI 5))].
Definition w2 : list stmt :=
  [CreateTable 0 [ci 0; ci 1]; Insert 0 [VI 1; VI 2]; DeleteEq 0 0 (VI 1); DropCol 0 1 true].
Definition w3 : list stmt := [CreateTable 0 [ci 0; ct 1]; Insert 0 [VI 1; VT 1]; DropCol 0 0 false].
Definition w4 : list stmt := [CreateTable 0 [ci 0]; Insert 0 [VI 1]; AddCol 0 (ci 0)].
Definition w5 : list stmt := [CreateTable 0 [ci 0]; Insert 0 [VI 1]; DeleteEq 0 0 (VI 1); UpdateAll 0 0 (VI 2)].
Definition w6 : list stmt :=
  [CreateTable 0 [ci 0; ci 1]; CreateIndex 0 0 1; RenameCol 0 1 2; DropCol 0 2 true; CreateIndex 0 0 0].
Definition w7 : list stmt := [CreateTable 0 [ci 0; ci 1]; Insert 0 [VI 1; VI 2]; RenameCol 0 0 1].
Definition w8 : list stmt := [CreateTable 0 [ci 0]; CreateIndex 1 0 5].
Definition w9 : list stmt := [CreateTable 0 [ci 0]; Insert 0 [VI 1]; DropCol 0 0 true].
Definition w12 : list stmt := [CreateTable 0 [ci 0; ci 1]; CreateIndex 0 0 1; DropCol 0 1 true; CreateIndex 0 0 0].

Ltac repaired := split; [vm_compute; reflexivity | vm_compute; reflexivity].
Ltac refute := split; [vm_compute; reflexivity | let Hne := fresh "Hne" in intro Hne; vm_compute in Hne; discriminate Hne].

Lemma add_default_refuted_l : hist_class i_empty w1 = 1 /\ i_run i_empty w1 <> s_run s_empty w1.
Proof. refute. Qed.
Lemma drop_resurrects_repaired_l : hist_class i_empty w2 = 0 /\ i_run i_empty w2 = s_run s_empty w2.
Proof. repaired. Qed.
Lemma drop_other_case_repaired_l : hist_class i_empty w3 = 0 /\ i_run i_empty w3 = s_run s_empty w3.
Proof. repaired. Qed.
Lemma add_duplicate_repaired_l : hist_class i_empty w4 = 0 /\ i_run i_empty w4 = s_run s_empty w4.
Proof. repaired. Qed.
Lemma update_resurrects_repaired_l : hist_class i_empty w5 = 0 /\ i_run i_empty w5 = s_run s_empty w5.
Proof. repaired. Qed.
Lemma rename_indexed_refuted_l : hist_class i_empty w6 = 6 /\ i_run i_empty w6 <> s_run s_empty w6.
Proof. refute. Qed.
Lemma rename_duplicate_repaired_l : hist_class i_empty w7 = 0 /\ i_run i_empty w7 = s_run s_empty w7.
Proof. repaired. Qed.
Lemma index_missing_column_refuted_l : hist_class i_empty w8 = 8 /\ i_run i_empty w8 <> s_run s_empty w8.
Proof. refute. Qed.
Lemma drop_only_column_repaired_l : hist_class i_empty w9 = 0 /\ i_run i_empty w9 = s_run s_empty w9.
Proof. repaired. Qed.

Lemma drop_column_index_file_refuted_l : hist_class i_empty w12 = 12 /\ i_run i_empty w12 <> s_run s_empty w12.
Proof. refute. Qed.

(* non-vacuity of the main theorem: a history with rows that goes through ADD (with and without
   DEFAULT), DROP, RENAME COLUMN, DELETE, TRUNCATE, an index, reopen and DROP / CREATE TABLE and
   stays outside every class *)
Definition good : list stmt :=
  [CreateTable 0 [ci 0; mkCol 1 2 (VT 3)]; Insert 0 [VI 1; VT 1]; InsertOne 0 0 (VI 2);
   AddCol 0 (mkCol 2 1 VN); Insert 0 [VI 3; VT 0; VI 9]; Reopen; RenameCol 0 1 4;
   DropCol 0 0 true; CreateIndex 0 0 4; Truncate 0 false; AddCol 0 (mkCol 5 0 (VI 7));
   InsertOne 0 4 (VT 2); DeleteEq 0 4 (VT 2); DropIndex 0; DropTable 0; CreateTable 0 [ci 1]].
Lemma good_in_scope_l :
  hist_class i_empty good = 0 /\
  nth_error (i_run i_empty good) 7 = Some (true, [TRows [4; 2] [[VT 1; VN]; [VT 3; VN]; [VT 0; VI 9]]; TNone; TNone]).
Proof. split; vm_compute; reflexivity. Qed.
