(* C14: a purely SYNTACTIC fragment on which TurDB's WHERE evaluation is right for every table
   of BIGINT / DOUBLE / TEXT columns, whatever the data (NULLs included):
     AND / OR / TRUE / FALSE over
       a <op> b            with <, >, <>  or with a non-NULL literal on one side
       a IS [NOT] NULL
       a IN ('text', ...)  (text literals)
       a BETWEEN lo AND hi
       a LIKE 'pattern'    (pattern without '%': only '_' wildcards)
     over operands built from columns, literals (also NULL) and + - * .
   Everything else ([NOT] forms, NOT, IN over numbers, LIKE with '%') is right or wrong depending on
   the data: that is what the classes of Model/PredClass.v decide row by row. *)
From Coq Require Import ZArith List Bool Lia.
From TV Require Import Model.SqlSpec Model.PredImpl Model.PredClass
  Proof.SqlSpecLaws Proof.PredBase Proof.PredWhere.
Import ListNotations.
Open Scope Z_scope.

Definition plain_value (v : value) : bool := match v with VBool _ => false | _ => true end.
Definition plain_row (r : row) : bool := forallb plain_value r.

Fixpoint scalar_ok (e : expr) : bool :=
  match e with
  | ECol _ => true
  | ELit (VInt z) => negb (z =? - 2 ^ 63) && i64_ok z
  | ELit (VFloat b) => f_finite b
  | ELit _ => true
  | EArith _ a b => scalar_ok a && scalar_ok b
  | _ => false
  end.
Definition nn_lit (e : expr) : bool := match e with ELit VNull => false | ELit _ => true | _ => false end.
Definition text_lit (e : expr) : bool := match e with ELit (VText _) => true | _ => false end.
Definition nopct_lit (e : expr) : bool := match e with ELit (VText s) => negb (has_pct s) | _ => false end.

Fixpoint frag (e : expr) : bool :=
  match e with
  | EAnd a b | EOr a b => frag a && frag b
  | ELit (VBool _) => true
  | ECmp op a b => scalar_ok a && scalar_ok b && (negb (null_eq_op op) || nn_lit a || nn_lit b)
  | EIsNull _ a => scalar_ok a
  | EIn false a l => scalar_ok a && forallb text_lit l
  | EBetween false a lo hi => scalar_ok a && scalar_ok lo && scalar_ok hi
  | ELike false a p => scalar_ok a && nopct_lit p
  | _ => false
  end.

Lemma plain_nth : forall r i v, plain_row r = true -> nth_error r i = Some v -> plain_value v = true.
Proof.
  induction r as [|x r IH]; intros [|i] v Hp Hn; cbn in *; try discriminate.
  - injection Hn as <-. now apply andb_prop in Hp as [Hp _].
  - apply andb_prop in Hp as [_ Hp]. eapply IH; eassumption.
Qed.

Lemma scalar_ok_cls : forall e r, scalar_ok e = true -> plain_row r = true -> cls_v e r = 0.
Proof.
  induction e as [i|lv|op a IHa b IHb| | | | | | | |]; intros r Hs Hp; cbn [scalar_ok] in Hs; try discriminate; cbn [cls_v].
  - destruct (nth_error r i) as [v|] eqn:E; [|reflexivity].
    pose proof (plain_nth r i v Hp E) as Hv. destruct v; try reflexivity. discriminate.
  - destruct lv as [|z|b|s|b]; try reflexivity.
    + apply andb_prop in Hs as [H1 H2]. apply negb_true_iff in H1. now rewrite H1, H2.
    + now rewrite Hs.
  - apply andb_prop in Hs as [H1 H2]. apply first_nz_0. split; [now apply IHa|now apply IHb].
Qed.

Lemma nn_lit_dnull : forall e r, nn_lit e = true -> dnull e r = false.
Proof. intros [] r H; cbn in *; try discriminate. destruct v; try reflexivity. discriminate. Qed.

Lemma text_lits : forall l r x, forallb text_lit l = true ->
  cls_vl l r = 0 /\ existsb (fun i => dnull i r) l = false /\
  existsb (fun i => eq_differs x (eval i r)) l = false.
Proof.
  induction l as [|i l IH]; intros r x H; [repeat split|].
  cbn [forallb] in H. apply andb_prop in H as [Hi Hl]. destruct (IH r x Hl) as (A & B & C).
  destruct i; cbn in Hi; try discriminate. destruct v as [| | |s|]; try discriminate.
  cbn [cls_vl cls_v existsb dnull eval]. rewrite A, B, C. repeat split.
  cbn [orb]. rewrite orb_false_r. unfold eq_differs. destruct x as [[| | |s'|]|]; try reflexivity.
  cbn [cmp_values inj values_equal].
  destruct (zlist_eqb' s' s) eqn:E1, (bytes_cmp s' s) eqn:E2; try reflexivity; exfalso.
  - apply zlist_eqb'_eq in E1. apply (proj2 (bytes_cmp_eq s' s)) in E1. congruence.
  - apply zlist_eqb'_eq in E1. apply (proj2 (bytes_cmp_eq s' s)) in E1. congruence.
  - apply bytes_cmp_eq in E2. apply (proj2 (zlist_eqb'_eq s' s)) in E2. congruence.
Qed.

Lemma frag_cls : forall e r, frag e = true -> plain_row r = true -> cls_p e r = 0.
Proof.
  induction e as [i|lv|op a IHa b IHb|op a IHa b IHb|a IHa b IHb|a IHa b IHb|a IHa|neg a IHa l|neg a IHa lo IHlo hi IHhi|neg a IHa p IHp|neg a IHa];
    intros r Hf Hp; cbn [frag] in Hf; try discriminate; cbn [cls_p].
  - destruct lv; try discriminate. reflexivity.
  - apply andb_prop in Hf as [Hf H3]. apply andb_prop in Hf as [H1 H2].
    rewrite (scalar_ok_cls a r H1 Hp), (scalar_ok_cls b r H2 Hp). cbn [first_nz Z.eqb].
    apply orb_prop in H3 as [H3|H3]; [apply orb_prop in H3 as [H3|H3]|].
    + apply negb_true_iff in H3. rewrite H3, andb_false_r. reflexivity.
    + rewrite (nn_lit_dnull a r H3). reflexivity.
    + rewrite (nn_lit_dnull b r H3), andb_false_r. reflexivity.
  - apply andb_prop in Hf as [H1 H2]. apply first_nz_0. split; [now apply IHa|now apply IHb].
  - apply andb_prop in Hf as [H1 H2]. apply first_nz_0. split; [now apply IHa|now apply IHb].
  - destruct neg; [discriminate|]. apply andb_prop in Hf as [H1 H2].
    destruct (text_lits l r (eval a r) H2) as (A & B & C).
    rewrite (scalar_ok_cls a r H1 Hp), A. unfold in_class. rewrite B, C, andb_false_r. reflexivity.
  - destruct neg; [discriminate|]. apply andb_prop in Hf as [Hf H3]. apply andb_prop in Hf as [H1 H2].
    rewrite (scalar_ok_cls a r H1 Hp), (scalar_ok_cls lo r H2 Hp), (scalar_ok_cls hi r H3 Hp). reflexivity.
  - destruct neg; [discriminate|]. apply andb_prop in Hf as [H1 H2].
    destruct p as [| v | | | | | | | | |]; cbn in H2; try discriminate. destruct v as [| | |q|]; try discriminate.
    rewrite (scalar_ok_cls a r H1 Hp). cbn [cls_v first_nz Z.eqb]. unfold like_class. cbn [andb eval].
    apply negb_true_iff in H2. destruct (eval a r) as [[| | |s|]|]; try reflexivity.
    now rewrite H2, andb_false_r.
  - now apply scalar_ok_cls.
Qed.

Theorem filter_correct_fragment : forall e r t,
  frag e = true -> plain_row r = true -> sem3 e r = Some t -> eval_expr e r = Ok (tv_is_true t).
Proof. intros e r t Hf Hp Hs. apply where_row_correct; [now apply frag_cls|exact Hs]. Qed.
