//! C18 -- subqueries and set operations follow SQL semantics.
//! Runs generated statements (IN / NOT IN / EXISTS / NOT EXISTS / scalar subqueries, correlated or
//! not, in WHERE / select list / FROM, nested to depth 3, and chains of UNION / INTERSECT / EXCEPT
//! [ALL]) on the real `turdb::Database` and writes what it observed as Coq terms (coq/Corr/C18.v
//! judges them against the reference semantics Model/SubqSpec.v and the implementation models
//! Model/SetOpsImpl.v, Model/SubqImpl.v).
//!   c18 gen    --seed S --tier T --out DIR [--lines FILE]
//!   c18 search --seed S --budget N --out FILE     (oracle only: Rust port of the reference semantics)
//!   c18 sql FILE                                   (debug: run the statements of FILE, print results)
//!   c18 show FILE                                  (debug: replay lines -> SQL text, result, reference)
#[path = "sqlgen/mod.rs"]
mod sqlgen;
#[path = "sqlgen_c18/mod.rs"]
mod subq;
#[path = "sqlgen_c18/gen.rs"]
mod subgen;
use sqlgen::*;
use std::path::PathBuf;
use subgen::*;
use subq::*;
use tvh::*;
use turdb::{Database, OwnedValue};

fn main() {
    let a = Args::parse();
    match a.mode.as_str() {
        "gen" => gen(&a),
        "search" => search(&a),
        "sql" => sql_mode(&a),
        "show" => show_mode(&a, false),
        "diff" => show_mode(&a, true),
        _ => { eprintln!("c18: unknown mode"); std::process::exit(2); }
    }
}

// ------------------------------------------------------------------ the database under test
fn scratch_root() -> PathBuf {
    let exe = std::env::current_exe().ok();
    let base = exe.as_ref().and_then(|p| p.parent()).and_then(|p| p.parent()).and_then(|p| p.parent())
        .map(|p| p.join("tmp")).unwrap_or_else(|| PathBuf::from("/verif/build/tmp"));
    base.join(format!("c18-{}", std::process::id()))
}

struct Sut { db: Option<Database>, dir: PathBuf, seq: u64, loaded: Option<Db> }

#[derive(Clone, Debug, PartialEq)]
enum AOut { Rows(Vec<Vec<Val>>), Err(String), Panic(String), Bad(String) }

impl AOut {
    fn coq(&self) -> String {
        match self {
            AOut::Rows(rs) => {
                let rows: Vec<String> = rs.iter().map(|r| format!("[{}]", r.iter().map(|v| v.to_coq()).collect::<Vec<_>>().join("; "))).collect();
                format!("(ARows [{}])", rows.join("; "))
            }
            AOut::Err(_) => "AErr".into(),
            AOut::Panic(_) => "APanic".into(),
            AOut::Bad(_) => "ABad".into(),
        }
    }
    fn bucket(&self) -> &'static str {
        match self { AOut::Rows(_) => "out:rows", AOut::Err(_) => "out:error", AOut::Panic(_) => "out:panic", AOut::Bad(_) => "out:bad_rows" }
    }
}

fn same_value(v: &Val, o: &OwnedValue) -> bool {
    match (v, o) {
        (Val::Null, OwnedValue::Null) => true,
        (Val::Int(a), OwnedValue::Int(b)) => a == b,
        (Val::Float(a), OwnedValue::Float(b)) => *a == b.to_bits(),
        (Val::Text(a), OwnedValue::Text(b)) => a.as_slice() == b.as_bytes(),
        _ => false,
    }
}
fn to_val(o: &OwnedValue) -> Option<Val> {
    match o {
        OwnedValue::Null => Some(Val::Null),
        OwnedValue::Int(i) => Some(Val::Int(*i)),
        OwnedValue::Float(f) => Some(Val::Float(f.to_bits())),
        OwnedValue::Text(s) => Some(Val::Text(s.as_bytes().to_vec())),
        OwnedValue::Bool(b) => Some(Val::Bool(*b)),
        _ => None,
    }
}

impl Sut {
    fn new() -> Sut { Sut { db: None, dir: scratch_root(), seq: 0, loaded: None } }
    fn close(&mut self) { self.db = None; self.loaded = None; }
    fn cleanup(&mut self) { self.close(); let _ = std::fs::remove_dir_all(&self.dir); }
    /// fresh database holding exactly the tables of `d`; checks that the stored rows read back identically
    fn load(&mut self, d: &Db) -> Result<(), String> {
        self.close();
        self.seq += 1;
        let _ = std::fs::remove_dir_all(&self.dir);
        std::fs::create_dir_all(&self.dir).map_err(|e| format!("mkdir: {}", e))?;
        let path = self.dir.join(format!("db{}", self.seq));
        let d2 = d.clone();
        let res = catch(std::panic::AssertUnwindSafe(move || -> Result<Database, String> {
            let db = Database::create(&path).map_err(|e| format!("create: {:#}", e))?;
            for t in &d2.tables {
                db.execute(&t.create_sql()).map_err(|e| format!("ddl: {:#}", e))?;
                for r in 0..t.rows.len() { db.execute(&t.insert_sql(r)).map_err(|e| format!("insert: {:#}", e))?; }
                let back = db.query(&format!("SELECT * FROM {}", t.name)).map_err(|e| format!("readback: {:#}", e))?;
                if back.len() != t.rows.len() { return Err(format!("readback: {} rows, expected {}", back.len(), t.rows.len())); }
                for (row, got) in t.rows.iter().zip(back.iter()) {
                    if row.len() != got.values.len() || !row.iter().zip(got.values.iter()).all(|(v, o)| same_value(v, o)) {
                        return Err(format!("readback: stored row differs: {:?} vs {:?}", row, got.values));
                    }
                }
            }
            Ok(db)
        }));
        match res {
            Caught::Done(Ok(db)) => { self.db = Some(db); self.loaded = Some(d.clone()); Ok(()) }
            Caught::Done(Err(e)) => Err(e),
            Caught::Panicked(m) => Err(format!("panic during setup: {}", m)),
        }
    }
    fn ensure(&mut self, d: &Db) -> Result<(), String> {
        if self.db.is_some() && self.loaded.as_ref() == Some(d) { Ok(()) } else { self.load(d) }
    }
    fn run_sql(&mut self, sql: &str) -> AOut {
        let db = self.db.as_ref().expect("db");
        let r = catch(std::panic::AssertUnwindSafe(|| db.query(sql).map_err(|e| format!("{:#}", e))));
        match r {
            Caught::Panicked(m) => { self.close(); AOut::Panic(m) }      // do not trust a database that panicked
            Caught::Done(Err(m)) => AOut::Err(m),
            Caught::Done(Ok(rows)) => {
                let mut out = vec![];
                for r in &rows {
                    let vs: Option<Vec<Val>> = r.values.iter().map(to_val).collect();
                    match vs { Some(v) => out.push(v), None => return AOut::Bad(format!("row {:?}", r.values)) }
                }
                AOut::Rows(out)
            }
        }
    }
    fn observe(&mut self, d: &Db, c: &Chain) -> AOut {
        if let Err(m) = self.ensure(d) { return AOut::Bad(format!("setup: {}", m)); }
        self.run_sql(&c.to_sql(d))
    }
}

// ------------------------------------------------------------------ cases
fn emit(w: &mut CaseWriter, sut: &mut Sut, d: &Db, c: &Chain, stream: &str) {
    let out = sut.observe(d, c);
    if let AOut::Bad(m) = &out { eprintln!("c18: unexpected result shape: {} on {}", m, replay_line(d, c)); }
    let term = format!("Case {} {} {} {}", d.widths_coq(), d.to_coq(), c.to_coq(), out.coq());
    let st = stats(d, c);
    let kind = format!("{}:{}", stream, st.shape);
    w.push(term, replay_line(d, c), st.defined && st.interesting, &kind);
    w.count(out.bucket(), 1);
    w.count(&format!("depth:{}", st.depth), 1);
    if !st.defined { w.count("spec:no_demand", 1); }
    if st.spec_error { w.count("spec:error_demanded", 1); }
    for f in &st.features { w.count(&format!("feat:{}", f), 1); }
    let ok = match (&out, spec_chain(d, c)) {
        (AOut::Panic(_), _) | (AOut::Bad(_), _) => false,
        (_, Res::Undef) => true,
        (AOut::Err(_), Res::Err) => true,
        (AOut::Rows(rs), Res::Ok(want)) => bag_eq(&want, rs),
        (AOut::Err(_), Res::Ok(_)) => eager_error(d, c),
        _ => false,
    };
    w.count(if ok { "oracle:agree" } else { "oracle:differ" }, 1);
    w.count(&format!("class:{}", rough_class(d, c)), 1);
    w.count(if modelled(d, c) { "model:covered" } else { "model:not_covered" }, 1);
}

fn gen(a: &Args) {
    let mut w = CaseWriter::new(&a.out, "C18", "Corr.C18", 250);
    let mut sut = Sut::new();
    if let Some(lines) = a.replay_lines() {
        for l in lines {
            match parse_replay(&l) {
                Some((d, c)) => emit(&mut w, &mut sut, &d, &c, "replay"),
                None => eprintln!("c18: cannot parse replay line: {}", l),
            }
        }
        sut.cleanup();
        w.finish(&[]);
        return;
    }
    let mut rng = Rng::new(a.seed);
    // ---- structured stream: every operator / subquery form over small fixed tables
    for (d, c) in structured_cases(a.thorough()) { emit(&mut w, &mut sut, &d, &c, "structured"); }
    // ---- random streams
    let (ndbs, per_db) = if a.thorough() { (700, 40) } else { (60, 14) };
    for k in 0..ndbs {
        let (stream, dc) = stream_cfg(k);
        let d = gen_db(&mut rng, &dc);
        if let Err(m) = sut.load(&d) {
            eprintln!("c18: setup failed ({}): {}", m, d.to_line());
            w.count("setup_failed", 1);
            continue;
        }
        for _ in 0..per_db {
            let c = gen_case(&mut rng, &d, stream);
            emit(&mut w, &mut sut, &d, &c, stream);
        }
    }
    sut.cleanup();
    w.finish(&[]);
}

// ------------------------------------------------------------------ search: oracle only
fn search(a: &Args) {
    let mut rng = Rng::new(a.seed ^ 0xC18_5EA7);
    let mut sut = Sut::new();
    let mut fails: Vec<String> = vec![];
    let mut tried: u64 = 0;
    let budget = a.budget.min(30_000);
    let mut k = 0usize;
    'outer: while tried < budget {
        let (stream, dc) = stream_cfg(k);
        k += 1;
        let d = gen_db(&mut rng, &dc);
        if sut.load(&d).is_err() { tried += 1; continue; }
        for _ in 0..30 {
            let c = gen_case(&mut rng, &d, stream);
            tried += 1;
            let out = sut.observe(&d, &c);
            let ok = match (&out, spec_chain(&d, &c)) {
                (AOut::Panic(_), _) | (AOut::Bad(_), _) => false,
                (_, Res::Undef) => true,
                (AOut::Err(_), Res::Err) => true,
                (AOut::Rows(rs), Res::Ok(want)) => bag_eq(&want, rs),
                (AOut::Err(_), Res::Ok(_)) => eager_error(&d, &c),
                _ => false,
            };
            if !ok {
                let cl = rough_class(&d, &c);
                if fails.len() < 60 && (cl == 0 || fails.len() < 30) { fails.push(format!("{} #k={}", replay_line(&d, &c), cl)); }
            }
            if tried >= budget { break 'outer; }
        }
    }
    sut.cleanup();
    fails.sort_by_key(|f| !f.ends_with("#k=0"));
    let mut out = format!("tried={}\n", tried);
    for f in &fails { out.push_str("FAIL "); out.push_str(f); out.push('\n'); }
    std::fs::write(&a.out, out).expect("write search output");
}

// ------------------------------------------------------------------ debug helpers
fn show(v: &OwnedValue) -> String {
    match v {
        OwnedValue::Null => "NULL".into(),
        OwnedValue::Int(i) => format!("{}", i),
        OwnedValue::Float(f) => format!("{:?}f", f),
        OwnedValue::Text(s) => format!("'{}'", s),
        OwnedValue::Bool(b) => format!("{}", b),
        o => format!("{:?}", o),
    }
}
fn show_rows(rs: &[Vec<Val>]) -> String {
    rs.iter().map(|r| format!("({})", r.iter().map(|v| v.to_sql()).collect::<Vec<_>>().join(","))).collect::<Vec<_>>().join(" ")
}

fn sql_mode(a: &Args) {
    let file = a.rest.get(0).expect("file");
    let dir = scratch_root();
    let _ = std::fs::remove_dir_all(&dir);
    std::fs::create_dir_all(&dir).expect("mkdir");
    let db = Database::create(dir.join("db")).expect("create");
    for l in std::fs::read_to_string(file).unwrap().lines() {
        let l = l.trim();
        if l.is_empty() || l.starts_with('#') { continue; }
        if l.to_uppercase().starts_with("SELECT") {
            let l2 = l.to_string();
            match catch(std::panic::AssertUnwindSafe(|| db.query(&l2))) {
                Caught::Done(Ok(rows)) => {
                    let s: Vec<String> = rows.iter().map(|r| format!("({})", r.values.iter().map(show).collect::<Vec<_>>().join(","))).collect();
                    println!("{}\n   => {}", l, s.join(" "));
                }
                Caught::Done(Err(e)) => println!("{}\n   => ERR {:#}", l, e),
                Caught::Panicked(m) => println!("{}\n   => PANIC {}", l, m),
            }
        } else if let Err(e) = db.execute(l) { println!("{}\n   => ERR {:#}", l, e) }
    }
    drop(db);
    let _ = std::fs::remove_dir_all(&dir);
}

/// replay lines -> SQL, what the database returns, what the reference says
fn show_mode(a: &Args, only_diff: bool) {
    let file = a.rest.get(0).expect("file");
    let mut sut = Sut::new();
    for l in std::fs::read_to_string(file).unwrap().lines() {
        let l = l.trim();
        if l.is_empty() || l.starts_with('#') { continue; }
        match parse_replay(l) {
            None => println!("cannot parse: {}", l),
            Some((d, c)) => {
                if only_diff {
                    let out = sut.observe(&d, &c);
                    let ok = match (&out, spec_chain(&d, &c)) {
                        (AOut::Panic(_), _) | (AOut::Bad(_), _) => false,
                        (_, Res::Undef) => true,
                        (AOut::Err(_), Res::Err) => true,
                        (AOut::Rows(rs), Res::Ok(want)) => bag_eq(&want, rs),
                        (AOut::Err(_), Res::Ok(_)) => eager_error(&d, &c),
                        _ => false,
                    };
                    if ok { continue; }
                }
                for t in &d.tables { println!("-- {} {}", t.name, t.to_line()); }
                println!("{}", c.to_sql(&d));
                match sut.observe(&d, &c) {
                    AOut::Rows(rs) => println!("   impl => {}", show_rows(&rs)),
                    o => println!("   impl => {:?}", o),
                }
                match spec_chain(&d, &c) {
                    Res::Ok(rs) => println!("   spec => {}", show_rows(&rs)),
                    Res::Undef => println!("   spec => (no demand)"),
                    Res::Err => println!("   spec => ERROR demanded"),
                }
                println!("   class(rough) = {}", rough_class(&d, &c));
            }
        }
    }
    sut.cleanup();
}
