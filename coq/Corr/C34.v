(* C34 correspondence: the harness drives the real Freelist (over an in-memory Storage or an
   MmapStorage) through a history of release / allocate / client-write calls and prints,
   per call, the result, head_page() and free_count().  Here the faithful model is run on the
   same history and compared event by event, and the property's oracle (Model/Freelist.v,
   second half: knows nothing about trunks) judges the observed trace.  Definitions only. *)
From Coq Require Import ZArith List Bool.
From TV Require Import Lib.MachInt Gen.FreelistConsts Gen.Freelist.
From TV Require Export Model.Freelist.   (* case files name its constructors *)
Import ListNotations.
Open Scope Z_scope.

(* The harness prints the trace run-length encoded (bulk releases of consecutive pages and
   bulk allocations returning consecutive pages make up almost all of a multi-trunk history);
   [expand] gives back the per-call events, and only those are judged.
     RelRun p n hd c      n calls release(p+k) -> Ok, head_page() = hd, free_count() = c+k
     AllocRun q s n hd c  n calls allocate() -> Some(q+k*s), head_page() = hd, free_count() = c-k *)
Inductive cev := One (e : ev) | RelRun (p n hd c : Z) | AllocRun (q s n hd c : Z).
Inductive case := Case (np : Z) (ctr : list cev).

Fixpoint rel_run (n : nat) (p hd c : Z) : list ev :=
  match n with O => [] | S m => E (Rel p) OOk hd c :: rel_run m (p + 1) hd (c + 1) end.
Fixpoint alloc_run (n : nat) (q s hd c : Z) : list ev :=
  match n with O => [] | S m => E Alloc (OSome q) hd c :: alloc_run m (q + s) s hd (c - 1) end.
Fixpoint expand (l : list cev) : list ev :=
  match l with
  | [] => []
  | One e :: t => e :: expand t
  | RelRun p n hd c :: t => rel_run (Z.to_nat n) p hd c ++ expand t
  | AllocRun q s n hd c :: t => alloc_run (Z.to_nat n) q s hd c ++ expand t
  end.

Definition op_eqb (a b : op) : bool :=
  match a, b with
  | Rel p, Rel q => p =? q
  | Alloc, Alloc => true
  | Poke p i v, Poke q j w => (p =? q) && (i =? j) && (v =? w)
  | _, _ => false
  end.
Definition out_eqb (a b : out) : bool :=
  match a, b with
  | OOk, OOk | ONone, ONone | OErr, OErr | OPanic, OPanic => true
  | OSome p, OSome q => p =? q
  | _, _ => false
  end.
Definition ev_eqb (a b : ev) : bool :=
  match a, b with
  | E o r h c, E o' r' h' c' => op_eqb o o' && out_eqb r r' && (h =? h') && (c =? c')
  end.
Fixpoint tr_eqb (a b : list ev) : bool :=
  match a, b with
  | [], [] => true
  | x :: a', y :: b' => ev_eqb x y && tr_eqb a' b'
  | _, _ => false
  end.

Definition ops_of (tr : list ev) : list op := map (fun e => match e with E o _ _ _ => o end) tr.

(* the model reproduces every result, head_page() and free_count() the implementation showed *)
Definition model_agrees (c : case) : bool :=
  match c with Case np ctr => let tr := expand ctr in tr_eqb (run np (ops_of tr)) tr end.

(* the observed behaviour satisfies the full property -- every allocated page was released and
   not handed out since, no legal call fails, free_count() = what the following allocations
   return -- for a disciplined client (the property says nothing about double frees or
   releasing page 0) *)
Definition spec_ok (c : case) : bool :=
  match c with Case np ctr => property_ok np (expand ctr) end.

(* no recorded finding is open any more (F-C34-1 / F-C34-2 fixed by /repo bad45b6) *)
Definition known_class (c : case) : Z := 0.

Fixpoint failures_from (i : Z) (cs : list case) : list (Z * bool * bool * Z) :=
  match cs with
  | [] => []
  | c :: t =>
      let m := model_agrees c in
      let s := spec_ok c in
      if m && s then failures_from (i + 1) t else (i, m, s, known_class c) :: failures_from (i + 1) t
  end.
Definition failures := failures_from 0.
