(* C21 correspondence: a case is one history run on the real database (fresh directory):
   for every statement the implementation's status (Ok / error-or-panic) and what
   SELECT * FROM t showed afterwards for each table of the universe.  Definitions only. *)
From Coq Require Import ZArith List Bool.
From TV Require Export Model.DdlSpec Model.AlterImpl.
Import ListNotations.
Open Scope Z_scope.

Inductive case := Hist (steps : list (stmt * bool * list tobs)).

Definition stmts_of (c : case) : list stmt := match c with Hist l => map (fun p => fst (fst p)) l end.
Definition seen_of (c : case) : list (bool * list tobs) :=
  match c with Hist l => map (fun p => (snd (fst p), snd p)) l end.

Fixpoint row_eqb (a b : row) : bool :=
  match a, b with
  | [], [] => true
  | x :: a', y :: b' => val_eqb x y && row_eqb a' b'
  | _, _ => false
  end.
Fixpoint rows_eqb (a b : list row) : bool :=
  match a, b with
  | [], [] => true
  | x :: a', y :: b' => row_eqb x y && rows_eqb a' b'
  | _, _ => false
  end.
Fixpoint zs_eqb (a b : list Z) : bool :=
  match a, b with
  | [], [] => true
  | x :: a', y :: b' => (x =? y) && zs_eqb a' b'
  | _, _ => false
  end.
(* remove one occurrence *)
Fixpoint take_row (r : row) (l : list row) : option (list row) :=
  match l with
  | [] => None
  | x :: t => if row_eqb r x then Some t
              else match take_row r t with Some t' => Some (x :: t') | None => None end
  end.
(* equal as bags: SELECT without ORDER BY promises no order *)
Fixpoint bag_eqb (a b : list row) : bool :=
  match a with
  | [] => match b with [] => true | _ => false end
  | r :: a' => match take_row r b with Some b' => bag_eqb a' b' | None => false end
  end.

(* model vs observed: exact, in scan order; TAny = the model does not predict the rows *)
Definition tobs_agree (m o : tobs) : bool :=
  match m, o with
  | TAny, _ => true
  | TNone, TNone => true
  | TErr, TErr => true
  | TRows n r, TRows n' r' => zs_eqb n n' && rows_eqb r r'
  | _, _ => false
  end.
(* relational model vs observed: column names in order, rows as a bag *)
Definition tobs_spec (m o : tobs) : bool :=
  match m, o with
  | TNone, TNone => true
  | TRows n r, TRows n' r' => zs_eqb n n' && bag_eqb r r'
  | _, _ => false
  end.
Fixpoint all2 {A B} (f : A -> B -> bool) (a : list A) (b : list B) : bool :=
  match a, b with
  | [], [] => true
  | x :: a', y :: b' => f x y && all2 f a' b'
  | _, _ => false
  end.
Definition step_eq (f : tobs -> tobs -> bool) (m o : bool * list tobs) : bool :=
  Bool.eqb (fst m) (fst o) && all2 f (snd m) (snd o).

(* From a statement of class 11 on (DML / CREATE INDEX over records shorter than the catalogue's
   column list, read by decoders that do not know them) the model predicts nothing: the
   comparison stops there. *)
Fixpoint agree_run (s : istate) (l : list (stmt * bool * list tobs)) : bool :=
  match l with
  | [] => true
  | (st, ok, obs) :: r =>
      if step_class s st =? 11 then true
      else let '(s', mok) := i_step s st in
           Bool.eqb mok ok && all2 tobs_agree (i_obs s') obs && agree_run s' r
  end.
Definition model_agrees (c : case) : bool := match c with Hist l => agree_run i_empty l end.
Definition spec_ok (c : case) : bool :=
  all2 (step_eq tobs_spec) (s_run s_empty (stmts_of c)) (seen_of c).
Definition known_class (c : case) : Z := hist_class i_empty (stmts_of c).

Fixpoint failures_from (i : Z) (cs : list case) : list (Z * bool * bool * Z) :=
  match cs with
  | [] => []
  | c :: t =>
      let m := model_agrees c in
      let s := spec_ok c in
      if m && s then failures_from (i + 1) t else (i, m, s, known_class c) :: failures_from (i + 1) t
  end.
Definition failures := failures_from 0.
