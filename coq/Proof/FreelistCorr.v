(* C34 proofs, part 4: the predicates evaluated by the comparer (Corr/C34.v) are the ones the
   theorems speak about: a case on which the implementation behaved as the model predicts
   satisfies the property's oracle. *)
From Coq Require Import ZArith List Bool Lia.
From TV Require Import Lib.MachInt Model.Freelist Proof.Freelist Proof.FreelistInv Proof.FreelistTrace Corr.C34.
Import ListNotations.
Open Scope Z_scope.

Lemma op_eqb_eq : forall a b, op_eqb a b = true -> a = b.
Proof.
  intros [p| |p i v] [q| |q j w] H; cbn in H; try discriminate; try reflexivity.
  - apply Z.eqb_eq in H. congruence.
  - apply andb_prop in H. destruct H as [H H3]. apply andb_prop in H. destruct H as [H1 H2].
    apply Z.eqb_eq in H1, H2, H3. congruence.
Qed.
Lemma out_eqb_eq : forall a b, out_eqb a b = true -> a = b.
Proof.
  intros [|p| | |] [|q| | |] H; cbn in H; try discriminate; try reflexivity.
  apply Z.eqb_eq in H. congruence.
Qed.
Lemma tr_eqb_eq : forall a b, tr_eqb a b = true -> a = b.
Proof.
  induction a as [|[o r h c] a IH]; intros [|[o' r' h' c'] b] H; cbn in H; try discriminate; [reflexivity|].
  apply andb_prop in H. destruct H as [H Ht]. apply IH in Ht. subst b.
  apply andb_prop in H. destruct H as [H Hc]. apply andb_prop in H. destruct H as [H Hh].
  apply andb_prop in H. destruct H as [Ho Hr].
  apply op_eqb_eq in Ho. apply out_eqb_eq in Hr. apply Z.eqb_eq in Hh, Hc. congruence.
Qed.

Theorem agreeing_case_satisfies_property_l : forall np ctr, np < 2 ^ 32 ->
  model_agrees (Case np ctr) = true -> spec_ok (Case np ctr) = true.
Proof.
  intros np ctr Hnp Hm. cbn [model_agrees spec_ok] in *.
  apply tr_eqb_eq in Hm. rewrite <- Hm. apply property_holds_l; assumption.
Qed.
