(* C05 - DML results match a relational reference model.  Property theorems only.
   Reference: Model/DmlSpec.v (a table is a bag of rows; INSERT / DELETE / UPDATE / TRUNCATE with
   affected-row counts, RETURNING rows, errors; COUNT star = number of rows; WHERE and SET
   expressions by the shared SQL semantics Model/SqlSpec.v).
   Mechanism model: Model/Tombstone.v (B-tree entries with DELETE_BIT, header row_count, unique
   index of the key column, row-id counter).  `trace false` / `run false` = the code as it is,
   `trace true` = with the proposed repairs.  A trace lists, statement by statement, the
   result, the visible rows and COUNT star.  hist_class = the first recorded finding class a
   history runs into (0 = none; -1 = outside the modelled fragment). *)
From Coq Require Import ZArith List Bool.
From TV Require Import Model.SqlSpec Model.DmlSpec Model.Tombstone Proof.TombBase Proof.TombSame Proof.TombMain.
Import ListNotations.
Open Scope Z_scope.

(* ---- the code as it is: for every schema and every history outside the finding classes, every
        statement reports the reference's affected-row count and RETURNING rows (or its error),
        the table holds exactly the reference's rows and COUNT star is their number *)
Theorem tomb_refines_bag :
  forall sch h tr, wf_schema sch -> hist_class sch t_empty h = 0 ->
    spec_trace sch [] h = Some tr -> trace false sch t_empty h = tr.
Proof. exact TombMain.tomb_refines_bag. Qed.
Check tomb_refines_bag :
  forall sch h tr, wf_schema sch -> hist_class sch t_empty h = 0 ->
    spec_trace sch [] h = Some tr -> trace false sch t_empty h = tr.
Print Assumptions tomb_refines_bag.

(* ---- the mechanism with the proposed repairs: ALL histories of the modelled fragment *)
Theorem repaired_refines :
  forall sch h tr, wf_schema sch -> spec_trace sch [] h = Some tr ->
    modelled_trace (trace true sch t_empty h) -> trace true sch t_empty h = tr.
Proof. exact TombMain.repaired_refines. Qed.
Check repaired_refines :
  forall sch h tr, wf_schema sch -> spec_trace sch [] h = Some tr ->
    modelled_trace (trace true sch t_empty h) -> trace true sch t_empty h = tr.
Print Assumptions repaired_refines.

(* ---- the recorded classes are the ONLY difference between the code and its repair *)
Theorem step_same :
  forall sch st s, stmt_class sch st s = 0 -> step false sch st s = step true sch st s.
Proof. exact TombSame.step_same. Qed.
Check step_same :
  forall sch st s, stmt_class sch st s = 0 -> step false sch st s = step true sch st s.
Print Assumptions step_same.

(* ---- COUNT star (answered from the table header) equals the number of visible rows after
        every statement *)
Theorem count_star_exact :
  forall sch h tr, wf_schema sch -> hist_class sch t_empty h = 0 -> spec_trace sch [] h = Some tr ->
    Forall (fun o => o_cnt o = zlen (o_rows o)) (trace false sch t_empty h).
Proof. exact TombMain.count_star_exact. Qed.
Check count_star_exact :
  forall sch h tr, wf_schema sch -> hist_class sch t_empty h = 0 -> spec_trace sch [] h = Some tr ->
    Forall (fun o => o_cnt o = zlen (o_rows o)) (trace false sch t_empty h).
Print Assumptions count_star_exact.

(* ---- deleted rows never reappear: a row id that has been handed out and is not visible is not
        visible after any further statements (from every state, reachable or not) *)
Theorem never_reappear :
  forall sch h st id, hist_class sch st h = 0 -> id < nextid st -> live_id st id = false ->
    live_id (run false sch st h) id = false.
Proof. exact TombMain.never_reappear. Qed.
Check never_reappear :
  forall sch h st id, hist_class sch st h = 0 -> id < nextid st -> live_id st id = false ->
    live_id (run false sch st h) id = false.
Print Assumptions never_reappear.

Theorem never_reappear_repaired :
  forall sch h st id, id < nextid st -> live_id st id = false -> live_id (run true sch st h) id = false.
Proof. exact TombMain.never_reappear_repaired. Qed.
Check never_reappear_repaired :
  forall sch h st id, id < nextid st -> live_id st id = false -> live_id (run true sch st h) id = false.
Print Assumptions never_reappear_repaired.

(* ---- every exclusion is necessary: one concrete history per finding class on which the code
        as it is differs from the reference (each is replayed on the real Database by every
        check, known_findings.d/C05.json) *)
Theorem classes_refuted :
  refuted 1 s2 h_redelete /\ refuted 2 s2 h_resurrect /\ refuted 3 s2 h_truncate /\
  refuted 4 p2 h_partial /\ refuted 5 p2 h_onepass /\ refuted 6 s3 h_mix /\ refuted 7 s2 h_nullarith.
Proof.
  exact (conj class1_refuted (conj class2_refuted (conj class3_refuted (conj class4_refuted
        (conj class5_refuted (conj class6_refuted class7_refuted)))))).
Qed.
Check classes_refuted :
  refuted 1 s2 h_redelete /\ refuted 2 s2 h_resurrect /\ refuted 3 s2 h_truncate /\
  refuted 4 p2 h_partial /\ refuted 5 p2 h_onepass /\ refuted 6 s3 h_mix /\ refuted 7 s2 h_nullarith.
Print Assumptions classes_refuted.

(* ---- UPDATE of a deleted row makes it visible again; after a repeated DELETE COUNT star is 0
        while a row is visible *)
Theorem never_reappear_refuted :
  let st := run false s2 t_empty [ins1 1 10; SDelete (id_is 1) false] in
  live_id st 1 = false /\ 1 < nextid st /\
  live_id (run false s2 st [SUpdate [(1%nat, ELit (VInt 5))] (id_is 1) false]) 1 = true.
Proof. exact TombMain.never_reappear_refuted. Qed.
Check never_reappear_refuted :
  let st := run false s2 t_empty [ins1 1 10; SDelete (id_is 1) false] in
  live_id st 1 = false /\ 1 < nextid st /\
  live_id (run false s2 st [SUpdate [(1%nat, ELit (VInt 5))] (id_is 1) false]) 1 = true.
Print Assumptions never_reappear_refuted.

Theorem count_star_refuted :
  let st := run false s2 t_empty h_redelete in count_star st = 0 /\ visible st = [[VInt 2; VInt 20]].
Proof. exact TombMain.count_star_refuted. Qed.
Check count_star_refuted :
  let st := run false s2 t_empty h_redelete in count_star st = 0 /\ visible st = [[VInt 2; VInt 20]].
Print Assumptions count_star_refuted.

(* ---- the refuting histories are answered correctly by the repaired mechanism *)
Theorem repaired_witnesses :
  Forall (fun p => exists tr, spec_trace (fst p) [] (snd p) = Some tr /\ trace true (fst p) t_empty (snd p) = tr)
    [(s2, h_redelete); (s2, h_resurrect); (s2, h_truncate); (p2, h_partial); (p2, h_onepass); (s3, h_mix); (s2, h_nullarith)].
Proof. exact TombMain.repaired_witnesses. Qed.
Check repaired_witnesses :
  Forall (fun p => exists tr, spec_trace (fst p) [] (snd p) = Some tr /\ trace true (fst p) t_empty (snd p) = tr)
    [(s2, h_redelete); (s2, h_resurrect); (s2, h_truncate); (p2, h_partial); (p2, h_onepass); (s3, h_mix); (s2, h_nullarith)].
Print Assumptions repaired_witnesses.

(* ---- non-vacuity: a PRIMARY KEY schema is well-formed, and a history with INSERT (multi-row,
        RETURNING), DELETE by key and by predicate, UPDATE with expressions, a refused
        duplicate, and statements that run while the table holds tombstones is outside every
        class, defined in the reference and inside the modelled fragment *)
Definition pk3 : schema := mkSchema KPk [TInt; TInt; TText] [false; false; false].
Definition h_ok : list stmt :=
  [SInsert [[VInt 1; VInt 10; VText [97]]; [VInt 2; VNull; VText [98]]; [VInt 3; VInt 30; VNull]] true;
   SDelete (id_is 2) true;
   SInsert [[VInt 1; VInt 0; VNull]] false;
   SUpdate [(1%nat, EArith AAdd (ECol 1) (ELit (VInt 1))); (2%nat, ELit (VText [122]))] (Some (ECmp CGt (ECol 1) (ELit (VInt 5)))) true;
   SDelete (Some (ECmp CGt (ECol 1) (ELit (VInt 30)))) false;
   SInsert [[VInt 2; VInt 7; VText [99]]] false;
   SDelete (id_is 2) true].
Example wf_pk3 : wf_schema pk3.
Proof. intros _. eexists. reflexivity. Qed.
Example h_ok_in_scope :
  hist_class pk3 t_empty h_ok = 0 /\ (exists tr, spec_trace pk3 [] h_ok = Some tr) /\
  existsb e_del (ents (run false pk3 t_empty h_ok)) = true /\
  zlen (visible (run false pk3 t_empty h_ok)) = 1.
Proof. split; [vm_compute; reflexivity|]. split; [eexists; vm_compute; reflexivity|]. split; vm_compute; reflexivity. Qed.
