(* C17 - Joins return the SQL-defined rows under any memory budget.
   Property theorems only.  Spec: Model/JoinSpec.v (join_g / join_rows / query_spec: the nested-loop
   definition of INNER / LEFT / RIGHT / FULL / CROSS joins over bags, ON under sem3 = TRUE).
   Implementation models: Model/JoinExec.v (the Volcano join executors of src/sql/executor.rs and
   PartitionSpiller through C33's Model/RowSerde.v), Model/JoinHw.v (the hand-written two-table join
   path of Database::query and the finding classes).  Proofs: Proof/JoinBag.v, JoinExec.v, JoinSpill.v,
   JoinKeys.v, JoinHw.v, JoinTop.v, JoinRefute.v.  Results are bags: Permutation / bag_eqb. *)
From Coq Require Import ZArith List Bool Permutation.
From TV Require Import Model.SqlSpec Model.PredImpl Model.JoinSpec Model.JoinExec Model.JoinHw Corr.C17
  Proof.JoinBag Proof.JoinExec Proof.JoinSpill Proof.JoinKeys Proof.JoinHw Proof.JoinTop Proof.JoinRefute.
Import ListNotations.
Open Scope Z_scope.

(* the nested-loop executor (one pass over the left input, matched flags, unmatched right rows last)
   returns the SQL join for every condition, join type and pair of inputs *)
Theorem nested_loop_is_sql_join :
  forall (A B C : Type) (both : A -> B -> C) (lonly : A -> C) (ronly : B -> C) (jt : jtype) (on : A -> B -> bool) (L : list A) (R : list B), Permutation (nl_exec both lonly ronly jt on L R) (join_g on both lonly ronly jt L R).
Proof. exact nl_exec_spec_l. Qed.

(* one hash partition: build table on the left rows, probe with the right rows, unmatched probe rows on
   the spot, unmatched build rows at the end = the SQL join under "same hash and keys_match" *)
Theorem hash_partition_is_sql_join :
  forall (A B C : Type) (both : A -> B -> C) (lonly : A -> C) (ronly : B -> C) (jt : jtype) (hl : A -> Z) (hr : B -> Z) (km : A -> B -> bool) (build : list A) (probe : list B), Permutation (part_exec both lonly ronly jt hl hr km build probe) (join_g (hit hl hr km) both lonly ronly jt build probe).
Proof. exact part_exec_spec_l. Qed.

(* the streaming hash join (one table over the whole build side), for every hash that respects the match *)
Theorem streaming_hash_is_sql_join :
  forall (A B C : Type) (both : A -> B -> C) (lonly : A -> C) (ronly : B -> C) (jt : jtype) (hl : A -> Z) (hr : B -> Z) (km : A -> B -> bool), (forall l r, km l r = true -> hl l = hr r) -> forall (L : list A) (R : list B), Permutation (part_exec both lonly ronly jt hl hr km L R) (join_g km both lonly ronly jt L R).
Proof. exact streaming_is_join_l. Qed.

(* grace hash join = the SQL join, for EVERY hash function that respects the key comparison and EVERY
   partition count *)
Theorem grace_is_sql_join :
  forall (A B C : Type) (both : A -> B -> C) (lonly : A -> C) (ronly : B -> C) (jt : jtype) (hl : A -> Z) (hr : B -> Z) (km : A -> B -> bool) (n : Z), 0 < n -> (forall l r, km l r = true -> hl l = hr r) -> forall (L : list A) (R : list B), exists out, grace_exec both lonly ronly jt hl hr km n Some Some L R = Some out /\ Permutation out (join_g km both lonly ronly jt L R).
Proof. exact grace_exec_spec_l. Qed.

(* ... hence the same bag as the nested-loop join: the result does not depend on the algorithm *)
Theorem grace_eq_nested :
  forall (A B C : Type) (both : A -> B -> C) (lonly : A -> C) (ronly : B -> C) (jt : jtype) (hl : A -> Z) (hr : B -> Z) (km : A -> B -> bool) (n : Z), 0 < n -> (forall l r, km l r = true -> hl l = hr r) -> forall (L : list A) (R : list B), exists out, grace_exec both lonly ronly jt hl hr km n Some Some L R = Some out /\ Permutation out (nl_exec both lonly ronly jt km L R).
Proof. exact grace_vs_nested_l. Qed.

(* ... nor on the partition count or the hash function *)
Theorem grace_partitions_irrelevant :
  forall (A B C : Type) (both : A -> B -> C) (lonly : A -> C) (ronly : B -> C) (jt : jtype) (hl hl' : A -> Z) (hr hr' : B -> Z) (km : A -> B -> bool) (n n' : Z), 0 < n -> 0 < n' -> (forall l r, km l r = true -> hl l = hr r) -> (forall l r, km l r = true -> hl' l = hr' r) -> forall (L : list A) (R : list B), exists out out', grace_exec both lonly ronly jt hl hr km n Some Some L R = Some out /\ grace_exec both lonly ronly jt hl' hr' km n' Some Some L R = Some out' /\ Permutation out out'.
Proof. exact partitions_irrelevant_l. Qed.

(* spilling: what PartitionSpiller hands back is what was written, for every byte budget (uses C33:
   Proof/RowSerde.v deser_ser_rows_l) *)
Theorem spill_transparent :
  forall budget rows, forallb srow_ok rows = true -> spill_rows budget rows = Some rows.
Proof. exact spill_rows_id_l. Qed.

(* the grace hash join executor with a spill directory emits, under ANY memory budget, exactly what it
   emits in memory *)
Theorem grace_budget_independent :
  forall jt n lk rk lw rw budget sw (L R : list hrow), forallb srow_ok L = true -> forallb srow_ok R = true -> exec_model AGraceDyn jt n (Some budget) sw lk rk lw rw L R = exec_model AGraceDyn jt n None sw lk rk lw rw L R.
Proof. exact grace_spill_transparent_l. Qed.

(* ... which is the SQL join of the two inputs under keys_match_static, for every join type, partition
   count, budget and every hash oracle that gives matching rows the same hash *)
Theorem grace_dyn_is_sql_join :
  forall jt n lk rk lw rw spill sw (L R : list hrow), 0 < n -> (forall l r : hrow, keys_match_static (fst l) (fst r) lk rk = true -> snd l = snd r) -> (spill = None \/ (forallb srow_ok L = true /\ forallb srow_ok R = true)) -> exists t, exec_model AGraceDyn jt n spill sw lk rk lw rw L R = XRows t /\ Permutation t (join_rows jt lw rw (fun l r => keys_match_static l r lk rk) (map fst L) (map fst R)).
Proof. exact grace_dyn_is_join_l. Qed.

(* keys_match_static is SQL equality of the key columns wherever the reference semantics defines it
   (NULL never matches; Int / Float by value) *)
Theorem keys_match_is_sql_eq :
  forall lw lk rk (l r : row), length l = lw -> length lk = length rk -> Forall (fun i => (i < lw)%nat) lk -> forallb no_bool l = true -> forallb no_bool r = true -> on3 (keys_expr lw lk rk) l r <> None -> keys_match_static l r lk rk = on_tt (keys_expr lw lk rk) l r.
Proof. exact keys_match_is_sql_eq_l. Qed.

(* the hand-written two-table path of Database::query (repaired code) returns exactly the rows SQL
   defines, for ALL tables, join types, ON / WHERE conditions, select lists (SELECT * included) and both
   naming styles -- no finding class is excluded -- given that predicate evaluation agrees with the
   reference on the rows it sees (C14) *)
Theorem hw_join_correct :
  forall jt lw rw qual on w sel (L R : table) t s, let q := mkq [(lw, L); (rw, R)] [(jt, on)] w sel in Forall (fun l => length l = lw) L -> (forall e, opt_on jt on = Some e -> pred_ok e (pairs_of L R)) -> (forall e, w = Some e -> pred_ok e (join_rows jt lw rw (pair_tt (opt_on jt on)) L R)) -> hw_model q qual = HRows t -> query_spec q = Some s -> t = s.
Proof. exact hw2_correct_l. Qed.

(* the finding classes repaired in /repo (1, 2, 3, 4, 8, 10): on their former witnesses the models of the
   repaired code return what the implementation now returns, and that is the SQL join *)
Theorem repaired_classes_regression :
  repaired w1 = true /\ repaired w2 = true /\ repaired w3 = true /\ repaired w4 = true /\ repaired w8 = true /\ repaired w10 = true /\ repaired w3s = true.
Proof. exact repaired_classes_regression_l. Qed.

(* no finding class is left for two-table joins (the open classes 5, 6, 7 concern three or more tables) *)
Theorem two_table_classes_closed :
  forall t1 t2 j w sel qual, cls_sql (mkq [t1; t2] [j] w sel) qual = 0.
Proof. exact two_table_classes_closed_l. Qed.

(* the hash hypothesis of grace_is_sql_join on the former class-1 witness: Int 1 and Float 1.0 match and
   (since dff11cf, hash_join_key) carry the same DefaultHasher value *)
Theorem hash_respects_on_witness :
  keys_match_static [VInt 1; VInt 10] [VFloat 4607182418800017408; VInt 100] [0%nat] [0%nat] = true /\ (match w1 with Exec _ _ _ _ _ _ _ _ _ L R _ => forallb (fun l => forallb (fun r => implb (keys_match_static (fst l) (fst r) [0%nat] [0%nat]) (snd l =? snd r)) R) L | _ => false end) = true.
Proof. exact hash_respects_on_w1_l. Qed.

(* bag_eqb, the comparison used by the correspondence, is multiset equality *)
Theorem bag_eqb_is_permutation :
  forall a b, bag_eqb a b = true <-> Permutation a b.
Proof. exact bag_eqb_iff. Qed.

(* non-vacuity: duplicate and NULL keys, a FULL join over 3 partitions with a 64-byte budget; the
   hypotheses of grace_dyn_is_sql_join hold and the result has matched, left-only and right-only
   rows; a two-table query outside every class on which hw_join_correct speaks *)
Example c17_witness :
  let L : list hrow := [([VInt 1; VInt 1], 11); ([VInt 2; VInt 1], 11); ([VInt 3; VNull], 0); ([VInt 4; VInt 5], 55)] in
  let R : list hrow := [([VInt 1; VInt 10], 11); ([VNull; VInt 20], 0); ([VInt 7; VInt 30], 77); ([VInt 1; VInt 40], 11)] in
  forallb srow_ok L = true /\ forallb srow_ok R = true /\
  forallb (fun l => forallb (fun r => implb (keys_match_static (fst l) (fst r) [1%nat] [0%nat]) (snd l =? snd r)) R) L = true /\
  match exec_model AGraceDyn JFull 3 (Some 64) false [1%nat] [0%nat] 2 2 L R with
  | XRows t => bag_eqb t (join_rows JFull 2 2 (fun l r => keys_match_static l r [1%nat] [0%nat]) (map fst L) (map fst R)) && (length t =? 8)%nat
  | _ => false
  end = true /\
  let q := mkq [(3%nat, ta3); (3%nat, tb3)] [(JFull, Some (ECmp CEq (ECol 1) (ECol 4)))] None (Some [0%nat; 3%nat]) in
  hw_model q false = HRows [[VInt 1; VInt 1]; [VInt 1; VInt 2]; [VInt 2; VInt 1]; [VInt 2; VInt 2]; [VInt 3; VNull]] /\
  query_spec q = Some [[VInt 1; VInt 1]; [VInt 1; VInt 2]; [VInt 2; VInt 1]; [VInt 2; VInt 2]; [VInt 3; VNull]].
Proof. vm_compute. repeat split. Qed.

Check nested_loop_is_sql_join : forall (A B C : Type) (both : A -> B -> C) (lonly : A -> C) (ronly : B -> C) (jt : jtype) (on : A -> B -> bool) (L : list A) (R : list B), Permutation (nl_exec both lonly ronly jt on L R) (join_g on both lonly ronly jt L R).
Check hash_partition_is_sql_join : forall (A B C : Type) (both : A -> B -> C) (lonly : A -> C) (ronly : B -> C) (jt : jtype) (hl : A -> Z) (hr : B -> Z) (km : A -> B -> bool) (build : list A) (probe : list B), Permutation (part_exec both lonly ronly jt hl hr km build probe) (join_g (hit hl hr km) both lonly ronly jt build probe).
Check streaming_hash_is_sql_join : forall (A B C : Type) (both : A -> B -> C) (lonly : A -> C) (ronly : B -> C) (jt : jtype) (hl : A -> Z) (hr : B -> Z) (km : A -> B -> bool), (forall l r, km l r = true -> hl l = hr r) -> forall (L : list A) (R : list B), Permutation (part_exec both lonly ronly jt hl hr km L R) (join_g km both lonly ronly jt L R).
Check grace_is_sql_join : forall (A B C : Type) (both : A -> B -> C) (lonly : A -> C) (ronly : B -> C) (jt : jtype) (hl : A -> Z) (hr : B -> Z) (km : A -> B -> bool) (n : Z), 0 < n -> (forall l r, km l r = true -> hl l = hr r) -> forall (L : list A) (R : list B), exists out, grace_exec both lonly ronly jt hl hr km n Some Some L R = Some out /\ Permutation out (join_g km both lonly ronly jt L R).
Check grace_eq_nested : forall (A B C : Type) (both : A -> B -> C) (lonly : A -> C) (ronly : B -> C) (jt : jtype) (hl : A -> Z) (hr : B -> Z) (km : A -> B -> bool) (n : Z), 0 < n -> (forall l r, km l r = true -> hl l = hr r) -> forall (L : list A) (R : list B), exists out, grace_exec both lonly ronly jt hl hr km n Some Some L R = Some out /\ Permutation out (nl_exec both lonly ronly jt km L R).
Check grace_partitions_irrelevant : forall (A B C : Type) (both : A -> B -> C) (lonly : A -> C) (ronly : B -> C) (jt : jtype) (hl hl' : A -> Z) (hr hr' : B -> Z) (km : A -> B -> bool) (n n' : Z), 0 < n -> 0 < n' -> (forall l r, km l r = true -> hl l = hr r) -> (forall l r, km l r = true -> hl' l = hr' r) -> forall (L : list A) (R : list B), exists out out', grace_exec both lonly ronly jt hl hr km n Some Some L R = Some out /\ grace_exec both lonly ronly jt hl' hr' km n' Some Some L R = Some out' /\ Permutation out out'.
Check spill_transparent : forall budget rows, forallb srow_ok rows = true -> spill_rows budget rows = Some rows.
Check grace_budget_independent : forall jt n lk rk lw rw budget sw (L R : list hrow), forallb srow_ok L = true -> forallb srow_ok R = true -> exec_model AGraceDyn jt n (Some budget) sw lk rk lw rw L R = exec_model AGraceDyn jt n None sw lk rk lw rw L R.
Check grace_dyn_is_sql_join : forall jt n lk rk lw rw spill sw (L R : list hrow), 0 < n -> (forall l r : hrow, keys_match_static (fst l) (fst r) lk rk = true -> snd l = snd r) -> (spill = None \/ (forallb srow_ok L = true /\ forallb srow_ok R = true)) -> exists t, exec_model AGraceDyn jt n spill sw lk rk lw rw L R = XRows t /\ Permutation t (join_rows jt lw rw (fun l r => keys_match_static l r lk rk) (map fst L) (map fst R)).
Check keys_match_is_sql_eq : forall lw lk rk (l r : row), length l = lw -> length lk = length rk -> Forall (fun i => (i < lw)%nat) lk -> forallb no_bool l = true -> forallb no_bool r = true -> on3 (keys_expr lw lk rk) l r <> None -> keys_match_static l r lk rk = on_tt (keys_expr lw lk rk) l r.
Check hw_join_correct : forall jt lw rw qual on w sel (L R : table) t s, let q := mkq [(lw, L); (rw, R)] [(jt, on)] w sel in Forall (fun l => length l = lw) L -> (forall e, opt_on jt on = Some e -> pred_ok e (pairs_of L R)) -> (forall e, w = Some e -> pred_ok e (join_rows jt lw rw (pair_tt (opt_on jt on)) L R)) -> hw_model q qual = HRows t -> query_spec q = Some s -> t = s.
Check repaired_classes_regression : repaired w1 = true /\ repaired w2 = true /\ repaired w3 = true /\ repaired w4 = true /\ repaired w8 = true /\ repaired w10 = true /\ repaired w3s = true.
Check two_table_classes_closed : forall t1 t2 j w sel qual, cls_sql (mkq [t1; t2] [j] w sel) qual = 0.
Check hash_respects_on_witness : keys_match_static [VInt 1; VInt 10] [VFloat 4607182418800017408; VInt 100] [0%nat] [0%nat] = true /\ (match w1 with Exec _ _ _ _ _ _ _ _ _ L R _ => forallb (fun l => forallb (fun r => implb (keys_match_static (fst l) (fst r) [0%nat] [0%nat]) (snd l =? snd r)) R) L | _ => false end) = true.
Check bag_eqb_is_permutation : forall a b, bag_eqb a b = true <-> Permutation a b.

Print Assumptions nested_loop_is_sql_join.
Print Assumptions hash_partition_is_sql_join.
Print Assumptions streaming_hash_is_sql_join.
Print Assumptions grace_is_sql_join.
Print Assumptions grace_eq_nested.
Print Assumptions grace_partitions_irrelevant.
Print Assumptions spill_transparent.
Print Assumptions grace_budget_independent.
Print Assumptions grace_dyn_is_sql_join.
Print Assumptions keys_match_is_sql_eq.
Print Assumptions hw_join_correct.
Print Assumptions repaired_classes_regression.
Print Assumptions two_table_classes_closed.
Print Assumptions hash_respects_on_witness.
Print Assumptions bag_eqb_is_permutation.
