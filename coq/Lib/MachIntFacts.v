(* Lemmas about Lib/MachInt.v shared by the proofs over regenerated code. *)
From Coq Require Import ZArith List Bool Lia ZifyBool.
From TV Require Import Lib.MachInt.
Import ListNotations.
Open Scope Z_scope.

Lemma wrap_u_small bits x : 0 <= x < 2 ^ bits -> wrap_u bits x = x.
Proof. intros H. unfold wrap_u. apply Z.mod_small. exact H. Qed.

Lemma in_u_true bits x : in_u bits x = true <-> 0 <= x < 2 ^ bits.
Proof. unfold in_u. rewrite andb_true_iff, Z.leb_le, Z.ltb_lt. tauto. Qed.

Lemma in_s_true bits x : in_s bits x = true <-> - 2 ^ (bits - 1) <= x < 2 ^ (bits - 1).
Proof. unfold in_s. rewrite andb_true_iff, Z.leb_le, Z.ltb_lt. tauto. Qed.

Lemma blen_cons x t : blen (x :: t) = 1 + blen t.
Proof. unfold blen. cbn [length]. lia. Qed.
Lemma blen_nil : blen [] = 0.
Proof. reflexivity. Qed.
Lemma blen_nonneg b : 0 <= blen b.
Proof. unfold blen. lia. Qed.
Lemma blen_app a b : blen (a ++ b) = blen a + blen b.
Proof. unfold blen. rewrite app_length. lia. Qed.

Lemma upd_nat_length b i v : length (upd_nat b i v) = length b.
Proof.
  revert i. induction b as [|h t IH]; intros [|i]; cbn [upd_nat length]; try reflexivity.
  rewrite IH. reflexivity.
Qed.

Lemma blen_bupd b i v : blen (bupd b i v) = blen b.
Proof. unfold blen, bupd. rewrite upd_nat_length. reflexivity. Qed.

Lemma bupd_slice_nat_length vs : forall b i, length (bupd_slice_nat b i vs) = length b.
Proof.
  induction vs as [|v vs IH]; intros b i; cbn [bupd_slice_nat]; [reflexivity|].
  rewrite IH, upd_nat_length. reflexivity.
Qed.

Lemma blen_bupd_slice b lo vs : blen (bupd_slice b lo vs) = blen b.
Proof. unfold blen, bupd_slice. rewrite bupd_slice_nat_length. reflexivity. Qed.

Lemma bidx_ok_bupd b i v j : bidx_ok (bupd b i v) j = bidx_ok b j.
Proof. unfold bidx_ok. rewrite blen_bupd. reflexivity. Qed.

Lemma blen_bslice b lo hi : bslice_ok b lo hi = true -> blen (bslice b lo hi) = hi - lo.
Proof.
  unfold bslice_ok, bslice, blen. intros H.
  rewrite firstn_length, skipn_length. lia.
Qed.

Lemma bytes_ok_bidx b i : bytes_ok b = true -> 0 <= i < blen b -> 0 <= bidx b i < 256.
Proof.
  unfold bytes_ok, bidx, blen. intros Hb Hi.
  rewrite forallb_forall in Hb.
  assert (Hin : In (nth (Z.to_nat i) b 0) b) by (apply nth_In; lia).
  specialize (Hb _ Hin). unfold is_byte in Hb. lia.
Qed.

Lemma bytes_ok_cons x t : bytes_ok (x :: t) = true <-> (0 <= x < 256 /\ bytes_ok t = true).
Proof. unfold bytes_ok. cbn [forallb]. unfold is_byte. rewrite andb_true_iff. lia. Qed.

Lemma zlist_eqb_eq a : forall b, zlist_eqb a b = true <-> a = b.
Proof.
  induction a as [|x a IH]; intros [|y b]; cbn [zlist_eqb]; try (split; congruence).
  rewrite andb_true_iff, Z.eqb_eq, IH. split; [intros [-> ->]; reflexivity | intros H; inversion H; auto].
Qed.

(* zfold: induction principle used for `for` loops *)
Lemma zfold_n_S {A} n i (f : Z -> A -> A) a :
  zfold_n (S n) i f a = f (i + Z.of_nat n) (zfold_n n i f a).
Proof.
  revert i a. induction n as [|n IH]; intros i a.
  - cbn. replace (i + 0) with i by lia. reflexivity.
  - change (zfold_n (S (S n)) i f a) with (zfold_n (S n) (i + 1) f (f i a)).
    rewrite IH. cbn [zfold_n]. f_equal. lia.
Qed.

Lemma zfold_empty {A} lo hi (f : Z -> A -> A) a : hi <= lo -> zfold lo hi f a = a.
Proof. intros H. unfold zfold. replace (Z.to_nat (hi - lo)) with O by lia. reflexivity. Qed.

Lemma zfold_step {A} lo hi (f : Z -> A -> A) a :
  lo <= hi -> zfold lo (hi + 1) f a = f hi (zfold lo hi f a).
Proof.
  intros H. unfold zfold.
  replace (Z.to_nat (hi + 1 - lo)) with (S (Z.to_nat (hi - lo))) by lia.
  rewrite zfold_n_S. f_equal. lia.
Qed.
