//! C13 -- bound parameters behave like the equivalent literals.
//!
//! Two kinds of cases are written for coq/Corr/C13.v:
//!   Lex  the token stream of the REAL `turdb::sql::Lexer` (kind, span of every token) and
//!        `count_parameters` on hostile SQL text; the model lexer must reproduce it;
//!   Run  one statement with placeholders, two parameter vectors, one execution path
//!        (execute_with_params / prepare().bind().execute() first + second execution /
//!        prepare().bind().query()) against `Database::execute` on the statement with every
//!        placeholder replaced by the equivalent literal; results and full-table state are compared
//!        as digests.  Every path runs on its own fresh database holding the same table.
//!
//!   c13 gen    --seed S --tier T --out DIR [--lines FILE]
//!   c13 search --seed S --budget N --out FILE      (oracle only: differential on the implementation)
//!   c13 show   --lines FILE                         (debug: print what every path observed)
use std::path::PathBuf;
use tvh::*;
use turdb::sql::{Lexer, Parameter, Token};
use turdb::{Database, OwnedValue};

fn main() {
    let a = Args::parse();
    match a.mode.as_str() {
        "gen" => gen(&a),
        "search" => search(&a),
        "show" => show_mode(&a),
        _ => { eprintln!("c13: unknown mode"); std::process::exit(2); }
    }
}

// ------------------------------------------------------------------ values
#[derive(Clone, Debug, PartialEq)]
enum Val { Null, Bool(bool), Int(i64), Text(String), Blob(Vec<u8>), Float(f64) }

impl Val {
    fn owned(&self) -> OwnedValue {
        match self {
            Val::Null => OwnedValue::Null,
            Val::Bool(b) => OwnedValue::Bool(*b),
            Val::Int(i) => OwnedValue::Int(*i),
            Val::Text(s) => OwnedValue::Text(s.clone()),
            Val::Blob(b) => OwnedValue::Blob(b.clone()),
            Val::Float(f) => OwnedValue::Float(*f),
        }
    }
    /// what value_to_sql_literal prints for a float: Rust's `{:?}` (an oracle column of the model)
    fn float_shown(f: f64) -> String {
        if f.is_nan() { "'NaN'".into() }
        else if f.is_infinite() { if f.is_sign_positive() { "'Infinity'".into() } else { "'-Infinity'".into() } }
        else { format!("{:?}", f) }
    }
    /// harness copy of value_to_sql_literal (private in /repo); checked against the Coq model on every case
    fn shown(&self) -> String {
        match self {
            Val::Null => "NULL".into(),
            Val::Bool(b) => if *b { "TRUE".into() } else { "FALSE".into() },
            Val::Int(i) => i.to_string(),
            Val::Text(s) => format!("'{}'", s.replace('\'', "''")),
            Val::Blob(b) => format!("X'{}'", hex(b)),
            Val::Float(f) => Val::float_shown(*f),
        }
    }
    /// the equivalent SQL literal of the property's reference statement.  Floats: Rust's shortest
    /// round-trip form, which always lexes as a Float token (`1.0`, `1e300`, `1e-7`).
    fn canon(&self) -> String { self.shown() }
    fn coq(&self) -> String {
        match self {
            Val::Null => "VNull".into(),
            Val::Bool(b) => format!("(VBool {})", cbool(*b)),
            Val::Int(i) => format!("(VInt {})", z(*i)),
            Val::Text(s) => format!("(VText {})", cbytes(s.as_bytes())),
            Val::Blob(b) => format!("(VBlob {})", cbytes(b)),
            Val::Float(f) => format!("(VFloat {} {})", f.to_bits(), cbytes(Val::float_shown(*f).as_bytes())),
        }
    }
    fn enc(&self) -> String {
        match self {
            Val::Null => "n".into(),
            Val::Bool(b) => if *b { "t".into() } else { "f".into() },
            Val::Int(i) => format!("i{}", i),
            Val::Text(s) => format!("s{}", hex(s.as_bytes())),
            Val::Blob(b) => format!("x{}", hex(b)),
            Val::Float(f) => format!("d{:016x}", f.to_bits()),
        }
    }
    fn dec(s: &str) -> Option<Val> {
        let (h, r) = s.split_at(1.min(s.len()));
        Some(match h {
            "n" => Val::Null,
            "t" => Val::Bool(true),
            "f" => Val::Bool(false),
            "i" => Val::Int(r.parse().ok()?),
            "s" => Val::Text(String::from_utf8(unhex(r)).ok()?),
            "x" => Val::Blob(unhex(r)),
            "d" => Val::Float(f64::from_bits(u64::from_str_radix(r, 16).ok()?)),
            _ => return None,
        })
    }
    fn finite(&self) -> bool { match self { Val::Float(f) => f.is_finite(), _ => true } }
}

fn enc_vals(v: &[Val]) -> String { if v.is_empty() { "-".into() } else { v.iter().map(|x| x.enc()).collect::<Vec<_>>().join(",") } }
fn dec_vals(s: &str) -> Option<Vec<Val>> { if s == "-" { Some(vec![]) } else { s.split(',').map(Val::dec).collect() } }

// ------------------------------------------------------------------ statements with placeholders
#[derive(Clone, Debug, PartialEq)]
enum Piece { Lit(String), Anon, Pos(u32) }

#[derive(Clone, Debug, PartialEq)]
struct Stmt { pieces: Vec<Piece> }

impl Stmt {
    fn sql(&self) -> String {
        let mut s = String::new();
        for p in &self.pieces {
            match p { Piece::Lit(t) => s.push_str(t), Piece::Anon => s.push('?'), Piece::Pos(n) => { s.push('$'); s.push_str(&n.to_string()); } }
        }
        s
    }
    /// number of values to bind: anonymous placeholders in order, or the largest $N
    fn arity(&self) -> usize {
        let anon = self.pieces.iter().filter(|p| matches!(p, Piece::Anon)).count();
        let maxp = self.pieces.iter().filter_map(|p| if let Piece::Pos(n) = p { Some(*n as usize) } else { None }).max().unwrap_or(0);
        if maxp > 0 { maxp } else { anon }
    }
    fn has_ph(&self) -> bool { self.pieces.iter().any(|p| !matches!(p, Piece::Lit(_))) }
    /// the reference statement: every placeholder replaced by the equivalent literal, as a token of
    /// its own (a space on either side)
    fn inline(&self, ps: &[Val]) -> Option<String> {
        let mut s = String::new();
        let mut k = 0usize;
        for p in &self.pieces {
            match p {
                Piece::Lit(t) => s.push_str(t),
                Piece::Anon => { s.push(' '); s.push_str(&ps.get(k)?.canon()); s.push(' '); k += 1; }
                Piece::Pos(n) => { s.push(' '); s.push_str(&ps.get((*n as usize).checked_sub(1)?)?.canon()); s.push(' '); }
            }
        }
        Some(s)
    }
    fn kind(&self) -> &'static str {
        let s = self.sql();
        let t = s.trim_start().to_ascii_uppercase();
        if t.starts_with("SELECT") { "select" } else if t.starts_with("INSERT") { "insert" }
        else if t.starts_with("UPDATE") { "update" } else if t.starts_with("DELETE") { "delete" } else { "other" }
    }
    fn coq(&self) -> String {
        clist(&self.pieces.iter().map(|p| match p {
            Piece::Lit(t) => format!("Lit {}", cbytes(t.as_bytes())),
            Piece::Anon => "PhA".to_string(),
            Piece::Pos(n) => format!("PhP {}", n),
        }).collect::<Vec<_>>())
    }
    fn enc(&self) -> String {
        self.pieces.iter().map(|p| match p {
            Piece::Lit(t) => format!("L{}", hex(t.as_bytes())),
            Piece::Anon => "A".to_string(),
            Piece::Pos(n) => format!("P{}", n),
        }).collect::<Vec<_>>().join(",")
    }
    fn dec(s: &str) -> Option<Stmt> {
        let mut pieces = vec![];
        for part in s.split(',') {
            let (h, r) = part.split_at(1.min(part.len()));
            pieces.push(match h {
                "L" => Piece::Lit(String::from_utf8(unhex(r)).ok()?),
                "A" => Piece::Anon,
                "P" => Piece::Pos(r.parse().ok()?),
                _ => return None,
            });
        }
        Some(Stmt { pieces })
    }
}

// ------------------------------------------------------------------ the real lexer
/// token code of the correspondence (coq/Corr/C13.v tok_code)
fn tok_code(t: &Token) -> (u32, u64) {
    match t {
        Token::Parameter(Parameter::Anonymous) => (1, 0),
        Token::Parameter(Parameter::Positional(n)) => (2, *n as u64),
        Token::Parameter(Parameter::Named(_)) => (3, 0),
        Token::String(_) => (4, 0),
        Token::Integer(_) => (5, 0),
        Token::Float(_) => (6, 0),
        Token::Keyword(_) | Token::Ident(_) => (7, 0),
        Token::QuotedIdent(_) => (8, 0),
        Token::HexNumber(_) | Token::BinaryNumber(_) | Token::OctalNumber(_) => (9, 0),
        Token::Minus => (10, 0),
        Token::Error(_) => (11, 0),
        _ => (0, 0),
    }
}

/// every token of the real lexer up to Eof: (code, n, start, end)
fn real_tokens(sql: &str) -> Caught<Vec<(u32, u64, usize, usize)>> {
    let sql = sql.to_string();
    catch(move || {
        let mut lx = Lexer::new(&sql);
        let mut out = vec![];
        loop {
            let t = lx.next_token();
            if matches!(t, Token::Eof) { break; }
            let sp = lx.span();
            let (c, n) = tok_code(&t);
            out.push((c, n, sp.start(), sp.end()));
            if out.len() > sql.len() + 2 { break; }
        }
        out
    })
}

/// harness copy of substitute_parameters (private in /repo) driving the REAL lexer; its output is
/// (a) compared with the Coq model's text, (b) run through Database::query and compared with what
/// BoundStatement::query returned
fn port_subst(sql: &str, ps: &[Val]) -> Option<String> {
    let mut result = String::new();
    let mut lx = Lexer::new(sql);
    let mut pidx = 0usize;
    let mut last_end = 0usize;
    loop {
        let t = lx.next_token();
        let sp = lx.span();
        match &t {
            Token::Eof => { result.push_str(&sql[last_end..]); break; }
            Token::Parameter(p) => {
                result.push_str(&sql[last_end..sp.start()]);
                let idx = match p {
                    Parameter::Anonymous | Parameter::Named(_) => { let i = pidx; pidx += 1; i }
                    Parameter::Positional(n) => (*n as usize).saturating_sub(1),
                };
                let lit = ps.get(idx)?.shown();
                if lit.starts_with('-') { result.push(' '); }
                result.push_str(&lit);
                last_end = sp.end();
            }
            _ => {}
        }
    }
    Some(result)
}

fn fnv64(b: &[u8]) -> u64 {
    let mut h: u64 = 0xcbf29ce484222325;
    for x in b { h ^= *x as u64; h = h.wrapping_mul(0x100000001b3); }
    h
}

// ------------------------------------------------------------------ the database under test
const DDL: &str = "CREATE TABLE t (id BIGINT PRIMARY KEY, a BIGINT, s TEXT, b BLOB, f DOUBLE, g BOOLEAN)";
const ROWS: [&str; 4] = [
    "INSERT INTO t VALUES (1, 10, 'one', X'01', 1.5, TRUE)",
    "INSERT INTO t VALUES (2, -20, 'it''s', X'', -2.25, FALSE)",
    "INSERT INTO t VALUES (3, NULL, NULL, NULL, NULL, NULL)",
    "INSERT INTO t VALUES (4, 40, 'a--b/*c*/;', X'00ff', 0.0, TRUE)",
];

fn scratch_root() -> PathBuf {
    let base = if std::path::Path::new("/dev/shm").is_dir() { PathBuf::from("/dev/shm") } else {
        std::env::current_exe().ok().as_ref().and_then(|p| p.parent()).and_then(|p| p.parent()).and_then(|p| p.parent())
            .map(|p| p.join("tmp")).unwrap_or_else(|| PathBuf::from("/verif/build/tmp"))
    };
    base.join(format!("tv-c13-{}", std::process::id()))
}

struct Sut { dir: PathBuf, seq: u64, shared: Option<Database>, created: u64 }

/// one observation: outcome kind (0 ok, 1 error, 2 panic) and the canonical text that is digested
#[derive(Clone, Debug, PartialEq)]
struct Obs { kind: u8, text: String }
impl Obs {
    fn digest(&self) -> u64 { fnv64(self.text.as_bytes()) }
}

fn rows_text(rows: &[turdb::Row]) -> String {
    let mut s = String::new();
    for r in rows { s.push_str(&format!("{:?};", r.values)); }
    s
}
fn exec_text(r: eyre::Result<turdb::ExecuteResult>) -> (u8, String) {
    use turdb::ExecuteResult as E;
    match r {
        Err(_) => (1, "ERR".into()),
        Ok(E::Select { rows, .. }) => (0, format!("rows[{}]", rows_text(&rows))),
        Ok(E::Insert { rows_affected, returned }) => (0, format!("ins {} {:?}", rows_affected, returned.map(|r| rows_text(&r)))),
        Ok(E::Update { rows_affected, returned }) => (0, format!("upd {} {:?}", rows_affected, returned.map(|r| rows_text(&r)))),
        Ok(E::Delete { rows_affected, returned }) => (0, format!("del {} {:?}", rows_affected, returned.map(|r| rows_text(&r)))),
        Ok(other) => (0, format!("{:?}", other)),
    }
}
fn query_text(r: eyre::Result<Vec<turdb::Row>>) -> (u8, String) {
    match r { Err(_) => (1, "ERR".into()), Ok(rows) => (0, format!("rows[{}]", rows_text(&rows))) }
}
fn state_text(db: &Database) -> String {
    match catch(std::panic::AssertUnwindSafe(|| db.query("SELECT * FROM t"))) {
        Caught::Done(Ok(rows)) => rows_text(&rows),
        Caught::Done(Err(_)) => "STATE-ERR".into(),
        Caught::Panicked(_) => "STATE-PANIC".into(),
    }
}

impl Sut {
    fn new() -> Sut {
        let dir = scratch_root();
        let _ = std::fs::remove_dir_all(&dir);
        std::fs::create_dir_all(&dir).expect("scratch dir");
        Sut { dir, seq: 0, shared: None, created: 0 }
    }
    fn cleanup(&mut self) { self.shared = None; let _ = std::fs::remove_dir_all(&self.dir); }
    fn fresh(&mut self) -> Result<(Database, PathBuf), String> {
        self.seq += 1;
        self.created += 1;
        let path = self.dir.join(format!("db{}", self.seq));
        let p2 = path.clone();
        match catch(move || -> Result<Database, String> {
            let db = Database::create(&p2).map_err(|e| format!("create: {:#}", e))?;
            db.execute(DDL).map_err(|e| format!("ddl: {:#}", e))?;
            for r in ROWS { db.execute(r).map_err(|e| format!("rows: {:#}", e))?; }
            Ok(db)
        }) {
            Caught::Done(Ok(db)) => Ok((db, path)),
            Caught::Done(Err(e)) => Err(e),
            Caught::Panicked(m) => Err(format!("panic in setup: {}", m)),
        }
    }
    /// run `f` twice-capable closure on a fresh database and remove it afterwards
    fn on_fresh<F: FnOnce(&Database) -> Vec<Obs>>(&mut self, f: F) -> Vec<Obs> {
        match self.fresh() {
            Err(e) => vec![Obs { kind: 3, text: format!("SETUP {}", e) }; 2],
            Ok((db, path)) => {
                let r = f(&db);
                drop(db);
                let _ = std::fs::remove_dir_all(&path);
                r
            }
        }
    }
    fn shared(&mut self) -> Option<&Database> {
        if self.shared.is_none() {
            if let Ok((db, _)) = self.fresh() { self.shared = Some(db); }
        }
        self.shared.as_ref()
    }
}

/// run one step under catch_unwind; `mutating` adds the table state to the observation
fn step<F: FnOnce() -> (u8, String)>(db: &Database, mutating: bool, f: F) -> Obs {
    let (kind, mut text) = match catch(std::panic::AssertUnwindSafe(f)) {
        Caught::Done(x) => x,
        Caught::Panicked(_) => (2, "PANIC".to_string()),
    };
    if mutating { text.push_str(" | "); text.push_str(&state_text(db)); }
    Obs { kind, text }
}

#[derive(Clone, Copy, Debug, PartialEq)]
enum Path { Ewp = 1, Pex = 2, Qry = 3 }
impl Path {
    fn name(self) -> &'static str { match self { Path::Ewp => "ewp", Path::Pex => "pex", Path::Qry => "qry" } }
    fn parse(s: &str) -> Option<Path> { match s { "ewp" => Some(Path::Ewp), "pex" => Some(Path::Pex), "qry" => Some(Path::Qry), _ => None } }
}

/// everything observed for one statement + two parameter vectors
struct Observed {
    inl: [Option<String>; 2],
    sub: [Option<String>; 2],
    refo: Vec<Obs>,
    raw: Vec<Obs>,
    ewp: Vec<Obs>,
    pex: Vec<Obs>,
    qry: Option<Vec<Obs>>,
    qtx: Option<Vec<Obs>>,
    param_count: i64,
}

fn observe(sut: &mut Sut, st: &Stmt, p: &[Vec<Val>; 2], only: Option<Path>) -> Observed {
    let sql = st.sql();
    let kind = st.kind();
    let mutating = kind != "select";
    let inl = [st.inline(&p[0]), st.inline(&p[1])];
    let sub = [port_subst(&sql, &p[0]), port_subst(&sql, &p[1])];
    let owned: [Vec<OwnedValue>; 2] = [p[0].iter().map(|v| v.owned()).collect(), p[1].iter().map(|v| v.owned()).collect()];
    let want = |x: Path| only.is_none() || only == Some(x);
    let none2 = || vec![Obs { kind: 9, text: "SKIPPED".into() }; 2];
    let mut param_count = -1i64;

    // each path is a closure over a database; mutating statements get a fresh one per path
    let run_ref = |db: &Database| -> Vec<Obs> {
        (0..2).map(|i| match &inl[i] {
            Some(q) => step(db, mutating, || exec_text(db.execute(q))),
            None => Obs { kind: 1, text: "ERR".into() },      // a placeholder without a value: an error is expected
        }).collect()
    };
    let run_raw = |db: &Database| -> Vec<Obs> { (0..2).map(|_| step(db, mutating, || exec_text(db.execute(&sql)))).collect() };
    let run_ewp = |db: &Database| -> Vec<Obs> { (0..2).map(|i| step(db, mutating, || exec_text(db.execute_with_params(&sql, &owned[i])))).collect() };
    let mut pc = -1i64;
    let mut run_pex = |db: &Database| -> Vec<Obs> {
        match catch(std::panic::AssertUnwindSafe(|| db.prepare(&sql))) {
            Caught::Done(Ok(ps)) => {
                pc = ps.param_count() as i64;
                (0..2).map(|i| step(db, mutating, || {
                    if owned[i].is_empty() { return (1, "ERR".to_string()); }      // bind() needs at least one value
                    let mut b = ps.bind(owned[i][0].clone());
                    for v in owned[i].iter().skip(1) { b = b.bind(v.clone()); }
                    exec_text(b.execute(db))
                })).collect()
            }
            Caught::Done(Err(_)) => vec![Obs { kind: 1, text: "ERR".into() }; 2],
            Caught::Panicked(_) => vec![Obs { kind: 2, text: "PANIC".into() }; 2],
        }
    };
    let run_qry = |db: &Database| -> Vec<Obs> {
        match catch(std::panic::AssertUnwindSafe(|| db.prepare(&sql))) {
            Caught::Done(Ok(ps)) => (0..2).map(|i| step(db, false, || {
                if owned[i].is_empty() { return (1, "ERR".to_string()); }
                let mut b = ps.bind(owned[i][0].clone());
                for v in owned[i].iter().skip(1) { b = b.bind(v.clone()); }
                query_text(b.query(db))
            })).collect(),
            Caught::Done(Err(_)) => vec![Obs { kind: 1, text: "ERR".into() }; 2],
            Caught::Panicked(_) => vec![Obs { kind: 2, text: "PANIC".into() }; 2],
        }
    };
    let run_qtx = |db: &Database| -> Vec<Obs> {
        (0..2).map(|i| match &sub[i] {
            Some(q) => step(db, false, || query_text(db.query(q))),
            None => Obs { kind: 1, text: "ERR".into() },
        }).collect()
    };

    let (refo, raw, ewp, pex, qry, qtx);
    if mutating {
        refo = sut.on_fresh(run_ref);
        raw = if want(Path::Ewp) || want(Path::Pex) { sut.on_fresh(run_raw) } else { none2() };
        ewp = if want(Path::Ewp) { sut.on_fresh(run_ewp) } else { none2() };
        pex = if want(Path::Pex) { sut.on_fresh(&mut run_pex) } else { none2() };
        qry = None;
        qtx = None;
    } else {
        let before;
        let r = match sut.shared() {
            None => { let e = vec![Obs { kind: 3, text: "SETUP".into() }; 2]; (e.clone(), e.clone(), e.clone(), e.clone(), e.clone(), e) }
            Some(db) => {
                before = state_text(db);
                let r = (run_ref(db), run_raw(db), run_ewp(db), run_pex(db), run_qry(db), run_qtx(db));
                let after = state_text(db);
                if after != before || [&r.0, &r.1, &r.2, &r.3, &r.4, &r.5].iter().any(|v| v.iter().any(|o| o.kind == 2)) {
                    sut.shared = None;       // never trust a database that panicked or changed under a SELECT
                }
                r
            }
        };
        refo = r.0; raw = r.1; ewp = r.2; pex = r.3; qry = Some(r.4); qtx = Some(r.5);
    }
    param_count = param_count.max(pc);
    Observed { inl, sub, refo, raw, ewp, pex, qry, qtx, param_count }
}

// ------------------------------------------------------------------ Lex cases
fn lex_case(w: &mut CaseWriter, sql: &str, kind: &str) {
    let toks = real_tokens(sql);
    let s2 = sql.to_string();
    let cnt = match catch(move || turdb::database::prepared::count_parameters(&s2)) { Caught::Done(n) => n as i64, Caught::Panicked(_) => -1 };
    let (tl, nparam, special) = match &toks {
        Caught::Done(v) => (
            format!("(Some {})", clist(&v.iter().map(|(c, n, s, e)| format!("({},{},{},{})", c, n, s, e)).collect::<Vec<_>>())),
            v.iter().filter(|t| (1..=3).contains(&t.0)).count(),
            v.iter().filter(|t| matches!(t.0, 4 | 8 | 9 | 11)).count()),
        Caught::Panicked(_) => ("None".to_string(), 0, 0),
    };
    let term = format!("Lex {} {} {}", cbytes(sql.as_bytes()), tl, z(cnt));
    let nontrivial = nparam > 0 && (special > 0 || sql.contains("--") || sql.contains("/*"));
    w.push(term, format!("lex sql={}", hex(sql.as_bytes())), nontrivial, kind);
}

// ------------------------------------------------------------------ Run cases
/// Rust-side mirror of coq/Corr/C13.v run_class, used only to label search results and the
/// distribution of a run (the verdict uses the Coq definition)
fn why(path: Path, st: &Stmt, p: &[Vec<Val>; 2], o: &Observed, got: &[Obs]) -> &'static str {
    let d1 = got[0].text != o.refo[0].text;
    let d2 = got[1].text != o.refo[1].text;
    if !d1 && !d2 { return "same"; }
    let all = || p[0].iter().chain(p[1].iter());
    if all().any(|v| *v == Val::Int(i64::MIN)) { return "int_min"; }
    let kind = st.kind();
    let norm: String = st.pieces.iter().map(|x| match x { Piece::Lit(t) => t.chars().filter(|c| !matches!(c, ' ' | '\t' | '\r' | '\n')).collect::<String>(), _ => "?".to_string() }).collect();
    if kind == "select" {
        let sql = st.sql();
        let ntok = |s: &str| match real_tokens(s) { Caught::Done(v) => v.len() as i64, _ => -1 };
        for i in 0..2 {
            if let (Some(sub), Caught::Done(toks)) = (&o.sub[i], real_tokens(&sql)) {
                let mut want = 0i64;
                let mut k = 0usize;
                for t in &toks {
                    match t.0 { 1 | 3 => { want += p[i].get(k).map(|v| ntok(&v.shown())).unwrap_or(0); k += 1; }
                                2 => { want += p[i].get((t.1 as usize).saturating_sub(1)).map(|v| ntok(&v.shown())).unwrap_or(0); }
                                _ => want += 1 }
                }
                if want != ntok(sub) { return "tokens_merge"; }
            }
        }
    }
    if path == Path::Qry { return "unexplained"; }
    let plus_before_ph = st.pieces.windows(2).any(|w| matches!((&w[0], &w[1]), (Piece::Lit(t), Piece::Anon | Piece::Pos(_)) if t.trim_end().ends_with('+')));
    if kind == "update" && plus_before_ph { return "set_expression"; }
    if kind == "update" || kind == "delete" {
        let mut seen = false; let mut n = 0;
        for x in &st.pieces { match x { Piece::Lit(t) => seen |= t.to_ascii_uppercase().contains("WHERE"), Piece::Anon => { if seen { n += 1; } } _ => {} } }
        if n >= 2 { return "several_anonymous_in_where"; }
        // a blob bound to a placeholder of the WHERE clause
        let mut seen = false; let mut k = 0usize;
        for x in &st.pieces {
            let isb = |i: usize| matches!(p[0].get(i), Some(Val::Blob(_))) || matches!(p[1].get(i), Some(Val::Blob(_)));
            match x {
                Piece::Lit(t) => seen |= t.to_ascii_uppercase().contains("WHERE"),
                Piece::Anon => { if seen && isb(k) { return "blob_in_where"; } k += 1; }
                Piece::Pos(n) => { if seen && isb((*n as usize).saturating_sub(1)) { return "blob_in_where"; } }
            }
        }
    }
    if path == Path::Pex && !d1 && d2 {
        let in_order = { let mut k = 1u32; let mut ok = true; for x in &st.pieces { match x { Piece::Anon => k += 1, Piece::Pos(n) => { ok &= *n == k; k += 1; } _ => {} } } ok };
        if kind == "update" && norm.starts_with("UPDATEtSET") && norm.ends_with("WHEREid=?") && !norm.contains(|c| c == '+' || c == '-' || c == '(') { return "second_execution_pk_update"; }
        if kind == "insert" && norm == "INSERTINTOtVALUES(?,?,?,?,?,?)" && in_order && o.refo[1].kind == 1 && got[1].kind == 0 { return "second_execution_insert_unvalidated"; }
    }
    "unexplained"
}

fn run_cases(w: &mut CaseWriter, sut: &mut Sut, st: &Stmt, p: &[Vec<Val>; 2], only: &[Path], gkind: &str, stats: &mut Stats) {
    let o = observe(sut, st, p, if only.len() == 1 { Some(only[0]) } else { None });
    let kind = st.kind();
    let h = |x: &Option<String>| match x { Some(s) => format!("{}", fnv64(s.as_bytes())), None => "(-1)".to_string() };
    let mut paths: Vec<(Path, &Vec<Obs>)> = vec![];
    if only.contains(&Path::Ewp) { paths.push((Path::Ewp, &o.ewp)); }
    if only.contains(&Path::Pex) { paths.push((Path::Pex, &o.pex)); }
    if let Some(q) = &o.qry { if only.contains(&Path::Qry) { paths.push((Path::Qry, q)); } }
    for (path, got) in paths {
        let qtx = match (&o.qtx, path) { (Some(q), Path::Qry) => q.clone(), _ => got.clone() };
        let term = format!("Run {} {} {} {} [{};{};{};{}] [{};{};{};{};{};{};{};{}] [{};{};{};{}] {}",
            path as u32, st.coq(),
            clist(&p[0].iter().map(|v| v.coq()).collect::<Vec<_>>()), clist(&p[1].iter().map(|v| v.coq()).collect::<Vec<_>>()),
            h(&o.inl[0]), h(&o.inl[1]), h(&o.sub[0]), h(&o.sub[1]),
            o.refo[0].digest(), o.refo[1].digest(), got[0].digest(), got[1].digest(),
            o.raw[0].digest(), o.raw[1].digest(), qtx[0].digest(), qtx[1].digest(),
            o.refo[0].kind, o.refo[1].kind, got[0].kind, got[1].kind,
            z(o.param_count));
        let replay = format!("run path={} kind={} st={} p1={} p2={}", path.name(), kind, st.enc(), enc_vals(&p[0]), enc_vals(&p[1]));
        let agree = got[0].text == o.refo[0].text && got[1].text == o.refo[1].text;
        let nontrivial = st.has_ph() && o.refo[0].kind == 0;
        w.push(term, replay, nontrivial, &format!("{}:{}:{}", gkind, kind, path.name()));
        stats.note(path, kind, agree, &o.refo, got);
        *stats.m.entry(format!("class:{}", why(path, st, p, &o, got))).or_insert(0) += 1;
        if !agree && std::env::var("C13_VERBOSE").is_ok() && why(path, st, p, &o, got) == "unexplained" {
            eprintln!("DIFF {} {} sql={:?}\n   p1={:?}\n   p2={:?}\n   ref={:?} / {:?}\n   got={:?} / {:?}\n   raw={:?} / {:?}\n   inl={:?}\n   sub={:?}", path.name(), kind, st.sql(), p[0], p[1],
                o.refo[0].text, o.refo[1].text, got[0].text, got[1].text, o.raw[0].text, o.raw[1].text, o.inl[0], o.sub[0]);
        }
    }
}

#[derive(Default)]
struct Stats { m: std::collections::BTreeMap<String, u64> }
impl Stats {
    fn note(&mut self, path: Path, kind: &str, agree: bool, refo: &[Obs], got: &[Obs]) {
        let k = format!("{}:{}:{}", path.name(), kind, if agree { "same_as_literal" } else { "differs" });
        *self.m.entry(k).or_insert(0) += 1;
        let oc = |o: &Obs| match o.kind { 0 => "ok", 1 => "err", 2 => "panic", _ => "setup" };
        *self.m.entry(format!("outcome:ref1={},got1={}", oc(&refo[0]), oc(&got[0]))).or_insert(0) += 1;
    }
}

// ------------------------------------------------------------------ generators
const HOSTILE: [&str; 34] = [
    "one", "it's", "a--b/*c*/;", "", "'", "''", "'''", "' OR 1=1 --", "'; DROP TABLE t; --", "\\", "\\'", "a\\'b", "a\0b",
    "?", "$1", ":x", "@y", "x'41'", "/*", "*/", "--", ";", "\n", "a\nb -- c", "\u{e9}'\u{fc}", "\u{1F600}", "\"", "`", "NULL", "1", "-1",
    "$$", "$t$x$t$", "a''b",
];

fn gen_text(rng: &mut Rng) -> String {
    match rng.below(10) {
        0..=5 => rng.pick(&HOSTILE).to_string(),
        6..=7 => {
            let n = rng.below(12) as usize;
            let alpha: Vec<char> = "ab'\"`-/*;\\?$: \n\0x1é%_()=,".chars().collect();
            (0..n).map(|_| *rng.pick(&alpha)).collect()
        }
        8 => { let a = rng.pick(&HOSTILE).to_string(); let b = rng.pick(&HOSTILE).to_string(); format!("{}{}", a, b) }
        _ => { let n = 20 + rng.below(200) as usize; (0..n).map(|i| if i % 17 == 3 { '\'' } else { (b'a' + (i % 26) as u8) as char }).collect() }
    }
}
fn gen_int(rng: &mut Rng) -> i64 {
    match rng.below(10) {
        0..=3 => *rng.pick(&[0i64, 1, -1, 10, -20, 40, 2, 3, 4, 5, 7, 100]),
        4..=5 => *rng.pick(&[i64::MAX, i64::MAX - 1, i64::MIN + 1, i32::MAX as i64, i32::MIN as i64, 1 << 53, -(1 << 53), 4294967296]),
        6 => { if rng.chance(1, 4) { i64::MIN } else { -(rng.below(1000) as i64) - 1 } }
        _ => { let bits = 1 + rng.below(63) as u32; let v = (rng.next() >> (64 - bits)) as i64; if rng.chance(1, 2) { v } else { v.wrapping_neg() } }
    }
}
fn gen_float(rng: &mut Rng) -> f64 {
    match rng.below(10) {
        0..=4 => *rng.pick(&[1.5f64, -2.25, 0.5, 0.25, 100.75, -0.125, 3.0e-3, 1234.5]),
        5..=6 => *rng.pick(&[1.0f64, 0.0, -0.0, 2.0, -3.0, 1e15, 1e16, 1e21, 1e300, -1e300, f64::MAX, 4294967296.0]),
        7 => *rng.pick(&[1e-7f64, 0.1, 1e-300, f64::MIN_POSITIVE, 5e-324, 0.30000000000000004]),
        _ => { let m = rng.range(-4000, 4000) as f64; m / 8.0 }
    }
}
fn gen_blob(rng: &mut Rng) -> Vec<u8> {
    match rng.below(4) { 0 => vec![], 1 => rng.pick(&[vec![0u8], vec![1], vec![0, 255], vec![39, 39], vec![255, 39, 0]]).clone(), _ => { let n = 1 + rng.below(8) as usize; rng.bytes(n) } }
}
/// a value for column type `ty` (i int, s text, b blob, f float, g bool); sometimes NULL, rarely another type
fn gen_val(rng: &mut Rng, ty: char) -> Val {
    if rng.chance(1, 12) { return Val::Null; }
    let ty = if rng.chance(1, 25) { *rng.pick(&['i', 's', 'b', 'f', 'g']) } else { ty };
    match ty {
        'i' => Val::Int(gen_int(rng)),
        's' => Val::Text(gen_text(rng)),
        'b' => Val::Blob(gen_blob(rng)),
        'f' => Val::Float(gen_float(rng)),
        _ => Val::Bool(rng.chance(1, 2)),
    }
}

const COLS: [(&str, char); 6] = [("id", 'i'), ("a", 'i'), ("s", 's'), ("b", 'b'), ("f", 'f'), ("g", 'g')];

struct Tpl { st: Stmt, tys: Vec<char> }

fn lit(s: &str) -> Piece { Piece::Lit(s.to_string()) }

/// decoy text put between the real tokens: strings, comments and quoted identifiers that contain
/// placeholder characters which must never be substituted
fn decoy(rng: &mut Rng) -> &'static str {
    *rng.pick(&["", "", "", " /* ? */ ", " /* $1 :x */ ", " -- ?\n ", " /* a /* ? */ b */ "])
}

/// turn a list of (text | hole of type ty) into a statement, anonymous or positional
fn build(rng: &mut Rng, parts: Vec<Result<String, char>>) -> Tpl {
    let holes = parts.iter().filter(|p| p.is_err()).count();
    let positional = holes > 0 && rng.chance(1, 3);
    let mut pieces = vec![];
    let mut tys = vec![];
    if positional {
        // a permutation of 1..=holes, sometimes with a repeated index
        let mut order: Vec<u32> = (1..=holes as u32).collect();
        for i in (1..order.len()).rev() { let j = rng.below(i as u64 + 1) as usize; order.swap(i, j); }
        if holes >= 2 && rng.chance(1, 5) { order[1] = order[0]; }
        let mut slot_ty: Vec<char> = vec!['i'; holes];
        let mut k = 0;
        for p in parts {
            match p {
                Ok(t) => pieces.push(Piece::Lit(t)),
                Err(ty) => { let n = order[k]; slot_ty[(n - 1) as usize] = ty; pieces.push(Piece::Pos(n)); k += 1; }
            }
        }
        let maxn = pieces.iter().filter_map(|p| if let Piece::Pos(n) = p { Some(*n) } else { None }).max().unwrap_or(0) as usize;
        tys = slot_ty[..maxn].to_vec();
    } else {
        for p in parts {
            match p { Ok(t) => pieces.push(Piece::Lit(t)), Err(ty) => { pieces.push(Piece::Anon); tys.push(ty); } }
        }
    }
    // merge adjacent literal pieces
    let mut merged: Vec<Piece> = vec![];
    for p in pieces {
        match (merged.last_mut(), &p) {
            (Some(Piece::Lit(a)), Piece::Lit(b)) => a.push_str(b),
            _ => merged.push(p),
        }
    }
    Tpl { st: Stmt { pieces: merged }, tys }
}

fn cond(rng: &mut Rng, parts: &mut Vec<Result<String, char>>) {
    let (c, ty) = *rng.pick(&COLS);
    let op = if ty == 'i' || ty == 'f' { *rng.pick(&["=", "=", "<", ">", "<=", ">=", "<>"]) } else { "=" };
    let tight = rng.chance(1, 4);
    if rng.chance(1, 8) && (ty == 'i' || ty == 'f') {
        // arithmetic with the placeholder directly after a minus sign
        parts.push(Ok(format!("{} {} 50{}", c, op, if tight { "-" } else { " - " })));
        parts.push(Err(ty));
    } else if tight {
        parts.push(Ok(format!("{}{}", c, op)));
        parts.push(Err(ty));
    } else {
        parts.push(Ok(format!("{} {} ", c, op)));
        parts.push(Err(ty));
    }
}

fn gen_select(rng: &mut Rng) -> Tpl {
    let mut parts: Vec<Result<String, char>> = vec![];
    match rng.below(10) {
        0 => { parts.push(Ok("SELECT ".into())); parts.push(Err(*rng.pick(&['i', 's', 'b', 'f', 'g']))); }
        1 => { parts.push(Ok("SELECT ".into())); parts.push(Err(*rng.pick(&['i', 's', 'f']))); parts.push(Ok(", id FROM t WHERE id = ".into())); parts.push(Err('i')); }
        2 => { parts.push(Ok("SELECT id, '?', \"a\" FROM t".into())); parts.push(Ok(decoy(rng).into())); parts.push(Ok(" WHERE ".into())); cond(rng, &mut parts); parts.push(Ok(decoy(rng).into())); }
        3 => { parts.push(Ok("SELECT a + ".into())); parts.push(Err('i')); parts.push(Ok(" FROM t WHERE id = ".into())); parts.push(Err('i')); }
        _ => {
            parts.push(Ok(format!("SELECT {} FROM t{} WHERE ", rng.pick(&["id", "*", "id, s", "s, a"]), decoy(rng))));
            cond(rng, &mut parts);
            if rng.chance(1, 2) { parts.push(Ok((*rng.pick(&[" AND ", " OR "])).into())); cond(rng, &mut parts); }
            if rng.chance(1, 4) { parts.push(Ok(" AND s <> '?'".into())); }
            parts.push(Ok(decoy(rng).into()));
        }
    }
    build(rng, parts)
}

fn gen_insert(rng: &mut Rng) -> Tpl {
    let mut parts: Vec<Result<String, char>> = vec![];
    match rng.below(12) {
        0..=6 => {
            // the canonical shape
            parts.push(Ok("INSERT INTO t VALUES (".into()));
            for (i, (_, ty)) in COLS.iter().enumerate() { if i > 0 { parts.push(Ok(", ".into())); } parts.push(Err(*ty)); }
            parts.push(Ok(")".into()));
        }
        7..=8 => {
            // literals mixed with placeholders
            parts.push(Ok("INSERT INTO t VALUES (".into()));
            let lits = ["7", "5", "'x?'", "X'0a'", "2.5", "TRUE"];
            let mut any = false;
            for (i, (_, ty)) in COLS.iter().enumerate() {
                if i > 0 { parts.push(Ok(", ".into())); }
                if rng.chance(2, 3) || (!any && i == 5) { parts.push(Err(*ty)); any = true; } else { parts.push(Ok(lits[i].into())); }
            }
            parts.push(Ok(")".into()));
        }
        9..=10 => {
            // column list, possibly reordered
            let mut idx: Vec<usize> = vec![0];
            for i in 1..6 { if rng.chance(1, 2) { idx.push(i); } }
            if rng.chance(1, 2) { for i in (1..idx.len()).rev() { let j = rng.below(i as u64 + 1) as usize; idx.swap(i, j); } }
            parts.push(Ok(format!("INSERT INTO t ({}) VALUES (", idx.iter().map(|i| COLS[*i].0).collect::<Vec<_>>().join(", "))));
            for (k, i) in idx.iter().enumerate() { if k > 0 { parts.push(Ok(", ".into())); } parts.push(Err(COLS[*i].1)); }
            parts.push(Ok(")".into()));
        }
        _ => {
            // two rows
            parts.push(Ok("INSERT INTO t VALUES (".into()));
            for (i, (_, ty)) in COLS.iter().enumerate() { if i > 0 { parts.push(Ok(", ".into())); } parts.push(Err(*ty)); }
            parts.push(Ok("), (".into()));
            for (i, (_, ty)) in COLS.iter().enumerate() { if i > 0 { parts.push(Ok(", ".into())); } parts.push(Err(*ty)); }
            parts.push(Ok(")".into()));
        }
    }
    build(rng, parts)
}

fn gen_update(rng: &mut Rng) -> Tpl {
    let mut parts: Vec<Result<String, char>> = vec![];
    parts.push(Ok("UPDATE t SET ".into()));
    let n = 1 + rng.below(2) as usize;
    let mut used = vec![];
    for k in 0..n {
        let mut i = 1 + rng.below(5) as usize;
        while used.contains(&i) { i = 1 + rng.below(5) as usize; }
        used.push(i);
        if k > 0 { parts.push(Ok(", ".into())); }
        if COLS[i].1 == 'i' && rng.chance(1, 6) { parts.push(Ok(format!("{} = {} + ", COLS[i].0, COLS[i].0))); } else { parts.push(Ok(format!("{} = ", COLS[i].0))); }
        parts.push(Err(COLS[i].1));
    }
    match rng.below(7) {
        0 => {}
        1..=2 => { parts.push(Ok(" WHERE id = ".into())); parts.push(Err('i')); }
        3 => { parts.push(Ok(" WHERE ".into())); cond(rng, &mut parts); parts.push(Ok((*rng.pick(&[" AND ", " OR "])).into())); cond(rng, &mut parts); }
        _ => { parts.push(Ok(" WHERE ".into())); cond(rng, &mut parts); }
    }
    build(rng, parts)
}

fn gen_delete(rng: &mut Rng) -> Tpl {
    let mut parts: Vec<Result<String, char>> = vec![];
    parts.push(Ok("DELETE FROM t WHERE ".into()));
    match rng.below(8) {
        0..=5 => { parts.push(Ok("id = ".into())); parts.push(Err('i')); }
        6 => cond(rng, &mut parts),
        _ => { cond(rng, &mut parts); parts.push(Ok(" AND ".into())); cond(rng, &mut parts); }
    }
    build(rng, parts)
}

fn gen_params(rng: &mut Rng, tpl: &Tpl, insert: bool, second: bool) -> Vec<Val> {
    tpl.tys.iter().enumerate().map(|(i, ty)| {
        let v = gen_val(rng, *ty);
        // keep most generated primary keys fresh so that INSERTs reach the table
        if insert && *ty == 'i' && i == 0 && rng.chance(5, 6) { Val::Int(if second { 6 + rng.below(3) as i64 } else { 5 }) }
        else if !insert && *ty == 'i' && rng.chance(1, 2) { Val::Int(*rng.pick(&[1i64, 2, 3, 4, 10, -20, 40])) }
        else if !insert && *ty == 's' && rng.chance(1, 2) { Val::Text(rng.pick(&["one", "it's", "a--b/*c*/;"]).to_string()) }
        else if !v.finite() { Val::Float(1.5) } else { v }
    }).collect()
}

/// hostile SQL text for the lexer correspondence
const FRAGS: [&str; 70] = [
    "'", "''", "\"", "\"\"", "`", "--", "/*", "*/", "?", "??", "?|", "?&", "$", "$1", "$2", "$0", "$10", "$4294967295", "$4294967296", "$99999999999999999999",
    "$$", "$a$", "$a", ":", "::", ":=", ":n", ":_x1", "@", "@>", "@v", "<", "<-", "<->", "<#", "<#>", "<=", "<=>", "<>", "<<", "<@", "#", "#>", "#>>", "->", "->>",
    "x'", "X'", "x'4a'", "0x", "0x1f", "0b", "0b10", "0o", "0o17", "1", "12", "1.", "1.5", "1..", ".5", "1e", "1e-", "1e+5", ".", "..", "-", "!", "!=", "\\",
];
const WORDS: [&str; 24] = ["SELECT", "FROM", "t", "WHERE", "a", "x", "X", "e", "E", "id", "_", "a1", "AND", " ", " ", " ", "\n", "\t", ",", "(", ")", ";", "=", "*"];

fn gen_lex_soup(rng: &mut Rng) -> String {
    let n = 1 + rng.below(14) as usize;
    let mut s = String::new();
    for _ in 0..n {
        match rng.below(12) {
            0..=5 => s.push_str(*rng.pick(&FRAGS)),
            6..=9 => s.push_str(*rng.pick(&WORDS)),
            10 => s.push_str(*rng.pick(&["\u{e9}", "\u{1F600}", "\0", "\r", "~", "^", "%", "+", "&", "&&", "|", "||", "[", "]", "{", "}", ">", ">=", ">>", "=>"])),
            _ => { if rng.chance(1, 2) { s.push(' '); } s.push_str(&gen_text(rng)); }
        }
    }
    s
}

fn mutate(rng: &mut Rng, s: &str) -> String {
    let mut cs: Vec<char> = s.chars().collect();
    if cs.is_empty() { return s.to_string(); }
    for _ in 0..1 + rng.below(3) {
        let i = rng.below(cs.len() as u64) as usize;
        match rng.below(4) {
            0 => { cs.remove(i); if cs.is_empty() { break; } }
            1 => { let f: Vec<char> = rng.pick(&FRAGS).chars().collect(); for (k, c) in f.into_iter().enumerate() { cs.insert(i + k, c); } }
            2 => { cs[i] = *rng.pick(&['\'', '"', '?', '-', '/', '*', '$', ' ', '\n', 'x']); }
            _ => { cs.truncate(i + 1); }
        }
    }
    cs.into_iter().collect()
}

fn boundary_lex() -> Vec<String> {
    let mut v: Vec<String> = vec![];
    for s in ["", "?", "$1", ":a", "@a", "'?'", "'?", "\"?\"", "`?`", "-- ?", "-- ?\n?", "/* ? */ ?", "/* /* ? */ ? */ ?", "/* ?", "$$?$$ ?", "$a$?$a$ ?", "$a$?$b$ ?",
              "x'?'", "X'41' ?", "x'4?'", "1e--?\n?", "a-?", "a--?", "<-?", "<--?\n?", "?|?", "?&?", "? ?", "$1$2", "$01", "$4294967295 $4294967296", "1.?", "1..?", ".5e+?", "'a''?'' ' ?",
              "'\u{e9}?' ?", "\u{e9}?", "\0?", "a\\'?'", "SELECT * FROM t WHERE a = ? AND s = '?' -- $1", ":", "::x", ":=", ":x:y", "@>", "@", "$", "$ 1", "!", "!=?", "/", "/*", "*/?", "0x?", "0b2?", "0o8?", "1e", "1e+"] {
        v.push(s.to_string());
    }
    v
}

// ------------------------------------------------------------------ modes
fn parse_run_line(l: &str) -> Option<(Path, Stmt, [Vec<Val>; 2])> {
    let l = l.split(" #").next().unwrap_or(l);
    let mut path = None; let mut st = None; let mut p1 = None; let mut p2 = None;
    for f in l.split_whitespace().skip(1) {
        if let Some(v) = f.strip_prefix("path=") { path = Path::parse(v); }
        else if let Some(v) = f.strip_prefix("st=") { st = Stmt::dec(v); }
        else if let Some(v) = f.strip_prefix("p1=") { p1 = dec_vals(v); }
        else if let Some(v) = f.strip_prefix("p2=") { p2 = dec_vals(v); }
    }
    Some((path?, st?, [p1?, p2?]))
}

fn gen(a: &Args) {
    let mut rng = Rng::new(a.seed);
    let mut w = CaseWriter::new(&a.out, "C13", "Corr.C13", 400);
    let mut sut = Sut::new();
    let mut stats = Stats::default();
    if let Some(lines) = a.replay_lines() {
        for l in lines {
            if let Some(r) = l.strip_prefix("lex sql=") {
                if let Ok(s) = String::from_utf8(unhex(r.split(" #").next().unwrap_or(r))) { lex_case(&mut w, &s, "replay"); }
            } else if l.starts_with("run ") {
                if let Some((path, st, p)) = parse_run_line(&l) { run_cases(&mut w, &mut sut, &st, &p, &[path], "replay", &mut stats); }
            }
        }
    } else {
        // ---- lexer correspondence
        for s in boundary_lex() { lex_case(&mut w, &s, "lex:boundary"); }
        let n_soup = if a.thorough() { 30_000 } else { 1_500 };
        for _ in 0..n_soup { let s = gen_lex_soup(&mut rng); lex_case(&mut w, &s, "lex:soup"); }
        let n_stmt = if a.thorough() { 6_000 } else { 400 };
        for i in 0..n_stmt {
            let tpl = match i % 4 { 0 => gen_select(&mut rng), 1 => gen_insert(&mut rng), 2 => gen_update(&mut rng), _ => gen_delete(&mut rng) };
            let s = tpl.st.sql();
            lex_case(&mut w, &s, "lex:statement");
            let m = mutate(&mut rng, &s);
            lex_case(&mut w, &m, "lex:mutated_statement");
        }
        // ---- end to end
        // SELECT: the query path on every statement, the two execute paths alternately
        let (n_sel, n_dml) = if a.thorough() { (6_000, 2_400) } else { (420, 150) };
        for i in 0..n_sel {
            let tpl = gen_select(&mut rng);
            let p = [gen_params(&mut rng, &tpl, false, false), gen_params(&mut rng, &tpl, false, true)];
            let paths: &[Path] = if i % 2 == 0 { &[Path::Qry, Path::Ewp] } else { &[Path::Qry, Path::Pex] };
            run_cases(&mut w, &mut sut, &tpl.st, &p, paths, "e2e", &mut stats);
        }
        for i in 0..n_dml {
            let (tpl, ins) = match i % 3 { 0 => (gen_insert(&mut rng), true), 1 => (gen_update(&mut rng), false), _ => (gen_delete(&mut rng), false) };
            let p = [gen_params(&mut rng, &tpl, ins, false), gen_params(&mut rng, &tpl, ins, true)];
            run_cases(&mut w, &mut sut, &tpl.st, &p, &[Path::Ewp, Path::Pex], "e2e", &mut stats);
        }
    }
    let created = sut.created;
    sut.cleanup();
    let mut extra: Vec<(String, String)> = vec![("databases_created".into(), created.to_string())];
    let mut o = String::from("{");
    for (i, (k, v)) in stats.m.iter().enumerate() { if i > 0 { o.push_str(", "); } o.push_str(&format!("{}: {}", jstr(k), v)); }
    o.push('}');
    extra.push(("path_outcomes".into(), o));
    w.finish(&extra);
}

/// Oracle only: every path against the literal statement, on the implementation; no model involved.
fn search(a: &Args) {
    let mut rng = Rng::new(a.seed ^ 0xC13_5EA7);
    let mut sut = Sut::new();
    let mut fails: Vec<String> = vec![];
    let mut tried = 0u64;
    // an end-to-end case costs ~10^5 cheap evaluations; scale the budget accordingly
    let n = (a.budget / 2_000).clamp(50, 3_000);
    for i in 0..n {
        let (tpl, ins) = match i % 6 { 0 | 1 | 2 => (gen_select(&mut rng), false), 3 => (gen_insert(&mut rng), true), 4 => (gen_update(&mut rng), false), _ => (gen_delete(&mut rng), false) };
        let p = [gen_params(&mut rng, &tpl, ins, false), gen_params(&mut rng, &tpl, ins, true)];
        let o = observe(&mut sut, &tpl.st, &p, None);
        let kind = tpl.st.kind();
        let mut paths: Vec<(Path, &Vec<Obs>)> = vec![(Path::Ewp, &o.ewp), (Path::Pex, &o.pex)];
        if let Some(q) = &o.qry { paths.push((Path::Qry, q)); }
        for (path, got) in paths {
            tried += 1;
            let d1 = got[0].text != o.refo[0].text;
            let d2 = got[1].text != o.refo[1].text;
            if (d1 || d2) && fails.len() < 400 {
                fails.push(format!("run path={} kind={} st={} p1={} p2={} #why={}", path.name(), kind, tpl.st.enc(), enc_vals(&p[0]), enc_vals(&p[1]),
                    why(path, &tpl.st, &p, &o, got)));
            }
        }
    }
    sut.cleanup();
    let mut out = format!("tried={}\n", tried);
    for f in &fails { out.push_str("FAIL "); out.push_str(f); out.push('\n'); }
    std::fs::write(&a.out, out).expect("write search output");
}

fn show_mode(a: &Args) {
    let mut sut = Sut::new();
    for l in a.replay_lines().unwrap_or_default() {
        if let Some((_, st, p)) = parse_run_line(&l) {
            let o = observe(&mut sut, &st, &p, None);
            println!("sql   : {:?}", st.sql());
            println!("inline: {:?} / {:?}", o.inl[0], o.inl[1]);
            println!("subst : {:?} / {:?}", o.sub[0], o.sub[1]);
            let pr = |n: &str, v: &Vec<Obs>| println!("{:5}: [{}] {:?}\n       [{}] {:?}", n, v[0].kind, v[0].text, v[1].kind, v[1].text);
            pr("ref", &o.refo); pr("raw", &o.raw); pr("ewp", &o.ewp); pr("pex", &o.pex);
            if let Some(q) = &o.qry { pr("qry", q); }
            if let Some(q) = &o.qtx { pr("qtx", q); }
        } else if let Some(r) = l.strip_prefix("lex sql=") {
            if let Ok(s) = String::from_utf8(unhex(r)) {
                println!("{:?}: {:?}", s, match real_tokens(&s) { Caught::Done(v) => format!("{:?}", v), Caught::Panicked(m) => format!("PANIC {}", m) });
            }
        }
    }
    sut.cleanup();
}
