(* C28 proofs, part 3: one leaf page - search, insertion at the found position, append, delete,
   value update and split keep the leaf invariant and change the cell multiset as an ordered map does. *)
From Coq Require Import ZArith List Bool Lia Sorting.Permutation Sorting.Sorted.
From TV Require Import Lib.MachInt Gen.Varint Model.BTree Model.BTreeSpec Model.BTreeInv Proof.BTreeOrder Proof.BTreeInv.
Import ListNotations.
Open Scope Z_scope.
Arguments Z.sub : simpl never.
Arguments Z.add : simpl never.
Arguments Z.mul : simpl never.
Arguments Z.of_nat : simpl never.

Lemma varint_len_pos v : 1 <= varint_len v <= 9.
Proof. unfold varint_len. repeat match goal with |- context [if ?c then _ else _] => destruct c end; lia. Qed.
Lemma varint_len_mono a b : a <= b -> varint_len a <= varint_len b.
Proof.
  intros H. unfold varint_len.
  repeat match goal with |- context [?x <=? ?y] => destruct (Z.leb_spec x y) end; lia.
Qed.

Lemma sumz_cons x l : sumz (x :: l) = x + sumz l.
Proof. reflexivity. Qed.
Lemma sumz_app a b : sumz (a ++ b) = sumz a + sumz b.
Proof. unfold sumz. induction a as [|x a IH]; cbn; [reflexivity|]. rewrite IH. lia. Qed.
Lemma sumz_perm a b : Permutation a b -> sumz a = sumz b.
Proof. unfold sumz. induction 1; cbn; lia. Qed.

Lemma firstn_skipn_nth {A} (l : list A) i x : nth_error l i = Some x -> l = firstn i l ++ x :: skipn (S i) l.
Proof.
  revert i. induction l as [|y l IH]; intros [|i] H; cbn in *; try discriminate.
  - injection H as <-. reflexivity.
  - f_equal. apply IH. exact H.
Qed.
Lemma remove_at_perm {A} (l : list A) i x : nth_error l i = Some x -> Permutation l (x :: remove_at i l).
Proof.
  intros H. unfold remove_at. rewrite (firstn_skipn_nth l i x H) at 1. apply Permutation_sym, Permutation_middle.
Qed.
Lemma replace_at_perm {A} (l : list A) i x y : nth_error l i = Some x -> Permutation (replace_at i y l) (y :: remove_at i l).
Proof. intros H. unfold replace_at, remove_at. apply Permutation_sym, Permutation_middle. Qed.
Lemma insert_at_perm {A} (l : list A) i x : Permutation (insert_at i x l) (x :: l).
Proof.
  unfold insert_at. eapply Permutation_trans; [apply Permutation_sym, Permutation_middle|].
  rewrite firstn_skipn. apply Permutation_refl.
Qed.
Lemma insert_at_length {A} (l : list A) x : insert_at (length l) x l = l ++ [x].
Proof. unfold insert_at. rewrite firstn_all, skipn_all. reflexivity. Qed.

Lemma In_firstn_c28 {A} n (l : list A) x : In x (firstn n l) -> In x l.
Proof. intros H. rewrite <- (firstn_skipn n l). apply in_or_app. left. exact H. Qed.
Lemma In_skipn_c28 {A} n (l : list A) x : In x (skipn n l) -> In x l.
Proof. intros H. rewrite <- (firstn_skipn n l). apply in_or_app. right. exact H. Qed.

Section L.
Variable V : Type.
Variable vlen : V -> Z.
Hypothesis vlen_nonneg : forall v, 0 <= vlen v.
Notation entry := (entry V).
Notation leaf := (leaf V).
Notation tree := (tree V).
Notation csize := (csize V vlen).
Notation leaf_ok := (leaf_ok V vlen).
Notation lfree := (lfree V).
Notation keys := (keys V).

Lemma csize_nonneg (e : entry) : 0 <= csize e.
Proof.
  unfold BTree.csize, klen. pose proof (varint_len_pos (vlen (snd e))). pose proof (vlen_nonneg (snd e)).
  pose proof (Nat2Z.is_nonneg (length (fst e))). lia.
Qed.
Lemma sum_csize_nonneg (cs : list entry) : 0 <= sumz (map csize cs).
Proof. induction cs as [|c cs IH]; cbn [map]; [cbn; lia|]. rewrite sumz_cons. pose proof (csize_nonneg c). lia. Qed.

(* ---------------------------------------------------------------- search *)
Lemma insert_at_ppos (e : entry) (cs : list entry) : insert_at (ppos (fst e) cs) e cs = om_ins V e cs.
Proof.
  induction cs as [|c cs IH]; cbn; [reflexivity|]. destruct (kltb (fst e) (fst c)); [reflexivity|].
  unfold insert_at in *. cbn. f_equal. exact IH.
Qed.

Lemma lfind_ins (e : entry) (cs : list entry) pos : lfind V (fst e) cs = (false, pos) -> insert_at pos e cs = om_ins V e cs.
Proof.
  revert pos. induction cs as [|c cs IH]; intros pos H; cbn in *.
  - injection H as <-. reflexivity.
  - unfold kltb. destruct (kcmp (fst e) (fst c)) eqn:E; try discriminate.
    + injection H as <-. reflexivity.
    + destruct (lfind V (fst e) cs) as [f i] eqn:E2. injection H as -> <-.
      unfold insert_at in *. cbn. f_equal. apply IH. reflexivity.
Qed.

Lemma lfind_notin k (cs : list entry) pos : ssorted V cs -> lfind V k cs = (false, pos) -> ~ In k (keys cs).
Proof.
  revert pos. induction cs as [|c cs IH]; intros pos Hs H; cbn in *; [intros []|].
  apply ssorted_cons_inv in Hs as [Hs Hf]. destruct (kcmp k (fst c)) eqn:E; try discriminate.
  - intros [H1 | H1]; [rewrite H1, kcmp_refl in E; discriminate|].
    apply in_map_iff in H1 as (x & Hx & Hin). rewrite Forall_forall in Hf. specialize (Hf _ Hin).
    unfold elt in Hf. rewrite Hx in Hf. exact (klt_asym _ _ E Hf).
  - destruct (lfind V k cs) as [f i] eqn:E2. injection H as -> <-.
    intros [H1 | H1]; [rewrite H1, kcmp_refl in E; discriminate|]. eapply IH; [exact Hs | reflexivity | exact H1].
Qed.

Lemma lfind_found k (cs : list entry) i : lfind V k cs = (true, i) -> exists v, nth_error cs i = Some (k, v).
Proof.
  revert i. induction cs as [|c cs IH]; intros i H; cbn in *; [discriminate|].
  destruct (kcmp k (fst c)) eqn:E; try discriminate.
  - injection H as <-. apply kcmp_eq in E. exists (snd c). cbn. destruct c; cbn in *; subst; reflexivity.
  - destruct (lfind V k cs) as [f j] eqn:E2. injection H as -> <-. cbn. apply IH. reflexivity.
Qed.

Lemma lfind_idx_le k (cs : list entry) : (snd (lfind V k cs) <= length cs)%nat.
Proof.
  induction cs as [|c cs IH]; cbn; [lia|]. destruct (kcmp k (fst c)); cbn; try lia.
  destruct (lfind V k cs); cbn in *; lia.
Qed.

Lemma append_ins (e : entry) (cs : list entry) : (forall x, In x cs -> klt (fst x) (fst e)) -> cs ++ [e] = om_ins V e cs.
Proof.
  induction cs as [|c cs IH]; intros H; cbn; [reflexivity|].
  assert (Hc : kltb (fst e) (fst c) = false).
  { apply kltb_false. intros H1. exact (klt_asym _ _ H1 (H c (or_introl eq_refl))). }
  rewrite Hc. f_equal. apply IH. intros x Hx. apply H. right. exact Hx.
Qed.

Lemma all_lt_notin k (cs : list entry) : (forall x, In x cs -> klt (fst x) k) -> ~ In k (keys cs).
Proof. intros H Hin. apply in_map_iff in Hin as (x & <- & Hx). exact (klt_irrefl _ (H x Hx)). Qed.

Lemma leaf_get_om (l : leaf) k : ssorted V (lcells l) -> leaf_get V l k = om_get V k (lcells l).
Proof.
  unfold leaf_get. generalize (lcells l) as cs. induction cs as [|c cs IH]; intros Hs; cbn; [reflexivity|].
  apply ssorted_cons_inv in Hs as [Hs Hf]. unfold keqb. rewrite (kcmp_antisym k (fst c)).
  destruct (kcmp k (fst c)) eqn:E; cbn.
  - reflexivity.
  - symmetry. apply om_get_none. intros Hin. apply in_map_iff in Hin as (x & Hx & Hin).
    rewrite Forall_forall in Hf. specialize (Hf _ Hin). unfold elt in Hf. rewrite Hx in Hf. exact (klt_asym _ _ E Hf).
  - specialize (IH Hs). destruct (lfind V k cs) as [f i]. destruct f; cbn; exact IH.
Qed.

(* ---------------------------------------------------------------- putting a cell *)
Lemma leaf_put_ok lo hi (l : leaf) pos (e : entry) :
  leaf_ok lo hi l -> insert_at pos e (lcells l) = om_ins V e (lcells l) -> ~ In (fst e) (keys (lcells l)) ->
  lo_ok lo (fst e) -> hi_ok hi (fst e) -> csize e + SLOT <= lfree l ->
  leaf_ok lo hi (leaf_put V vlen l pos e) /\ Permutation (lcells (leaf_put V vlen l pos e)) (e :: lcells l).
Proof.
  intros (Hs & Hin & Hsz1 & Hsz2 & Hfr & Hemp) Heq Hn Hlo Hhi Hroom. unfold leaf_put. cbn [lcells lfe lfrag]. rewrite Heq.
  pose proof (om_ins_perm V e (lcells l)) as P. split; [|apply Permutation_sym; exact P].
  split; [apply om_ins_sorted; assumption|]. split.
  - eapply Permutation_Forall; [exact P|]. constructor; [split; assumption | exact Hin].
  - unfold leaf_sizes, lcount, BTree.lfree, lfstart, lcount in *. cbn [lcells lfe lfrag].
    rewrite <- (Permutation_length P). rewrite <- (sumz_perm _ _ (Permutation_map csize P)). cbn [length map sumz fold_right].
    pose proof (csize_nonneg e). split; [unfold SLOT, LEAF_START, PAGE, sumz in *; rewrite Nat2Z.inj_succ; lia|].
    split; [unfold SLOT, LEAF_START, PAGE, sumz in *; lia|]. split; [exact Hfr|].
    intros Hnil. exfalso. apply (f_equal (@length _)) in Hnil. rewrite <- (Permutation_length P) in Hnil. discriminate.
Qed.

(* ---------------------------------------------------------------- sub-lists of a sorted, bounded cell list *)
Lemma ssorted_remove_mid (a b : list entry) x : ssorted V (a ++ x :: b) -> ssorted V (a ++ b).
Proof.
  intros H. apply ssorted_app in H as (H1 & H2 & H3). apply ssorted_cons_inv in H2 as [H2 _].
  apply ssorted_app. repeat split; try assumption. intros u w Hu Hw. apply H3; [exact Hu | right; exact Hw].
Qed.
Lemma ssorted_remove (cs : list entry) i x : nth_error cs i = Some x -> ssorted V cs -> ssorted V (remove_at i cs).
Proof. intros Hn H. rewrite (firstn_skipn_nth cs i x Hn) in H. eapply ssorted_remove_mid. exact H. Qed.
Lemma ssorted_replace (cs : list entry) i x v : nth_error cs i = Some x -> ssorted V cs -> ssorted V (replace_at i (fst x, v) cs).
Proof.
  intros Hn H. eapply ssorted_keys_ext; [|exact H]. rewrite (firstn_skipn_nth cs i x Hn) at 1.
  unfold replace_at, BTreeOrder.keys. rewrite !map_app. reflexivity.
Qed.
Lemma ssorted_firstn (cs : list entry) i : ssorted V cs -> ssorted V (firstn i cs).
Proof. intros H. rewrite <- (firstn_skipn i cs) in H. apply ssorted_app in H. apply H. Qed.
Lemma ssorted_skipn (cs : list entry) i : ssorted V cs -> ssorted V (skipn i cs).
Proof. intros H. rewrite <- (firstn_skipn i cs) in H. apply ssorted_app in H. apply H. Qed.

End L.
