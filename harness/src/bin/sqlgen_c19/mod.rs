//! q19: queries over one to three tables (FROM trees with comma / CROSS / INNER / LEFT / RIGHT /
//! FULL joins, WHERE, select list) on top of the shared sqlgen AST, the REWRITES of property C19
//! (the same functions as coq/Model/QuerySpec.v: the Coq side recomputes every rewrite and
//! compares), printers to SQL text / Coq terms / replay notation, and generators.
#![allow(dead_code)]
use super::sqlgen::*;
use tvh::Rng;

// ------------------------------------------------------------------ queries
#[derive(Clone, Copy, Debug, PartialEq)]
pub enum JKind { Cross, Inner, Left, Right, Full }

impl JKind {
    pub fn coq(&self) -> &'static str { match self { JKind::Cross => "JCross", JKind::Inner => "JInner", JKind::Left => "JLeft", JKind::Right => "JRight", JKind::Full => "JFull" } }
    pub fn tok(&self) -> &'static str { match self { JKind::Cross => "cross", JKind::Inner => "inner", JKind::Left => "left", JKind::Right => "right", JKind::Full => "full" } }
    pub fn from_tok(s: &str) -> Option<JKind> {
        match s { "cross" => Some(JKind::Cross), "inner" => Some(JKind::Inner), "left" => Some(JKind::Left), "right" => Some(JKind::Right), "full" => Some(JKind::Full), _ => None }
    }
    pub fn mirror(&self) -> JKind { match self { JKind::Left => JKind::Right, JKind::Right => JKind::Left, k => *k } }
    pub fn outer(&self) -> bool { matches!(self, JKind::Left | JKind::Right | JKind::Full) }
}

/// FROM tree.  The ON expression of a Cross join is the literal TRUE and is not printed.
/// Column i of an expression refers to position i of the concatenated row (leaves left to right).
#[derive(Clone, Debug, PartialEq)]
pub enum From { Tab(usize), Join(JKind, Box<From>, Box<From>, Expr) }

/// Printing variants that do not change the Coq term (pure surface syntax).
/// bit 0: Cross printed as `CROSS JOIN` (else comma); bit 1: Inner printed as `INNER JOIN` (else
/// `JOIN`); bit 2: single-table query printed with unqualified column names.
#[derive(Clone, Debug, PartialEq)]
pub struct Query { pub from: From, pub wh: Option<Expr>, pub star: bool, pub items: Vec<Expr>, pub sty: u8 }

pub fn lit_true() -> Expr { Expr::Lit(Val::Bool(true)) }

impl From {
    pub fn leaves(&self, out: &mut Vec<usize>) {
        match self { From::Tab(i) => out.push(*i), From::Join(_, l, r, _) => { l.leaves(out); r.leaves(out); } }
    }
    pub fn width(&self, db: &[Table]) -> usize {
        let mut l = vec![]; self.leaves(&mut l);
        l.iter().map(|i| db[*i].cols.len()).sum()
    }
    pub fn n_joins(&self) -> usize { match self { From::Tab(_) => 0, From::Join(_, l, r, _) => 1 + l.n_joins() + r.n_joins() } }
    pub fn has_outer(&self) -> bool { match self { From::Tab(_) => false, From::Join(k, l, r, _) => k.outer() || l.has_outer() || r.has_outer() } }
    pub fn kinds(&self, out: &mut Vec<JKind>) { if let From::Join(k, l, r, _) = self { out.push(*k); l.kinds(out); r.kinds(out); } }
    pub fn to_coq(&self) -> String {
        match self {
            From::Tab(i) => format!("(FTab {})", i),
            From::Join(k, l, r, on) => format!("(FJoin {} {} {} {})", k.coq(), l.to_coq(), r.to_coq(), on.to_coq()),
        }
    }
    pub fn to_line(&self) -> String {
        match self {
            From::Tab(i) => format!("(t {})", i),
            From::Join(k, l, r, on) => format!("(j {} {} {} {})", k.tok(), l.to_line(), r.to_line(), on.to_line()),
        }
    }
}

/// qualified names of the concatenated columns of a FROM tree
pub fn col_names(from: &From, db: &[Table], unqualified: bool) -> Vec<String> {
    let mut l = vec![]; from.leaves(&mut l);
    let mut out = vec![];
    for ti in l { for j in 0..db[ti].cols.len() { out.push(if unqualified { col_name(j) } else { format!("{}.{}", db[ti].name, col_name(j)) }); } }
    out
}

/// SQL text of an expression whose columns are named by `names` (fully parenthesised, as sqlgen's style 0)
pub fn expr_sql(e: &Expr, names: &[String]) -> String {
    let s = |x: &Expr| expr_sql(x, names);
    match e {
        Expr::Col(i) => names.get(*i).cloned().unwrap_or_else(|| format!("nocol{}", i)),
        Expr::Lit(v) => v.to_sql(),
        Expr::Arith(op, a, b) => format!("({} {} {})", s(a), op.sql(), s(b)),
        Expr::Cmp(op, a, b) => format!("({} {} {})", s(a), op.sql(), s(b)),
        Expr::And(a, b) => format!("({} AND {})", s(a), s(b)),
        Expr::Or(a, b) => format!("({} OR {})", s(a), s(b)),
        Expr::Not(a) => format!("(NOT {})", s(a)),
        Expr::In(neg, a, l) => format!("({} {}IN ({}))", s(a), if *neg { "NOT " } else { "" }, l.iter().map(|x| s(x)).collect::<Vec<_>>().join(", ")),
        Expr::Between(neg, a, l, h) => format!("({} {}BETWEEN {} AND {})", s(a), if *neg { "NOT " } else { "" }, s(l), s(h)),
        Expr::Like(neg, a, p) => format!("({} {}LIKE {})", s(a), if *neg { "NOT " } else { "" }, s(p)),
        Expr::IsNull(neg, a) => format!("({} IS {}NULL)", s(a), if *neg { "NOT " } else { "" }),
    }
}

fn from_sql(f: &From, db: &[Table], names: &[String], base: usize, sty: u8) -> String {
    match f {
        From::Tab(i) => db[*i].name.clone(),
        From::Join(k, l, r, on) => {
            let ls = from_sql(l, db, names, base, sty);
            let rs = from_sql(r, db, names, base + l.width(db), sty);
            // a join on the right-hand side needs parentheses; the generators only build left-deep trees
            let rs = if matches!(**r, From::Join(..)) { format!("({})", rs) } else { rs };
            // ON sees the columns of this join only: positions base .. base + width
            let w = f.width(db);
            let local: Vec<String> = names[base..base + w].to_vec();
            match k {
                JKind::Cross => if sty & 1 != 0 { format!("{} CROSS JOIN {}", ls, rs) } else { format!("{}, {}", ls, rs) },
                JKind::Inner => format!("{} {} {} ON {}", ls, if sty & 2 != 0 { "INNER JOIN" } else { "JOIN" }, rs, expr_sql(on, &local)),
                JKind::Left => format!("{} LEFT JOIN {} ON {}", ls, rs, expr_sql(on, &local)),
                JKind::Right => format!("{} RIGHT JOIN {} ON {}", ls, rs, expr_sql(on, &local)),
                JKind::Full => format!("{} FULL JOIN {} ON {}", ls, rs, expr_sql(on, &local)),
            }
        }
    }
}

impl Query {
    pub fn width(&self, db: &[Table]) -> usize { self.from.width(db) }
    /// number of output columns
    pub fn out_width(&self, db: &[Table]) -> usize { if self.star { self.width(db) } else { self.items.len() } }
    pub fn to_sql(&self, db: &[Table]) -> String {
        let single = matches!(self.from, From::Tab(_));
        let names = col_names(&self.from, db, single && self.sty & 4 != 0);
        let items = if self.star { "*".to_string() } else { self.items.iter().map(|e| expr_sql(e, &names)).collect::<Vec<_>>().join(", ") };
        // comma and JOIN have different precedence in standard SQL: trees with two joins never print a comma
        let sty = if self.from.n_joins() >= 2 { self.sty | 1 } else { self.sty };
        let mut s = format!("SELECT {} FROM {}", items, from_sql(&self.from, db, &names, 0, sty));
        if let Some(w) = &self.wh { s.push_str(" WHERE "); s.push_str(&expr_sql(w, &names)); }
        s
    }
    pub fn to_coq(&self) -> String {
        format!("(mkQuery {} {} {} [{}])", self.from.to_coq(),
                match &self.wh { Some(w) => format!("(Some {})", w.to_coq()), None => "None".into() },
                if self.star { "true" } else { "false" },
                self.items.iter().map(|e| e.to_coq()).collect::<Vec<_>>().join("; "))
    }
    /// replay sections:  F <from> | W <expr or -> | S <* or items> | Y <sty>
    pub fn to_line(&self) -> String {
        format!("F {} | W {} | S {} | Y {}", self.from.to_line(),
                match &self.wh { Some(w) => w.to_line(), None => "-".into() },
                if self.star { "*".to_string() } else { self.items.iter().map(|e| e.to_line()).collect::<Vec<_>>().join(" ") },
                self.sty)
    }
}

// ------------------------------------------------------------------ replay parsing helpers
/// split a string of consecutive parenthesised terms `(..) (..)` into the terms
pub fn split_terms(s: &str) -> Option<Vec<String>> {
    let mut out = vec![];
    let mut depth = 0i32;
    let mut cur = String::new();
    for ch in s.chars() {
        if depth == 0 && ch.is_whitespace() { continue; }
        if ch == '(' { depth += 1; }
        cur.push(ch);
        if ch == ')' { depth -= 1; if depth < 0 { return None; } if depth == 0 { out.push(std::mem::take(&mut cur)); } }
        else if depth == 0 { return None; }
    }
    if depth != 0 || !cur.is_empty() { return None; }
    Some(out)
}

pub fn parse_from(s: &str) -> Option<From> {
    let s = s.trim();
    let inner = s.strip_prefix('(')?.strip_suffix(')')?;
    if let Some(r) = inner.strip_prefix("t ") { return r.trim().parse::<usize>().ok().map(From::Tab); }
    let r = inner.strip_prefix("j ")?;
    let (k, rest) = r.split_once(' ')?;
    let k = JKind::from_tok(k)?;
    let parts = split_terms(rest)?;
    if parts.len() != 3 { return None; }
    Some(From::Join(k, Box::new(parse_from(&parts[0])?), Box::new(parse_from(&parts[1])?), Expr::from_line(&parts[2])?))
}

pub fn parse_query_sections(f: &str, w: &str, s: &str, y: &str) -> Option<Query> {
    let from = parse_from(f)?;
    let wh = if w.trim() == "-" { None } else { Some(Expr::from_line(w.trim())?) };
    let (star, items) = if s.trim() == "*" { (true, vec![]) } else {
        let mut v = vec![];
        for t in split_terms(s)? { v.push(Expr::from_line(&t)?); }
        (false, v)
    };
    Some(Query { from, wh, star, items, sty: y.trim().parse().ok()? })
}

/// database line section: `<cols>:<rows>` per table (sqlgen's table notation without the keywords)
pub fn table_section(t: &Table) -> String {
    let l = t.to_line();                                  // cols=IFT rows=...
    let (c, r) = l.split_once(" rows=").unwrap();
    format!("{}:{}", c.trim_start_matches("cols="), r)
}
pub fn parse_table_section(name: &str, s: &str) -> Option<Table> {
    let (c, r) = s.trim().split_once(':')?;
    Table::from_line(name, c, r)
}

// ------------------------------------------------------------------ the rewrites (Model/QuerySpec.v)
/// swap the operands of every AND / OR (through NOT and IS NULL operands)
pub fn mirror(e: &Expr) -> Expr {
    match e {
        Expr::And(a, b) => Expr::and(mirror(b), mirror(a)),
        Expr::Or(a, b) => Expr::or(mirror(b), mirror(a)),
        Expr::Not(a) => Expr::not(mirror(a)),
        Expr::IsNull(n, a) => Expr::IsNull(*n, Box::new(mirror(a))),
        x => x.clone(),
    }
}
pub fn comm_top(e: &Expr) -> Expr {
    match e { Expr::And(a, b) => Expr::And(b.clone(), a.clone()), Expr::Or(a, b) => Expr::Or(b.clone(), a.clone()), x => x.clone() }
}
pub fn assoc_r(e: &Expr) -> Expr {
    match e {
        Expr::And(ab, c) => if let Expr::And(a, b) = &**ab { Expr::And(a.clone(), Box::new(Expr::And(b.clone(), c.clone()))) } else { e.clone() },
        Expr::Or(ab, c) => if let Expr::Or(a, b) = &**ab { Expr::Or(a.clone(), Box::new(Expr::Or(b.clone(), c.clone()))) } else { e.clone() },
        x => x.clone(),
    }
}
pub fn assoc_l(e: &Expr) -> Expr {
    match e {
        Expr::And(a, bc) => if let Expr::And(b, c) = &**bc { Expr::And(Box::new(Expr::And(a.clone(), b.clone())), c.clone()) } else { e.clone() },
        Expr::Or(a, bc) => if let Expr::Or(b, c) = &**bc { Expr::Or(Box::new(Expr::Or(a.clone(), b.clone())), c.clone()) } else { e.clone() },
        x => x.clone(),
    }
}
pub fn de_morgan(e: &Expr) -> Expr {
    match e {
        Expr::And(a, b) => Expr::not(Expr::Or(Box::new(Expr::Not(a.clone())), Box::new(Expr::Not(b.clone())))),
        Expr::Or(a, b) => Expr::not(Expr::And(Box::new(Expr::Not(a.clone())), Box::new(Expr::Not(b.clone())))),
        Expr::Not(x) => match &**x {
            Expr::And(a, b) => Expr::Or(Box::new(Expr::Not(a.clone())), Box::new(Expr::Not(b.clone()))),
            Expr::Or(a, b) => Expr::And(Box::new(Expr::Not(a.clone())), Box::new(Expr::Not(b.clone()))),
            _ => e.clone(),
        },
        x => x.clone(),
    }
}
/// a IN (x1, .., xn) as (a = x1) OR (.. OR (a = xn)), a BETWEEN l AND h as (a >= l) AND (a <= h),
/// the negated forms under NOT; through AND / OR / NOT
pub fn expand(e: &Expr) -> Expr {
    match e {
        Expr::And(a, b) => Expr::and(expand(a), expand(b)),
        Expr::Or(a, b) => Expr::or(expand(a), expand(b)),
        Expr::Not(a) => Expr::not(expand(a)),
        Expr::In(neg, a, l) if !l.is_empty() => {
            let mut it = l.iter().rev();
            let last = it.next().unwrap();
            let mut acc = Expr::cmp(CmpOp::Eq, (**a).clone(), last.clone());
            for x in it { acc = Expr::or(Expr::cmp(CmpOp::Eq, (**a).clone(), x.clone()), acc); }
            if *neg { Expr::not(acc) } else { acc }
        }
        Expr::Between(neg, a, l, h) => {
            let c = Expr::and(Expr::cmp(CmpOp::Ge, (**a).clone(), (**l).clone()), Expr::cmp(CmpOp::Le, (**a).clone(), (**h).clone()));
            if *neg { Expr::not(c) } else { c }
        }
        x => x.clone(),
    }
}
/// a = b as (a <= b) AND (a >= b), through AND / OR / NOT
pub fn eq_range(e: &Expr) -> Expr {
    match e {
        Expr::And(a, b) => Expr::and(eq_range(a), eq_range(b)),
        Expr::Or(a, b) => Expr::or(eq_range(a), eq_range(b)),
        Expr::Not(a) => Expr::not(eq_range(a)),
        Expr::Cmp(CmpOp::Eq, a, b) => Expr::and(Expr::Cmp(CmpOp::Le, a.clone(), b.clone()), Expr::Cmp(CmpOp::Ge, a.clone(), b.clone())),
        x => x.clone(),
    }
}
/// renumber columns
pub fn remap(e: &Expr, f: &dyn Fn(usize) -> usize) -> Expr {
    let r = |x: &Expr| Box::new(remap(x, f));
    match e {
        Expr::Col(i) => Expr::Col(f(*i)),
        Expr::Lit(v) => Expr::Lit(v.clone()),
        Expr::Arith(op, a, b) => Expr::Arith(*op, r(a), r(b)),
        Expr::Cmp(op, a, b) => Expr::Cmp(*op, r(a), r(b)),
        Expr::And(a, b) => Expr::And(r(a), r(b)),
        Expr::Or(a, b) => Expr::Or(r(a), r(b)),
        Expr::Not(a) => Expr::Not(r(a)),
        Expr::In(n, a, l) => Expr::In(*n, r(a), l.iter().map(|x| remap(x, f)).collect()),
        Expr::Between(n, a, l, h) => Expr::Between(*n, r(a), r(l), r(h)),
        Expr::Like(n, a, p) => Expr::Like(*n, r(a), r(p)),
        Expr::IsNull(n, a) => Expr::IsNull(*n, r(a)),
    }
}

#[derive(Clone, Debug, PartialEq)]
pub enum Rewrite {
    Style(u8),            // same query, other surface syntax (sty)
    Mirror,               // WHERE and every ON mirrored
    EqRange,              // every a = b of WHERE and of every ON as a <= b AND a >= b
    CommTop, AssocR, AssocL, DeMorgan, NotNot, Expand,      // on WHERE
    TrueConj(bool, Expr), // WHERE p -> p AND t (false) / t AND p (true); no WHERE -> WHERE t
    Items(Vec<usize>),    // select items reordered: new item j = old item p[j]
    FromSwap,             // the two inputs of the root join exchanged (LEFT <-> RIGHT)
    OnToWhere,            // root INNER join: ON c WHERE p -> cross join WHERE c AND p
    WhereToOn,            // root cross join with WHERE p -> INNER JOIN ON p, no WHERE
}

fn eq_range_from(f: &From) -> From {
    match f { From::Tab(i) => From::Tab(*i), From::Join(k, l, r, on) => From::Join(*k, Box::new(eq_range_from(l)), Box::new(eq_range_from(r)), eq_range(on)) }
}
fn mirror_from(f: &From) -> From {
    match f { From::Tab(i) => From::Tab(*i), From::Join(k, l, r, on) => From::Join(*k, Box::new(mirror_from(l)), Box::new(mirror_from(r)), mirror(on)) }
}

impl Rewrite {
    pub fn to_coq(&self) -> String {
        match self {
            Rewrite::Style(_) => "RwStyle".into(),
            Rewrite::EqRange => "RwEqRange".into(),
            Rewrite::Mirror => "RwMirror".into(), Rewrite::CommTop => "RwCommTop".into(), Rewrite::AssocR => "RwAssocR".into(),
            Rewrite::AssocL => "RwAssocL".into(), Rewrite::DeMorgan => "RwDeMorgan".into(), Rewrite::NotNot => "RwNotNot".into(),
            Rewrite::Expand => "RwExpand".into(),
            Rewrite::TrueConj(s, t) => format!("(RwTrueConj {} {})", if *s { "true" } else { "false" }, t.to_coq()),
            Rewrite::Items(p) => format!("(RwItems [{}]%nat)", p.iter().map(|x| x.to_string()).collect::<Vec<_>>().join(";")),
            Rewrite::FromSwap => "RwFromSwap".into(), Rewrite::OnToWhere => "RwOnToWhere".into(), Rewrite::WhereToOn => "RwWhereToOn".into(),
        }
    }
    pub fn to_line(&self) -> String {
        match self {
            Rewrite::Style(s) => format!("style {}", s),
            Rewrite::EqRange => "eqrange".into(),
            Rewrite::Mirror => "mirror".into(), Rewrite::CommTop => "commtop".into(), Rewrite::AssocR => "assocr".into(),
            Rewrite::AssocL => "assocl".into(), Rewrite::DeMorgan => "demorgan".into(), Rewrite::NotNot => "notnot".into(),
            Rewrite::Expand => "expand".into(),
            Rewrite::TrueConj(s, t) => format!("true {} {}", if *s { "l" } else { "r" }, t.to_line()),
            Rewrite::Items(p) => format!("items {}", p.iter().map(|x| x.to_string()).collect::<Vec<_>>().join(" ")),
            Rewrite::FromSwap => "fromswap".into(), Rewrite::OnToWhere => "ontowhere".into(), Rewrite::WhereToOn => "wheretoon".into(),
        }
    }
    pub fn from_line(s: &str) -> Option<Rewrite> {
        let s = s.trim();
        let (h, rest) = s.split_once(' ').unwrap_or((s, ""));
        Some(match h {
            "style" => Rewrite::Style(rest.trim().parse().ok()?),
            "eqrange" => Rewrite::EqRange,
            "mirror" => Rewrite::Mirror, "commtop" => Rewrite::CommTop, "assocr" => Rewrite::AssocR, "assocl" => Rewrite::AssocL,
            "demorgan" => Rewrite::DeMorgan, "notnot" => Rewrite::NotNot, "expand" => Rewrite::Expand,
            "true" => { let (side, e) = rest.trim().split_once(' ')?; Rewrite::TrueConj(side == "l", Expr::from_line(e.trim())?) }
            "items" => { let p: Option<Vec<usize>> = rest.split_whitespace().map(|x| x.parse().ok()).collect(); Rewrite::Items(p?) }
            "fromswap" => Rewrite::FromSwap, "ontowhere" => Rewrite::OnToWhere, "wheretoon" => Rewrite::WhereToOn,
            _ => return None,
        })
    }
    pub fn kind(&self) -> &'static str {
        match self {
            Rewrite::EqRange => "eqrange",
            Rewrite::Style(_) => "style", Rewrite::Mirror => "mirror", Rewrite::CommTop => "commtop", Rewrite::AssocR => "assocr", Rewrite::AssocL => "assocl",
            Rewrite::DeMorgan => "demorgan", Rewrite::NotNot => "notnot", Rewrite::Expand => "expand", Rewrite::TrueConj(..) => "trueconj",
            Rewrite::Items(_) => "items", Rewrite::FromSwap => "fromswap", Rewrite::OnToWhere => "ontowhere", Rewrite::WhereToOn => "wheretoon",
        }
    }

    /// the rewritten query and the column permutation `perm` of its output:
    /// new_row[j] = old_row[perm[j]]  (empty = identity).  None = the rewrite does not apply.
    pub fn apply(&self, q: &Query, db: &[Table]) -> Option<(Query, Vec<usize>)> {
        let on_where = |f: &dyn Fn(&Expr) -> Expr| -> Option<(Query, Vec<usize>)> {
            let w = q.wh.as_ref()?;
            Some((Query { wh: Some(f(w)), ..q.clone() }, vec![]))
        };
        match self {
            Rewrite::Style(s) => Some((Query { sty: *s, ..q.clone() }, vec![])),
            Rewrite::Mirror => Some((Query { from: mirror_from(&q.from), wh: q.wh.as_ref().map(mirror), ..q.clone() }, vec![])),
            Rewrite::EqRange => Some((Query { from: eq_range_from(&q.from), wh: q.wh.as_ref().map(eq_range), ..q.clone() }, vec![])),
            Rewrite::CommTop => on_where(&comm_top),
            Rewrite::AssocR => on_where(&assoc_r),
            Rewrite::AssocL => on_where(&assoc_l),
            Rewrite::DeMorgan => on_where(&de_morgan),
            Rewrite::NotNot => on_where(&|e| Expr::not(Expr::not(e.clone()))),
            Rewrite::Expand => on_where(&expand),
            Rewrite::TrueConj(side, t) => {
                let w = match &q.wh { None => t.clone(), Some(p) => if *side { Expr::and(t.clone(), p.clone()) } else { Expr::and(p.clone(), t.clone()) } };
                Some((Query { wh: Some(w), ..q.clone() }, vec![]))
            }
            Rewrite::Items(p) => {
                if q.star || p.len() != q.items.len() { return None; }
                let mut seen = vec![false; p.len()];
                for x in p { if *x >= p.len() || seen[*x] { return None; } seen[*x] = true; }
                Some((Query { items: p.iter().map(|i| q.items[*i].clone()).collect(), ..q.clone() }, p.clone()))
            }
            Rewrite::FromSwap => {
                if let From::Join(k, l, r, on) = &q.from {
                    let (wl, wr) = (l.width(db), r.width(db));
                    let f = move |i: usize| if i < wl { i + wr } else { i - wl };
                    let from = From::Join(k.mirror(), r.clone(), l.clone(), remap(on, &f));
                    let perm: Vec<usize> = if q.star { (0..wl + wr).map(|j| if j < wr { wl + j } else { j - wr }).collect() } else { vec![] };
                    Some((Query { from, wh: q.wh.as_ref().map(|e| remap(e, &f)), star: q.star, items: q.items.iter().map(|e| remap(e, &f)).collect(), sty: q.sty }, perm))
                } else { None }
            }
            Rewrite::OnToWhere => {
                if let From::Join(JKind::Inner, l, r, on) = &q.from {
                    let from = From::Join(JKind::Cross, l.clone(), r.clone(), lit_true());
                    let wh = match &q.wh { None => on.clone(), Some(p) => Expr::and(on.clone(), p.clone()) };
                    Some((Query { from, wh: Some(wh), ..q.clone() }, vec![]))
                } else { None }
            }
            Rewrite::WhereToOn => {
                if let (From::Join(JKind::Cross, l, r, _), Some(p)) = (&q.from, &q.wh) {
                    Some((Query { from: From::Join(JKind::Inner, l.clone(), r.clone(), p.clone()), wh: None, ..q.clone() }, vec![]))
                } else { None }
            }
        }
    }
}

// ------------------------------------------------------------------ reference semantics of queries (search mode / statistics only)
fn nulls(n: usize) -> Vec<Val> { vec![Val::Null; n] }
fn passes(e: &Expr, r: &[Val]) -> bool { sem3(e, r) == Some(Tv::T) }

pub fn eval_from(f: &From, db: &[Table]) -> Vec<Vec<Val>> {
    match f {
        From::Tab(i) => db[*i].rows.clone(),
        From::Join(k, l, r, on) => {
            let (lr, rr) = (eval_from(l, db), eval_from(r, db));
            let (wl, wr) = (l.width(db), r.width(db));
            let cat = |a: &Vec<Val>, b: &Vec<Val>| { let mut v = a.clone(); v.extend(b.iter().cloned()); v };
            let mut out = vec![];
            let mut rmatched = vec![false; rr.len()];
            for a in &lr {
                let mut any = false;
                for (j, b) in rr.iter().enumerate() {
                    let c = cat(a, b);
                    if *k == JKind::Cross || passes(on, &c) { any = true; rmatched[j] = true; out.push(c); }
                }
                if !any && matches!(k, JKind::Left | JKind::Full) { out.push(cat(a, &nulls(wr))); }
            }
            if matches!(k, JKind::Right | JKind::Full) {
                for (j, b) in rr.iter().enumerate() { if !rmatched[j] { out.push(cat(&nulls(wl), b)); } }
            }
            out
        }
    }
}
/// None = the reference semantics is undefined somewhere (a predicate or an item)
pub fn eval_query(q: &Query, db: &[Table]) -> Option<Vec<Vec<Val>>> {
    if !from_defined(&q.from, db) { return None; }
    let rows = eval_from(&q.from, db);
    let mut out = vec![];
    for r in rows {
        if let Some(w) = &q.wh { match sem3(w, &r) { None => return None, Some(Tv::T) => {} _ => continue } }
        if q.star { out.push(r); } else {
            let mut o = vec![];
            for it in &q.items { o.push(eval(it, &r)?); }
            out.push(o);
        }
    }
    Some(out)
}
/// every ON predicate has a truth value on every candidate pair
pub fn from_defined(f: &From, db: &[Table]) -> bool {
    match f {
        From::Tab(_) => true,
        From::Join(k, l, r, on) => {
            if !from_defined(l, db) || !from_defined(r, db) { return false; }
            if *k == JKind::Cross { return true; }
            let (lr, rr) = (eval_from(l, db), eval_from(r, db));
            lr.iter().all(|a| rr.iter().all(|b| { let mut c = a.clone(); c.extend(b.iter().cloned()); sem3(on, &c).is_some() }))
        }
    }
}

// ------------------------------------------------------------------ generators
/// a table whose column types are given (so that join partners share comparable columns)
pub fn gen_table_small(rng: &mut Rng, name: &str, cfg: &GenCfg) -> Table {
    gen_table(rng, name, cfg)
}

/// a pseudo table that stands for the concatenated row of a FROM tree, so that sqlgen's expression
/// generators (which pick columns by type, skipping column 0) can be reused: column 0 is a dummy.
fn concat_table(from: &From, db: &[Table]) -> (Table, Vec<usize>) {
    let mut l = vec![]; from.leaves(&mut l);
    let mut cols = vec![ColTy::Int];
    let mut map = vec![0usize];                // pseudo column -> real concatenated position
    let mut pos = 0usize;
    for ti in &l { for j in 0..db[*ti].cols.len() { cols.push(db[*ti].cols[j]); map.push(pos); pos += 1; } }
    // rows: a sample of the cross product (only used for picking literals that occur in the data)
    let mut rows: Vec<Vec<Val>> = vec![];
    let n = l.iter().map(|ti| db[*ti].rows.len()).max().unwrap_or(0);
    for k in 0..n {
        let mut row = vec![Val::Int(k as i64)];
        let mut ok = true;
        for ti in &l { if db[*ti].rows.is_empty() { ok = false; break; } row.extend(db[*ti].rows[k % db[*ti].rows.len()].iter().cloned()); }
        if ok { rows.push(row); }
    }
    (Table { name: "x".into(), cols, rows }, map)
}

/// a predicate over the concatenated row of `from`
pub fn gen_pred_over(rng: &mut Rng, from: &From, db: &[Table], cfg: &GenCfg, depth: usize) -> Expr {
    let (pt, map) = concat_table(from, db);
    let e = gen_pred(rng, &pt, cfg, depth);
    remap(&e, &|i| map[i])
}
/// an equi-join style condition between the two sides of a join (columns of equal type), sometimes
/// with a second conjunct / a non-equi comparison
pub fn gen_on(rng: &mut Rng, l: &From, r: &From, db: &[Table], cfg: &GenCfg) -> Expr {
    let (wl, wr) = (l.width(db), r.width(db));
    let mut lt = vec![]; let mut ll = vec![]; l.leaves(&mut ll); for ti in &ll { lt.extend(db[*ti].cols.iter().cloned()); }
    let mut rt = vec![]; let mut rl = vec![]; r.leaves(&mut rl); for ti in &rl { rt.extend(db[*ti].cols.iter().cloned()); }
    let mut pairs = vec![];
    for i in 0..wl { for j in 0..wr { if lt[i] == rt[j] { pairs.push((i, wl + j)); } } }
    let pick_pair = |rng: &mut Rng| -> Expr {
        let (i, j) = *rng.pick(&pairs);
        let op = if rng.chance(3, 4) { CmpOp::Eq } else { *rng.pick(&CmpOp::all()) };
        if rng.chance(1, 2) { Expr::cmp(op, Expr::Col(i), Expr::Col(j)) } else { Expr::cmp(op, Expr::Col(j), Expr::Col(i)) }
    };
    let joined = From::Join(JKind::Cross, Box::new(l.clone()), Box::new(r.clone()), lit_true());
    match rng.below(10) {
        0..=5 => pick_pair(rng),
        6 | 7 => { let a = pick_pair(rng); let b = if rng.chance(1, 2) { pick_pair(rng) } else { gen_pred_over(rng, &joined, db, cfg, 1) }; if rng.chance(1, 2) { Expr::and(a, b) } else { Expr::and(b, a) } }
        8 => gen_pred_over(rng, &joined, db, cfg, 2),
        _ => { let a = pick_pair(rng); let b = gen_pred_over(rng, &joined, db, cfg, 1); Expr::or(a, b) }
    }
}

/// always-true conjuncts (tautologies of the reference semantics on every row where they are defined)
pub fn gen_true(rng: &mut Rng, q: &Query, db: &[Table]) -> Expr {
    let w = q.width(db);
    match rng.below(6) {
        0 => lit_true(),
        1 => { let k = rng.range(0, 9); Expr::cmp(CmpOp::Eq, Expr::int(k), Expr::int(k)) }
        2 => Expr::cmp(CmpOp::Eq, Expr::Lit(Val::text("a")), Expr::Lit(Val::text("a"))),
        3 if w > 0 => { let c = rng.below(w as u64) as usize; Expr::or(Expr::is_null(false, Expr::Col(c)), Expr::is_null(true, Expr::Col(c))) }
        4 => Expr::not(Expr::Lit(Val::Bool(false))),
        _ => { let k = rng.range(0, 5); Expr::cmp(CmpOp::Lt, Expr::int(k), Expr::int(k + 1 + rng.range(0, 3))) }
    }
}

// ------------------------------------------------------------------ models of the optimizer's syntactic analyses
// (Rust ports of coq/Model/ConstFold.v, Pushdown.v, PlanClass.v: used by `search` / `probe` and for the
// run statistics only; the authoritative classification is known_class in coq/Corr/C19.v)
#[derive(Clone, Debug, PartialEq)]
pub enum Folded { True, False, Simp(Expr) }

/// is the node a Literal of TurDB's AST when printed by `expr_sql` (negative numbers print as unary minus)
fn ast_literal(e: &Expr) -> Option<&Val> {
    match e {
        Expr::Lit(Val::Int(i)) if *i < 0 => None,
        Expr::Lit(Val::Float(b)) if b >> 63 != 0 => None,
        Expr::Lit(v) => Some(v),
        _ => None,
    }
}
fn literals_equal(l: &Val, r: &Val) -> Option<bool> {
    match (l, r) {
        (Val::Bool(a), Val::Bool(b)) => Some(a == b),
        (Val::Int(a), Val::Int(b)) => Some(a == b),
        (Val::Text(a), Val::Text(b)) => Some(a == b),
        _ => None,
    }
}
/// try_fold_filter_predicate of src/sql/optimizer/rules/constant_folding.rs
pub fn fold(e: &Expr) -> Option<Folded> {
    match e {
        Expr::Lit(Val::Bool(true)) => Some(Folded::True),
        Expr::Lit(Val::Bool(false)) => Some(Folded::False),
        Expr::And(a, b) => match (fold(a), fold(b)) {
            (Some(Folded::False), _) | (_, Some(Folded::False)) => Some(Folded::False),
            (Some(Folded::True), None) => Some(Folded::Simp((**b).clone())),
            (None, Some(Folded::True)) => Some(Folded::Simp((**a).clone())),
            (Some(Folded::True), Some(Folded::True)) => Some(Folded::True),
            _ => None,
        },
        Expr::Or(a, b) => match (fold(a), fold(b)) {
            (Some(Folded::True), _) | (_, Some(Folded::True)) => Some(Folded::True),
            (Some(Folded::False), None) => Some(Folded::Simp((**b).clone())),
            (None, Some(Folded::False)) => Some(Folded::Simp((**a).clone())),
            (Some(Folded::False), Some(Folded::False)) => Some(Folded::False),
            _ => None,
        },
        Expr::Cmp(op, a, b) if matches!(op, CmpOp::Eq | CmpOp::Ne) => {
            let (l, r) = (ast_literal(a)?, ast_literal(b)?);
            literals_equal(l, r).map(|eq| if eq == (*op == CmpOp::Eq) { Folded::True } else { Folded::False })
        }
        Expr::Not(x) => match fold(x) { Some(Folded::True) => Some(Folded::False), Some(Folded::False) => Some(Folded::True), _ => None },
        _ => None,
    }
}
/// the filter predicate the optimizer's fixed point leaves: None = filter removed
pub fn effective_filter(p: &Expr) -> Option<Expr> {
    match fold(p) {
        None => Some(p.clone()),
        Some(Folded::True) => None,
        Some(Folded::False) => Some(Expr::Lit(Val::Bool(false))),
        Some(Folded::Simp(q)) => effective_filter(&q),
    }
}

pub fn flatten_and(e: &Expr) -> Vec<&Expr> {
    match e { Expr::And(a, b) => { let mut v = flatten_and(a); v.extend(flatten_and(b)); v } x => vec![x] }
}
/// leaf number (position in the FROM list) of every concatenated column
pub fn leaf_of_cols(from: &From, db: &[Table]) -> Vec<usize> {
    let mut l = vec![]; from.leaves(&mut l);
    let mut out = vec![];
    for (k, ti) in l.iter().enumerate() { for _ in 0..db[*ti].cols.len() { out.push(k); } }
    out
}
/// collect_expr_tables of predicate_pushdown.rs: columns below BinaryOp / UnaryOp nodes only (bit mask of leaves)
pub fn vis_tables(e: &Expr, leaf: &[usize]) -> u32 {
    match e {
        Expr::Col(i) => 1 << leaf[*i],
        Expr::Arith(_, a, b) | Expr::Cmp(_, a, b) | Expr::And(a, b) | Expr::Or(a, b) => vis_tables(a, leaf) | vis_tables(b, leaf),
        Expr::Not(a) => vis_tables(a, leaf),
        _ => 0,
    }
}
pub fn all_tables(e: &Expr, leaf: &[usize]) -> u32 {
    let mut m = 0u32;
    e.walk(&mut |x| if let Expr::Col(i) = x { m |= 1 << leaf[*i]; });
    m
}
fn col_col_eq(e: &Expr) -> Option<(usize, usize)> {
    if let Expr::Cmp(CmpOp::Eq, a, b) = e { if let (Expr::Col(i), Expr::Col(j)) = (&**a, &**b) { return Some((*i, *j)); } }
    None
}
fn and_all(v: &[&Expr]) -> Option<Expr> {
    let mut it = v.iter();
    let mut acc = (*it.next()?).clone();
    for x in it { acc = Expr::and(acc, (*x).clone()); }
    Some(acc)
}

/// the recorded OPEN root causes a query runs into (empty = none); see known_findings.d/C19.json.
/// Classes 1-8 and 10 are repaired in /repo; what is left is class 9: a join whose input is a join.
pub fn dangers(q: &Query, _db: &[Table]) -> Vec<&'static str> {
    match &q.from {
        From::Join(_, l, r, _) if !matches!((&**l, &**r), (From::Tab(_), From::Tab(_))) => vec!["three"],
        _ => vec![],
    }
}
