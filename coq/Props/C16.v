(* C16 - Aggregates and GROUP BY follow SQL semantics.
   Property theorems only.  Reference semantics: Model/SqlSpecAgg.v (on Model/SqlSpec.v);
   implementation model: Model/AggImpl.v (hand-written from src/sql/state.rs, executor.rs,
   builder.rs, predicate.rs; tied to the code by the correspondence run); classes: Model/AggClass.v. *)
From Coq Require Import ZArith List Bool.
From TV Require Import Model.SqlSpecAgg Model.AggImpl Model.AggClass
  Proof.AggFold Proof.AggFoldSpec Proof.AggRefute.
Import ListNotations.
Open Scope Z_scope.

(* every aggregate function, EVERY list of argument values outside the recorded classes: folding
   AggregateState::update over the values and finalizing gives exactly the reference aggregate
   (COUNT( * ) = length, COUNT(e) = number of non-NULL, SUM / MIN / MAX over the non-NULL values,
   NULL when there is none, AVG = SUM / COUNT as a double); no `+=` overflows *)
Theorem agg_fold_spec :
  forall f vs v,
    vals_class f vs = 0 -> int_sums f vs = true ->
    agg_vals f vs = AVal v ->
    exists s, fold_upd (kind_of_fn f) st0 (map Some vs) = SOk s /\ fin (kind_of_fn f) s = v.
Proof. exact Proof.AggFoldSpec.agg_fold_spec. Qed.
Check agg_fold_spec :
  forall f vs v,
    vals_class f vs = 0 -> int_sums f vs = true ->
    agg_vals f vs = AVal v ->
    exists s, fold_upd (kind_of_fn f) st0 (map Some vs) = SOk s /\ fin (kind_of_fn f) s = v.
Print Assumptions agg_fold_spec.

(* the recorded classes are real: in each the faithful model answers a concrete query wrongly *)
Theorem count_null_refuted :
  q_class q_count t_count = 1 /\ wrong_rows q_count t_count /\ model_query q_count t_count = MRows [[VInt 2]].
Proof. exact count_null_refuted_l. Qed.
Check count_null_refuted :
  q_class q_count t_count = 1 /\ wrong_rows q_count t_count /\ model_query q_count t_count = MRows [[VInt 2]].
Print Assumptions count_null_refuted.

Theorem sum_empty_refuted :
  q_class q_sum t_sum = 2 /\ wrong_rows q_sum t_sum /\ model_query q_sum t_sum = MRows [[VInt 0]] /\
  q_class q_sum [] = 2 /\ wrong_rows q_sum [].
Proof. exact sum_empty_refuted_l. Qed.
Check sum_empty_refuted :
  q_class q_sum t_sum = 2 /\ wrong_rows q_sum t_sum /\ model_query q_sum t_sum = MRows [[VInt 0]] /\
  q_class q_sum [] = 2 /\ wrong_rows q_sum [].
Print Assumptions sum_empty_refuted.

Theorem sum_overflow_panics :
  q_class q_sum t_ovf = 3 /\ model_query q_sum t_ovf = MPanic /\ spec_query q_sum t_ovf = SError.
Proof. exact sum_overflow_panics_l. Qed.
Check sum_overflow_panics :
  q_class q_sum t_ovf = 3 /\ model_query q_sum t_ovf = MPanic /\ spec_query q_sum t_ovf = SError.
Print Assumptions sum_overflow_panics.

Theorem text_min_refuted :
  q_class q_min t_text = 4 /\ wrong_rows q_min t_text /\ model_query q_min t_text = MRows [[VNull]].
Proof. exact text_min_refuted_l. Qed.
Check text_min_refuted :
  q_class q_min t_text = 4 /\ wrong_rows q_min t_text /\ model_query q_min t_text = MRows [[VNull]].
Print Assumptions text_min_refuted.

Theorem arg_expr_refuted :
  q_class q_arg t_two = 5 /\ wrong_rows q_arg t_two /\ model_query q_arg t_two = MRows [[VInt 3]].
Proof. exact arg_expr_refuted_l. Qed.
Check arg_expr_refuted :
  q_class q_arg t_two = 5 /\ wrong_rows q_arg t_two /\ model_query q_arg t_two = MRows [[VInt 3]].
Print Assumptions arg_expr_refuted.

Theorem key_expr_refuted :
  (q_class q_key t_two = 6 /\ wrong_rows q_key t_two) /\
  (q_class q_nk t_nk = 6 /\ wrong_rows q_nk t_nk /\ model_query q_nk t_nk = MRows [[VInt 2]]).
Proof. exact (conj key_expr_refuted_l key_null_merge_refuted_l). Qed.
Check key_expr_refuted :
  (q_class q_key t_two = 6 /\ wrong_rows q_key t_two) /\
  (q_class q_nk t_nk = 6 /\ wrong_rows q_nk t_nk /\ model_query q_nk t_nk = MRows [[VInt 2]]).
Print Assumptions key_expr_refuted.

Theorem having_agg_refuted :
  q_class q_hav t_hav = 7 /\ wrong_rows q_hav t_hav /\ model_query q_hav t_hav = MRows [].
Proof. exact having_agg_refuted_l. Qed.
Check having_agg_refuted :
  q_class q_hav t_hav = 7 /\ wrong_rows q_hav t_hav /\ model_query q_hav t_hav = MRows [].
Print Assumptions having_agg_refuted.

(* non-vacuity: the hypotheses of agg_fold_spec are met by NULL-rich inputs of every function *)
Example agg_fold_nonvacuous :
  let vs := [VInt 3; VNull; VInt (-5); VInt 3] in
  (vals_class FSum vs = 0 /\ int_sums FSum vs = true /\ agg_vals FSum vs = AVal (VInt 1)) /\
  (vals_class FAvg vs = 0 /\ int_sums FAvg vs = true /\ exists a, agg_vals FAvg vs = AVal (VFloat a)) /\
  (vals_class FMin vs = 0 /\ agg_vals FMin vs = AVal (VInt (-5))) /\
  (vals_class FMax [VNull; VFloat 4609434218613702656; VFloat 0] = 0 /\
   agg_vals FMax [VNull; VFloat 4609434218613702656; VFloat 0] = AVal (VFloat 4609434218613702656)) /\
  (vals_class FAvg [VNull; VNull] = 0 /\ agg_vals FAvg [VNull; VNull] = AVal VNull) /\
  (vals_class FCount [VInt 1; VInt 2] = 0 /\ agg_vals FCount [VInt 1; VInt 2] = AVal (VInt 2)) /\
  (vals_class FCountStar [VNull; VNull] = 0 /\ agg_vals FCountStar [VNull; VNull] = AVal (VInt 2)).
Proof. cbv zeta. repeat split; try (vm_compute; reflexivity). eexists; vm_compute; reflexivity. Qed.
