(* C20 proofs, part 1: integer arithmetic of the SQL evaluator (Model/Arith.v). *)
From Coq Require Import ZArith List Bool Lia ZifyBool.
From TV Require Import Lib.MachInt Model.Arith.
Import ListNotations.
Open Scope Z_scope.

Arguments Z.div : simpl never.
Arguments Z.modulo : simpl never.
Arguments Z.mul : simpl never.
Arguments Z.add : simpl never.
Arguments Z.sub : simpl never.
Arguments Z.pow : simpl never.
Arguments Z.quot : simpl never.
Arguments Z.rem : simpl never.
Arguments Z.leb : simpl never.
Arguments Z.ltb : simpl never.
Arguments Z.eqb : simpl never.
Arguments Z.land : simpl never.
Arguments Z.lor : simpl never.
Arguments Z.lxor : simpl never.
Arguments Z.shiftr : simpl never.
Arguments wrap_s : simpl never.
Arguments in_i64 : simpl never.

Lemma in_i64_true x : in_i64 x = true <-> i64_min <= x <= i64_max.
Proof. unfold in_i64. lia. Qed.
Lemma in_i64_false x : in_i64 x = false <-> (x < i64_min \/ i64_max < x).
Proof. unfold in_i64. lia. Qed.

(* ------------------------------------------------------------------ i64::pow *)
Lemma pow_split b e : 0 <= e -> b ^ e = (b * b) ^ (e / 2) * (if Z.odd e then b else 1).
Proof.
  intros He.
  assert (Hk : 0 <= e / 2) by (apply Z.div_pos; lia).
  rewrite (Z.div_mod e 2) at 1 by lia.
  rewrite Z.pow_add_r by (try lia; apply Z.mod_pos_bound; lia).
  rewrite Z.pow_mul_r by lia.
  replace (b ^ 2) with (b * b) by (rewrite Z.pow_2_r; reflexivity).
  f_equal. rewrite Zmod_odd. destruct (Z.odd e).
  - apply Z.pow_1_r.
  - apply Z.pow_0_r.
Qed.

Lemma pow_ge_1 x k : 1 <= x -> 0 <= k -> 1 <= x ^ k.
Proof.
  intros Hx Hk. pose proof (Z.pow_le_mono_l 1 x k ltac:(lia)) as H. rewrite Z.pow_1_l in H by lia. exact H.
Qed.

Lemma square_not_2_63 x : x * x <= 9223372036854775808 -> x * x <= 9223372036854775807.
Proof.
  intros H.
  assert (Hx : -3037000499 <= x <= 3037000499) by nia.
  nia.
Qed.

(* y in range, y = x * k with k >= 1: x in range (same sign, smaller magnitude) *)
Lemma factor_in_range x k : 1 <= k -> in_i64 (x * k) = true -> in_i64 x = true.
Proof. rewrite !in_i64_true. unfold i64_min, i64_max. intros Hk H. nia. Qed.

Lemma pow_loop_ok : forall fuel base acc e,
  (base = 0 \/ acc <> 0) -> 1 <= e < 2 ^ Z.of_nat fuel -> in_i64 (acc * base ^ e) = true ->
  pow_loop fuel base acc e = OVal (VInt (acc * base ^ e)).
Proof.
  induction fuel as [|f IH]; intros base acc e Hinv He Hfit.
  - change (2 ^ Z.of_nat 0) with 1 in He. lia.
  - assert (Hpow2 : 2 ^ Z.of_nat (S f) = 2 * 2 ^ Z.of_nat f).
    { rewrite Nat2Z.inj_succ, Z.pow_succ_r by lia. reflexivity. }
    assert (Hk0 : 0 <= e / 2) by (apply Z.div_pos; lia).
    pose proof (pow_split base e ltac:(lia)) as Hsplit.
    assert (Hsq : 0 <= base * base) by nia.
    assert (HY : 0 <= (base * base) ^ (e / 2)) by (apply Z.pow_nonneg; exact Hsq).
    cbn [pow_loop].
    destruct (Z.odd e) eqn:Hodd.
    + (* odd *)
      assert (Hdm : e = 2 * (e / 2) + 1).
      { pose proof (Z.div_mod e 2 ltac:(lia)) as D. rewrite Zmod_odd, Hodd in D. exact D. }
      assert (HP : acc * base ^ e = (acc * base) * (base * base) ^ (e / 2)) by (rewrite Hsplit; ring).
      destruct (Z.eqb_spec e 1) as [E1|E1].
      * subst e. rewrite Z.pow_1_r in *. rewrite Hfit. reflexivity.
      * assert (Hk1 : 1 <= e / 2) by lia.
        destruct Hinv as [Hb0|Hacc].
        { subst base. replace (acc * 0) with 0 by ring. change (0 * 0) with 0.
          change (in_i64 0) with true. cbn [negb].
          rewrite IH.
          - f_equal. f_equal. rewrite !Z.pow_0_l by lia. ring.
          - left; reflexivity.
          - lia.
          - rewrite Z.pow_0_l by lia. reflexivity. }
        destruct (Z.eq_dec base 0) as [Hb0|Hb0].
        { subst base. replace (acc * 0) with 0 by ring. change (0 * 0) with 0.
          change (in_i64 0) with true.
          rewrite IH.
          - f_equal. f_equal. rewrite !Z.pow_0_l by lia. ring.
          - left; reflexivity.
          - lia.
          - rewrite Z.pow_0_l by lia. reflexivity. }
        assert (HYpos : 1 <= (base * base) ^ (e / 2)) by (apply pow_ge_1; nia).
        assert (Hacc' : in_i64 (acc * base) = true).
        { apply (factor_in_range _ ((base * base) ^ (e / 2))); [exact HYpos|]. rewrite <- HP. exact Hfit. }
        rewrite Hacc'.
        assert (Hb2 : in_i64 (base * base) = true).
        { (* base*base <= |P| <= 2^63, and it is a square *)
          assert (HY2 : (base * base) ^ (e / 2) = (base * base) * (base * base) ^ (e / 2 - 1)).
          { replace (e / 2) with (Z.succ (e / 2 - 1)) at 1 by lia. rewrite Z.pow_succ_r by lia. reflexivity. }
          assert (HZ : 1 <= (base * base) ^ (e / 2 - 1)) by (apply pow_ge_1; nia).
          apply in_i64_true in Hfit. rewrite HP, HY2 in Hfit.
          apply in_i64_true. unfold i64_min, i64_max in *.
          assert (acc * base <> 0) by nia.
          split; [nia|]. apply square_not_2_63.
          set (Z1 := (base * base) ^ (e / 2 - 1)) in *. set (S1 := base * base) in *. set (A1 := acc * base) in *.
          assert (S1 <= Z.abs (A1 * (S1 * Z1))) by nia. lia. }
        rewrite Hb2. rewrite IH.
        -- f_equal. f_equal. symmetry. exact HP.
        -- right. nia.
        -- lia.
        -- rewrite <- HP. exact Hfit.
    + (* even *)
      assert (Hdm : e = 2 * (e / 2)).
      { pose proof (Z.div_mod e 2 ltac:(lia)) as D. rewrite Zmod_odd, Hodd in D. lia. }
      assert (HP : acc * base ^ e = acc * (base * base) ^ (e / 2)) by (rewrite Hsplit; ring).
      assert (Hk1 : 1 <= e / 2) by lia.
      assert (Hb2 : in_i64 (base * base) = true).
      { destruct (Z.eq_dec base 0) as [Hb0|Hb0]; [subst base; reflexivity|].
        destruct Hinv as [?|Hacc]; [contradiction|].
        assert (HY2 : (base * base) ^ (e / 2) = (base * base) * (base * base) ^ (e / 2 - 1)).
        { replace (e / 2) with (Z.succ (e / 2 - 1)) at 1 by lia. rewrite Z.pow_succ_r by lia. reflexivity. }
        assert (HZ : 1 <= (base * base) ^ (e / 2 - 1)) by (apply pow_ge_1; nia).
        apply in_i64_true in Hfit. rewrite HP, HY2 in Hfit.
        apply in_i64_true. unfold i64_min, i64_max in *.
        split; [nia|]. apply square_not_2_63.
        set (Z1 := (base * base) ^ (e / 2 - 1)) in *. set (S1 := base * base) in *.
        assert (S1 <= Z.abs (acc * (S1 * Z1))) by nia. lia. }
      rewrite Hb2. rewrite IH.
      * f_equal. f_equal. symmetry. exact HP.
      * destruct Hinv as [Hb0|Hacc]; [left; subst; reflexivity|right; exact Hacc].
      * lia.
      * rewrite <- HP. exact Hfit.
Qed.

Lemma pow_i64_ok a e : 0 <= e < 2 ^ 32 -> in_i64 (a ^ e) = true -> pow_i64 a e = OVal (VInt (a ^ e)).
Proof.
  intros He Hfit. unfold pow_i64.
  destruct (Z.eqb_spec e 0) as [E|E].
  - subst e. rewrite Z.pow_0_r. reflexivity.
  - rewrite pow_loop_ok.
    + f_equal. f_equal. ring.
    + right. lia.
    + change (Z.of_nat 33) with 33. change (2 ^ 33) with 8589934592. change (2 ^ 32) with 4294967296 in He. lia.
    + rewrite Z.mul_1_l. exact Hfit.
Qed.

Lemma exact_pow_int a b z : 0 <= b -> exact_pow a b = XInt z -> z = a ^ b /\ in_i64 z = true.
Proof.
  intros Hb. unfold exact_pow.
  destruct (Z.eqb_spec b 0) as [B0|B0].
  { intros H; inversion H; subst. rewrite Z.pow_0_r. split; reflexivity. }
  destruct (Z.eqb_spec a 0) as [A0|A0].
  { intros H; inversion H; subst. rewrite Z.pow_0_l by lia. split; reflexivity. }
  destruct (Z.eqb_spec a 1) as [A1|A1].
  { intros H; inversion H; subst. rewrite Z.pow_1_l by lia. split; reflexivity. }
  destruct (Z.eqb_spec a (-1)) as [Am|Am].
  { intros H; inversion H; subst. destruct (Z.even b) eqn:Ev.
    - split; [|reflexivity]. change (-1) with (- (1)). rewrite Z.pow_opp_even by (apply Z.even_spec; exact Ev).
      rewrite Z.pow_1_l by lia. reflexivity.
    - split; [|reflexivity]. change (-1) with (- (1)).
      rewrite Z.pow_opp_odd by (apply Z.odd_spec; rewrite <- Z.negb_even, Ev; reflexivity).
      rewrite Z.pow_1_l by lia. reflexivity. }
  destruct (Z.leb_spec 64 b) as [B|B]; [discriminate|].
  unfold xchk. destruct (in_i64 (a ^ b)) eqn:F; [|discriminate].
  intros H; inversion H; subst. split; [reflexivity|exact F].
Qed.

(* ------------------------------------------------------------------ the evaluator against the exact semantics *)
(* what [eval] returns, given what the exact semantics says, on expressions outside the recorded classes *)
Definition agrees (e : expr) : Prop :=
  match exact e with
  | XInt z => eval e = OVal (VInt z)
  | XNullP => eval e = OVal VNull \/ eval e = ONone
  | XDivZ => eval e = ONone
  | XAny => eval e = ONone
  | XOver => False
  end.

Lemma rem_not_overflow a b : b <> 0 -> ((a =? i64_min) && (b =? -1)) = false ->
  eval_bin Rem (VInt a) (VInt b) = OVal (VInt (Z.rem a b)).
Proof.
  intros Hb H. cbn [eval_bin]. destruct (Z.eqb_spec b 0); [contradiction|]. rewrite H. reflexivity.
Qed.

Lemma bin_step o a b :
  (match o with Pow => 0 <= b < 2 ^ 32 | _ => True end) ->
  step_overflows o a b = false ->
  match exact_bin o a b with
  | XInt z => eval_bin o (VInt a) (VInt b) = OVal (VInt z)
  | XNullP => False
  | XDivZ => eval_bin o (VInt a) (VInt b) = ONone
  | XAny => eval_bin o (VInt a) (VInt b) = ONone
  | XOver => False
  end.
Proof.
  intros Hpow Hst. destruct o; cbn [exact_bin eval_bin step_overflows] in *.
  - unfold xchk, chk in *. destruct (in_i64 (a + b)); [reflexivity|discriminate].
  - unfold xchk, chk in *. destruct (in_i64 (a - b)); [reflexivity|discriminate].
  - unfold xchk, chk in *. destruct (in_i64 (a * b)); [reflexivity|discriminate].
  - destruct (Z.eqb_spec b 0); [reflexivity|].
    unfold xchk, chk in *. destruct (in_i64 (Z.quot a b)); [reflexivity|discriminate].
  - destruct (Z.eqb_spec b 0); [reflexivity|]. rewrite Hst. reflexivity.
  - destruct (Z.leb_spec 0 b) as [B|B]; [|lia].
    rewrite Z.mod_small by lia.
    destruct (exact_pow a b) eqn:EP; try discriminate.
    + apply exact_pow_int in EP; [|lia]. destruct EP as [-> F]. apply pow_i64_ok; [lia|exact F].
    + (* exact_pow never says XNullP / XDivZ / XAny *)
      exfalso. unfold exact_pow, xchk in EP. repeat match type of EP with (if ?c then _ else _) = _ => destruct c end; discriminate.
    + exfalso. unfold exact_pow, xchk in EP. repeat match type of EP with (if ?c then _ else _) = _ => destruct c end; discriminate.
    + exfalso. unfold exact_pow, xchk in EP. repeat match type of EP with (if ?c then _ else _) = _ => destruct c end; discriminate.
  - destruct ((0 <=? b) && (b <? 64)); reflexivity.
  - destruct ((0 <=? b) && (b <? 64)) eqn:C; [|reflexivity].
    rewrite Z.shiftr_div_pow2 by lia. reflexivity.
  - reflexivity.
  - reflexivity.
Qed.

Lemma un_step o a :
  (match exact_un o a with XOver => true | _ => false end) = false ->
  match exact_un o a with
  | XInt z => eval_un o (VInt a) = OVal (VInt z)
  | _ => False
  end.
Proof.
  destruct o; cbn [exact_un eval_un]; try reflexivity.
  unfold xchk, chk. destruct (in_i64 (- a)); [reflexivity|discriminate].
Qed.

Lemma agrees_all : forall e, wf e = true -> big_exponent e = false -> overflow_step e = false -> agrees e.
Proof.
  induction e as [n| |o a IHa|o l IHl r IHr]; intros Hwf Hbig Hov; unfold agrees.
  - cbn [exact eval wf] in *. unfold xchk, in_i64. unfold i64_min.
    destruct ((0 <=? n) && (n <=? i64_max)) eqn:C; [|discriminate].
    replace ((-9223372036854775808 <=? n) && (n <=? i64_max)) with true by lia. reflexivity.
  - cbn [exact eval]. left; reflexivity.
  - cbn [wf big_exponent overflow_step] in *. apply orb_false_iff in Hov. destruct Hov as [Hov1 Hov2].
    specialize (IHa Hwf Hbig Hov1). unfold agrees in IHa.
    cbn [exact eval]. destruct (exact a) as [x| | | |].
    + rewrite IHa. pose proof (un_step o x Hov2) as U. destruct (exact_un o x); try contradiction. exact U.
    + destruct IHa as [-> | ->]; [right; destruct o; reflexivity|right; reflexivity].
    + rewrite IHa. reflexivity.
    + contradiction.
    + rewrite IHa. reflexivity.
  - cbn [big_exponent overflow_step] in *.
    apply orb_false_iff in Hbig. destruct Hbig as [Hbig Hbig3]. apply orb_false_iff in Hbig. destruct Hbig as [Hbig1 Hbig2].
    apply orb_false_iff in Hov. destruct Hov as [Hov Hov3]. apply orb_false_iff in Hov. destruct Hov as [Hov1 Hov2].
    assert (Hwfl : wf l = true) by (destruct o; cbn [wf] in Hwf; apply andb_true_iff in Hwf; tauto).
    assert (Hwfr : wf r = true).
    { destruct o; cbn [wf] in Hwf; apply andb_true_iff in Hwf; try tauto.
      destruct Hwf as [_ Hr]. destruct r; try discriminate. cbn [wf]. exact Hr. }
    specialize (IHl Hwfl Hbig1 Hov1). specialize (IHr Hwfr Hbig2 Hov2). unfold agrees in IHl, IHr.
    cbn [exact eval].
    destruct (exact l) as [a| | | |] eqn:El; try contradiction;
    destruct (exact r) as [b| | | |] eqn:Er; try contradiction.
    + (* both integers *)
      rewrite IHl, IHr.
      assert (Hp : match o with Pow => 0 <= b < 2 ^ 32 | _ => True end).
      { destruct o; try exact I. cbn [wf] in Hwf. apply andb_true_iff in Hwf. destruct Hwf as [_ Hr].
        destruct r as [n| | |]; try discriminate.
        cbn [exact] in Er. unfold xchk in Er. destruct (in_i64 n); [|discriminate]. inversion Er; subst.
        change (2 ^ 32) with 4294967296 in *. lia. }
      pose proof (bin_step o a b Hp Hov3) as B.
      destruct (exact_bin o a b); try contradiction; exact B.
    + rewrite IHl. destruct IHr as [-> | ->]; [right; destruct o; reflexivity|right; reflexivity].
    + rewrite IHl, IHr. reflexivity.
    + rewrite IHl, IHr. reflexivity.
    + destruct IHl as [-> | ->]; [|right; reflexivity]. rewrite IHr. right. destruct o; reflexivity.
    + destruct IHl as [-> | ->]; [|right; reflexivity].
      destruct IHr as [-> | ->]; right; [destruct o; reflexivity|reflexivity].
    + destruct IHl as [-> | ->]; [|reflexivity]. rewrite IHr. reflexivity.
    + destruct IHl as [-> | ->]; [|reflexivity]. rewrite IHr. reflexivity.
    + rewrite IHl. reflexivity.
    + rewrite IHl. reflexivity.
    + rewrite IHl. reflexivity.
    + rewrite IHl. reflexivity.
    + rewrite IHl. reflexivity.
    + rewrite IHl. reflexivity.
    + rewrite IHl. reflexivity.
    + rewrite IHl. reflexivity.
Qed.

Lemma class0 e : arith_class e = 0 -> big_exponent e = false /\ overflow_step e = false.
Proof. unfold arith_class. destruct (big_exponent e); [discriminate|]. destruct (overflow_step e); [discriminate|]. tauto. Qed.

(* the property for every expression outside the recorded classes *)
Theorem arith_in_range_correct_l : forall e z, wf e = true -> arith_class e = 0 ->
  exact e = XInt z -> eval e = OVal (VInt z).
Proof.
  intros e z Hwf Hc Hx. destruct (class0 e Hc) as [Hb Ho].
  pose proof (agrees_all e Hwf Hb Ho) as A. unfold agrees in A. rewrite Hx in A. exact A.
Qed.

Theorem arith_null_l : forall e, wf e = true -> arith_class e = 0 ->
  (exact e = XNullP \/ exact e = XDivZ \/ exact e = XAny) -> to_sql (eval e) = OVal VNull.
Proof.
  intros e Hwf Hc Hx. destruct (class0 e Hc) as [Hb Ho].
  pose proof (agrees_all e Hwf Hb Ho) as A. unfold agrees in A.
  destruct Hx as [Hx|[Hx|Hx]]; rewrite Hx in A.
  - destruct A as [-> | ->]; reflexivity.
  - rewrite A; reflexivity.
  - rewrite A; reflexivity.
Qed.

Theorem arith_class0_ok_l : forall e, wf e = true -> arith_class e = 0 ->
  exact e <> XOver /\ obs_ok (exact e) (to_sql (eval e)) = true.
Proof.
  intros e Hwf Hc. destruct (class0 e Hc) as [Hb Ho].
  pose proof (agrees_all e Hwf Hb Ho) as A. unfold agrees in A.
  destruct (exact e) as [z| | | |].
  - split; [discriminate|]. rewrite A. cbn. apply Z.eqb_refl.
  - split; [discriminate|]. destruct A as [-> | ->]; reflexivity.
  - split; [discriminate|]. rewrite A. reflexivity.
  - contradiction.
  - split; [discriminate|]. rewrite A. reflexivity.
Qed.

(* division and modulo by zero: NULL, whatever the dividend *)
Theorem div_zero_null_l : forall a, in_i64 a = true ->
  eval_bin Div (VInt a) (VInt 0) = ONone /\ eval_bin Rem (VInt a) (VInt 0) = ONone.
Proof. intros a _. split; reflexivity. Qed.

(* the unchecked operators panic: witnesses *)
Definition lit_min : expr := EBin Sub (EUn Neg (ELit i64_max)) (ELit 1).
Theorem arith_no_panic_refuted_l :
  eval (EBin Add (ELit i64_max) (ELit 1)) = OPanic /\ exact (EBin Add (ELit i64_max) (ELit 1)) = XOver /\
  eval (EBin Div lit_min (EUn Neg (ELit 1))) = OPanic /\ exact (EBin Div lit_min (EUn Neg (ELit 1))) = XOver /\
  eval (EUn Neg lit_min) = OPanic /\ exact (EUn Neg lit_min) = XOver /\
  eval (EBin Pow (ELit 2) (ELit 64)) = OPanic /\ exact (EBin Pow (ELit 2) (ELit 64)) = XOver /\
  eval (EBin Rem lit_min (EUn Neg (ELit 1))) = OPanic /\ exact (EBin Rem lit_min (EUn Neg (ELit 1))) = XInt 0 /\
  eval (EBin Mul (ELit 4294967296) (ELit 4294967296)) = OPanic.
Proof. vm_compute. repeat split. Qed.

(* a ^ b with b >= 2^32: the exponent is cut to 32 bits, 0 ^ 4294967296 evaluates to 1 *)
Theorem pow_exponent_truncated_l :
  eval (EBin Pow (ELit 0) (ELit 4294967296)) = OVal (VInt 1) /\ exact (EBin Pow (ELit 0) (ELit 4294967296)) = XInt 0 /\
  arith_class (EBin Pow (ELit 0) (ELit 4294967296)) = 2.
Proof. vm_compute. repeat split. Qed.

(* ------------------------------------------------------------------ functions *)
Lemma r53_small n : Z.abs n <= 2 ^ 53 -> r53 n = n.
Proof.
  intros H. unfold r53. destruct (Z.ltb_spec (Z.abs n) (2 ^ 53)) as [L|L]; [reflexivity|].
  assert (E : Z.abs n = 2 ^ 53) by lia. rewrite E.
  change (Z.log2 (2 ^ 53) - 52) with 1. change (2 ^ 1) with 2. change (2 ^ (1 - 1)) with 1.
  change (2 ^ 53 / 2) with 4503599627370496. change (2 ^ 53 mod 2) with 0.
  change (0 <? 1) with true. cbv iota.
  change (2 ^ 53) with 9007199254740992 in E. lia.
Qed.

Lemma sat64_id x : in_i64 x = true -> sat64 x = x.
Proof. rewrite in_i64_true. unfold sat64. intros H. destruct (Z.ltb_spec x i64_min); [lia|]. destruct (Z.ltb_spec i64_max x); lia. Qed.

Definition int_args (args : list val) : Prop := Forall (fun v => match v with VInt n => in_i64 n = true | VNull => True | _ => False end) args.

Lemma args_ok_of args : int_args args -> args_ok args = true.
Proof.
  unfold args_ok. induction 1 as [|v t Hv _ IH]; [reflexivity|]. cbn [forallb]. rewrite IH.
  destruct v; try contradiction; [reflexivity|]. rewrite Hv. reflexivity.
Qed.

(* ABS SIGN CEIL FLOOR ROUND TRUNCATE on one integer *)
Theorem unary_fn_correct_l : forall n, in_i64 n = true ->
  (n <> i64_min -> eval_nfn FAbs [VInt n] = OVal (VInt (Z.abs n))) /\
  eval_nfn FSign [VInt n] = OVal (VInt (Z.sgn n)) /\
  eval_nfn FCeil [VInt n] = OVal (VInt n) /\ eval_nfn FFloor [VInt n] = OVal (VInt n) /\
  (Z.abs n <= 2 ^ 53 -> eval_nfn FRound [VInt n] = OVal (VInt n) /\ eval_nfn FTrunc [VInt n] = OVal (VInt n) /\
                         eval_nfn FRound [VInt n; VInt 0] = OVal (VInt n) /\ eval_nfn FTrunc [VInt n; VInt 0] = OVal (VInt n)).
Proof.
  intros n Hn. unfold eval_nfn. cbn [args_ok forallb]. rewrite Hn. change (in_i64 0) with true. cbn [andb negb].
  split; [|split; [|split; [|split]]]; try reflexivity.
  - intros Hmin. unfold chk. replace (in_i64 (Z.abs n)) with true; [reflexivity|].
    symmetry. apply in_i64_true. apply in_i64_true in Hn. unfold i64_min, i64_max in *. lia.
  - intros H. cbn [get_num]. rewrite r53_small, sat64_id by assumption. repeat split; reflexivity.
Qed.

Ltac Zify.zify_post_hook ::= Z.to_euclidean_division_equations.

Lemma quot_in_range a b : b <> 0 -> i64_min <= a <= i64_max -> i64_min <= b <= i64_max -> ~ (a = i64_min /\ b = -1) ->
  i64_min <= Z.quot a b <= i64_max.
Proof. unfold i64_min, i64_max. intros. nia. Qed.

(* MOD and DIV on two integers *)
Theorem mod_div_correct_l : forall a b, in_i64 a = true -> in_i64 b = true ->
  (b = 0 -> eval_nfn FMod [VInt a; VInt b] = OVal VNull /\ eval_nfn FDivI [VInt a; VInt b] = OVal VNull) /\
  (b <> 0 -> Z.abs a <= 2 ^ 53 -> Z.abs b <= 2 ^ 53 -> eval_nfn FMod [VInt a; VInt b] = OVal (VFltI (Z.rem a b))) /\
  (b <> 0 -> ~ (a = i64_min /\ b = -1) -> eval_nfn FDivI [VInt a; VInt b] = OVal (VInt (Z.quot a b))).
Proof.
  intros a b Ha Hb. unfold eval_nfn. cbn [args_ok forallb]. rewrite Ha, Hb. cbn [andb negb get_num].
  split; [|split].
  - intros ->. split; reflexivity.
  - intros Hb0 Ha53 Hb53. rewrite !r53_small by assumption.
    destruct (Z.eqb_spec b 0); [contradiction|reflexivity].
  - intros Hb0 Hmin. destruct (Z.eqb_spec b 0); [contradiction|].
    unfold chk. replace (in_i64 (Z.quot a b)) with true; [reflexivity|].
    symmetry. apply in_i64_true. apply in_i64_true in Ha. apply in_i64_true in Hb. unfold i64_min, i64_max in *.
    apply quot_in_range; assumption.
Qed.

(* NULL in, NULL out *)
Theorem fn_null_l :
  eval_nfn FAbs [VNull] = OVal VNull /\ eval_nfn FSign [VNull] = OVal VNull /\ eval_nfn FCeil [VNull] = OVal VNull /\
  eval_nfn FFloor [VNull] = OVal VNull /\
  (forall v, to_sql (eval_nfn FMod [VNull; v]) = OVal VNull \/ eval_nfn FMod [VNull; v] = OUnmod) /\
  to_sql (eval_nfn FRound [VNull]) = OVal VNull /\ to_sql (eval_nfn FTrunc [VNull]) = OVal VNull.
Proof.
  repeat split; try reflexivity.
  intros v. unfold eval_nfn. destruct (args_ok [VNull; v]); [left; reflexivity|right; reflexivity].
Qed.

(* GREATEST / LEAST of integers: the maximum / minimum of the list *)
Lemma fold_ext_ints pick : forall t acc hn, Forall (fun v => exists n, v = VInt n) t ->
  fold_ext pick t (Some acc) hn = (Some (fold_left pick (ints_of t) acc), hn).
Proof.
  induction t as [|v t IH]; intros acc hn H; [reflexivity|].
  inversion H as [|? ? [n ->] Ht]; subst. cbn [fold_ext ints_of flat_map app fold_left].
  rewrite IH by assumption. reflexivity.
Qed.

Theorem greatest_least_correct_l : forall n t, in_i64 n = true ->
  Forall (fun v => exists k, v = VInt k /\ in_i64 k = true) t ->
  eval_nfn FGreatest (VInt n :: t) = OVal (VInt (fold_left Z.max (ints_of t) n)) /\
  eval_nfn FLeast (VInt n :: t) = OVal (VInt (fold_left Z.min (ints_of t) n)).
Proof.
  intros n t Hn Ht.
  assert (Hok : args_ok (VInt n :: t) = true).
  { apply args_ok_of. constructor; [exact Hn|]. clear - Ht. induction Ht as [|v t [k [-> Hk]] _ IH]; [constructor|constructor; assumption]. }
  assert (Hi : Forall (fun v => exists k, v = VInt k) t).
  { clear - Ht. induction Ht as [|v t [k [-> Hk]] _ IH]; [constructor|constructor; [eexists; reflexivity|assumption]]. }
  unfold eval_nfn. rewrite Hok. cbn [negb]. unfold eval_ext. cbn [fold_ext].
  rewrite !fold_ext_ints by assumption. split; reflexivity.
Qed.

(* the unchecked abs / division panic; integers beyond 2^53 come back changed from f64 *)
Theorem fn_refuted_l :
  eval_nfn FAbs [VInt i64_min] = OPanic /\ fn_exact FAbs [VInt i64_min] = XOver /\
  eval_nfn FDivI [VInt i64_min; VInt (-1)] = OPanic /\ fn_exact FDivI [VInt i64_min; VInt (-1)] = XOver /\
  eval_nfn FRound [VInt 9007199254740993] = OVal (VInt 9007199254740992) /\
  eval_nfn FMod [VInt 9007199254740993; VInt 2] = OVal (VFltI 0) /\ fn_exact FMod [VInt 9007199254740993; VInt 2] = XInt 1 /\
  nfn_class FRound [VInt 9007199254740993] = 3 /\ nfn_class FAbs [VInt i64_min] = 1.
Proof. vm_compute. repeat split. Qed.
