(* C31: the three recorded defects, exhibited on the model by evaluation.  Each witness is
   also a replay line of known_findings.d/C31.json and is run on the real code by ./check. *)
From Coq Require Import ZArith List Bool.
From TV Require Import Lib.MachInt Model.Record.
Import ListNotations.
Open Scope Z_scope.

Definition roundtrip_ok (s : schema) (row : list value) : Prop :=
  exists bytes, build_fresh s row = Ok bytes /\ extract s bytes = Ok row.

(* class 1: a lone empty string comes back as NULL *)
Lemma refuted_empty_var_only_l :
  schema_ok [TText] = true /\ fits_row [TText] [VText []] = true /\
  known_class [TText] [VText []] = 1 /\
  build_fresh [TText] [VText []] = Ok [5; 0; 0; 0; 0] /\
  extract [TText] [5; 0; 0; 0; 0] = Ok [VNull].
Proof. vm_compute. repeat split. Qed.

(* class 2: 1.5 in a Float4 column followed by an Int8 column reads back as 0.0;
   alone in the row the write panics *)
Lemma refuted_float4_l :
  schema_ok [TFloat4; TInt8] = true /\
  fits_row [TFloat4; TInt8] [VFloat 4609434218613702656; VInt 3] = true /\
  known_class [TFloat4; TInt8] [VFloat 4609434218613702656; VInt 3] = 2 /\
  build_fresh [TFloat4; TInt8] [VFloat 4609434218613702656; VInt 3]
    = Ok [3; 0; 0; 0; 0; 0; 0; 3; 0; 0; 0; 0; 0; 0; 0] /\
  extract [TFloat4; TInt8] [3; 0; 0; 0; 0; 0; 0; 3; 0; 0; 0; 0; 0; 0; 0] = Ok [VFloat 0; VInt 3] /\
  fits_row [TFloat4] [VFloat 4609434218613702656] = true /\
  build_fresh [TFloat4] [VFloat 4609434218613702656] = Panic.
Proof. vm_compute. repeat split. Qed.

(* class 3: a 17-byte blob starting 0xFE comes back as a ToastPointer *)
Definition toast_like : list Z := 254 :: repeat 1 16.
Lemma refuted_toast_blob_l :
  schema_ok [TBlob] = true /\ fits_row [TBlob] [VBlob toast_like] = true /\
  known_class [TBlob] [VBlob toast_like] = 3 /\
  build_fresh [TBlob] [VBlob toast_like] = Ok ([5; 0; 0; 17; 0] ++ toast_like) /\
  extract [TBlob] ([5; 0; 0; 17; 0] ++ toast_like) = Ok [VToast toast_like].
Proof. vm_compute. repeat split. Qed.

Ltac refute :=
  split; [vm_compute; reflexivity|]; split; [vm_compute; reflexivity|]; split; [vm_compute; reflexivity|];
  let b := fresh "b" in let Hb := fresh "Hb" in let Hx := fresh "Hx" in
  intros [b [Hb Hx]]; vm_compute in Hb; inversion Hb; subst b; vm_compute in Hx; discriminate Hx.

Lemma roundtrip_refuted_l :
  (exists s row, schema_ok s = true /\ fits_row s row = true /\ known_class s row = 1 /\ ~ roundtrip_ok s row) /\
  (exists s row, schema_ok s = true /\ fits_row s row = true /\ known_class s row = 2 /\ ~ roundtrip_ok s row) /\
  (exists s row, schema_ok s = true /\ fits_row s row = true /\ known_class s row = 3 /\ ~ roundtrip_ok s row).
Proof.
  split; [|split].
  - exists [TText], [VText []]. refute.
  - exists [TFloat4; TInt8], [VFloat 4609434218613702656; VInt 3]. refute.
  - exists [TBlob], [VBlob toast_like]. refute.
Qed.
