(* C09 proofs, part 8: histories.  For every well-formed schema and every history of INSERT and
   DELETE statements (any mix on both tables: deletes followed by re-inserts of the same keys,
   RESTRICT and CASCADE parent deletes ...) that stays outside the recorded classes, a run that the
   implementation model reproduces satisfies the property: every write is accepted iff the
   resulting database satisfies every declared constraint, and the tables are the reference's. *)
From Coq Require Import ZArith List Bool Lia.
From TV Require Import Model.SqlSpec Model.CheckStr Model.ConstrSpec Model.ConstrImpl Model.ConstrClass
                       Proof.ConstrBase Proof.ConstrIns Proof.ConstrSel Proof.ConstrDel Corr.C09.
Import ListNotations.
Open Scope Z_scope.

Definition no_update (h : list stmt) : bool :=
  forallb (fun s => match s with SUpd _ _ _ => false | _ => true end) h.

Lemma step_exact sch st s :
  wf_schema sch -> Inv sch st ->
  match s with SUpd _ _ _ => False | _ => True end ->
  stmt_class sch st s = 0 -> stmt_defined sch (abs_db st) s = true ->
  exists ok st', impl_step sch st s = (Some ok, st') /\
                 exec_write sch (abs_db st) s = (ok, abs_db st') /\ Inv sch st'.
Proof.
  intros W I Hs Hc Hd. destruct s as [t rows|t sets w|t w]; [|destruct Hs|].
  - apply insert_exact_l; try assumption.
    + unfold stmt_defined in Hd. apply andb_true_iff in Hd. destruct Hd as [_ Hd].
      apply andb_true_iff in Hd. tauto.
    + cbn [stmt_class] in Hc. destruct (ins_partial sch t st rows); [discriminate|reflexivity].
  - apply delete_exact_l; assumption.
Qed.

Lemma go_exact sch :
  wf_schema sch ->
  forall steps st, Inv sch st -> no_update (map fst steps) = true ->
    hist_class_from sch st (map fst steps) = 0 ->
    impl_go sch st steps = true -> spec_go sch (abs_db st) steps = true.
Proof.
  intros W. induction steps as [|[s o] steps IH]; intros st I Hn Hc Hm; [reflexivity|].
  cbn [map fst no_update forallb] in Hn. apply andb_true_iff in Hn. destruct Hn as [Hs Hn].
  cbn [map fst hist_class_from] in Hc.
  destruct (stmt_class sch st s =? 0) eqn:Hk; [|destruct (stmt_class sch st s); try discriminate; cbn in Hk; discriminate].
  apply Z.eqb_eq in Hk.
  cbn [spec_go]. unfold spec_step. destruct (stmt_defined sch (abs_db st) s) eqn:Hd; [|reflexivity].
  assert (Hs' : match s with SUpd _ _ _ => False | _ => True end) by (destruct s; try exact Logic.I; discriminate).
  destruct (step_exact sch st s W I Hs' Hk Hd) as [ok [st' [E1 [E2 I']]]].
  rewrite E2. cbn [impl_go] in Hm. rewrite E1 in Hm. rewrite E1 in Hc. cbn [snd] in Hc.
  destruct o as [ok' p c|]; [|discriminate].
  apply andb_true_iff in Hm. destruct Hm as [Hm Hrest]. rewrite Hm. cbn [andb].
  apply (IH st' I' Hn Hc Hrest).
Qed.

Theorem constraints_exact_ins_del_l :
  forall sch steps,
    wf_schema sch -> no_update (map fst steps) = true ->
    known_class (Hist sch steps) = 0 -> model_agrees (Hist sch steps) = true ->
    spec_ok (Hist sch steps) = true.
Proof.
  intros sch steps W Hn Hk Hm. unfold known_class, hist_class in Hk. unfold model_agrees in Hm. unfold spec_ok.
  destruct (schema_class sch =? 0) eqn:Hs; [|destruct (schema_class sch); try discriminate; cbn in Hs; discriminate].
  exact (go_exact sch W steps (d_empty sch) (inv_empty sch) Hn Hk Hm).
Qed.
