(* Expression-level laws behind the rewrites of Model/QuerySpec.v: every rewrite of a predicate
   leaves its truth value (or even its value) unchanged on EVERY row, including where the
   reference semantics is undefined (None on both sides). *)
From Coq Require Import ZArith List Bool Lia.
From TV Require Import Model.SqlSpec Proof.SqlSpecLaws Model.QuerySpec.
Import ListNotations.
Open Scope Z_scope.

Lemma opt_tv_and_comm : forall a b, opt_tv_and a b = opt_tv_and b a.
Proof. intros [x|] [y|]; cbn; try reflexivity. now rewrite tv_and_comm. Qed.
Lemma opt_tv_or_comm : forall a b, opt_tv_or a b = opt_tv_or b a.
Proof. intros [x|] [y|]; cbn; try reflexivity. now rewrite tv_or_comm. Qed.

(* ------------------------------------------------------------------ mirror *)
Theorem mirror_eval : forall e r, eval (mirror e) r = eval e r.
Proof.
  induction e; intros r; cbn [mirror eval]; try reflexivity.
  - rewrite IHe1, IHe2. now rewrite opt_tv_and_comm.
  - rewrite IHe1, IHe2. now rewrite opt_tv_or_comm.
  - now rewrite IHe.
  - now rewrite IHe.
Qed.
Corollary mirror_sem3 : forall e r, sem3 (mirror e) r = sem3 e r.
Proof. intros. unfold sem3. now rewrite mirror_eval. Qed.
Corollary mirror_passes : forall e r, passes (mirror e) r = passes e r.
Proof. intros. unfold passes. now rewrite mirror_sem3. Qed.

(* ------------------------------------------------------------------ one-step rewrites at the top *)
Theorem comm_top_sem3 : forall e r, sem3 (comm_top e) r = sem3 e r.
Proof.
  intros [] r; cbn [comm_top]; try reflexivity.
  - apply sem3_and_comm.
  - apply sem3_or_comm.
Qed.
Theorem assoc_r_sem3 : forall e r, sem3 (assoc_r e) r = sem3 e r.
Proof.
  intros e r. destruct e as [| | | |e1 e2|e1 e2| | | | |]; cbn [assoc_r]; try reflexivity.
  - destruct e1; try reflexivity. apply sem3_and_assoc.
  - destruct e1; try reflexivity. apply sem3_or_assoc.
Qed.
Theorem assoc_l_sem3 : forall e r, sem3 (assoc_l e) r = sem3 e r.
Proof.
  intros e r. destruct e as [| | | |e1 e2|e1 e2| | | | |]; cbn [assoc_l]; try reflexivity.
  - destruct e2; try reflexivity. symmetry. apply sem3_and_assoc.
  - destruct e2; try reflexivity. symmetry. apply sem3_or_assoc.
Qed.
Theorem not_not_sem3 : forall e r, sem3 (ENot (ENot e)) r = sem3 e r.
Proof. exact sem3_double_negation. Qed.
Theorem de_morgan_sem3 : forall e r, sem3 (de_morgan e) r = sem3 e r.
Proof.
  intros e r. destruct e as [| | | |e1 e2|e1 e2|e1| | | |]; cbn [de_morgan]; try reflexivity.
  - rewrite sem3_not, <- sem3_de_morgan_and, <- sem3_not. apply sem3_double_negation.
  - rewrite sem3_not, <- sem3_de_morgan_or, <- sem3_not. apply sem3_double_negation.
  - destruct e1; try reflexivity.
    + symmetry. apply sem3_de_morgan_and.
    + symmetry. apply sem3_de_morgan_or.
Qed.

(* ------------------------------------------------------------------ IN as a chain of equalities, BETWEEN as two comparisons *)
Definition in_any (r : row) (x : value) : list expr -> option tv :=
  fix any (l : list expr) : option tv :=
    match l with
    | [] => Some FF
    | i :: l' => match eval i r with Some y => opt_tv_or (cmp3 CEq x y) (any l') | None => None end
    end.
Lemma eval_in_unfold : forall neg a l r,
  eval (EIn neg a l) r = match eval a r with Some x => ret_tv (opt_tv_neg neg (in_any r x l)) | None => None end.
Proof. reflexivity. Qed.

Lemma opt_tv_or_FF_r : forall o, opt_tv_or o (Some FF) = o.
Proof. intros [[]|]; reflexivity. Qed.

Lemma or_chain_sem3 : forall a r l x,
  sem3 (or_chain a x l) r = match eval a r with Some v => in_any r v (x :: l) | None => None end.
Proof.
  intros a r. induction l as [|y l IH]; intros x.
  - cbn [or_chain in_any]. unfold sem3. cbn [eval].
    destruct (eval a r) as [v|]; [|reflexivity].
    destruct (eval x r) as [w|]; [|reflexivity].
    rewrite bind_ret_tv. now rewrite opt_tv_or_FF_r.
  - cbn [or_chain]. rewrite sem3_or, IH. unfold sem3 at 1. cbn [eval].
    destruct (eval a r) as [v|]; [|reflexivity].
    cbn [in_any]. destruct (eval x r) as [w|]; [|reflexivity].
    now rewrite bind_ret_tv.
Qed.

Lemma sem3_in : forall neg a l r,
  sem3 (EIn neg a l) r = match eval a r with Some x => opt_tv_neg neg (in_any r x l) | None => None end.
Proof.
  intros. unfold sem3. rewrite eval_in_unfold. destruct (eval a r); [apply bind_ret_tv|reflexivity].
Qed.
Lemma sem3_between : forall neg a lo hi r,
  sem3 (EBetween neg a lo hi) r =
  match eval a r, eval lo r, eval hi r with
  | Some x, Some l, Some h => opt_tv_neg neg (opt_tv_and (cmp3 CGe x l) (cmp3 CLe x h))
  | _, _, _ => None
  end.
Proof.
  intros. unfold sem3. cbn [eval].
  destruct (eval a r), (eval lo r), (eval hi r); try reflexivity. apply bind_ret_tv.
Qed.
Lemma sem3_cmp : forall op a b r,
  sem3 (ECmp op a b) r = match eval a r, eval b r with Some x, Some y => cmp3 op x y | _, _ => None end.
Proof.
  intros. unfold sem3. cbn [eval]. destruct (eval a r), (eval b r); try reflexivity. apply bind_ret_tv.
Qed.

Theorem expand_sem3 : forall e r, sem3 (expand e) r = sem3 e r.
Proof.
  induction e; intros r; cbn [expand]; try reflexivity.
  - now rewrite !sem3_and, IHe1, IHe2.
  - now rewrite !sem3_or, IHe1, IHe2.
  - now rewrite !sem3_not, IHe.
  - (* IN *) destruct l as [|x l]; [reflexivity|].
    rewrite sem3_in. destruct neg.
    + rewrite sem3_not, or_chain_sem3. destruct (eval e r); reflexivity.
    + rewrite or_chain_sem3. destruct (eval e r) as [v|]; [|reflexivity].
      cbn [opt_tv_neg]. now destruct (in_any r v (x :: l)).
  - (* BETWEEN *) rewrite sem3_between. destruct neg.
    + rewrite sem3_not, sem3_and, !sem3_cmp.
      destruct (eval e1 r) as [x|], (eval e2 r) as [l|], (eval e3 r) as [h|]; try reflexivity.
      now destruct (cmp3 CGe x l).
    + rewrite sem3_and, !sem3_cmp.
      destruct (eval e1 r) as [x|], (eval e2 r) as [l|], (eval e3 r) as [h|]; try reflexivity.
      * cbn [opt_tv_neg]. now destruct (opt_tv_and (cmp3 CGe x l) (cmp3 CLe x h)).
      * now destruct (cmp3 CGe x l).
Qed.

(* ------------------------------------------------------------------ equality as two inequalities *)
Lemma cmp3_eq_range : forall x y, cmp3 CEq x y = opt_tv_and (cmp3 CLe x y) (cmp3 CGe x y).
Proof.
  intros x y. unfold cmp3. destruct (cmp_values x y) as [[c|]|]; try reflexivity. now destruct c.
Qed.
Theorem eq_range_sem3 : forall e r, sem3 (eq_range e) r = sem3 e r.
Proof.
  induction e; intros r; cbn [eq_range]; try reflexivity.
  - destruct op; try reflexivity. rewrite sem3_and, !sem3_cmp.
    destruct (eval e1 r) as [x|], (eval e2 r) as [y|]; try reflexivity. symmetry. apply cmp3_eq_range.
  - now rewrite !sem3_and, IHe1, IHe2.
  - now rewrite !sem3_or, IHe1, IHe2.
  - now rewrite !sem3_not, IHe.
Qed.

(* ------------------------------------------------------------------ renumbering columns *)
Theorem remap_eval : forall f e r r',
  (forall i, nth_error r' (f i) = nth_error r i) -> eval (remap f e) r' = eval e r.
Proof.
  intros f e r r' H. induction e using expr_ind'; cbn [remap eval];
    try (rewrite ?IHe, ?IHe1, ?IHe2, ?IHe3; reflexivity).
  - apply H.
  - (* IN *) rewrite IHe. destruct (eval e r) as [x|]; [|reflexivity]. do 2 f_equal.
    induction H0 as [|y l Hy Hl IHl]; cbn [map]; [reflexivity|].
    rewrite Hy. destruct (eval y r); [|reflexivity]. now rewrite IHl.
Qed.

(* ------------------------------------------------------------------ always-true conjuncts *)
Theorem is_taut_sound : forall w t, is_taut w t = true -> forall r, length r = w -> sem3 t r = Some TT.
Proof.
  intros w t H r Hr. unfold is_taut in H.
  destruct t as [| v |? | op a b | | a b | a | | | |]; try discriminate.
  - destruct v as [| | | |[]]; try discriminate. reflexivity.
  - destruct op; try discriminate.
    + destruct a as [|[| x | | sx |]| | | | | | | | |]; try discriminate;
        destruct b as [|[| y | | sy |]| | | | | | | | |]; try discriminate.
      * apply Z.eqb_eq in H. subst. unfold sem3. cbn. now rewrite Z.compare_refl.
      * apply zlist_eqb'_eq in H. subst. unfold sem3. cbn.
        assert (E : bytes_cmp sy sy = Eq) by now apply bytes_cmp_eq. now rewrite E.
    + destruct a as [|[| x | | |]| | | | | | | | |]; try discriminate;
        destruct b as [|[| y | | |]| | | | | | | | |]; try discriminate.
      apply Z.ltb_lt in H. unfold sem3. cbn.
      assert (E : (x ?= y) = Lt) by now apply Z.compare_lt_iff. now rewrite E.
  - destruct a as [| | | | | | | | | |[] a]; try discriminate.
    destruct a as [i| | | | | | | | | |]; try discriminate.
    destruct b as [| | | | | | | | | |[] b]; try discriminate.
    destruct b as [j| | | | | | | | | |]; try discriminate.
    apply andb_prop in H as [E L]. apply Nat.eqb_eq in E. subst j. apply Nat.ltb_lt in L.
    rewrite sem3_or. unfold sem3. cbn [eval].
    destruct (nth_error r i) as [v|] eqn:N.
    + destruct v; reflexivity.
    + apply nth_error_None in N. lia.
  - destruct a as [|[| | | |[]]| | | | | | | | |]; try discriminate. reflexivity.
Qed.

Lemma opt_tv_and_TT_r : forall o, opt_tv_and o (Some TT) = o.
Proof. intros [[]|]; reflexivity. Qed.
Lemma opt_tv_and_TT_l : forall o, opt_tv_and (Some TT) o = o.
Proof. intros [[]|]; reflexivity. Qed.
Theorem true_conjunct_sem3 : forall t p r, sem3 t r = Some TT ->
  sem3 (EAnd p t) r = sem3 p r /\ sem3 (EAnd t p) r = sem3 p r.
Proof. intros t p r H. rewrite !sem3_and, H. split; [apply opt_tv_and_TT_r|apply opt_tv_and_TT_l]. Qed.

(* passes is determined by sem3 *)
Lemma passes_ext : forall a b r, sem3 a r = sem3 b r -> passes a r = passes b r.
Proof. intros a b r H. unfold passes. now rewrite H. Qed.
