(* C16: the recorded finding classes of aggregate queries (definitions only).
   q_class q t = 0: the query / table lies outside every recorded class; k > 0: class k.
   The classes are decidable and narrow; each is refuted by a concrete query in Proof/AggRefute.v
   and listed in known_findings.d/C16.json.  Still open:
    10  HAVING mentions a GROUP BY key that is not a plain column   (it reads as NULL)
     9  an aggregate over an expression is looked up BY NAME (HAVING, or a select list that also
        selects an expression key): the name is the bare function name, shared by every such
        aggregate of that function and by COUNT( * ) -- so COUNT( * ) looked up by name next to a COUNT
        over an expression is in the class as well
     8  an aggregate over a join (Corr/C16.v; Model/AggJoin.v)
   Repaired in /repo (the former classes 1 .. 7): COUNT(col) counted NULLs; SUM
   over no non-NULL value was 0; integer SUM / AVG overflow panicked; MIN / MAX over TEXT were NULL; an
   aggregate over an expression aggregated column 0; GROUP BY over an expression showed NULL and
   merged groups; HAVING over an unselected aggregate kept no group. *)
From Coq Require Import ZArith List Bool.
From TV Require Export Model.SqlSpecAgg.
Import ListNotations.
Open Scope Z_scope.

Definition is_plain (e : expr) : bool := match e with ECol _ => true | _ => false end.

(* positions of the environment an expression refers to *)
Fixpoint cols_of (e : expr) : list nat :=
  match e with
  | ECol i => [i]
  | ELit _ => []
  | EArith _ a b | ECmp _ a b | EAnd a b | EOr a b | ELike _ a b => cols_of a ++ cols_of b
  | ENot a | EIsNull _ a => cols_of a
  | EIn _ a l => cols_of a ++ flat_map cols_of l
  | EBetween _ a lo hi => cols_of a ++ cols_of lo ++ cols_of hi
  end.
Definition nat_in (i : nat) (l : list nat) : bool := existsb (Nat.eqb i) l.

(* the rows that reach the aggregation, and their groups as the reference forms them *)
Definition input_rows (q : aquery) (t : table) : list row :=
  match where_rows (q_where q) t with Some rows => rows | None => [] end.
Definition ref_groups (q : aquery) (t : table) : list (list row) :=
  let rows := input_rows q t in
  match q_keys q with
  | [] => [rows]
  | _ => match map_opt (fun r => map_opt (fun k => eval k r) (q_keys q)) rows with
         | Some ks => map snd (groups_of (combine ks rows))
         | None => []
         end
  end.

Definition arg_vals (a : agg) (rows : list row) : list (option value) := map (eval (a_arg a)) rows.

(* running sums of the integer values, in order *)
Fixpoint running_overflow (acc : Z) (vs : list (option value)) : bool :=
  match vs with
  | [] => false
  | Some (VInt z) :: t => negb (i64_ok (acc + z)) || running_overflow (acc + z) t
  | _ :: t => running_overflow acc t
  end.

Definition nonplain_agg (a : agg) : bool :=
  match a_fn a with FCountStar => false | _ => negb (is_plain (a_arg a)) end.
Definition having_cols (q : aquery) : list nat :=
  match q_having q with Some h => cols_of h | None => [] end.
(* some selected key is an expression: the select list is evaluated by ProjectExpr, aggregates by name *)
Definition sel_expr_key (q : aquery) : bool :=
  existsb (fun i => match nth_error (q_keys q) i with Some k => negb (is_plain k) | None => false end) (q_sel q).
Definition cls_key_expr (q : aquery) : bool :=
  existsb (fun i => match nth_error (q_keys q) i with Some k => negb (is_plain k) | None => false end) (having_cols q).
(* a COUNT over an expression is computed: it carries the bare name `count`, like COUNT( * ) *)
Definition count_expr (q : aquery) : bool :=
  existsb (fun a => match a_fn a with FCount => negb (is_plain (a_arg a)) | _ => false end) (q_aggs q).
Definition cls_arg_expr (q : aquery) : bool :=
  let nk := length (q_keys q) in
  let bad := fun i => negb (Nat.ltb i nk) &&
                      match nth_error (q_aggs q) (i - nk) with
                      | Some a => nonplain_agg a || match a_fn a with FCountStar => count_expr q | _ => false end
                      | None => false
                      end in
  existsb bad (having_cols q) || (sel_expr_key q && existsb bad (q_sel q)).

Definition q_class (q : aquery) (t : table) : Z :=
  if cls_key_expr q then 10
  else if cls_arg_expr q then 9
  else 0.

(* ------------------------------------------------------------------ one aggregate over one list of values *)
Definition is_textual (v : value) : bool := match v with VText _ | VBool _ => true | _ => false end.
(* the class of aggregate f over the argument values vs (0 = none) *)
Definition vals_class (f : aggfn) (vs : list value) : Z :=
  match f with
  | FCount => if existsb is_null vs then 1 else 0
  | FSum => match nonnull vs with [] => 2 | _ => 0 end
  | FMin | FMax => if existsb is_textual vs then 4 else 0
  | _ => 0
  end.
(* SUM / AVG over integers (sums of doubles: Proof/AggFloat.v) *)
Definition int_sums (f : aggfn) (vs : list value) : bool :=
  match f with
  | FSum | FAvg => match ints_of (nonnull vs) with Some _ => true | None => false end
  | _ => true
  end.

(* SUM / AVG arguments are integers or NULL on every input row (the proof of query_correct covers
   integer sums; sums of doubles are covered by the correspondence run only) *)
Definition q_int_sums (q : aquery) (t : table) : bool :=
  forallb (fun a => match a_fn a with
                    | FSum | FAvg => forallb (fun o => match o with Some VNull | Some (VInt _) => true | _ => false end)
                                             (arg_vals a (input_rows q t))
                    | _ => true
                    end) (q_aggs q).
