(* Proof/HnswInv0.v -- Inv0 (no node deleted so far) is preserved by every well-formed operation that
   does not delete a node; in such states insert never fails (except for a wrong dimension) and vacuum
   and reopen change nothing that search can see. *)
From Coq Require Import ZArith List Bool Lia Permutation.
From TV Require Import Model.Hnsw Proof.HnswHeap Proof.HnswSearch Proof.HnswFuel Proof.HnswGraph Proof.HnswInv.
Import ListNotations.
Open Scope Z_scope.

Lemma NoDup_app_one : forall (A : Type) (l : list A) x, NoDup l -> ~ In x l -> NoDup (l ++ [x]).
Proof.
  intros A l x H Hn. eapply Permutation_NoDup; [apply Permutation_cons_append|]. constructor; auto.
Qed.

Lemma inv0_insert : forall p w getv row v lvl, Inv0 w -> a_get row (tbl w) = None ->
  match insert p getv (ix w) row v lvl with
  | IOk s' => Inv0 (W s' (a_put row v (tbl w)))
  | IErr s' => s' = ix w
  | IFuel => False
  end.
Proof.
  intros p w getv row v lvl I Etbl.
  set (s := ix w) in *. set (id := Z.of_nat (length (nodes s))).
  set (P := fun x : Z => 0 <= x < Z.of_nat (length (nodes s)) + 1).
  assert (HL : links_in s P).
  { intros nd l x Hn Hl Hx. destruct (i_links _ I nd l x Hn Hl Hx) as [H0 H1]. unfold P. fold s in H1. lia. }
  assert (Hid : P id) by (unfold P, id; lia).
  assert (He : forall e, entry s = Some e -> P e).
  { intros e Ee. pose proof (i_entry _ I) as H. fold s in H. rewrite Ee in H. destruct H. unfold P. lia. }
  pose proof (insert_spec p getv s row v lvl P HL Hid He) as A. cbn zeta in A. fold id in A.
  assert (Hrow_new : ~ In row (map n_row (nodes s))).
  { intros H. apply (i_tbl _ I) in H. congruence. }
  set (s1 := appended s row lvl) in *.
  assert (Hlen1 : length (nodes s1) = S (length (nodes s))).
  { unfold s1, appended; cbn [nodes]; rewrite app_length; cbn; lia. }
  assert (Hact1 : forall nd, In nd (nodes s1) -> n_active nd = true).
  { intros nd Hin. unfold s1, appended in Hin. cbn [nodes] in Hin. apply in_app_iff in Hin.
    destruct Hin as [Hin|[<-|[]]]; [eapply (i_active _ I); eauto | reflexivity]. }
  assert (Hrows1 : map n_row (nodes s1) = map n_row (nodes s) ++ [row]).
  { unfold s1, appended. cbn [nodes]. rewrite map_app. reflexivity. }
  assert (Hread1 : forall x, P x -> read_node s1 x <> None).
  { intros x [H0 H1].
    destruct (nth_error (nodes s1) (Z.to_nat x)) as [nd|] eqn:E.
    - rewrite (read_node_intro s1 x nd H0 E); [discriminate|]. apply Hact1. eapply nth_error_In; eauto.
    - apply nth_error_None in E. lia. }
  destruct (insert p getv s row v lvl) as [s'|s'|]; [| |exact A].
  2:{ destruct A as [->|[_ Hno]]; [reflexivity | exfalso; exact (Hno Hread1)]. }
  destruct A as (s2 & E & L2 & Hs').
  assert (Hn' : nodes s' = nodes s2) by (destruct Hs' as [[-> _]| ->]; reflexivity).
  assert (Hrm' : rowmap s' = rowmap s2) by (destruct Hs' as [[-> _]| ->]; reflexivity).
  assert (Hvq' : vq s' = vq s2) by (destruct Hs' as [[-> _]| ->]; reflexivity).
  assert (Hlen2 : length (nodes s2) = S (length (nodes s))) by (rewrite (ext_len _ _ E); exact Hlen1).
  assert (Hrows2 : map n_row (nodes s2) = map n_row (nodes s) ++ [row]) by (rewrite (ext_rows _ _ E); exact Hrows1).
  constructor; cbn [ix tbl]; rewrite ?Hn', ?Hrm', ?Hvq'.
  - eapply ext_all_active; eauto.
  - intros nd l x Hn Hl Hx. rewrite Hn' in Hn. pose proof (L2 nd l x Hn Hl Hx) as Hp. unfold P in Hp. unfold valid.
    rewrite Hn', Hlen2. lia.
  - rewrite Hrows2. apply NoDup_app_one; auto. apply (i_rows _ I).
  - intros r. rewrite Hrows2, in_app_iff, a_get_put. destruct (Z.eqb_spec r row) as [->|Hne].
    + split; [intros _; discriminate | intros _; right; left; auto].
    + pose proof (i_tbl _ I r) as Ht. fold s in Ht. rewrite <- Ht.
      split; [intros [H|[H|[]]]; [auto | congruence] | auto].
  - intros i nd Hi. rewrite (ext_rowmap _ _ E). unfold s1, appended. cbn [rowmap]. rewrite a_get_put.
    assert (Hrow_i : nth_error (map n_row (nodes s2)) i = Some (n_row nd)) by (rewrite nth_error_map, Hi; reflexivity).
    rewrite Hrows2 in Hrow_i.
    assert (Hi_lt : (i < S (length (nodes s)))%nat) by (rewrite <- Hlen2; apply nth_error_Some; congruence).
    destruct (Nat.eq_dec i (length (nodes s))) as [->|Hne].
    + rewrite nth_error_app2 in Hrow_i by (rewrite map_length; lia). rewrite map_length, Nat.sub_diag in Hrow_i.
      cbn in Hrow_i. injection Hrow_i as Hr. rewrite <- Hr, Z.eqb_refl. reflexivity.
    + rewrite nth_error_app1 in Hrow_i by (rewrite map_length; lia).
      destruct (Z.eqb_spec (n_row nd) row) as [Heq|_].
      * exfalso. apply Hrow_new. rewrite <- Heq. eapply nth_error_In; eauto.
      * rewrite nth_error_map in Hrow_i. destruct (nth_error (nodes s) i) as [n0|] eqn:E0; [|discriminate].
        cbn in Hrow_i. injection Hrow_i as Hr. rewrite <- Hr. apply (i_rowmap _ I); auto.
  - destruct Hs' as [[-> Hent]| ->]; cbn [entry set_entry_point].
    + rewrite (ext_entry _ _ E). unfold s1, appended. cbn [entry].
      pose proof (i_entry _ I) as H. fold s in H. destruct (entry s) as [e|] eqn:Ee; [|congruence].
      destruct H. unfold valid. rewrite Hlen2. lia.
    + unfold valid, id, set_entry_point. cbn [nodes]. rewrite Hlen2. lia.
  - rewrite (ext_vq _ _ E). unfold s1, appended. cbn [vq]. apply (i_vq _ I).
Qed.

Lemma all_active_not_inactive : forall s, (forall nd, In nd (nodes s) -> n_active nd = true) -> any_inactive s = false.
Proof.
  intros s H. destruct (any_inactive s) eqn:E; auto.
  apply any_inactive_iff in E. destruct E as (i & nd & Hi & Hd).
  rewrite (H nd) in Hd by (eapply nth_error_In; eauto). discriminate.
Qed.

Lemma inv0_step : forall p w o, Inv0 w -> op_wf w o = true ->
  any_inactive (ix (fst (step p w o))) = false -> Inv0 (fst (step p w o)).
Proof.
  intros p w o I Hwf Hcl.
  destruct o as [row v lvl blind|row|n| |q k ef]; cbn [step] in *.
  - (* insert *)
    cbn [op_wf] in Hwf.
    destruct (a_get row (tbl w)) as [x|] eqn:Etbl; [discriminate|].
    pose proof (inv0_insert p w (if blind then fun _ : Z => None else getv_of (tbl w)) row v lvl I Etbl) as A.
    destruct (insert p _ (ix w) row v lvl) as [s'|s'|]; cbn [fst].
    + exact A.
    + subst s'. destruct w; exact I.
    + contradiction.
  - (* delete: it either changes nothing that matters or deletes a node *)
    unfold delete_by_row_id in *.
    destruct (a_get row (rowmap (ix w))) as [id|] eqn:Em.
    + match type of Hcl with context [read_node ?s1 id] => destruct (read_node s1 id) as [nd|] eqn:Er end; cbn [fst ix] in *.
      * (* a node was deleted: excluded by the hypothesis *)
        exfalso. apply read_node_Some in Er. cbn [nodes] in Er. destruct Er as (H0 & Hn & Ha).
        assert (Hlt : (Z.to_nat id < length (nodes (ix w)))%nat) by (apply nth_error_Some; congruence).
        assert (any_inactive (St (upd (nodes (ix w)) (Z.to_nat id) (N (n_row nd) (n_level nd) false (n_nbrs nd)))
                              (entry (ix w)) (maxlvl (ix w)) (a_remove row (rowmap (ix w))) (vq (ix w) ++ [id])) = true).
        { apply any_inactive_iff. exists (Z.to_nat id), (N (n_row nd) (n_level nd) false (n_nbrs nd)).
          cbn [nodes]. split; [apply upd_nth_eq; auto | reflexivity]. }
        cbn [entry maxlvl rowmap vq nodes] in *. congruence.
      * (* stale map entry: no node carries this row id *)
        assert (Hnorow : ~ In row (map n_row (nodes (ix w)))).
        { intros Hin. apply in_map_iff in Hin. destruct Hin as (n0 & Hr & Hin).
          apply In_nth_error in Hin. destruct Hin as [i Hi].
          pose proof (i_rowmap _ I i n0 Hi) as Hm. rewrite Hr, Em in Hm. inversion Hm; subst id.
          assert (read_node (ix w) (Z.of_nat i) = Some n0).
          { apply read_node_intro; [lia | rewrite Nat2Z.id; auto | eapply (i_active _ I); eapply nth_error_In; eauto]. }
          unfold read_node in *. cbn [nodes] in Er. congruence. }
        destruct I as [I1 I2 I3 I4 I5 I6 I7]. constructor; cbn [ix tbl nodes entry rowmap vq]; auto.
        -- intros r. rewrite a_get_remove. destruct (Z.eqb_spec r row) as [->|Hne]; [|apply I4].
           split; [intros H; contradiction | intros H; congruence].
        -- intros i n0 Hi. rewrite a_get_remove. destruct (Z.eqb_spec (n_row n0) row) as [Heq|_]; [|apply I5; auto].
           exfalso. apply Hnorow. rewrite <- Heq. apply in_map. eapply nth_error_In; eauto.
    + cbn [fst ix] in *.
      assert (Hnorow : ~ In row (map n_row (nodes (ix w)))).
      { intros Hin. apply in_map_iff in Hin. destruct Hin as (n0 & Hr & Hin).
        apply In_nth_error in Hin. destruct Hin as [i Hi].
        pose proof (i_rowmap _ I i n0 Hi) as Hm. rewrite Hr, Em in Hm. discriminate. }
      destruct I as [I1 I2 I3 I4 I5 I6 I7]. constructor; cbn [ix tbl]; auto.
      intros r. rewrite a_get_remove. destruct (Z.eqb_spec r row) as [->|Hne]; [|apply I4].
      split; [intros H; contradiction | intros H; congruence].
  - (* vacuum: the queue is empty *)
    unfold vacuum_batch in *. rewrite (i_vq _ I) in *.
    rewrite firstn_nil, skipn_nil in *. cbn [fold_left fst length] in *.
    destruct I as [I1 I2 I3 I4 I5 I6 I7]. constructor; cbn [ix tbl nodes entry rowmap vq]; auto.
  - (* reopen *)
    cbn [fst] in *. clear Hcl.
    destruct I as [I1 I2 I3 I4 I5 I6 I7].
    assert (Hent : match entry (ix w) with Some e => if e <? 0 then None else Some e | None => None end = entry (ix w)).
    { destruct (entry (ix w)) as [e|]; auto. destruct I6 as [H0 H1]. destruct (Z.ltb_spec e 0); [lia | auto]. }
    unfold reopen. rewrite Hent.
    constructor; cbn [ix tbl nodes entry rowmap vq]; auto.
    intros i nd Hi. rewrite (rebuild_map_spec (nodes (ix w)) 0 [] I3 I1 i nd Hi). f_equal; lia.
  - exact I.
Qed.

Lemma inv0_run : forall p ops w, Inv0 w -> wf_ops p w ops = true ->
  any_inactive (ix (fst (run p w ops))) = false -> Inv0 (fst (run p w ops)).
Proof.
  intros p ops. induction ops as [|o t IH]; intros w I Hwf Hcl; cbn [run] in *; auto.
  cbn [wf_ops] in Hwf. apply andb_prop in Hwf. destruct Hwf as [Hw1 Hw2].
  pose proof (inv0_step p w o I Hw1) as S1.
  pose proof (run_keeps_dead p t (fst (step p w o))) as K.
  destruct (step p w o) as [w1 b] eqn:Es. cbn [fst] in *.
  specialize (IH w1). destruct (run p w1 t) as [w2 bs] eqn:Er. cbn [fst] in *.
  apply IH; auto. apply S1.
  destruct (any_inactive (ix w1)) eqn:E1; auto.
  pose proof (keeps_dead_inactive _ _ K E1). congruence.
Qed.

(* the state reached by a well-formed history in which no node has been deleted *)
Theorem inv0_reached : forall p ops,
  wf_ops p w0 ops = true -> any_inactive (ix (run0 p ops)) = false -> Inv0 (run0 p ops).
Proof. intros p ops H1 H2. apply inv0_run; auto. apply inv0_w0. Qed.
