(* C17 refutations: for each finding class that has an implementation model, a concrete case on
   which the faithful model returns a bag that is NOT the SQL join.  The same cases are the witnesses
   of known_findings.d/C17.json and are re-run on the real code by every check (the observed rows are
   the ones written here). *)
From Coq Require Import ZArith List Bool.
From TV Require Import Corr.C17.
Import ListNotations.
Open Scope Z_scope.

(* class 1: grace hash join, keys Int 1 / Float 1.0.  The hash values are the ones std's
   DefaultHasher produced in the run that recorded the witness. *)
Definition w1 : case :=
  Exec AGraceDyn JInner 4 None false [0%nat] [0%nat] 2%nat 2%nat
    [([VInt 1; VInt 10], 2206609067086327257); ([VInt 2; VInt 20], 11876854719037224982)]
    [([VFloat 4607182418800017408; VInt 100], 13833534234735907638); ([VInt 2; VInt 200], 11876854719037224982)]
    (ORows [[VInt 2; VInt 20; VInt 2; VInt 200]]).

(* class 3: ON a1 = b1 AND a2 < b2 -- the residual conjunct is dropped *)
Definition ta3 : table := [[VInt 1; VInt 1; VInt 10]; [VInt 2; VInt 1; VInt 20]; [VInt 3; VNull; VInt 30]].
Definition tb3 : table := [[VInt 1; VInt 1; VInt 100]; [VInt 2; VInt 1; VInt 5]].
Definition w3 : case :=
  Sql (mkq [(3%nat, ta3); (3%nat, tb3)] [(JInner, Some (EAnd (ECmp CEq (ECol 1) (ECol 4)) (ECmp CLt (ECol 2) (ECol 5))))] None (Some [0%nat; 3%nat]))
      false true [ORows [[VInt 1; VInt 1]; [VInt 2; VInt 1]; [VInt 1; VInt 2]; [VInt 2; VInt 2]]].

(* class 4: LEFT JOIN ... WHERE a2 = 10 -- WHERE acts as part of the match condition *)
Definition w4 : case :=
  Sql (mkq [(3%nat, ta3); (3%nat, tb3)] [(JLeft, Some (ECmp CEq (ECol 1) (ECol 4)))] (Some (ECmp CEq (ECol 2) (ELit (VInt 10)))) (Some [0%nat; 3%nat]))
      false true [ORows [[VInt 1; VInt 1]; [VInt 1; VInt 2]; [VInt 2; VNull]; [VInt 3; VNull]]].

(* class 8: keys 0.0 and -0.0 in the hash path *)
Definition w8 : case :=
  Sql (mkq [(2%nat, [[VInt 1; VFloat 0]; [VInt 2; VFloat 4607182418800017408]]);
            (2%nat, [[VInt 1; VFloat 9223372036854775808]; [VInt 2; VFloat 4607182418800017408]])]
           [(JInner, Some (ECmp CEq (ECol 1) (ECol 3)))] None (Some [0%nat; 2%nat]))
      false true [ORows [[VInt 2; VInt 2]]].

Definition refuted (c : case) (k : Z) : bool :=
  model_agrees c && negb (spec_ok c) && (known_class c =? k).

Lemma known_classes_refuted_l :
  refuted w1 1 = true /\ refuted w3 3 = true /\ refuted w4 4 = true /\ refuted w8 8 = true.
Proof. vm_compute. repeat split. Qed.

(* what SQL defines for these four cases (so that the refutation is not an artefact of the comparison) *)
Lemma refuted_expected_l :
  (match w1 with Exec _ jt _ _ _ lk rk lw rw L R _ =>
     bag_eqb (join_rows jt lw rw (on_tt (keys_expr lw lk rk)) (map fst L) (map fst R))
             [[VInt 1; VInt 10; VFloat 4607182418800017408; VInt 100]; [VInt 2; VInt 20; VInt 2; VInt 200]]
   | _ => false end) = true /\
  (match w3 with Sql q _ _ _ => query_spec q | _ => None end) = Some [[VInt 1; VInt 1]; [VInt 2; VInt 1]] /\
  (match w4 with Sql q _ _ _ => query_spec q | _ => None end) = Some [[VInt 1; VInt 1]; [VInt 1; VInt 2]] /\
  (match w8 with Sql q _ _ _ => query_spec q | _ => None end) = Some [[VInt 1; VInt 1]; [VInt 2; VInt 2]].
Proof. vm_compute. repeat split. Qed.

(* the hash hypothesis of grace_eq_nested is exactly what fails on w1: the rows match, the hashes differ *)
Lemma hash_respects_fails_on_w1_l :
  keys_match_static [VInt 1; VInt 10] [VFloat 4607182418800017408; VInt 100] [0%nat] [0%nat] = true /\
  2206609067086327257 <> 13833534234735907638.
Proof. split; [vm_compute; reflexivity|discriminate]. Qed.

(* the static GraceHashJoinExecutor's own keys_match lets unrelated types "match" once their hashes
   collide; with such a (hypothetical) hash oracle its output is not the SQL join -- the theorem for
   that executor therefore needs the hash to be injective on keys, not merely to respect the match *)
Lemma grace_static_mixed_types_l :
  keys_match_gs [VInt 5] [VText [120]] [0%nat] [0%nat] = true /\
  exec_model AGraceStatic JInner 1 None false [0%nat] [0%nat] 1 1 [([VInt 5], 7)] [([VText [120]], 7)]
    = XRows [[VInt 5; VText [120]]].
Proof. vm_compute. split; reflexivity. Qed.
