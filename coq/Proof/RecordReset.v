(* C31 proofs, part 3: a reset builder is a new builder (for every builder state a caller can
   hold), and the closed form of the record a new builder produces for a fitting row. *)
From Coq Require Import ZArith List Bool Lia ZifyBool.
From TV Require Import Lib.MachInt Lib.MachIntFacts Model.Record Proof.RecordBase Proof.RecordBuild.
Import ListNotations.
Open Scope Z_scope.

Ltac Zify.zify_post_hook ::= Z.to_euclidean_division_equations.

(* ------------------------------------------------------------------ marking every column NULL *)
Lemma set_bits_from_spec fuel : forall i bm,
  0 <= i -> (i + Z.of_nat fuel + 7) / 8 <= blen bm ->
  exists bm', set_bits_from fuel i bm = Ok bm' /\ blen bm' = blen bm /\
    (bytes_ok bm = true -> bytes_ok bm' = true) /\
    (forall j, 0 <= j -> bit bm' j = ((i <=? j) && (j <? i + Z.of_nat fuel)) || bit bm j).
Proof.
  induction fuel as [|fuel IH]; intros i bm Hi Hl.
  - exists bm. cbn [set_bits_from]. repeat split; auto.
    intros j Hj. replace ((i <=? j) && (j <? i + Z.of_nat 0)) with false by lia. reflexivity.
  - cbn [set_bits_from].
    assert (Hs : set_bit bm i = Ok (bupd bm (i / 8) (Z.lor (bidx bm (i / 8)) (2 ^ (i mod 8)))))
      by (apply set_bit_ok; lia).
    rewrite Hs. cbn [bind].
    set (bm1 := bupd bm (i / 8) (Z.lor (bidx bm (i / 8)) (2 ^ (i mod 8)))) in *.
    assert (Hl1 : blen bm1 = blen bm) by apply blen_bupd.
    destruct (IH (i + 1) bm1) as [bm' [Hr [Hlen [Hok Hbit]]]]; [lia | rewrite Hl1; lia |].
    exists bm'. split; [exact Hr|]. split; [lia|]. split.
    + intros Hb. apply Hok. eapply bytes_ok_set_bit; [exact Hi | exact Hb | exact Hs].
    + intros j Hj. rewrite Hbit by exact Hj. rewrite (bit_set_bit bm i bm1 j Hs Hi Hj).
      destruct (bit bm j); [rewrite !orb_true_r; reflexivity|]. rewrite !orb_false_r.
      destruct (Z.eqb_spec i j); lia.
Qed.

Lemma bit_zeros n j : bit (repeat 0 n) j = false.
Proof.
  unfold bit, bidx. rewrite nth_repeat. apply Z.bits_0.
Qed.

Lemma bit_oob bm j : blen bm <= j / 8 -> bit bm j = false.
Proof. intros H. unfold bit, bidx. rewrite nth_overflow by (unfold blen in H; lia). apply Z.bits_0. Qed.

(* ------------------------------------------------------------------ builder invariant *)
Definition wf (s : schema) (st : bstate) : Prop :=
  blen (nb st) = bitmap_size (ncols s) /\ bytes_ok (nb st) = true /\
  (forall j, ncols s <= j -> bit (nb st) j = false) /\
  length (fd st) = Z.to_nat (total_fixed s) /\ length (vd st) = nvars s.

Lemma ncols_nonneg s : 0 <= ncols s.
Proof. unfold ncols. lia. Qed.

Lemma mark_all_null_spec s bm :
  blen bm = bitmap_size (ncols s) ->
  exists bm', mark_all_null s bm = Ok bm' /\ blen bm' = blen bm /\
    (bytes_ok bm = true -> bytes_ok bm' = true) /\
    (forall j, 0 <= j -> bit bm' j = (j <? ncols s) || bit bm j).
Proof.
  intros Hl. unfold mark_all_null.
  destruct (set_bits_from_spec (length s) 0 bm) as [bm' [Hr [Hlen [Hok Hbit]]]]; [lia | |].
  - rewrite Hl. unfold bitmap_size, ncols. lia.
  - exists bm'. repeat split; auto. intros j Hj. rewrite Hbit by exact Hj. unfold ncols.
    replace (0 <=? j) with true by lia. reflexivity.
Qed.

Lemma fresh_ok s :
  exists st0, fresh s = Ok st0 /\ wf s st0 /\
    fd st0 = repeat 0 (Z.to_nat (total_fixed s)) /\ vd st0 = repeat [] (nvars s) /\
    (forall j, 0 <= j -> bit (nb st0) j = (j <? ncols s)).
Proof.
  unfold fresh.
  set (z := repeat 0 (Z.to_nat (bitmap_size (ncols s)))).
  assert (Hz : blen z = bitmap_size (ncols s)).
  { unfold z. rewrite blen_repeat. pose proof (ncols_nonneg s). unfold bitmap_size. lia. }
  destruct (mark_all_null_spec s z Hz) as [bm [Hr [Hlen [Hok Hbit]]]].
  rewrite Hr. cbn [bind]. eexists. split; [reflexivity|]. cbn [nb fd vd].
  rewrite nvar_nvars, Nat2Z.id.
  split; [|split; [reflexivity | split; [reflexivity|]]].
  - unfold wf. cbn [nb fd vd]. rewrite !repeat_length. split; [lia|]. split; [apply Hok, bytes_ok_repeat0|].
    split; [|split; reflexivity].
    intros j Hj. pose proof (ncols_nonneg s). rewrite Hbit by lia. unfold z. rewrite bit_zeros. lia.
  - intros j Hj. rewrite Hbit by lia. unfold z. rewrite bit_zeros. apply orb_false_r.
Qed.

Lemma map_const_nil {A} (l : list A) : map (fun _ => @nil Z) l = repeat [] (length l).
Proof. induction l as [|x l IH]; cbn [map repeat length]; [reflexivity | rewrite IH; reflexivity]. Qed.

Lemma reset_fresh s st : wf s st -> reset s st = fresh s.
Proof.
  intros [Hl [Hb [Hpad [Hfd Hvd]]]].
  destruct (fresh_ok s) as [st0 [Hf [Hwf0 [Hfd0 [Hvd0 Hbit0]]]]].
  rewrite Hf. unfold reset.
  destruct (mark_all_null_spec s (nb st) Hl) as [bm [Hr [Hlen [Hok Hbit]]]].
  rewrite Hr. cbn [bind]. f_equal.
  destruct st0 as [nb0 fd0 vd0]. cbn [nb fd vd] in *. subst fd0 vd0.
  destruct Hwf0 as [Hl0 [Hb0 _]]. cbn [nb] in Hl0, Hb0.
  f_equal.
  - apply bytes_bit_ext; [apply Hok; exact Hb | exact Hb0 | lia |].
    intros i Hi. rewrite Hbit, Hbit0 by lia.
    destruct (Z.ltb_spec i (ncols s)); [reflexivity|]. rewrite Hpad by lia. reflexivity.
  - rewrite Hfd. reflexivity.
  - rewrite map_const_nil, Hvd. reflexivity.
Qed.

(* ------------------------------------------------------------------ the setters keep the invariant *)
Definition bres_wf (s : schema) (r : bres) : Prop :=
  match r with BOk st' | BErr st' => wf s st' | BPanic => True end.

Lemma set_null_wf s st col : wf s st -> 0 <= col -> bres_wf s (set_null s st col).
Proof.
  intros [Hl [Hb [Hpad [Hfd Hvd]]]] Hc. unfold set_null.
  destruct (set_bit (nb st) col) as [bm| |] eqn:E; cbn [bres_wf]; auto.
  destruct (Z.ltb_spec col (ncols s)); cbn [bres_wf]; auto.
  unfold wf. cbn [nb fd vd]. split; [rewrite (blen_set_bit _ _ _ E); exact Hl|].
  split; [eapply bytes_ok_set_bit; eauto|]. split; [|auto].
  intros j Hj. rewrite (bit_set_bit _ _ _ j E) by lia. rewrite Hpad by lia.
  destruct (Z.eqb_spec col j); [lia | reflexivity].
Qed.

Lemma clear_keeps s st col bm :
  wf s st -> 0 <= col -> clear_bit (nb st) col = Ok bm ->
  blen bm = bitmap_size (ncols s) /\ bytes_ok bm = true /\ (forall j, ncols s <= j -> bit bm j = false).
Proof.
  intros [Hl [Hb [Hpad _]]] Hc E.
  split; [rewrite (blen_clear_bit _ _ _ E); exact Hl|].
  split; [eapply bytes_ok_clear_bit; eauto|].
  intros j Hj. pose proof (ncols_nonneg s). rewrite (bit_clear_bit _ _ _ j E) by lia. rewrite Hpad by lia.
  apply andb_false_r.
Qed.

Lemma set_fixed_bytes_wf s st col b : wf s st -> 0 <= col -> bres_wf s (set_fixed_bytes s st col b).
Proof.
  intros Hw Hc. unfold set_fixed_bytes.
  destruct (clear_bit (nb st) col) as [bm| |] eqn:E; cbn [bres_wf]; auto.
  destruct (fixed_offset s col) as [off| |]; cbn [bres_wf]; auto.
  destruct (bslice_ok (fd st) off (off + blen b)) eqn:S; cbn [bres_wf]; auto.
  destruct (clear_keeps _ _ _ _ Hw Hc E) as [A [B C]].
  destruct Hw as [_ [_ [_ [Hfd Hvd]]]].
  unfold wf. cbn [nb fd vd]. rewrite splice_length by exact S. auto.
Qed.

Lemma set_var_bytes_wf s st col b : wf s st -> 0 <= col -> bres_wf s (set_var_bytes s st col b).
Proof.
  intros Hw Hc. unfold set_var_bytes.
  destruct (clear_bit (nb st) col) as [bm| |] eqn:E; cbn [bres_wf]; auto.
  destruct (clear_keeps _ _ _ _ Hw Hc E) as [A [B C]].
  destruct Hw as [_ [_ [_ [Hfd Hvd]]]].
  destruct (var_column_index s col) as [k|]; cbn [bres_wf].
  - destruct (k <? Z.of_nat (length (vd st))); cbn [bres_wf]; auto.
    unfold wf. cbn [nb fd vd]. rewrite lupd_length. auto.
  - unfold wf. cbn [nb fd vd]. auto.
Qed.

Lemma set_in_builder_wf s st col v : wf s st -> 0 <= col -> bres_wf s (set_in_builder s st col v).
Proof.
  intros Hw Hc. destruct v; cbn [set_in_builder];
    try (apply set_fixed_bytes_wf; assumption); try (apply set_var_bytes_wf; assumption).
  - apply set_null_wf; assumption.
  - destruct (column s col) as [[]|]; apply set_fixed_bytes_wf; assumption.
  - destruct (column s col) as [[]|]; apply set_fixed_bytes_wf; assumption.
Qed.

Lemma set_row_wf s row : forall st idx, wf s st -> 0 <= idx -> bres_wf s (set_row s st idx row).
Proof.
  induction row as [|v row IH]; intros st idx Hw Hi; cbn [set_row]; [exact Hw|].
  pose proof (set_in_builder_wf s st idx v Hw Hi) as H.
  destruct (set_in_builder s st idx v) as [st1|st1|]; cbn [bres_wf] in *; auto.
  apply IH; [exact H | lia].
Qed.

Lemma fresh_wf s st : fresh s = Ok st -> wf s st.
Proof.
  intros H. destruct (fresh_ok s) as [st0 [Hf [Hw _]]]. rewrite Hf in H. inversion H; subst. exact Hw.
Qed.

Lemma build_into_wf s st row st' r :
  wf s st -> build_record_into_buffer s st row = (Some st', r) -> wf s st'.
Proof.
  intros Hw H. unfold build_record_into_buffer in H. rewrite (reset_fresh _ _ Hw) in H.
  destruct (fresh s) as [st1| |] eqn:Hf; try discriminate H.
  pose proof (set_row_wf s row st1 0 (fresh_wf _ _ Hf) ltac:(lia)) as Hr.
  destruct (set_row s st1 0 row) as [st2|st2|]; cbn [bres_wf] in Hr; inversion H; subst; exact Hr.
Qed.

Lemma reachable_wf s st : reachable s st -> wf s st.
Proof.
  induction 1 as [st Hf | st row st' r Hreach IH Hb].
  - apply fresh_wf. exact Hf.
  - eapply build_into_wf; eauto.
Qed.

(* Building after a reset yields the same result as building with a new builder, whatever the
   builder was used for before (as long as the earlier calls returned). *)
Lemma reuse_equals_fresh_l :
  forall s st row, reachable s st -> snd (build_record_into_buffer s st row) = build_fresh s row.
Proof.
  intros s st row Hr. apply reachable_wf in Hr.
  unfold build_fresh. destruct (fresh_ok s) as [st0 [Hf [Hw0 _]]]. rewrite Hf.
  unfold build_record_into_buffer. rewrite (reset_fresh _ _ Hr), (reset_fresh _ _ Hw0). reflexivity.
Qed.

(* the reset state itself: all observable fields equal those of a new builder *)
Lemma reset_idempotent_l :
  forall s st, reachable s st -> reset s st = fresh s.
Proof. intros s st Hr. apply reset_fresh, reachable_wf, Hr. Qed.

(* ------------------------------------------------------------------ closed form of a built record *)
Fixpoint cums (acc : Z) (vs : list (list Z)) : list Z :=
  match vs with [] => [] | v :: r => (acc + blen v) :: cums (acc + blen v) r end.

Lemma offset_table_closed vs : forall acc,
  0 <= acc -> acc + blen (concat vs) < 65536 ->
  offset_table vs acc = Ok (flat_map (le_bytes 2) (cums acc vs)).
Proof.
  induction vs as [|v vs IH]; intros acc Ha Hs; cbn [offset_table cums flat_map]; [reflexivity|].
  cbn [concat] in Hs. rewrite blen_app in Hs.
  pose proof (blen_nonneg v). pose proof (blen_nonneg (concat vs)).
  rewrite wrap_u_small by (change (2 ^ 16) with 65536; lia).
  replace (acc + blen v <? 65536) with true by lia.
  rewrite IH by lia. reflexivity.
Qed.

Definition header_of (s : schema) : Z := 2 + bitmap_size (ncols s) + nvar s * 2.

Definition record_bytes (s : schema) (bm : list Z) (row : list value) : list Z :=
  le_bytes 2 (header_of s) ++ bm ++ flat_map (le_bytes 2) (cums 0 (vsegs s row))
    ++ fsegs s row ++ concat (vsegs s row).

Lemma build_fresh_closed s row :
  schema_ok s = true -> fits_row s row = true ->
  exists bm,
    build_fresh s row = Ok (record_bytes s bm row) /\
    blen bm = bitmap_size (ncols s) /\
    (forall j, (j < length s)%nat -> bit bm (Z.of_nat j) = is_vnull (nth j row VNull)).
Proof.
  intros Hs Hfr. unfold fits_row in Hfr. apply andb_true_iff in Hfr. destruct Hfr as [Hfc Htv].
  unfold build_fresh. destruct (fresh_ok s) as [st0 [Hf [Hw0 [Hfd0 [Hvd0 Hbit0]]]]]. rewrite Hf.
  unfold build_record_into_buffer. rewrite (reset_fresh _ _ Hw0), Hf.
  destruct Hw0 as [Hl0 _].
  destruct (set_row_closed s row [] [] st0) as [st' [Hrun [Hfd [Hvd [Hnb [_ Hbits]]]]]];
    try assumption; try reflexivity.
  - cbn [app]. lia.
  - cbn [app length] in Hrun. change (Z.of_nat 0) with 0 in Hrun. rewrite Hrun.
    cbn [snd app] in *. unfold build. rewrite Hvd.
    rewrite offset_table_closed by (try lia; rewrite concat_vsegs_len by exact Hfc; lia).
    cbn [bind]. exists (nb st'). split; [|split].
    + unfold record_bytes, header_len_of, header_of. rewrite Hfd, Hnb, Hl0.
      unfold schema_ok in Hs.
      rewrite wrap_u_small; [reflexivity|].
      change (2 ^ 16) with 65536. pose proof (ncols_nonneg s). rewrite nvar_nvars in *.
      unfold bitmap_size in *. lia.
    + lia.
    + intros j Hj. apply (Hbits j Hj).
Qed.

(* size of a record: header (2 + bitmap + 2 per variable column) + fixed area + variable bytes *)
Lemma record_size_formula_l s row bytes :
  schema_ok s = true -> fits_row s row = true ->
  build_fresh s row = Ok bytes ->
  blen bytes = 2 + bitmap_size (ncols s) + 2 * nvar s + total_fixed s + total_var s row.
Proof.
  intros Hs Hfr Hb.
  destruct (build_fresh_closed s row Hs Hfr) as [bm [Hc [Hl _]]].
  rewrite Hc in Hb. inversion Hb; subst bytes.
  unfold fits_row in Hfr. apply andb_true_iff in Hfr. destruct Hfr as [Hfc _].
  unfold record_bytes. rewrite !blen_app, blen_le_bytes, Hl, fsegs_len, concat_vsegs_len by assumption.
  assert (E : forall l, blen (flat_map (le_bytes 2) l) = 2 * blen l).
  { induction l as [|x l IH]; [reflexivity|]. cbn [flat_map]. rewrite blen_app, blen_le_bytes, IH, blen_cons. lia. }
  assert (C : forall vs acc, length (cums acc vs) = length vs).
  { induction vs as [|v vs IH]; intros acc; cbn [cums length]; [reflexivity|]. rewrite IH. reflexivity. }
  rewrite E. unfold blen. rewrite C, (vsegs_length s row (fits_cols_length _ _ Hfc)), nvar_nvars.
  lia.
Qed.
