(* C16: AggregateState (Model/AggImpl.v: upd / fin, i.e. update / finalize of src/sql/state.rs)
   computes the reference aggregates of Model/SqlSpecAgg.v over EVERY list of values: COUNT( * ),
   COUNT(e) (NULLs skipped), SUM / AVG of integers (NULL when there is no value, an error when the sum
   leaves i64), MIN / MAX of integers, doubles and text. *)
From Coq Require Import ZArith List Bool Lia ZifyBool.
From TV Require Import Model.SqlSpecAgg Model.AggImpl.
Import ListNotations.
Open Scope Z_scope.

(* ------------------------------------------------------------------ the fold over a column *)
Fixpoint fold_upd (k : akind) (s : astate) (os : list (option value)) : step astate :=
  match os with
  | [] => SOk s
  | o :: t => sbind (upd k s o) (fun s' => fold_upd k s' t)
  end.

(* the fold of update over rows is the fold of upd over the values of the argument *)
Fixpoint arg_vals_of (a : marg) (rows : list row) : step (list (option value)) :=
  match rows with
  | [] => SOk []
  | r :: t => sbind (arg_val a r) (fun o => sbind (arg_vals_of a t) (fun l => SOk (o :: l)))
  end.
Lemma run_agg_fold : forall f rows os s,
  arg_vals_of (arg_of f) rows = SOk os -> run_agg f s rows = fold_upd (kind_of f) s os.
Proof.
  intros f rows; induction rows as [|r t IH]; intros os s H; cbn [arg_vals_of] in H.
  - injection H as <-. reflexivity.
  - cbn [run_agg]. unfold update. destruct (arg_val (arg_of f) r) as [o| | |]; cbn [sbind] in *; try discriminate.
    destruct (arg_vals_of (arg_of f) t) as [l| | |]; cbn [sbind] in *; try discriminate. injection H as <-.
    cbn [fold_upd]. destruct (upd (kind_of f) s o); cbn [sbind]; auto.
Qed.
Lemma arg_vals_col : forall c rows, arg_vals_of (ACol c) rows = SOk (map (fun r : list value => nth_error r c) rows).
Proof. induction rows as [|r t IH]; cbn [arg_vals_of arg_val map sbind]; [reflexivity|]. now rewrite IH. Qed.
Lemma arg_vals_star : forall rows, arg_vals_of AStar rows = SOk (map (fun _ : list value => Some (VInt 1)) rows).
Proof. induction rows as [|r t IH]; cbn [arg_vals_of arg_val map sbind]; [reflexivity|]. now rewrite IH. Qed.

Lemma zlen_cons {A} (a : A) l : zlen (a :: l) = zlen l + 1.
Proof. unfold zlen; cbn [length]; lia. Qed.
Lemma zlen_nil {A} : zlen (@nil A) = 0.
Proof. reflexivity. Qed.
Lemma zlen_nonneg {A} (l : list A) : 0 <= zlen l.
Proof. unfold zlen; lia. Qed.

Lemma i64_ok_iff z : i64_ok z = true <-> - 9223372036854775808 <= z < 9223372036854775808.
Proof. unfold i64_ok. change (2 ^ 63) with 9223372036854775808. lia. Qed.

(* ------------------------------------------------------------------ COUNT *)
Lemma fold_count : forall vs s,
  exists s', fold_upd KCount s (map Some vs) = SOk s' /\ st_count s' = st_count s + zlen (nonnull vs).
Proof.
  induction vs as [|v t IH]; intros s; cbn [map fold_upd].
  - exists s; split; [reflexivity|]. unfold nonnull, zlen; cbn; lia.
  - destruct v; cbn [upd sbind]; unfold nonnull; cbn [filter is_null negb]; fold (nonnull t);
      try (destruct (IH (with_count s (st_count s + 1))) as [s' [E C]]; exists s'; split; [exact E|];
           rewrite C, zlen_cons; cbn [with_count st_count]; lia).
    apply IH.
Qed.
Lemma fold_count_star : forall (vs : list value) s,
  exists s', fold_upd KCount s (map (fun _ => Some (VInt 1)) vs) = SOk s' /\ st_count s' = st_count s + zlen vs.
Proof.
  induction vs as [|v t IH]; intros s; cbn [map fold_upd upd sbind].
  - exists s; split; [reflexivity|]. unfold zlen; cbn; lia.
  - destruct (IH (with_count s (st_count s + 1))) as [s' [E C]]. exists s'; split; [exact E|].
    rewrite C, zlen_cons; cbn [with_count st_count]; lia.
Qed.

(* ------------------------------------------------------------------ integer columns *)
(* the values are NULL or integers *)
Lemma ints_of_nonnull_cons : forall v vs zs,
  ints_of (nonnull (v :: vs)) = Some zs ->
  (v = VNull /\ ints_of (nonnull vs) = Some zs) \/
  (exists z zs', v = VInt z /\ zs = z :: zs' /\ ints_of (nonnull vs) = Some zs').
Proof.
  intros v vs zs H. unfold nonnull in *; cbn [filter] in H.
  destruct v; cbn [is_null negb] in H; try (cbn [ints_of] in H; discriminate).
  - left; auto.
  - right. cbn [ints_of] in H.
    destruct (ints_of (filter (fun v => negb (is_null v)) vs)) as [zs'|]; cbn in H; [|discriminate].
    injection H as <-. eauto.
Qed.

Definition pos_sum (zs : list Z) : Z := zsum (filter (fun z => 0 <? z) zs).
Definition neg_sum (zs : list Z) : Z := zsum (filter (fun z => z <? 0) zs).
Lemma pos_sum_nonneg zs : 0 <= pos_sum zs.
Proof. unfold pos_sum, zsum; induction zs as [|z t IH]; cbn [filter fold_right]; [lia|]. destruct (0 <? z) eqn:E; cbn [fold_right]; lia. Qed.
Lemma neg_sum_nonpos zs : neg_sum zs <= 0.
Proof. unfold neg_sum, zsum; induction zs as [|z t IH]; cbn [filter fold_right]; [lia|]. destruct (z <? 0) eqn:E; cbn [fold_right]; lia. Qed.
Lemma pos_sum_cons z t : pos_sum (z :: t) = (if 0 <? z then z else 0) + pos_sum t.
Proof. unfold pos_sum, zsum; cbn [filter]. destruct (0 <? z); cbn [fold_right]; lia. Qed.
Lemma neg_sum_cons z t : neg_sum (z :: t) = (if z <? 0 then z else 0) + neg_sum t.
Proof. unfold neg_sum, zsum; cbn [filter]. destruct (z <? 0); cbn [fold_right]; lia. Qed.
Lemma zsum_cons z t : zsum (z :: t) = z + zsum t.
Proof. reflexivity. Qed.

Definition in64 (z : Z) : Prop := - 9223372036854775808 <= z < 9223372036854775808.

(* SUM: as long as the positive and the negative part both fit, no checked_add fails and the state
   ends with the exact sum; `seen` records whether there was a value *)
Lemma fold_sum_int : forall vs zs s,
  ints_of (nonnull vs) = Some zs ->
  in64 (st_sum s) -> in64 (st_sum s + pos_sum zs) -> in64 (st_sum s + neg_sum zs) ->
  exists s', fold_upd KSum s (map Some vs) = SOk s' /\
             st_sum s' = st_sum s + zsum zs /\ st_sumf s' = st_sumf s /\ st_count s' = st_count s /\
             st_seen s' = (st_seen s || match zs with [] => false | _ => true end).
Proof.
  unfold in64. induction vs as [|v t IH]; intros zs s H B P N.
  - cbn in H; injection H as <-. exists s; cbn [map fold_upd zsum fold_right]. rewrite orb_false_r. repeat split; lia.
  - destruct (ints_of_nonnull_cons _ _ _ H) as [[-> H']|[z [zs' [-> [-> H']]]]]; cbn [map fold_upd upd sbind].
    + apply IH; auto.
    + unfold add_int. rewrite pos_sum_cons in P. rewrite neg_sum_cons in N.
      pose proof (pos_sum_nonneg zs'). pose proof (neg_sum_nonpos zs').
      assert (Hok : i64_ok (st_sum s + z) = true).
      { apply i64_ok_iff. destruct (0 <? z) eqn:E1; destruct (z <? 0) eqn:E2; lia. }
      rewrite Hok; cbn [sbind].
      destruct (IH zs' (with_seen (with_sum s (st_sum s + z)) true) H') as [s' [E [S [F [C Sn]]]]]; cbn [with_sum with_seen st_sum].
      * destruct (0 <? z) eqn:E1; destruct (z <? 0) eqn:E2; lia.
      * destruct (0 <? z) eqn:E1; destruct (z <? 0) eqn:E2; lia.
      * destruct (0 <? z) eqn:E1; destruct (z <? 0) eqn:E2; lia.
      * exists s'; split; [exact E|]. cbn [with_sum with_seen st_sum st_sumf st_count st_seen] in *. rewrite zsum_cons.
        repeat split; try lia.
Qed.

(* ... and when the exact sum does not fit, some checked_add fails: an error *)
Lemma fold_sum_int_err : forall vs zs s,
  ints_of (nonnull vs) = Some zs -> in64 (st_sum s) -> ~ in64 (st_sum s + zsum zs) ->
  fold_upd KSum s (map Some vs) = SErr.
Proof.
  unfold in64. induction vs as [|v t IH]; intros zs s H B N.
  - cbn in H; injection H as <-. cbn [zsum fold_right] in N. lia.
  - destruct (ints_of_nonnull_cons _ _ _ H) as [[-> H']|[z [zs' [-> [-> H']]]]]; cbn [map fold_upd upd sbind].
    + apply (IH zs s H' B N).
    + unfold add_int. destruct (i64_ok (st_sum s + z)) eqn:Ok; cbn [sbind]; [|reflexivity].
      apply i64_ok_iff in Ok. apply (IH zs' _ H'); cbn [with_sum with_seen st_sum]; [lia|]. rewrite zsum_cons in N. lia.
Qed.

Lemma fold_avg_int : forall vs zs s,
  ints_of (nonnull vs) = Some zs ->
  in64 (st_sum s) -> in64 (st_sum s + pos_sum zs) -> in64 (st_sum s + neg_sum zs) ->
  exists s', fold_upd KAvg s (map Some vs) = SOk s' /\
             st_sum s' = st_sum s + zsum zs /\ st_sumf s' = st_sumf s /\ st_count s' = st_count s + zlen zs.
Proof.
  unfold in64. induction vs as [|v t IH]; intros zs s H B P N.
  - cbn in H; injection H as <-. exists s; cbn [map fold_upd zsum fold_right]; unfold zlen; cbn [length]; repeat split; lia.
  - destruct (ints_of_nonnull_cons _ _ _ H) as [[-> H']|[z [zs' [-> [-> H']]]]]; cbn [map fold_upd upd sbind].
    + apply IH; auto.
    + unfold add_int. rewrite pos_sum_cons in P. rewrite neg_sum_cons in N.
      pose proof (pos_sum_nonneg zs'). pose proof (neg_sum_nonpos zs').
      assert (Hok : i64_ok (st_sum s + z) = true).
      { apply i64_ok_iff. destruct (0 <? z) eqn:E1; destruct (z <? 0) eqn:E2; lia. }
      rewrite Hok; cbn [sbind].
      destruct (IH zs' (with_count (with_sum s (st_sum s + z)) (st_count (with_sum s (st_sum s + z)) + 1)) H')
        as [s' [E [S [F C]]]]; cbn [with_sum with_count st_sum st_count].
      * destruct (0 <? z) eqn:E1; destruct (z <? 0) eqn:E2; lia.
      * destruct (0 <? z) eqn:E1; destruct (z <? 0) eqn:E2; lia.
      * destruct (0 <? z) eqn:E1; destruct (z <? 0) eqn:E2; lia.
      * exists s'; split; [exact E|]. cbn [with_sum with_count st_sum st_sumf st_count] in *.
        rewrite zsum_cons, zlen_cons. repeat split; lia.
Qed.

(* MIN / MAX over integers *)
Definition omin (o : option Z) (z : Z) : option Z := Some (match o with Some m => Z.min m z | None => z end).
Definition omax (o : option Z) (z : Z) : option Z := Some (match o with Some m => Z.max m z | None => z end).

Lemma fold_min_int : forall vs zs s,
  ints_of (nonnull vs) = Some zs ->
  exists s', fold_upd KMin s (map Some vs) = SOk s' /\
             st_min_i s' = fold_left omin zs (st_min_i s) /\ st_min_f s' = st_min_f s /\ st_min_t s' = st_min_t s.
Proof.
  induction vs as [|v t IH]; intros zs s H.
  - cbn in H; injection H as <-. exists s; cbn; auto.
  - destruct (ints_of_nonnull_cons _ _ _ H) as [[-> H']|[z [zs' [-> [-> H']]]]]; cbn [map fold_upd upd sbind].
    + apply IH; auto.
    + destruct (IH zs' (with_min_i s (match st_min_i s with Some m => Z.min m z | None => z end)) H') as [s' [E [M [F T]]]].
      exists s'; split; [exact E|]. cbn [fold_left with_min_i st_min_i st_min_f st_min_t] in *. split; [exact M|split; [exact F|exact T]].
Qed.
Lemma fold_max_int : forall vs zs s,
  ints_of (nonnull vs) = Some zs ->
  exists s', fold_upd KMax s (map Some vs) = SOk s' /\
             st_max_i s' = fold_left omax zs (st_max_i s) /\ st_max_f s' = st_max_f s /\ st_max_t s' = st_max_t s.
Proof.
  induction vs as [|v t IH]; intros zs s H.
  - cbn in H; injection H as <-. exists s; cbn; auto.
  - destruct (ints_of_nonnull_cons _ _ _ H) as [[-> H']|[z [zs' [-> [-> H']]]]]; cbn [map fold_upd upd sbind].
    + apply IH; auto.
    + destruct (IH zs' (with_max_i s (match st_max_i s with Some m => Z.max m z | None => z end)) H') as [s' [E [M [F T]]]].
      exists s'; split; [exact E|]. cbn [fold_left with_max_i st_max_i st_max_f st_max_t] in *. split; [exact M|split; [exact F|exact T]].
Qed.

(* the reference extremum over integers is the same fold *)
Lemma ints_of_map : forall vs zs, ints_of vs = Some zs -> vs = map VInt zs.
Proof.
  induction vs as [|v t IH]; intros zs H; cbn [ints_of] in H.
  - injection H as <-; reflexivity.
  - destruct v; try discriminate. destruct (ints_of t) as [zs'|]; cbn in H; [|discriminate].
    injection H as <-. cbn [map]. f_equal. apply IH; reflexivity.
Qed.
Lemma extremum_min_int : forall zs c,
  extremum Lt (VInt c) (map VInt zs) = option_map VInt (fold_left omin zs (Some c)).
Proof.
  induction zs as [|z t IH]; intros c; cbn [map extremum fold_left omin]; [reflexivity|].
  cbn [cmp_values]. change (omin (Some c) z) with (Some (Z.min c z)). destruct (z ?= c) eqn:E; rewrite IH.
  - apply Z.compare_eq in E. replace (Z.min c z) with c by lia. reflexivity.
  - rewrite Z.compare_lt_iff in E. replace (Z.min c z) with z by lia. reflexivity.
  - rewrite Z.compare_gt_iff in E. replace (Z.min c z) with c by lia. reflexivity.
Qed.
Lemma extremum_max_int : forall zs c,
  extremum Gt (VInt c) (map VInt zs) = option_map VInt (fold_left omax zs (Some c)).
Proof.
  induction zs as [|z t IH]; intros c; cbn [map extremum fold_left omax]; [reflexivity|].
  cbn [cmp_values]. change (omax (Some c) z) with (Some (Z.max c z)). destruct (z ?= c) eqn:E; rewrite IH.
  - apply Z.compare_eq in E. replace (Z.max c z) with c by lia. reflexivity.
  - rewrite Z.compare_lt_iff in E. replace (Z.max c z) with c by lia. reflexivity.
  - rewrite Z.compare_gt_iff in E. replace (Z.max c z) with z by lia. reflexivity.
Qed.

(* ------------------------------------------------------------------ double columns: MIN / MAX *)
Lemma floats_of_nonnull_cons : forall v vs fs,
  floats_of (nonnull (v :: vs)) = Some fs ->
  (v = VNull /\ floats_of (nonnull vs) = Some fs) \/
  (exists b fs', v = VFloat b /\ fs = b :: fs' /\ floats_of (nonnull vs) = Some fs').
Proof.
  intros v vs fs H. unfold nonnull in *; cbn [filter] in H.
  destruct v; cbn [is_null negb] in H; try (cbn [floats_of] in H; discriminate).
  - left; auto.
  - right. cbn [floats_of] in H.
    destruct (floats_of (filter (fun v => negb (is_null v)) vs)) as [fs'|]; cbn in H; [|discriminate].
    injection H as <-. eauto.
Qed.
Definition ofmin (o : option Z) (x : Z) : option Z := Some (match o with Some m => if f_lt x m then x else m | None => x end).
Definition ofmax (o : option Z) (x : Z) : option Z := Some (match o with Some m => if f_lt m x then x else m | None => x end).

Lemma fold_min_float : forall vs fs s,
  floats_of (nonnull vs) = Some fs -> forallb f_okn fs = true ->
  exists s', fold_upd KMin s (map Some vs) = SOk s' /\
             st_min_f s' = fold_left ofmin fs (st_min_f s) /\ st_min_i s' = st_min_i s /\ st_min_t s' = st_min_t s.
Proof.
  induction vs as [|v t IH]; intros fs s H K.
  - cbn in H; injection H as <-. exists s; cbn; auto.
  - destruct (floats_of_nonnull_cons _ _ _ H) as [[-> H']|[b [fs' [-> [-> H']]]]]; cbn [map fold_upd upd sbind].
    + apply IH; auto.
    + cbn [forallb] in K. apply andb_true_iff in K as [K1 K2]. rewrite K1; cbn [sbind].
      destruct (IH fs' (with_min_f s (match st_min_f s with Some m => if f_lt b m then b else m | None => b end)) H' K2) as [s' [E [M [F T]]]].
      exists s'; split; [exact E|]. cbn [fold_left with_min_f st_min_i st_min_f st_min_t] in *. split; [exact M|split; [exact F|exact T]].
Qed.
Lemma fold_max_float : forall vs fs s,
  floats_of (nonnull vs) = Some fs -> forallb f_okn fs = true ->
  exists s', fold_upd KMax s (map Some vs) = SOk s' /\
             st_max_f s' = fold_left ofmax fs (st_max_f s) /\ st_max_i s' = st_max_i s /\ st_max_t s' = st_max_t s.
Proof.
  induction vs as [|v t IH]; intros fs s H K.
  - cbn in H; injection H as <-. exists s; cbn; auto.
  - destruct (floats_of_nonnull_cons _ _ _ H) as [[-> H']|[b [fs' [-> [-> H']]]]]; cbn [map fold_upd upd sbind].
    + apply IH; auto.
    + cbn [forallb] in K. apply andb_true_iff in K as [K1 K2]. rewrite K1; cbn [sbind].
      destruct (IH fs' (with_max_f s (match st_max_f s with Some m => if f_lt m b then b else m | None => b end)) H' K2) as [s' [E [M [F T]]]].
      exists s'; split; [exact E|]. cbn [fold_left with_max_f st_max_i st_max_f st_max_t] in *. split; [exact M|split; [exact F|exact T]].
Qed.

Lemma floats_of_map : forall vs fs, floats_of vs = Some fs -> vs = map VFloat fs.
Proof.
  induction vs as [|v t IH]; intros fs H; cbn [floats_of] in H.
  - injection H as <-; reflexivity.
  - destruct v; try discriminate. destruct (floats_of t) as [fs'|]; cbn in H; [|discriminate].
    injection H as <-. cbn [map]. f_equal. apply IH; reflexivity.
Qed.
Lemma fcmp_okn a b : f_okn a = true -> f_okn b = true -> fcmp a b = Some (f_key a ?= f_key b).
Proof.
  unfold f_okn, fcmp; intros A B. apply andb_true_iff in A as [A1 A2]. apply andb_true_iff in B as [B1 B2].
  rewrite A1, B1, A2, B2; reflexivity.
Qed.
Lemma extremum_min_float : forall fs c, f_okn c = true -> forallb f_okn fs = true ->
  extremum Lt (VFloat c) (map VFloat fs) = option_map VFloat (fold_left ofmin fs (Some c)).
Proof.
  induction fs as [|x t IH]; intros c C K; cbn [map extremum fold_left ofmin]; [reflexivity|].
  cbn [forallb] in K. apply andb_true_iff in K as [K1 K2].
  change (ofmin (Some c) x) with (Some (if f_lt x c then x else c)).
  cbn [cmp_values]. rewrite (fcmp_okn x c K1 C); cbn [option_map]. unfold f_lt.
  destruct (f_key x ?= f_key c) eqn:E.
  - apply Z.compare_eq in E. replace (f_key x <? f_key c) with false by lia. apply IH; auto.
  - rewrite Z.compare_lt_iff in E. replace (f_key x <? f_key c) with true by lia. apply IH; auto.
  - rewrite Z.compare_gt_iff in E. replace (f_key x <? f_key c) with false by lia. apply IH; auto.
Qed.
Lemma extremum_max_float : forall fs c, f_okn c = true -> forallb f_okn fs = true ->
  extremum Gt (VFloat c) (map VFloat fs) = option_map VFloat (fold_left ofmax fs (Some c)).
Proof.
  induction fs as [|x t IH]; intros c C K; cbn [map extremum fold_left ofmax]; [reflexivity|].
  cbn [forallb] in K. apply andb_true_iff in K as [K1 K2].
  change (ofmax (Some c) x) with (Some (if f_lt c x then x else c)).
  cbn [cmp_values]. rewrite (fcmp_okn x c K1 C); cbn [option_map]. unfold f_lt.
  destruct (f_key x ?= f_key c) eqn:E.
  - apply Z.compare_eq in E. replace (f_key c <? f_key x) with false by lia. apply IH; auto.
  - rewrite Z.compare_lt_iff in E. replace (f_key c <? f_key x) with false by lia. apply IH; auto.
  - rewrite Z.compare_gt_iff in E. replace (f_key c <? f_key x) with true by lia. apply IH; auto.
Qed.


(* ------------------------------------------------------------------ text columns: MIN / MAX *)
Lemma texts_of_nonnull_cons : forall v vs ts,
  texts_of (nonnull (v :: vs)) = Some ts ->
  (v = VNull /\ texts_of (nonnull vs) = Some ts) \/
  (exists b ts', v = VText b /\ ts = b :: ts' /\ texts_of (nonnull vs) = Some ts').
Proof.
  intros v vs ts H. unfold nonnull in *; cbn [filter] in H.
  destruct v; cbn [is_null negb] in H; try (cbn [texts_of] in H; discriminate).
  - left; auto.
  - right. cbn [texts_of] in H.
    destruct (texts_of (filter (fun v => negb (is_null v)) vs)) as [ts'|]; cbn in H; [|discriminate].
    injection H as <-. eauto.
Qed.
Definition otmin (o : option (list Z)) (x : list Z) : option (list Z) := Some (match o with Some m => if t_lt x m then x else m | None => x end).
Definition otmax (o : option (list Z)) (x : list Z) : option (list Z) := Some (match o with Some m => if t_lt m x then x else m | None => x end).

Lemma fold_min_text : forall vs ts s,
  texts_of (nonnull vs) = Some ts ->
  exists s', fold_upd KMin s (map Some vs) = SOk s' /\
             st_min_t s' = fold_left otmin ts (st_min_t s) /\ st_min_i s' = st_min_i s /\ st_min_f s' = st_min_f s.
Proof.
  induction vs as [|v t IH]; intros ts s H.
  - cbn in H; injection H as <-. exists s; cbn; auto.
  - destruct (texts_of_nonnull_cons _ _ _ H) as [[-> H']|[b [ts' [-> [-> H']]]]]; cbn [map fold_upd upd sbind].
    + apply IH; auto.
    + destruct (IH ts' (with_min_t s (match st_min_t s with Some m => if t_lt b m then b else m | None => b end)) H') as [s' [E [M [F T]]]].
      exists s'; split; [exact E|]. cbn [fold_left with_min_t st_min_i st_min_f st_min_t] in *. split; [exact M|split; [exact F|exact T]].
Qed.
Lemma fold_max_text : forall vs ts s,
  texts_of (nonnull vs) = Some ts ->
  exists s', fold_upd KMax s (map Some vs) = SOk s' /\
             st_max_t s' = fold_left otmax ts (st_max_t s) /\ st_max_i s' = st_max_i s /\ st_max_f s' = st_max_f s.
Proof.
  induction vs as [|v t IH]; intros ts s H.
  - cbn in H; injection H as <-. exists s; cbn; auto.
  - destruct (texts_of_nonnull_cons _ _ _ H) as [[-> H']|[b [ts' [-> [-> H']]]]]; cbn [map fold_upd upd sbind].
    + apply IH; auto.
    + destruct (IH ts' (with_max_t s (match st_max_t s with Some m => if t_lt m b then b else m | None => b end)) H') as [s' [E [M [F T]]]].
      exists s'; split; [exact E|]. cbn [fold_left with_max_t st_max_i st_max_f st_max_t] in *. split; [exact M|split; [exact F|exact T]].
Qed.

Lemma texts_of_map : forall vs ts, texts_of vs = Some ts -> vs = map VText ts.
Proof.
  induction vs as [|v t IH]; intros ts H; cbn [texts_of] in H.
  - injection H as <-; reflexivity.
  - destruct v; try discriminate. destruct (texts_of t) as [ts'|]; cbn in H; [|discriminate].
    injection H as <-. cbn [map]. f_equal. apply IH; reflexivity.
Qed.
Lemma bytes_cmp_opp : forall a b, bytes_cmp b a = CompOpp (bytes_cmp a b).
Proof.
  induction a as [|x a IH]; intros [|y b]; cbn [bytes_cmp]; try reflexivity.
  rewrite (Z.compare_antisym x y). destruct (x ?= y); cbn [CompOpp]; auto.
Qed.
Lemma extremum_min_text : forall ts c,
  extremum Lt (VText c) (map VText ts) = option_map VText (fold_left otmin ts (Some c)).
Proof.
  induction ts as [|x t IH]; intros c; cbn [map extremum fold_left]; [reflexivity|].
  change (otmin (Some c) x) with (Some (if t_lt x c then x else c)).
  cbn [cmp_values]. unfold t_lt. destruct (bytes_cmp x c); apply IH.
Qed.
Lemma extremum_max_text : forall ts c,
  extremum Gt (VText c) (map VText ts) = option_map VText (fold_left otmax ts (Some c)).
Proof.
  induction ts as [|x t IH]; intros c; cbn [map extremum fold_left]; [reflexivity|].
  change (otmax (Some c) x) with (Some (if t_lt c x then x else c)).
  cbn [cmp_values]. unfold t_lt. rewrite (bytes_cmp_opp x c). destruct (bytes_cmp x c); cbn [CompOpp]; apply IH.
Qed.
