(* C05 -- INSERT of the mechanism model against the reference: under the invariant the per-row
   loop (NOT NULL check, unique-index probe, write, index entry) accepts exactly the
   statements the reference accepts and appends exactly their rows. *)
From Coq Require Import ZArith List Bool Lia.
From TV Require Import Model.SqlSpec Model.DmlSpec Model.Tombstone Proof.SqlSpecLaws Proof.TombBase.
Import ListNotations.
Open Scope Z_scope.

Lemma ins_row_ok_spec : forall sch st r, InvS sch st ->
  ins_row_ok sch st r = row_ok sch (visible st) r.
Proof.
  intros sch st r HI. unfold ins_row_ok, row_ok, key_conflict, has_key. f_equal. f_equal.
  destruct (keyed sch) eqn:K; cbn [andb]; [|reflexivity].
  destruct (is_null (key_of r)) eqn:N; cbn [negb andb]; [reflexivity|].
  rewrite (inv_idx _ _ HI), K. unfold visible. apply idx_mem_idx_of. exact N.
Qed.

Lemma idx_of_app : forall a b, idx_of (a ++ b) = idx_of a ++ idx_of b.
Proof. intros. unfold idx_of. rewrite filter_app, map_app. reflexivity. Qed.

Lemma idx_of_one : forall id r,
  idx_of [mkEnt id false r] = if is_null (key_of r) then [] else [(key_of r, id)].
Proof.
  intros. unfold idx_of. cbn [filter]. unfold idx_live, live, e_key. cbn [e_del e_row negb andb].
  destruct (is_null (key_of r)); reflexivity.
Qed.

Lemma ins_row_ok_fits : forall sch st r, ins_row_ok sch st r = true -> row_fits (s_tys sch) r = true.
Proof.
  intros sch st r H. unfold ins_row_ok in H. apply andb_true_iff in H. destruct H as [H _].
  apply andb_true_iff in H. apply H.
Qed.

Lemma ins_write_inv : forall sch st r, wf_schema sch -> InvS sch st ->
  ins_row_ok sch st r = true ->
  InvS sch (ins_write sch st r) /\ visible (ins_write sch st r) = visible st ++ [r]
  /\ rcount (ins_write sch st r) = rcount st.
Proof.
  intros sch st r Hwf HI Hok. pose proof (ins_row_ok_fits _ _ _ Hok) as Hfit. split; [|split].
  - destruct (inv_ids _ _ HI) as [Hnd Hlt]. constructor; unfold ins_write; cbn [ents nextid kidx].
    + split.
      * rewrite map_app. cbn [map e_id]. apply NoDup_snoc; [exact Hnd|].
        intro Hin. apply in_map_iff in Hin. destruct Hin as [e [E Hin]].
        apply Hlt in Hin. lia.
      * intros e Hin. apply in_app_or in Hin. destruct Hin as [Hin|[<-|[]]].
        -- apply Hlt in Hin. lia.
        -- cbn [e_id]. lia.
    + rewrite (inv_idx _ _ HI). unfold has_key. destruct (keyed sch) eqn:K; cbn [andb].
      * rewrite idx_of_app, idx_of_one.
        destruct (is_null (key_of r)); cbn [negb]; [rewrite app_nil_r|]; reflexivity.
      * reflexivity.
    + intros K a b Ha Hb La Lb Na E.
      assert (Hfresh : forall o, In o (ents st) -> live o = true -> is_null (e_key o) = false ->
                         e_key o = key_of r -> False).
      { intros o Ho Lo No Eo. unfold ins_row_ok in Hok. apply andb_true_iff in Hok. destruct Hok as [_ Hok].
        apply negb_true_iff in Hok. unfold has_key in Hok. rewrite K in Hok. cbn [andb] in Hok.
        rewrite <- Eo in Hok. rewrite No in Hok. cbn [negb andb] in Hok.
        rewrite (inv_idx _ _ HI), K in Hok. rewrite idx_mem_idx_of in Hok by exact No.
        assert (X : existsb (fun r0 => value_eqb (key_of r0) (e_key o)) (map e_row (filter live (ents st))) = true).
        { apply existsb_exists. exists (e_row o). split.
          - apply in_map. apply filter_In. split; assumption.
          - apply value_eqb_refl. }
        congruence. }
      apply in_app_or in Ha. apply in_app_or in Hb.
      destruct Ha as [Ha|[<-|[]]], Hb as [Hb|[<-|[]]].
      * eapply (inv_uniq _ _ HI K); eassumption.
      * exfalso. eapply Hfresh; [exact Ha|exact La|exact Na|]. rewrite E. reflexivity.
      * exfalso. unfold e_key in E at 1. cbn [e_row] in E.
        eapply Hfresh; [exact Hb|exact Lb| |symmetry; exact E].
        rewrite <- E. exact Na.
      * reflexivity.
    + intros K e Hin. apply in_app_or in Hin. destruct Hin as [Hin|[<-|[]]].
      * eapply (inv_kty _ _ HI K). exact Hin.
      * unfold e_key. cbn [e_row]. eapply key_of_fits; eassumption.
  - unfold ins_write, visible. cbn [ents]. rewrite filter_app, map_app. reflexivity.
  - reflexivity.
Qed.

Lemma ins_loop_spec : forall sch, wf_schema sch -> forall rows st n, InvS sch st ->
  (ins_ok sch (visible st) rows = true ->
     exists st', ins_loop sch st rows n = (true, st', n + zlen rows) /\ InvS sch st'
                 /\ visible st' = visible st ++ rows /\ rcount st' = rcount st)
  /\ (ins_ok sch (visible st) rows = false -> exists st' m, ins_loop sch st rows n = (false, st', m)).
Proof.
  intros sch Hwf. induction rows as [|r rs IH]; intros st n HI; cbn [ins_loop ins_ok].
  - split; [|discriminate]. intros _. exists st. unfold zlen. cbn [length Z.of_nat].
    rewrite Z.add_0_r, app_nil_r. split; [reflexivity|]. split; [exact HI|]. split; reflexivity.
  - rewrite (ins_row_ok_spec _ _ _ HI). destruct (row_ok sch (visible st) r) eqn:Rk; cbn [andb].
    + assert (Hok : ins_row_ok sch st r = true) by (rewrite (ins_row_ok_spec _ _ _ HI); exact Rk).
      destruct (ins_write_inv sch st r Hwf HI Hok) as [HI' [Hv Hc]].
      destruct (IH (ins_write sch st r) (n + 1) HI') as [A B]. rewrite Hv in A, B. split.
      * intro H. destruct (A H) as [st' [E [HI2 [Hv2 Hc2]]]]. exists st'.
        replace (n + zlen (r :: rs)) with (n + 1 + zlen rs) by (unfold zlen; cbn [length]; lia).
        split; [exact E|]. split; [exact HI2|]. split; [|congruence].
        rewrite Hv2, <- app_assoc. reflexivity.
      * intro H. exact (B H).
    + split; [discriminate|]. intros _. exists st, n. reflexivity.
Qed.

(* INSERT, repaired mechanism against the reference *)
Lemma insert_refines : forall sch st rows ret r t', wf_schema sch -> Inv sch st ->
  spec_step sch (visible st) (SInsert rows ret) = Some (r, t') ->
  exists st', step true sch st (SInsert rows ret) = (r, st') /\ visible st' = t' /\ Inv sch st'.
Proof.
  intros sch st rows ret r t' Hwf [HI Hc] H. cbn [spec_step step] in *. unfold do_insert.
  destruct (forallb (row_known (s_tys sch)) rows) eqn:Hfit; [|discriminate].
  destruct (ins_loop_spec sch Hwf rows st 0 HI) as [A B].
  destruct (ins_ok sch (visible st) rows) eqn:Ok; inversion H; subst; clear H.
  - destruct (A eq_refl) as [st' [E [HI' [Hv Hc']]]]. rewrite E. rewrite Z.add_0_l.
    exists (add_count st' (zlen rows)). split; [reflexivity|]. split; [exact Hv|].
    split.
    + destruct HI' as [I1 I2 I3 I4]. constructor; assumption.
    + unfold add_count. cbn [rcount]. change (visible (mkT (ents st') (rcount st' + zlen rows) (kidx st') (nextid st')))
        with (visible st'). rewrite Hv, zlen_app, Hc', Hc. reflexivity.
  - destruct (B eq_refl) as [st' [m E]]. rewrite E. exists st. split; [reflexivity|]. split; [reflexivity|].
    split; assumption.
Qed.
