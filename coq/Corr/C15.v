(* C15 correspondence: judge what harness/src/bin/c15.rs observed on the real Database against
   (a) the implementation model Model/SortImpl.v (model_agrees: the exact rows, in order) and
   (b) the reference semantics Model/SortSpec.v + Model/SortQuery.v, i.e. the property itself
       (spec_ok: the rows are a window of SOME arrangement sorted by the keys; ties in any order).
   Evaluated by vm_compute; definitions only. *)
From Coq Require Import ZArith List Bool.
From TV Require Import Model.KnnOrder.
From TV Require Export Model.SqlSpec Model.SortSpec Model.SortQuery Model.SortImpl.
Import ListNotations.
Open Scope Z_scope.

(* what came back: the rows in order, either written out or (QIdx) as 0-based positions of table
   rows whose projection on the query's output columns they are (the harness uses QIdx only
   after checking that it reproduces the rows bit for bit) *)
Inductive qout := QRows (rows : list row) | QIdx (idx : list Z) | QErr | QPanic.

(* one query of the fragment of Model/SortQuery.v on a fresh table t(id, c1, .., c<ncols-1>)
   whose rows were inserted in the order given (and read back bit for bit);
   Same = on the table of the nearest preceding Single of the same file *)
Inductive case :=
| Single (ncols : nat) (t : table) (q : query) (o : qout)
| Same (q : query) (o : qout).

Inductive obs := ORows (rows : list row) | OErr | OPanic.
Definition obs_of (ncols : nat) (t : table) (q : query) (o : qout) : obs :=
  match o with
  | QRows rows => ORows rows
  | QIdx idx => ORows (map (fun i => proj (out_cols ncols (q_sel q)) (nth (Z.to_nat i) t [])) idx)
  | QErr => OErr
  | QPanic => OPanic
  end.

Fixpoint rows_eqb (a b : list row) : bool :=
  match a, b with
  | [], [] => true
  | x :: a', y :: b' => row_eqb x y && rows_eqb a' b'
  | _, _ => false
  end.

(* does the model reproduce the implementation on this case (same rows, same order)? *)
Definition model_agrees1 (ncols : nat) (t : table) (q : query) (o : obs) : bool :=
  match model_query ncols q t, o with
  | MRows rows, ORows rows' => rows_eqb rows rows'
  | MPanic, OPanic => true
  | _, _ => false
  end.

(* does the implementation's answer satisfy the property itself?  The property speaks where the
   reference meaning of the query is defined (valid keys, key expressions defined on every row,
   homogeneous key columns; for DISTINCT: the output row determines the keys). *)
Definition spec_ok1 (ncols : nat) (t : table) (q : query) (o : obs) : bool :=
  match spec_elts ncols q t with
  | None => true
  | Some B =>
      if result_defined (q_dirs q) (q_distinct q) B && nonneg (q_limit q) && nonneg (q_offset q) then
        match o with
        | ORows rows => result_chk (q_dirs q) (q_distinct q) B (q_off q) (q_lim q) rows
        | _ => false
        end
      else true
  end.

(* the table a case refers to, given the one in force before it *)
Definition case_ctx (ctx : nat * table) (c : case) : nat * table :=
  match c with Single ncols t _ _ => (ncols, t) | Same _ _ => ctx end.
Definition case_q (c : case) : query := match c with Single _ _ q _ => q | Same q _ => q end.
Definition case_o (c : case) : qout := match c with Single _ _ _ o => o | Same _ o => o end.

Definition model_agrees_in (ctx : nat * table) (c : case) : bool :=
  let (ncols, t) := case_ctx ctx c in model_agrees1 ncols t (case_q c) (obs_of ncols t (case_q c) (case_o c)).
Definition spec_ok_in (ctx : nat * table) (c : case) : bool :=
  let (ncols, t) := case_ctx ctx c in spec_ok1 ncols t (case_q c) (obs_of ncols t (case_q c) (case_o c)).
(* the recorded finding class of the case (Model/SortImpl.v known_class_case); 0 = none *)
Definition known_class_in (ctx : nat * table) (c : case) : Z :=
  known_class_case (fst (case_ctx ctx c)) (case_q c) (snd (case_ctx ctx c)).

(* a case standing alone (Same without a table: an empty table of no columns) *)
Definition model_agrees (c : case) : bool := model_agrees_in (O, []) c.
Definition spec_ok (c : case) : bool := spec_ok_in (O, []) c.
Definition known_class (c : case) : Z := known_class_in (O, []) c.

Fixpoint failures_from (i : Z) (ctx : nat * table) (cs : list case) : list (Z * bool * bool * Z) :=
  match cs with
  | [] => []
  | c :: rest =>
      let m := model_agrees_in ctx c in
      let s := spec_ok_in ctx c in
      let ctx' := case_ctx ctx c in
      if m && s then failures_from (i + 1) ctx' rest
      else (i, m, s, known_class_in ctx c) :: failures_from (i + 1) ctx' rest
  end.
Definition failures := failures_from 0 (O, []).
