#!/usr/bin/env python3
"""rs2v: translate a straight-line integer subset of Rust into Gallina (Coq 8.16).

Part of the trusted base (DESIGN.md section 9).  It is deliberately small: it parses
the functions and constants named in tools/rs2v.d/*.json out of /repo's *current*
working tree and fails loudly on anything outside the subset, so that a source change it
cannot read breaks the tie instead of being ignored.

For every function f it emits
   Definition f (args : Z ...) : T          value, unbounded Z, wraps explicit
   Definition f_safe (args) : bool          true iff the dev-profile build does not panic
                                            (overflow checks, shift range, div by zero,
                                            slice bounds) on that input.
"""
import json, os, re, sys

INT_TYPES = {
    'u8': (False, 8), 'u16': (False, 16), 'u32': (False, 32), 'u64': (False, 64), 'usize': (False, 64),
    'u128': (False, 128),
    'i8': (True, 8), 'i16': (True, 16), 'i32': (True, 32), 'i64': (True, 64), 'isize': (True, 64),
    'i128': (True, 128),
}


class TrError(Exception):
    pass


class NeedFn(TrError):
    """a call to a function of the same source file that is not (yet) translated"""
    def __init__(self, name):
        TrError.__init__(self, 'call to %s unsupported' % name)
        self.name = name


# ----------------------------------------------------------------------------- lexer
TOK_RE = re.compile(r'''
    (?P<ws>\s+|//[^\n]*|/\*.*?\*/)
  | (?P<num>0[xX][0-9a-fA-F_]+(?:[iu](?:8|16|32|64|128|size))?|0[bB][01_]+(?:[iu](?:8|16|32|64|128|size))?|[0-9][0-9_]*(?:[iu](?:8|16|32|64|128|size))?)
  | (?P<str>b?"(?:\\.|[^"\\])*")
  | (?P<chr>b'(?:\\.|[^'\\])')
  | (?P<id>[A-Za-z_][A-Za-z0-9_]*)
  | (?P<op><<=|>>=|\.\.=|&&|\|\||<<|>>|==|!=|<=|>=|\+=|-=|\*=|/=|%=|\|=|&=|\^=|->|=>|::|\.\.|[-+*/%&|^!<>=.,;:(){}\[\]?#@$])
''', re.X | re.S)


def lex(src):
    toks = []
    pos = 0
    while pos < len(src):
        m = TOK_RE.match(src, pos)
        if not m:
            raise TrError('lex error at %r' % src[pos:pos + 30])
        pos = m.end()
        k = m.lastgroup
        if k == 'ws':
            continue
        toks.append((k, m.group(k)))
    toks.append(('eof', ''))
    return toks


# ----------------------------------------------------------------------------- parser
BINPREC = {
    '||': 1, '&&': 2,
    '==': 3, '!=': 3, '<': 3, '>': 3, '<=': 3, '>=': 3,
    '|': 4, '^': 5, '&': 6, '<<': 7, '>>': 7, '+': 8, '-': 8, '*': 9, '/': 9, '%': 9,
}


class Parser:
    def __init__(self, toks):
        self.t = toks
        self.i = 0

    def peek(self, k=0):
        return self.t[self.i + k]

    def next(self):
        tok = self.t[self.i]
        self.i += 1
        return tok

    def accept(self, val):
        if self.peek()[1] == val and self.peek()[0] in ('op', 'id'):
            self.i += 1
            return True
        return False

    def expect(self, val):
        if not self.accept(val):
            raise TrError('expected %r, got %r (context: %s)' % (val, self.peek(), ' '.join(x[1] for x in self.t[max(0, self.i - 8):self.i + 4])))

    # ---- types
    def parse_type(self):
        if self.accept('&'):
            mut = self.accept('mut')
            if self.accept('['):
                inner = self.parse_type()
                self.expect(']')
                if inner != 'u8':
                    raise TrError('only [u8] slices supported')
                return 'bytes_mut' if mut else 'bytes'
            if self.accept('self'):
                return 'self'
            t = self.parse_type()
            return t
        if self.accept('('):
            ts = []
            while not self.accept(')'):
                ts.append(self.parse_type())
                self.accept(',')
            return ('tuple', ts)
        k, v = self.next()
        if k != 'id':
            raise TrError('type expected, got %r' % v)
        while self.accept('::'):
            k, v = self.next()
        if self.accept('<'):
            args = []
            while not self.accept('>'):
                args.append(self.parse_type())
                self.accept(',')
            if v == 'Result':
                return ('result', args[0])
            if v == 'Option':
                return ('option', args[0])
            raise TrError('generic type %s unsupported' % v)
        return v

    # ---- expressions
    def parse_expr(self, minprec=0, nostruct=False):
        lhs = self.parse_unary(nostruct)
        while True:
            k, v = self.peek()
            if k == 'id' and v == 'as':
                # `as` binds tighter than any binary operator
                self.next()
                lhs = ('cast', lhs, self.parse_type())
                continue
            if k == 'op' and v in BINPREC and BINPREC[v] > minprec:
                self.next()
                rhs = self.parse_expr(BINPREC[v], nostruct)
                lhs = ('bin', v, lhs, rhs)
                continue
            break
        return lhs

    def parse_unary(self, nostruct):
        k, v = self.peek()
        if k == 'op' and v in ('-', '!', '*', '&'):
            self.next()
            if v == '&':
                self.accept('mut')
                return ('ref', self.parse_unary(nostruct))
            e = self.parse_unary(nostruct)
            if v == '*':
                return e
            return ('un', v, e)
        e = self.parse_postfix(self.parse_primary(nostruct))
        # `as` after unary operand: handled in parse_expr loop; but a cast must bind tighter
        # than unary minus in Rust? (-x as T parses as (-x) as T) -> yes handled by loop order.
        while self.peek() == ('id', 'as'):
            self.next()
            e = ('cast', e, self.parse_type())
        return e

    def parse_postfix(self, e):
        while True:
            if self.accept('?'):
                e = ('try', e)
            elif self.peek() == ('op', '.') and self.peek(1)[0] in ('id', 'num'):
                self.next()
                k, name = self.next()
                if k == 'num':
                    e = ('tfield', e, int(name))
                elif self.peek() == ('op', '('):
                    args = self.parse_args()
                    e = ('mcall', e, name, args)
                else:
                    e = ('field', e, name)
            elif self.peek() == ('op', '['):
                self.next()
                if self.peek()[1] == '..':
                    lo = None
                else:
                    lo = self.parse_expr()
                if self.peek()[1] in ('..', '..='):
                    incl = self.next()[1] == '..='
                    hi = None if self.peek() == ('op', ']') else self.parse_expr()
                    self.expect(']')
                    e = ('slice', e, lo, hi, incl)
                else:
                    self.expect(']')
                    e = ('index', e, lo)
            elif self.peek() == ('op', '('):
                args = self.parse_args()
                e = ('call', e, args)
            else:
                return e

    def parse_args(self):
        self.expect('(')
        args = []
        while not self.accept(')'):
            args.append(self.parse_expr())
            self.accept(',')
        return args

    def parse_primary(self, nostruct):
        k, v = self.next()
        if k == 'num':
            m = re.match(r'^(.*?)((?:[iu](?:8|16|32|64|128|size)))?$', v)
            body, suf = m.group(1), m.group(2)
            if body.lower().startswith('0x') and suf is None:
                pass
            body = body.replace('_', '')
            return ('lit', int(body, 0), suf)
        if k == 'chr':
            s = v[2:-1]
            if s.startswith('\\'):
                val = {'n': 10, 't': 9, 'r': 13, '0': 0, '\\': 92, "'": 39, '"': 34}[s[1]]
            else:
                val = ord(s)
            return ('lit', val, 'u8')
        if k == 'str':
            return ('str', v)
        if k == 'op' and v == '(':
            if self.accept(')'):
                return ('tuple', [])
            e = self.parse_expr()
            if self.accept(','):
                es = [e]
                while not self.accept(')'):
                    es.append(self.parse_expr())
                    self.accept(',')
                return ('tuple', es)
            self.expect(')')
            return ('paren', e)
        if k == 'op' and v == '{':
            self.i -= 1
            return self.parse_block()
        if k == 'id':
            if v == 'if':
                return self.parse_if()
            if v == 'match':
                return self.parse_match()
            if v in ('true', 'false'):
                return ('bool', v == 'true')
            path = [v]
            while self.peek() == ('op', '::'):
                self.next()
                path.append(self.next()[1])
            if self.peek() == ('op', '!') and self.peek(1)[1] in ('(', '['):
                self.next()
                close = ')' if self.peek()[1] == '(' else ']'
                self.next()
                args = []
                while not self.accept(close):
                    args.append(self.parse_expr())
                    self.accept(',')
                return ('macro', path[-1], args)
            if len(path) == 1:
                return ('var', v)
            return ('path', path)
        raise TrError('unexpected token %r' % (v,))

    def parse_if(self):
        c = self.parse_expr(nostruct=True)
        th = self.parse_block()
        el = None
        if self.accept('else'):
            if self.peek() == ('id', 'if'):
                self.next()
                el = ('block', [], self.parse_if())
            else:
                el = self.parse_block()
        return ('if', c, th, el)

    def parse_match(self):
        scrut = self.parse_expr(nostruct=True)
        self.expect('{')
        arms = []
        while not self.accept('}'):
            pats = [self.parse_pat()]
            while self.accept('|'):
                pats.append(self.parse_pat())
            self.expect('=>')
            e = self.parse_expr()
            self.accept(',')
            arms.append((pats, e))
        return ('match', scrut, arms)

    def parse_pat(self):
        k, v = self.next()
        if k == 'op' and v == '-':
            k, v = self.next()
            lo = -int(v.replace('_', ''), 0)
        elif k == 'num':
            lo = int(re.sub(r'[iu](8|16|32|64|128|size)$', '', v).replace('_', ''), 0)
        elif k == 'id' and v == '_':
            return ('wild',)
        elif k == 'id' and v in ('true', 'false'):
            return ('pbool', v == 'true')
        elif k == 'id':
            path = [v]
            while self.accept('::'):
                path.append(self.next()[1])
            return ('ppath', path)
        else:
            raise TrError('pattern %r unsupported' % v)
        if self.peek()[1] in ('..=',):
            self.next()
            k, v = self.next()
            hi = int(v.replace('_', ''), 0)
            return ('prange', lo, hi)
        return ('plit', lo)

    def parse_block(self):
        self.expect('{')
        stmts = []
        final = None
        while not self.accept('}'):
            k, v = self.peek()
            if k == 'op' and v == '#':
                # attribute: skip #[...]
                self.next()
                self.expect('[')
                depth = 1
                while depth:
                    t = self.next()[1]
                    depth += (t == '[') - (t == ']')
                continue
            if k == 'id' and v == 'let':
                self.next()
                pat = self.parse_letpat()
                ty = None
                if self.accept(':'):
                    ty = self.parse_type()
                self.expect('=')
                e = self.parse_expr()
                self.expect(';')
                stmts.append(('let', pat, ty, e))
                continue
            if k == 'id' and v == 'const':
                self.next()
                name = self.next()[1]
                self.expect(':')
                ty = self.parse_type()
                self.expect('=')
                e = self.parse_expr()
                self.expect(';')
                stmts.append(('let', ('pvar', name), ty, e))
                continue
            if k == 'id' and v == 'for':
                self.next()
                var = self.next()[1]
                self.expect('in')
                lo = self.parse_expr(nostruct=True)
                incl = self.next()[1]
                if incl not in ('..', '..='):
                    raise TrError('for: range expected')
                hi = self.parse_expr(nostruct=True)
                body = self.parse_block()
                stmts.append(('for', var, lo, hi, incl == '..=', body))
                continue
            if k == 'id' and v == 'return':
                self.next()
                e = None if self.peek() == ('op', ';') else self.parse_expr()
                self.accept(';')
                stmts.append(('return', e))
                continue
            e = self.parse_expr()
            k2, v2 = self.peek()
            if k2 == 'op' and v2 in ('=', '+=', '-=', '*=', '/=', '%=', '|=', '&=', '^=', '<<=', '>>='):
                self.next()
                rhs = self.parse_expr()
                self.expect(';')
                stmts.append(('assign', e, v2, rhs))
                continue
            if self.accept(';'):
                stmts.append(('expr', e))
                continue
            if self.peek() == ('op', '}'):
                final = e
                continue
            if e[0] in ('if', 'match', 'block'):
                stmts.append(('expr', e))
                continue
            raise TrError('statement not understood near %r' % (self.peek(),))
        return ('block', stmts, final)

    def parse_letpat(self):
        if self.accept('('):
            ps = []
            while not self.accept(')'):
                ps.append(self.parse_letpat())
                self.accept(',')
            return ('ptuple', ps)
        self.accept('mut')
        name = self.next()[1]
        return ('pvar', name)


# ----------------------------------------------------------------------------- source slicing
def find_fn_source(src, name, impl=None, nth=0):
    """Return the text `fn name(...) ... { body }` (nth occurrence, optionally inside `impl X`)."""
    start_region = 0
    end_region = len(src)
    if impl:
        m = re.search(r'\bimpl(?:<[^>]*>)?\s+(?:[\w:<>\', ]+\s+for\s+)?' + re.escape(impl) + r'\b[^{]*\{', src)
        if not m:
            raise TrError('impl %s not found' % impl)
        start_region = m.end()
        depth = 1
        j = start_region
        while depth and j < len(src):
            depth += (src[j] == '{') - (src[j] == '}')
            j += 1
        end_region = j
    ms = list(re.finditer(r'\bfn\s+' + re.escape(name) + r'\s*(?:<[^>]*>)?\s*\(', src[start_region:end_region]))
    if len(ms) <= nth:
        raise TrError('fn %s not found' % name)
    s = start_region + ms[nth].start()
    j = src.index('{', s)
    depth = 1
    j += 1
    while depth:
        c = src[j]
        depth += (c == '{') - (c == '}')
        j += 1
    return src[s:j]


def find_const_source(src, name):
    m = re.search(r'\bconst\s+' + re.escape(name) + r'\s*:\s*([^=]+?)\s*=\s*(.*?);', src, re.S)
    if not m:
        raise TrError('const %s not found' % name)
    return m.group(1).strip(), m.group(2).strip()


# ----------------------------------------------------------------------------- translation
def coq_ty(t):
    if isinstance(t, str) and t in INT_TYPES:
        return 'Z'
    if t == 'bool':
        return 'bool'
    if t in ('bytes', 'bytes_mut'):
        return 'list Z'
    if isinstance(t, tuple) and t[0] == 'tuple':
        if not t[1]:
            return 'unit'
        return '(' + ' * '.join(coq_ty(x) for x in t[1]) + ')'
    if isinstance(t, tuple) and t[0] in ('result', 'option'):
        return 'option ' + coq_ty(t[1])
    raise TrError('no Coq type for %r' % (t,))


def zlit(n):
    return str(n) if n >= 0 else '(%d)' % n


def in_ty(t, term):
    signed, bits = INT_TYPES[t]
    return '(%s %d %s)' % ('in_s' if signed else 'in_u', bits, term)


def wrap_ty(t, term):
    signed, bits = INT_TYPES[t]
    return '(%s %d %s)' % ('wrap_s' if signed else 'wrap_u', bits, term)


def sand(a, b):
    if a is None:
        return b
    if b is None:
        return a
    return '(%s && %s)' % (a, b)


def ty_range(t):
    signed, bits = INT_TYPES[t]
    if signed:
        return (-(1 << (bits - 1)), (1 << (bits - 1)) - 1)
    return (0, (1 << bits) - 1)


class FnTr:
    """Translate one function.  `sigs` maps already translated function names to (param types, ret type)."""

    def __init__(self, sigs, consts, self_fields=None):
        self.sigs = sigs
        self.consts = consts      # name -> type
        self.self_fields = self_fields or {}
        self.ret_ty = None
        self.ret_ty_hint = None

    # ---- typing helpers
    def ty_of(self, e, env):
        k = e[0]
        if k == 'lit':
            return e[2]
        if k == 'bool':
            return 'bool'
        if k == 'var':
            if e[1] in env:
                return env[e[1]]
            if e[1] in self.consts:
                return self.consts[e[1]]
            raise TrError('unknown variable %s' % e[1])
        if k == 'path':
            if e[1][-1] in self.consts:
                return self.consts[e[1][-1]]
            if e[1][-1] in ('MAX', 'MIN') and e[1][0] in INT_TYPES:
                return e[1][0]
            raise TrError('unknown path %s' % '::'.join(e[1]))
        if k == 'paren':
            return self.ty_of(e[1], env)
        if k == 'cast':
            return e[2]
        if k == 'un':
            return 'bool' if (e[1] == '!' and self.ty_of(e[2], env) == 'bool') else self.ty_of(e[2], env)
        if k == 'bin':
            if e[1] in ('==', '!=', '<', '>', '<=', '>=', '&&', '||'):
                return 'bool'
            if e[1] in ('<<', '>>'):
                return self.ty_of(e[2], env)
            return self.ty_of(e[2], env) or self.ty_of(e[3], env)
        if k == 'if':
            t = self.ty_of_block(e[2], env)
            if t is None and e[3] is not None:
                t = self.ty_of_block(e[3], env)
            return t
        if k == 'block':
            return self.ty_of_block(e, env)
        if k == 'match':
            for _, arm in e[2]:
                t = self.ty_of(arm, env)
                if t:
                    return t
            return None
        if k == 'index':
            return 'u8'
        if k == 'field':
            if e[1] == ('var', 'self') and e[2] in self.self_fields:
                return self.self_fields[e[2]]
            raise TrError('field %s unsupported' % e[2])
        if k == 'tfield':
            t = self.ty_of(e[1], env)
            return t[1][e[2]]
        if k == 'tuple':
            return ('tuple', [self.ty_of(x, env) for x in e[1]])
        if k == 'call':
            name = self.call_name(e)
            if name in self.sigs:
                return self.sigs[name][1]
            if name in ('Ok', 'Some'):
                return ('option', self.ty_of(e[2][0], env))
            if name.endswith('from_be_bytes') or name.endswith('from_le_bytes'):
                return name.split('::')[0]
            raise NeedFn(name)
        if k == 'mcall':
            m = e[2]
            if m in ('len',):
                return 'usize'
            if m in ('is_empty',):
                return 'bool'
            if m in ('min', 'max', 'saturating_sub', 'saturating_add', 'wrapping_add', 'wrapping_sub', 'wrapping_mul',
                     'pow', 'abs', 'rem_euclid', 'div_euclid'):
                return self.ty_of(e[1], env)
            if m in ('to_be_bytes', 'to_le_bytes'):
                return 'bytes'
            raise TrError('method %s unsupported' % m)
        if k == 'try':
            t = self.ty_of(e[1], env)
            return t[1]
        if k == 'ref':
            return self.ty_of(e[1], env)
        if k == 'slice':
            return 'bytes'
        if k == 'macro':
            return None
        raise TrError('ty_of: %r' % (e,))

    def ty_of_block(self, b, env):
        env2 = dict(env)
        for s in b[1]:
            if s[0] == 'let':
                self.bind_pat(s[1], s[2] or self.ty_of(s[3], env2), env2)
        if b[2] is None:
            return None
        return self.ty_of(b[2], env2)

    def bind_pat(self, pat, ty, env):
        if pat[0] == 'pvar':
            env[pat[1]] = ty
        else:
            if not (isinstance(ty, tuple) and ty[0] == 'tuple') or len(ty[1]) != len(pat[1]):
                raise TrError('tuple pattern vs type %r' % (ty,))
            for p, t in zip(pat[1], ty[1]):
                self.bind_pat(p, t, env)

    def call_name(self, e):
        f = e[1]
        if f[0] == 'var':
            return f[1]
        if f[0] == 'path':
            if f[1][0] in ('Self', 'self', 'crate', 'super'):
                return f[1][-1]
            return '::'.join(f[1])
        raise TrError('call target %r' % (f,))

    # ---- expressions: returns (value term, safety term or None, type)
    def ex(self, e, env, want=None):
        k = e[0]
        if k == 'lit':
            t = e[2] or want or 'i32'
            lo, hi = ty_range(t)
            if not lo <= e[1] <= hi:
                raise TrError('literal %d out of range for %s' % (e[1], t))
            return zlit(e[1]), None, t
        if k == 'bool':
            return ('true' if e[1] else 'false'), None, 'bool'
        if k == 'var':
            if e[1] in env:
                return vname(e[1]), None, env[e[1]]
            if e[1] in self.consts:
                return e[1], None, self.consts[e[1]]
            raise TrError('unknown variable %s' % e[1])
        if k == 'path':
            last = e[1][-1]
            if last in self.consts:
                return last, None, self.consts[last]
            if last in ('MAX', 'MIN') and e[1][0] in INT_TYPES:
                lo, hi = ty_range(e[1][0])
                return zlit(hi if last == 'MAX' else lo), None, e[1][0]
            raise TrError('unknown path %s' % '::'.join(e[1]))
        if k == 'paren':
            return self.ex(e[1], env, want)
        if k == 'ref':
            return self.ex(e[1], env, want)
        if k == 'field':
            if e[1] == ('var', 'self') and e[2] in self.self_fields:
                return 'self_' + e[2], None, self.self_fields[e[2]]
            raise TrError('field access %s unsupported' % e[2])
        if k == 'tfield':
            v, s, t = self.ex(e[1], env)
            n = len(t[1])
            term = v
            # tuples are left-nested pairs
            for _ in range(n - 1 - e[2]):
                term = '(fst %s)' % term
            if e[2] > 0:
                term = '(snd %s)' % term
            return term, s, t[1][e[2]]
        if k == 'cast':
            v, s, t = self.ex(e[1], env, None if e[1][0] != 'lit' else e[2])
            tt = e[2]
            if t == 'bool':
                return '(if %s then 1 else 0)' % v, s, tt
            if tt not in INT_TYPES or t not in INT_TYPES:
                raise TrError('cast %r -> %r' % (t, tt))
            slo, shi = ty_range(t)
            tlo, thi = ty_range(tt)
            if tlo <= slo and shi <= thi:
                return v, s, tt
            return wrap_ty(tt, v), s, tt
        if k == 'un':
            if e[1] == '-':
                if e[2][0] == 'lit':
                    t = e[2][2] or want or 'i32'
                    return zlit(-e[2][1]), None, t
                v, s, t = self.ex(e[2], env, want)
                term = '(- %s)' % v
                return term, sand(s, in_ty(t, term)), t
            if e[1] == '!':
                v, s, t = self.ex(e[2], env, want)
                if t == 'bool':
                    return '(negb %s)' % v, s, t
                signed, bits = INT_TYPES[t]
                if signed:
                    return '(- %s - 1)' % v, s, t
                return '(%d - %s)' % ((1 << bits) - 1, v), s, t
        if k == 'bin':
            return self.binop(e, env, want)
        if k == 'tuple':
            vs, ss, ts = [], None, []
            wants = want[1] if (isinstance(want, tuple) and want[0] == 'tuple') else [None] * len(e[1])
            for x, w in zip(e[1], wants):
                v, s, t = self.ex(x, env, w)
                vs.append(v)
                ss = sand(ss, s)
                ts.append(t)
            if not vs:
                return 'tt', None, ('tuple', [])
            return '(' + ', '.join(vs) + ')', ss, ('tuple', ts)
        if k == 'if':
            cv, cs, ct = self.ex(e[1], env, 'bool')
            if e[3] is None:
                raise TrError('if expression without else used as a value')
            tv, ts_, tt = self.block_val(e[2], env, want)
            ev, es, et = self.block_val(e[3], env, want or tt)
            if tt is None:
                tt = et
            s = cs
            if ts_ is not None or es is not None:
                s = sand(s, '(if %s then %s else %s)' % (cv, ts_ or 'true', es or 'true'))
            return '(if %s then %s else %s)' % (cv, tv, ev), s, tt
        if k == 'block':
            return self.block_val(e, env, want)
        if k == 'match':
            return self.match(e, env, want)
        if k == 'index':
            bv, bs, bt = self.ex(e[1], env)
            iv, is_, it = self.ex(e[2], env, 'usize')
            if bt not in ('bytes', 'bytes_mut'):
                raise TrError('index into %r' % (bt,))
            return '(bidx %s %s)' % (bv, iv), sand(sand(bs, is_), '(bidx_ok %s %s)' % (bv, iv)), 'u8'
        if k == 'slice':
            bv, bs, bt = self.ex(e[1], env)
            lo = ('0', None, 'usize') if e[2] is None else self.ex(e[2], env, 'usize')
            hi = ('(blen %s)' % bv, None, 'usize') if e[3] is None else self.ex(e[3], env, 'usize')
            hiv = hi[0] if not e[4] else '(%s + 1)' % hi[0]
            return '(bslice %s %s %s)' % (bv, lo[0], hiv), sand(sand(bs, sand(lo[1], hi[1])), '(bslice_ok %s %s %s)' % (bv, lo[0], hiv)), 'bytes'
        if k == 'call':
            return self.call(e, env, want)
        if k == 'mcall':
            return self.mcall(e, env, want)
        if k == 'try':
            raise TrError('`?` only supported in let position')
        if k == 'macro' and e[1] == 'bail':
            return 'None', None, want
        raise TrError('expression %r unsupported' % (e[0],))

    def binop(self, e, env, want):
        op, l, r = e[1], e[2], e[3]
        if op in ('&&', '||'):
            lv, ls, _ = self.ex(l, env, 'bool')
            rv, rs, _ = self.ex(r, env, 'bool')
            s = ls
            if rs is not None:
                s = sand(s, '(if %s then %s else %s)' % (lv, rs if op == '&&' else 'true', 'true' if op == '&&' else rs))
            return '(%s %s %s)' % (lv, op, rv), s, 'bool'
        if op in ('==', '!=', '<', '>', '<=', '>='):
            t = self.ty_of(l, env) or self.ty_of(r, env) or 'i32'
            lv, ls, lt = self.ex(l, env, t)
            rv, rs, rt = self.ex(r, env, t)
            if lt != rt:
                raise TrError('comparison of %r and %r' % (lt, rt))
            if lt == 'bool':
                term = '(Bool.eqb %s %s)' % (lv, rv)
                if op == '!=':
                    term = '(negb %s)' % term
                elif op != '==':
                    raise TrError('ordering on bool')
            else:
                cop = {'==': '=?', '<': '<?', '>': '>?', '<=': '<=?', '>=': '>=?'}.get(op)
                if op == '!=':
                    term = '(negb (%s =? %s))' % (lv, rv)
                else:
                    term = '(%s %s %s)' % (lv, cop, rv)
            return term, sand(ls, rs), 'bool'
        if op in ('<<', '>>'):
            t = self.ty_of(l, env) or want or 'i32'
            lv, ls, lt = self.ex(l, env, t)
            rv, rs, rt = self.ex(r, env, self.ty_of(r, env) or 'u32')
            signed, bits = INT_TYPES[lt]
            s = sand(ls, rs)
            if r[0] == 'lit':
                if not 0 <= r[1] < bits:
                    raise TrError('constant shift out of range')
                p = zlit(1 << r[1])
            else:
                p = '(2 ^ %s)' % rv
                s = sand(s, '((0 <=? %s) && (%s <? %d))' % (rv, rv, bits))
            if op == '>>':
                return '(%s / %s)' % (lv, p), s, lt
            return wrap_ty(lt, '(%s * %s)' % (lv, p)), s, lt
        # arithmetic / bitwise
        t = self.ty_of(l, env) or self.ty_of(r, env) or want or 'i32'
        lv, ls, lt = self.ex(l, env, t)
        rv, rs, rt = self.ex(r, env, t)
        if lt != rt:
            raise TrError('operands of %s have types %r and %r' % (op, lt, rt))
        s = sand(ls, rs)
        if lt == 'bool':
            if op == '&':
                return '(andb %s %s)' % (lv, rv), s, 'bool'
            if op == '|':
                return '(orb %s %s)' % (lv, rv), s, 'bool'
            if op == '^':
                return '(xorb %s %s)' % (lv, rv), s, 'bool'
            raise TrError('bool op %s' % op)
        if op in ('+', '-', '*'):
            term = '(%s %s %s)' % (lv, op, rv)
            return term, sand(s, in_ty(lt, term)), lt
        if op in ('/', '%'):
            term = '(%s %s %s)' % ('rdiv' if op == '/' else 'rrem', lv, rv)
            s = sand(s, '(negb (%s =? 0))' % rv)
            if INT_TYPES[lt][0]:
                s = sand(s, in_ty(lt, '(rdiv %s %s)' % (lv, rv)))
            return term, s, lt
        if op == '&':
            for a, b in ((l, rv), (r, lv)):
                a2 = a[1] if a[0] == 'paren' else a
                if a2[0] == 'lit' and a2[1] > 0 and (a2[1] & (a2[1] + 1)) == 0:
                    other = lv if a is r else rv
                    return '(%s mod %d)' % (other, a2[1] + 1), s, lt
            return '(Z.land %s %s)' % (lv, rv), s, lt
        if op == '|':
            return '(Z.lor %s %s)' % (lv, rv), s, lt
        if op == '^':
            return '(Z.lxor %s %s)' % (lv, rv), s, lt
        raise TrError('operator %s' % op)

    def call(self, e, env, want):
        name = self.call_name(e)
        if name in ('Ok', 'Some'):
            w = want[1] if (isinstance(want, tuple) and want[0] in ('result', 'option')) else None
            v, s, t = self.ex(e[2][0], env, w)
            return '(Some %s)' % v, s, ('option', t)
        if name.endswith('::from_be_bytes') or name.endswith('::from_le_bytes'):
            t = name.split('::')[0]
            arg = e[2][0]
            # strip `.try_into().unwrap()` / `*` / `&`
            while arg[0] == 'mcall' and arg[2] in ('try_into', 'unwrap', 'expect'):
                arg = arg[1]
            v, s, at = self.ex(arg, env)
            # the width is checked by try_into().unwrap(): require exact length
            width = INT_TYPES[t][1] // 8
            s = sand(s, '(blen %s =? %d)' % (v, width))
            return '(%s %s)' % ('from_be' if 'from_be' in name else 'from_le', v), s, t
        if name in self.sigs:
            ptys, rty = self.sigs[name]
            if len(ptys) != len(e[2]):
                raise TrError('arity of %s' % name)
            vs, ss = [], None
            for a, pt in zip(e[2], ptys):
                v, s, t = self.ex(a, env, pt)
                if t != pt and not (t in ('bytes', 'bytes_mut') and pt in ('bytes', 'bytes_mut')):
                    raise TrError('argument type %r vs %r in call to %s' % (t, pt, name))
                vs.append(v)
                ss = sand(ss, s)
            return '(%s %s)' % (name, ' '.join(vs)), sand(ss, '(%s_safe %s)' % (name, ' '.join(vs))), rty
        raise NeedFn(name)

    def mcall(self, e, env, want):
        recv, m, args = e[1], e[2], e[3]
        if m == 'len':
            v, s, t = self.ex(recv, env)
            return '(blen %s)' % v, s, 'usize'
        if m == 'is_empty':
            v, s, t = self.ex(recv, env)
            return '(blen %s =? 0)' % v, s, 'bool'
        if m in ('to_be_bytes', 'to_le_bytes'):
            v, s, t = self.ex(recv, env)
            width = INT_TYPES[t][1] // 8
            if INT_TYPES[t][0]:
                v = '(wrap_u %d %s)' % (INT_TYPES[t][1], v)
            return '(%s %d %s)' % ('be_bytes' if m == 'to_be_bytes' else 'le_bytes', width, v), s, 'bytes'
        t = self.ty_of(recv, env) or want or 'i32'
        v, s, t = self.ex(recv, env, t)
        if m in ('min', 'max'):
            av, as_, at = self.ex(args[0], env, t)
            return '(Z.%s %s %s)' % (m, v, av), sand(s, as_), t
        lo, hi = ty_range(t)
        if m == 'saturating_sub':
            av, as_, at = self.ex(args[0], env, t)
            return '(Z.max %s (Z.min %s (%s - %s)))' % (zlit(lo), zlit(hi), v, av), sand(s, as_), t
        if m == 'saturating_add':
            av, as_, at = self.ex(args[0], env, t)
            return '(Z.max %s (Z.min %s (%s + %s)))' % (zlit(lo), zlit(hi), v, av), sand(s, as_), t
        if m in ('wrapping_add', 'wrapping_sub', 'wrapping_mul'):
            av, as_, at = self.ex(args[0], env, t)
            op = {'wrapping_add': '+', 'wrapping_sub': '-', 'wrapping_mul': '*'}[m]
            return wrap_ty(t, '(%s %s %s)' % (v, op, av)), sand(s, as_), t
        if m == 'abs':
            term = '(Z.abs %s)' % v
            return term, sand(s, in_ty(t, term)), t
        if m == 'rem_euclid':
            av, as_, at = self.ex(args[0], env, t)
            return '(%s mod (Z.abs %s))' % (v, av), sand(sand(s, as_), '(negb (%s =? 0))' % av), t
        if m == 'div_euclid':
            av, as_, at = self.ex(args[0], env, t)
            term = '(Z.sgn %s * (%s / (Z.abs %s)))' % (av, v, av)
            return term, sand(sand(sand(s, as_), '(negb (%s =? 0))' % av), in_ty(t, term)), t
        raise TrError('method %s unsupported' % m)

    def match(self, e, env, want):
        sv, ss, st = self.ex(e[1], env)
        arms = e[2]
        if st == 'bool' or st not in INT_TYPES:
            raise TrError('match on %r unsupported' % (st,))
        # chain of ifs, in arm order
        val = None
        safe_needed = False
        tr_arms = []
        ty = want
        for pats, body in arms:
            bv, bs, bt = self.ex(body, env, ty)
            ty = ty or bt
            if bs is not None:
                safe_needed = True
            tr_arms.append((pats, bv, bs))
        if tr_arms[-1][0] != [('wild',)]:
            raise TrError('match without final `_` arm')

        def cond(pats):
            cs = []
            for p in pats:
                if p[0] == 'plit':
                    cs.append('(sv =? %s)' % zlit(p[1]))
                elif p[0] == 'prange':
                    cs.append('((%s <=? sv) && (sv <=? %s))' % (zlit(p[1]), zlit(p[2])))
                else:
                    raise TrError('pattern %r' % (p,))
            return ' || '.join(cs) if len(cs) == 1 else '(' + ' || '.join(cs) + ')'
        vterm = tr_arms[-1][1]
        sterm = tr_arms[-1][2] or 'true'
        for pats, bv, bs in reversed(tr_arms[:-1]):
            c = cond(pats)
            vterm = '(if %s then %s else %s)' % (c, bv, vterm)
            sterm = '(if %s then %s else %s)' % (c, bs or 'true', sterm)
        vterm = '(let sv := %s in %s)' % (sv, vterm)
        s = ss
        if safe_needed:
            s = sand(s, '(let sv := %s in %s)' % (sv, sterm))
        return vterm, s, ty

    # ---- blocks used as values (no early exit, no mutation of outer variables)
    def block_val(self, b, env, want):
        if b[0] != 'block':
            return self.ex(b, env, want)
        if not b[1]:
            if b[2] is None:
                raise TrError('empty block used as a value')
            return self.ex(b[2], env, want)
        res = {}
        v = self.stmts(b[1], dict(env), 'val', lambda env2: self._final(b[2], env2, want, res, 'val'))
        s = self.stmts(b[1], dict(env), 'safe', lambda env2: self._final(b[2], env2, want, res, 'safe'), inner=True)
        return '(%s)' % v, '(let ok := true in %s)' % s, res.get('ty')

    def _final(self, e, env, want, res, mode):
        if e is None:
            raise TrError('block without a value')
        v, s, t = self.ex(e, env, want)
        res['ty'] = t
        if mode == 'val':
            return v
        return sand('ok', s)

    # ---- statements.  mode 'val': produce the value; mode 'safe': thread the variable `ok`.
    def mutated(self, stmts, env, acc=None):
        """variables of env assigned anywhere in stmts (in order of first assignment)"""
        acc = acc if acc is not None else []
        declared = set()
        for s in stmts:
            if s[0] == 'let':
                self._pat_names(s[1], declared)
                self._mut_expr(s[3], env, acc, declared)
            elif s[0] == 'assign':
                name = self._lhs_name(s[1])
                if name not in declared and name in env and name not in acc:
                    acc.append(name)
            elif s[0] == 'for':
                inner = []
                self.mutated(s[5][1], env, inner)
                for n in inner:
                    if n not in declared and n not in acc:
                        acc.append(n)
            elif s[0] == 'expr':
                self._mut_expr(s[1], env, acc, declared)
        return acc

    def _mut_expr(self, e, env, acc, declared):
        if e[0] == 'if':
            for blk in (e[2], e[3]):
                if blk is not None and blk[0] == 'block':
                    inner = []
                    self.mutated(blk[1], env, inner)
                    if blk[2] is not None:
                        self._mut_expr(blk[2], env, inner, declared)
                    for n in inner:
                        if n not in declared and n not in acc:
                            acc.append(n)
        elif e[0] == 'block':
            inner = []
            self.mutated(e[1], env, inner)
            for n in inner:
                if n not in declared and n not in acc:
                    acc.append(n)
        elif e[0] == 'mcall' and e[2] == 'copy_from_slice':
            name = self._lhs_name(e[1])
            if name not in declared and name in env and name not in acc:
                acc.append(name)

    def _pat_names(self, pat, out):
        if pat[0] == 'pvar':
            out.add(pat[1])
        else:
            for p in pat[1]:
                self._pat_names(p, out)

    def _lhs_name(self, lhs):
        while lhs[0] in ('index', 'slice', 'paren'):
            lhs = lhs[1]
        if lhs[0] != 'var':
            raise TrError('assignment target %r' % (lhs,))
        return lhs[1]

    def pat_term(self, pat):
        if pat[0] == 'pvar':
            return vname(pat[1])
        return "'(" + ', '.join(self.pat_term(p).lstrip("'") for p in pat[1]) + ')'

    def tuple_of(self, names):
        if len(names) == 1:
            return names[0]
        return '(' + ', '.join(names) + ')'

    def tuple_pat(self, names):
        if len(names) == 1:
            return names[0]
        return "'(" + ', '.join(names) + ')'

    def stmts(self, ss, env, mode, final, inner=False):
        """Translate statements `ss` followed by continuation `final(env)`."""
        if not ss:
            return final(env)
        s, rest = ss[0], ss[1:]
        k = s[0]
        safe = (mode == 'safe')

        def cont(env2):
            return self.stmts(rest, env2, mode, final, inner)

        if k == 'let':
            if s[3][0] == 'try':
                v, sf, t = self.ex(s[3][1], env)
                env2 = dict(env)
                self.bind_pat(s[1], s[2] or t[1], env2)
                if not safe:
                    return 'match %s with None => None | Some %s => %s end' % (v, self.pat_term(s[1]).lstrip("'"), cont(env2))
                pre = 'let ok := %s in ' % sand('ok', sf) if sf else ''
                return '%smatch %s with None => ok | Some %s => %s end' % (pre, v, self.pat_term(s[1]).lstrip("'"), cont(env2))
            v, sf, t = self.ex(s[3], env, s[2])
            if s[2] is not None and t != s[2]:
                if s[3][0] == 'lit' or t is None:
                    t = s[2]
                else:
                    raise TrError('let type %r vs %r' % (s[2], t))
            env2 = dict(env)
            self.bind_pat(s[1], t, env2)
            pre = ''
            if safe and sf:
                pre = 'let ok := %s in ' % sand('ok', sf)
            return '%slet %s := %s in\n  %s' % (pre, self.pat_term(s[1]), v, cont(env2))
        if k == 'letif':
            return self.letif(s[1], s[2], env, mode, cont)
        if k == 'assign':
            lhs, op, rhs = s[1], s[2], s[3]
            name = self._lhs_name(lhs)
            if name not in env:
                raise TrError('assignment to unknown %s' % name)
            if lhs[0] == 'var':
                t = env[name]
                if op == '=':
                    v, sf, _ = self.ex(rhs, env, t)
                else:
                    v, sf, _ = self.ex(('bin', op[:-1], lhs, rhs), env, t)
                pre = 'let ok := %s in ' % sand('ok', sf) if (safe and sf) else ''
                return '%slet %s := %s in\n  %s' % (pre, vname(name), v, cont(env))
            if lhs[0] == 'index' and op == '=':
                iv, is_, _ = self.ex(lhs[2], env, 'usize')
                v, sf, vt = self.ex(rhs, env, 'u8')
                if vt != 'u8':
                    raise TrError('byte store of %r' % (vt,))
                sf = sand(sand(is_, sf), '(bidx_ok %s %s)' % (vname(name), iv))
                pre = 'let ok := %s in ' % sand('ok', sf) if safe else ''
                return '%slet %s := bupd %s %s %s in\n  %s' % (pre, vname(name), vname(name), iv, v, cont(env))
            raise TrError('assignment form unsupported')
        if k == 'return':
            v, sf, t = self.ex(s[1], env, self.ret_ty)
            if not safe:
                return v
            return sand('ok', sf) or 'ok'
        if k == 'for':
            var, lo, hi, incl, body = s[1], s[2], s[3], s[4], s[5]
            t = self.ty_of(lo, env) or self.ty_of(hi, env) or 'i32'
            lov, los, _ = self.ex(lo, env, t)
            hiv, his, _ = self.ex(hi, env, t)
            if incl:
                hiv = '(%s + 1)' % hiv
            env_b = dict(env)
            env_b[var] = t
            muts = self.mutated(body[1], env_b)
            if body[2] is not None:
                raise TrError('for body with a value')
            names = [vname(m) for m in muts] + (['ok'] if safe else [])
            if not names:
                raise TrError('for loop without effect')
            tup, pat = self.tuple_of(names), self.tuple_pat(names)
            inner_term = self.stmts(body[1], env_b, mode, lambda e2: tup, inner=True)
            pre = ''
            if safe and sand(los, his):
                pre = 'let ok := %s in ' % sand('ok', sand(los, his))
            return '%slet %s := zfold %s %s (fun %s %s =>\n    %s) %s in\n  %s' % (
                pre, pat, lov, hiv, vname(var), pat, inner_term, tup, cont(env))
        if k == 'expr':
            e = s[1]
            if e[0] == 'macro':
                return self.macro_stmt(e, env, mode, cont)
            if e[0] == 'mcall' and e[2] == 'copy_from_slice':
                tgt = e[1]
                name = self._lhs_name(tgt)
                src = e[3][0]
                v, sf, _ = self.ex(src, env)
                if tgt[0] != 'slice':
                    raise TrError('copy_from_slice target')
                lo = ('0', None, 'usize') if tgt[2] is None else self.ex(tgt[2], env, 'usize')
                hi = ('(blen %s)' % vname(name), None, 'usize') if tgt[3] is None else self.ex(tgt[3], env, 'usize')
                hiv = hi[0] if not tgt[4] else '(%s + 1)' % hi[0]
                sf = sand(sand(sf, sand(lo[1], hi[1])),
                          '(bslice_ok %s %s %s && (blen %s =? %s - %s))' % (vname(name), lo[0], hiv, v, hiv, lo[0]))
                pre = 'let ok := %s in ' % sand('ok', sf) if safe else ''
                return '%slet %s := bupd_slice %s %s %s in\n  %s' % (pre, vname(name), vname(name), lo[0], v, cont(env))
            if e[0] == 'if':
                return self.if_stmt(e, env, mode, cont)
            raise TrError('expression statement %r unsupported' % (e[0],))
        raise TrError('statement %r unsupported' % (k,))

    def ends_in_exit(self, blk):
        if blk is None or blk[0] != 'block':
            return False
        last = blk[1][-1] if blk[1] else None
        if blk[2] is not None:
            return False
        if last is None:
            return False
        if last[0] == 'return':
            return True
        if last[0] == 'expr' and last[1][0] == 'macro' and last[1][1] == 'bail':
            return True
        return False

    def if_stmt(self, e, env, mode, cont):
        safe = (mode == 'safe')
        cv, cs, _ = self.ex(e[1], env, 'bool')
        pre = 'let ok := %s in ' % sand('ok', cs) if (safe and cs) else ''
        th, el = e[2], e[3]
        if self.ends_in_exit(th) and el is None:
            tterm = self.stmts(th[1], dict(env), mode, lambda e2: None)
            return '%sif %s then %s else\n  %s' % (pre, cv, tterm, cont(env))
        # mutation form
        muts = self.mutated(th[1], env)
        if el is not None:
            if el[0] != 'block':
                raise TrError('else form')
            elb = el
            if not elb[1] and elb[2] is not None and elb[2][0] == 'if':
                # else-if chain: treat as nested statement
                elb = ('block', [('expr', elb[2])], None)
            for n in self.mutated(elb[1], env):
                if n not in muts:
                    muts.append(n)
        else:
            elb = ('block', [], None)
        names = [vname(m) for m in muts] + (['ok'] if safe else [])
        if not names:
            raise TrError('if statement without effect')
        tup, pat = self.tuple_of(names), self.tuple_pat(names)
        tterm = self.stmts(th[1], dict(env), mode, lambda e2: tup, inner=True)
        eterm = self.stmts(elb[1], dict(env), mode, lambda e2: tup, inner=True)
        return '%slet %s := (if %s then %s else %s) in\n  %s' % (pre, pat, cv, tterm, eterm, cont(env))

    def letif(self, rname, e, env, mode, cont, want=None):
        """`let rname = if c {..} else {..}` where the branches also assign outer variables."""
        safe = (mode == 'safe')
        muts = []
        self._mut_expr(e, env, muts, set())
        want = want or self.ret_ty_hint
        names = [vname(m) for m in muts] + [rname] + (['ok'] if safe else [])
        tup, pat = self.tuple_of(names), self.tuple_pat(names)
        res = {}

        def branch(blk):
            if blk is None:
                raise TrError('valued if without else')
            stmts, final = blk[1], blk[2]
            if final is not None and final[0] == 'if' and not stmts:
                inner_muts = []
                self._mut_expr(final, env, inner_muts, set())
                if inner_muts:
                    stmts, final = [('letif', rname, final)], ('var', rname)

            def fin(env2):
                if final == ('var', rname) and rname not in env2:
                    env2 = dict(env2)
                    env2[rname] = res.get('ty')
                v, sf, t = self.ex(final, env2, want)
                if t is not None:
                    res['ty'] = t
                vals = [vname(m) for m in muts] + [v] + ([sand('ok', sf) or 'ok'] if safe else [])
                return self.tuple_of(vals)
            return self.stmts(stmts, dict(env), mode, fin, inner=True)
        cv, cs, _ = self.ex(e[1], env, 'bool')
        pre = 'let ok := %s in ' % sand('ok', cs) if (safe and cs) else ''
        tterm = branch(e[2])
        eterm = branch(e[3])
        env2 = dict(env)
        env2[rname] = res.get('ty')
        return '%slet %s := (if %s then %s else %s) in\n  %s' % (pre, pat, cv, tterm, eterm, cont(env2))

    def macro_stmt(self, e, env, mode, cont):
        safe = (mode == 'safe')
        name = e[1]
        if name == 'ensure':
            cv, cs, _ = self.ex(e[2][0], env, 'bool')
            pre = 'let ok := %s in ' % sand('ok', cs) if (safe and cs) else ''
            return '%sif %s then\n  %s else %s' % (pre, cv, cont(env), 'ok' if safe else 'None')
        if name == 'bail':
            return 'ok' if safe else 'None'
        if name in ('debug_assert', 'debug_assert_eq', 'assert', 'assert_eq'):
            if name.endswith('_eq'):
                cond = ('bin', '==', e[2][0], e[2][1])
            else:
                cond = e[2][0]
            cv, cs, _ = self.ex(cond, env, 'bool')
            if safe:
                return 'let ok := %s in\n  %s' % (sand('ok', sand(cs, cv)), cont(env))
            return cont(env)
        raise TrError('macro %s! unsupported' % name)

    # ---- whole function
    def function(self, text, coq_name=None, until=None, returns=None):
        toks = lex(text)
        p = Parser(toks)
        p.expect('fn')
        name = p.next()[1]
        p.expect('(')
        params = []
        mut_bytes = []
        while not p.accept(')'):
            if p.accept('&'):
                p.accept('mut')
                p.expect('self')
                p.accept(',')
                continue
            if p.accept('self'):
                p.accept(',')
                continue
            p.accept('mut')
            pn = p.next()[1]
            p.expect(':')
            pt = p.parse_type()
            params.append((pn, pt))
            if pt == 'bytes_mut':
                mut_bytes.append(pn)
            p.accept(',')
        rty = ('tuple', [])
        if p.accept('->'):
            rty = p.parse_type()
        body = p.parse_block()
        stmts, final = body[1], body[2]
        if until is not None:
            # keep the statements before the first one that mentions `until`
            cut = None
            for i, s in enumerate(stmts):
                if until in json.dumps(s):
                    cut = i
                    break
            if cut is None and final is not None and until in json.dumps(final):
                cut = len(stmts)
            if cut is None:
                raise TrError('marker %s not found in %s' % (until, name))
            stmts = stmts[:cut]
            final = ('tuple', [('var', r) for r in returns])
            rty = None
        env = {}
        for pn, pt in params:
            env[pn] = pt
        self.ret_ty = rty
        self.ret_ty_hint = rty
        if final is not None and final[0] == 'if':
            m_ = []
            self._mut_expr(final, env, m_, set())
            if m_:
                stmts = stmts + [('letif', 'r_', final)]
                final = ('var', 'r_')
        res = {}

        def fin(mode):
            def f(env2):
                if final is None:
                    v, s, t = 'tt', None, ('tuple', [])
                else:
                    v, s, t = self.ex(final, env2, rty)
                if mut_bytes:
                    v = '(' + ', '.join([vname(m) for m in mut_bytes] + [v]) + ')'
                    t = ('tuple', [('bytes')] * len(mut_bytes) + [t])
                res['ty'] = t
                return v if mode == 'val' else (sand('ok', s) or 'ok')
            return f
        vterm = self.stmts(stmts, dict(env), 'val', fin('val'))
        sterm = self.stmts(stmts, dict(env), 'safe', fin('safe'))
        cname = coq_name or name
        binders = ' '.join(['(self_%s : Z)' % f for f in self.self_fields] +
                           ['(%s : %s)' % (vname(pn), coq_ty(pt)) for pn, pt in params])
        out_ty = res['ty']
        full_rty = out_ty
        out = 'Definition %s %s : %s :=\n  %s.\n\n' % (cname, binders, coq_ty(out_ty), vterm)
        out += 'Definition %s_safe %s : bool :=\n  let ok := true in\n  %s.\n' % (cname, binders, sterm)
        ptys = [self.self_fields[f] for f in self.self_fields] + [pt for _, pt in params]
        return cname, out, (ptys, rty if rty is not None and not mut_bytes else full_rty)


RESERVED = {'in', 'at', 'as', 'fix', 'fun', 'end', 'let', 'match', 'with', 'if', 'then', 'else', 'return', 'Set',
            'Prop', 'Type', 'forall', 'exists', 'mod', 'using', 'where', 'cofix', 'struct', 'for', 'ok', 'sv'}


def vname(n):
    if n in RESERVED:
        return n + '_'
    return n


def translate_module(repo, spec):
    src = open(os.path.join(repo, spec['file'])).read()
    out = ['(* GENERATED by tools/rs2v.py from %s -- do not edit; regenerated on every run *)' % spec['file'],
           'From Coq Require Import ZArith List Bool.', 'From TV Require Import Lib.MachInt.',
           'Import ListNotations.', 'Open Scope Z_scope.', 'Open Scope bool_scope.', '']
    for imp in spec.get('imports', []):
        out.insert(3, 'From TV Require Import Gen.%s.' % imp)
    sigs = dict(spec.get('_sigs', {}))
    consts = dict(spec.get('_consts', {}))
    for item in spec['items']:
        if 'const' in item:
            ty, expr = find_const_source(src, item['const'])
            tr = FnTr(sigs, consts)
            e = Parser(lex(expr)).parse_expr()
            if ty not in INT_TYPES:
                raise TrError('const %s has type %s' % (item['const'], ty))
            v, s, t = tr.ex(e, {}, ty)
            lo, hi = ty_range(ty)
            out.append('Definition %s : Z := %s.\n' % (item.get('name', item['const']), v))
            consts[item.get('name', item['const'])] = ty
        else:
            text = find_fn_source(src, item['fn'], item.get('impl'), item.get('nth', 0))
            # helper functions of the same file that the target calls are translated on demand
            # (so that extracting a helper in a refactor keeps the tie instead of breaking it)
            for _attempt in range(12):
                try:
                    tr = FnTr(sigs, consts, item.get('self_fields'))
                    cname, code, sig = tr.function(text, item.get('name'), item.get('until'), item.get('returns'))
                    break
                except NeedFn as need:
                    hname = need.name.split('::')[-1]
                    htext = find_fn_source(src, hname)
                    htr = FnTr(sigs, consts)
                    hc, hcode, hsig = htr.function(htext)
                    out.append(hcode)
                    sigs[hc] = hsig
            else:
                raise TrError('too many helper functions needed by %s' % item['fn'])
            out.append(code)
            sigs[cname] = sig
            if item.get('name') and item['name'] != item['fn']:
                pass
            # calls inside the Rust source use the Rust name
            sigs.setdefault(item['fn'], sig) if not item.get('name') else None
            if item.get('name'):
                # within this module later items calling the Rust name resolve to this definition
                spec.setdefault('_alias', {})[item['fn']] = cname
    return '\n'.join(out) + '\n', sigs, consts


def load_targets(here):
    """one JSON file per generated module in tools/rs2v.d/ (processed in name order, imports first)"""
    import glob
    mods = [json.load(open(p)) for p in sorted(glob.glob(os.path.join(here, 'rs2v.d', '*.json')))]
    done, out = set(), []
    while mods:
        progress = False
        for m in list(mods):
            if all(i in done for i in m.get('imports', [])):
                out.append(m)
                done.add(m['module'])
                mods.remove(m)
                progress = True
        if not progress:
            raise SystemExit('rs2v.d: import cycle / missing import among ' + ', '.join(m['module'] for m in mods))
    return {'modules': out}


def main():
    repo = sys.argv[1] if len(sys.argv) > 1 else '/repo'
    here = os.path.dirname(os.path.abspath(__file__))
    targets = load_targets(here)
    gen_dir = os.path.join(here, '..', 'coq', 'Gen')
    os.makedirs(gen_dir, exist_ok=True)
    only = set(sys.argv[2:])
    status = 0
    all_sigs, all_consts = {}, {}
    for spec in targets['modules']:
        if only and spec['module'] not in only:
            continue
        path = os.path.join(gen_dir, spec['module'] + '.v')
        try:
            spec['_sigs'] = {k: v for imp in spec.get('imports', []) for k, v in all_sigs.get(imp, {}).items()}
            spec['_consts'] = {k: v for imp in spec.get('imports', []) for k, v in all_consts.get(imp, {}).items()}
            text, sigs, consts = translate_module(repo, spec)
            all_sigs[spec['module']] = sigs
            all_consts[spec['module']] = consts
        except (TrError, OSError, KeyError, IndexError) as ex:
            # A source we cannot read is a broken tie, never a pass: emit a file that does not compile.
            text = '(* rs2v FAILED on %s: %s *)\nDefinition rs2v_failed : False := I.\n' % (spec['file'], str(ex).replace('*)', '* )'))
            sys.stderr.write('rs2v: %s: %s\n' % (spec['module'], ex))
            status = 2
        old = open(path).read() if os.path.exists(path) else None
        if old != text:
            with open(path, 'w') as f:
                f.write(text)
    return status


if __name__ == '__main__':
    sys.exit(main())
