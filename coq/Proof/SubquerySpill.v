(* C33 proofs, part 2: the subquery spill format (Model/RowSerde.v, section B) and
   SpillableBuffer.  This format keeps every bit: the round trip is exact for all 23
   OwnedValue variants, floats and NaN payloads included. *)
From Coq Require Import ZArith List Bool Lia ZifyBool.
From TV Require Import Lib.MachInt Lib.MachIntFacts Gen.RowSerde Model.RowSerde Proof.RowSerde.
Import ListNotations.
Open Scope Z_scope.

Ltac Zify.zify_post_hook ::= Z.to_euclidean_division_equations.

Arguments Z.div : simpl never.
Arguments Z.modulo : simpl never.
Arguments Z.pow : simpl never.
Arguments Z.mul : simpl never.
Arguments Z.add : simpl never.
Arguments Z.sub : simpl never.
Arguments Z.of_nat : simpl never.
Arguments Z.to_nat : simpl never.

(* the reader, one tag at a time *)
Lemma ov_null s : odeser_value (0 :: s) = Some (OV VNull, s). Proof. reflexivity. Qed.
Lemma ov_bool b s : odeser_value (1 :: b :: s) = Some (OBool (negb (b =? 0)), s). Proof. reflexivity. Qed.
Lemma ov_int s : odeser_value (2 :: s) = oret VInt (rl_s 8 s). Proof. reflexivity. Qed.
Lemma ov_float s : odeser_value (3 :: s) = oret VFloat (rl_u 8 s). Proof. reflexivity. Qed.
Lemma ov_text s : odeser_value (4 :: s) =
  bind (rl_lp s) (fun b r => if utf8_valid b then Some (OV (VText b), r) else None). Proof. reflexivity. Qed.
Lemma ov_blob s : odeser_value (5 :: s) = oret VBlob (rl_lp s). Proof. reflexivity. Qed.
Lemma ov_vector s : odeser_value (6 :: s) =
  bind (rl_u 4 s) (fun n r => oret VVector (rl_f32s (Z.to_nat n) r)). Proof. reflexivity. Qed.
Lemma ov_date s : odeser_value (7 :: s) = oret' ODate (rl_s 4 s). Proof. reflexivity. Qed.
Lemma ov_time s : odeser_value (8 :: s) = oret' OTime (rl_s 8 s). Proof. reflexivity. Qed.
Lemma ov_timestamp s : odeser_value (9 :: s) = oret' OTimestamp (rl_s 8 s). Proof. reflexivity. Qed.
Lemma ov_tz s : odeser_value (10 :: s) =
  bind (rl_s 8 s) (fun m r => oret (fun o => VTimestampTz m o) (rl_s 4 r)). Proof. reflexivity. Qed.
Lemma ov_uuid s : odeser_value (11 :: s) = oret VUuid (take 16 s). Proof. reflexivity. Qed.
Lemma ov_macaddr s : odeser_value (12 :: s) = oret VMacAddr (take 6 s). Proof. reflexivity. Qed.
Lemma ov_inet4 s : odeser_value (13 :: s) = oret VInet4 (take 4 s). Proof. reflexivity. Qed.
Lemma ov_inet6 s : odeser_value (14 :: s) = oret VInet6 (take 16 s). Proof. reflexivity. Qed.
Lemma ov_interval s : odeser_value (15 :: s) =
  bind (rl_s 8 s) (fun m r => bind (rl_s 4 r) (fun dd r => oret (fun mo => VInterval m dd mo) (rl_s 4 r))).
Proof. reflexivity. Qed.
Lemma ov_point s : odeser_value (16 :: s) =
  bind (rl_u 8 s) (fun x r => oret (fun y => VPoint x y) (rl_u 8 r)). Proof. reflexivity. Qed.
Lemma ov_box s : odeser_value (17 :: s) =
  bind (rl_u 8 s) (fun a r => bind (rl_u 8 r) (fun b r => bind (rl_u 8 r) (fun c r =>
    oret (fun d' => VGeoBox a b c d') (rl_u 8 r)))). Proof. reflexivity. Qed.
Lemma ov_circle s : odeser_value (18 :: s) =
  bind (rl_u 8 s) (fun a r => bind (rl_u 8 r) (fun b r => oret (fun c => VCircle a b c) (rl_u 8 r))).
Proof. reflexivity. Qed.
Lemma ov_jsonb s : odeser_value (19 :: s) = oret VJsonb (rl_lp s). Proof. reflexivity. Qed.
Lemma ov_decimal s : odeser_value (20 :: s) =
  bind (rl_s 16 s) (fun dg r => oret (fun sc => VDecimal dg sc) (rl_s 2 r)). Proof. reflexivity. Qed.
Lemma ov_enum s : odeser_value (21 :: s) =
  bind (rl_u 2 s) (fun t r => oret (fun o => VEnum t o) (rl_u 2 r)). Proof. reflexivity. Qed.
Lemma ov_toast s : odeser_value (22 :: s) = oret VToast (rl_lp s). Proof. reflexivity. Qed.

Lemma odeser_oser_value v rest :
  ovalue_wf v = true -> odeser_value (oser_value v ++ rest) = Some (v, rest).
Proof.
  intros W. destruct v as [v|b|d|t|t]; cbn [ovalue_wf] in W.
  - unfold value_wf in W. destruct v; cbn [value_typed value_fits] in W; cbn [oser_value]; split_all.
    + cbn [app]. apply ov_null.
    + cbn [app]. rewrite ov_int, rl_s8 by assumption. reflexivity.
    + cbn [app]. rewrite ov_float, rl_u8 by assumption. reflexivity.
    + cbn [app]. rewrite <- app_assoc, ov_text, rl_lp_ok by assumption. cbn [bind].
      match goal with H : utf8_valid _ = true |- _ => rewrite H end. reflexivity.
    + cbn [app]. rewrite <- app_assoc, ov_blob, rl_lp_ok by assumption. reflexivity.
    + cbn [app]. rewrite <- app_assoc, ov_vector.
      pose proof (blen_nonneg f32s) as H0.
      rewrite wrap_u_small by lia. rewrite rl_u4 by (apply len32; assumption). cbn [bind].
      unfold blen. rewrite Nat2Z.id, rl_f32s_ok by assumption. reflexivity.
    + cbn [app]. rewrite ov_uuid, (take_app_n _ _ _ (bytes_n_len _ _ W)). reflexivity.
    + cbn [app]. rewrite ov_macaddr, (take_app_n _ _ _ (bytes_n_len _ _ W)). reflexivity.
    + cbn [app]. rewrite ov_inet4, (take_app_n _ _ _ (bytes_n_len _ _ W)). reflexivity.
    + cbn [app]. rewrite ov_inet6, (take_app_n _ _ _ (bytes_n_len _ _ W)). reflexivity.
    + cbn [app]. rewrite <- app_assoc, ov_jsonb, rl_lp_ok by assumption. reflexivity.
    + cbn [app]. rewrite <- app_assoc, ov_tz, rl_s8 by assumption. cbn [bind]. rewrite rl_s4 by assumption. reflexivity.
    + cbn [app]. rewrite <- !app_assoc, ov_interval, rl_s8 by assumption. cbn [bind].
      rewrite rl_s4 by assumption. cbn [bind]. rewrite rl_s4 by assumption. reflexivity.
    + cbn [app]. rewrite <- app_assoc, ov_point, rl_u8 by assumption. cbn [bind]. rewrite rl_u8 by assumption. reflexivity.
    + cbn [app]. rewrite <- !app_assoc, ov_box, rl_u8 by assumption. cbn [bind].
      rewrite rl_u8 by assumption. cbn [bind]. rewrite rl_u8 by assumption. cbn [bind].
      rewrite rl_u8 by assumption. reflexivity.
    + cbn [app]. rewrite <- !app_assoc, ov_circle, rl_u8 by assumption. cbn [bind].
      rewrite rl_u8 by assumption. cbn [bind]. rewrite rl_u8 by assumption. reflexivity.
    + cbn [app]. rewrite <- app_assoc, ov_enum, rl_u2 by assumption. cbn [bind]. rewrite rl_u2 by assumption. reflexivity.
    + cbn [app]. rewrite <- app_assoc, ov_decimal, rl_s16 by assumption. cbn [bind]. rewrite rl_s2 by assumption. reflexivity.
    + cbn [app]. rewrite <- app_assoc, ov_toast, rl_lp_ok by assumption. reflexivity.
  - cbn [oser_value app]. rewrite ov_bool. destruct b; reflexivity.
  - cbn [oser_value app]. rewrite ov_date, rl_s4 by assumption. reflexivity.
  - cbn [oser_value app]. rewrite ov_time, rl_s8 by assumption. reflexivity.
  - cbn [oser_value app]. rewrite ov_timestamp, rl_s8 by assumption. reflexivity.
Qed.

Lemma odeser_oser_values row : forall rest,
  forallb ovalue_wf row = true ->
  odeser_values (length row) (flat_map oser_value row ++ rest) = Some (row, rest).
Proof.
  induction row as [|v row IH]; intros rest W; [reflexivity|].
  cbn [forallb] in W. apply andb_true_iff in W. destruct W as [Wv Wr].
  cbn [length flat_map odeser_values]. rewrite <- app_assoc, odeser_oser_value by exact Wv.
  rewrite IH by exact Wr. reflexivity.
Qed.

Lemma subquery_row_roundtrip_l : forall row rest,
  orow_wf row = true -> odeser_row (oser_row row ++ rest) = Some (row, rest).
Proof.
  intros row rest W. unfold orow_wf in W. apply andb_true_iff in W. destruct W as [Wv Wn].
  unfold oser_row, odeser_row. rewrite wrap_u_small by lia.
  rewrite <- app_assoc, rl_u4 by (apply in_u_true; lia).
  rewrite Nat2Z.id. apply odeser_oser_values. exact Wv.
Qed.

Lemma subquery_rows_roundtrip_l : forall rows rest,
  forallb orow_wf rows = true ->
  odeser_rows (length rows) (oser_rows rows ++ rest) = Some (rows, rest).
Proof.
  induction rows as [|row rows IH]; intros rest W; [reflexivity|].
  cbn [forallb] in W. apply andb_true_iff in W. destruct W as [Wr Wrs].
  unfold oser_rows in *. cbn [length flat_map odeser_rows].
  rewrite <- app_assoc, subquery_row_roundtrip_l by exact Wr. rewrite IH by exact Wrs. reflexivity.
Qed.

(* SpillableBuffer: whatever the memory limit, iterating gives back exactly what was pushed *)
Lemma subquery_buffer_l : forall limit rows,
  forallb orow_wf rows = true -> subbuf_read limit rows = Some rows.
Proof.
  intros limit rows W. unfold subbuf_read. destruct (subbuf_spilled limit rows); [|reflexivity].
  pose proof (subquery_rows_roundtrip_l rows [] W) as H. rewrite app_nil_r in H. rewrite H. reflexivity.
Qed.
