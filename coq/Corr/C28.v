(* C28 correspondence: one case = one history run on the real BTree (turdb::btree::BTree over an
   MmapStorage), with the result every operation returned.  Keys are indices into the key table at
   the head of the case; a value is (length, tag) - the harness writes the byte string
   value_bytes(length, tag) and recognises returned byte strings by content.
   Definitions only; evaluated with vm_compute. *)
From Coq Require Import ZArith List Bool.
From TV Require Import Lib.MachInt Gen.Varint Model.BTree Model.BTreeSpec.
Import ListNotations.
Open Scope Z_scope.

Definition val := (Z * Z)%type.
Definition val_len (v : val) : Z := fst v.
Definition val_eqb (a b : val) : bool := (fst a =? fst b) && (snd a =? snd b).

(* key table entry: pfx ++ repeat fill n ++ sfx *)
Inductive ckey := K (pfx : list Z) (fill n : Z) (sfx : list Z).
Definition expand (k : ckey) : key := match k with K p f n s => p ++ repeat f (Z.to_nat n) ++ s end.

Inductive cop :=
| CI (k len tag : Z) | CN (k len tag : Z) | CA (k len tag : Z) | CU (k len tag : Z)
| CD (k : Z) | CG (k : Z) | CF (lim : Z) | CB (lim : Z) | CS (k lim : Z) | CR (h : Z).
Inductive cout :=
| U | B (b : bool) | Q (b : bool) | GN | GS (len tag : Z) | L (es : list (Z * Z * Z)) | E | P.
Inductive case := Case (rootpg np : Z) (keys : list ckey) (steps : list (cop * cout)).

Definition bad_key : key := [-1].
Definition kget (tbl : list key) (i : Z) : key :=
  if i <? 0 then bad_key else nth (Z.to_nat i) tbl bad_key.

Definition to_op (tbl : list key) (c : cop) : op val :=
  match c with
  | CI k l t => OInsert (kget tbl k) (l, t)
  | CN k l t => OIine (kget tbl k) (l, t)
  | CA k l t => OAppend (kget tbl k) (l, t)
  | CU k l t => OUpdate (kget tbl k) (l, t)
  | CD k => ODelete (kget tbl k)
  | CG k => OGet (kget tbl k)
  | CF lim => OFwd (Z.to_nat lim)
  | CB lim => OBwd (Z.to_nat lim)
  | CS k lim => OSeek (kget tbl k) (Z.to_nat lim)
  | CR h => OReopen (if h <? 0 then None else Some h)
  end.
Definition to_out (tbl : list key) (c : cout) : out val :=
  match c with
  | U => RUnit | B b => RBool b | Q b => RUniq b | GN => ROpt None | GS l t => ROpt (Some (l, t))
  | L es => RList (map (fun e : Z * Z * Z => let '(k, l, t) := e in (kget tbl k, (l, t))) es)
  | E => RErr | P => RPanic
  end.

Definition m_run (rootpg np : Z) (ops : list (op val)) : list (out val * Z) :=
  fst (run val val_len (init_state val rootpg np) ops).

Fixpoint outs_agree (a : list (out val * Z)) (b : list (out val)) : bool :=
  match a, b with
  | [], [] => true
  | (x, _) :: a', y :: b' => out_eqb val val_eqb x y && outs_agree a' b'
  | _, _ => false
  end.
Definition judge (c : case) : bool * bool * Z :=
  match c with
  | Case rootpg np keys steps =>
      let tbl := map expand keys in
      let ops := map (fun s => to_op tbl (fst s)) steps in
      let obs := map (fun s => to_out tbl (snd s)) steps in
      let mres := m_run rootpg np ops in
      (outs_agree mres obs, spec_run val val_len val_eqb [] (combine ops obs), first_flag val mres)
  end.

(* does the model reproduce every result the implementation returned? *)
Definition model_agrees (c : case) : bool := fst (fst (judge c)).
(* is every result one an ordered map may return (the property itself; no model of the code involved)? *)
Definition spec_ok (c : case) : bool := snd (fst (judge c)).
(* the first defect class the model's run of this history reaches (0 = none) *)
Definition known_class (c : case) : Z := snd (judge c).

Fixpoint failures_from (i : Z) (cs : list case) : list (Z * bool * bool * Z) :=
  match cs with
  | [] => []
  | c :: t =>
      let '(m, s, k) := judge c in
      if m && s then failures_from (i + 1) t else (i, m, s, k) :: failures_from (i + 1) t
  end.
Definition failures := failures_from 0.

(* diagnosis aid: index of the first operation on which model and implementation differ, with both results *)
Fixpoint first_diff (i : Z) (a : list (out val * Z)) (b : list (out val)) : option (Z * option (out val) * option (out val)) :=
  match a, b with
  | [], [] => None
  | (x, _) :: a', y :: b' => if out_eqb val val_eqb x y then first_diff (i + 1) a' b' else Some (i, Some x, Some y)
  | (x, _) :: _, [] => Some (i, Some x, None)
  | [], y :: _ => Some (i, None, Some y)
  end.
Definition diagnose (c : case) :=
  match c with
  | Case rootpg np keys steps =>
      let tbl := map expand keys in
      let ops := map (fun s => to_op tbl (fst s)) steps in
      first_diff 0 (m_run rootpg np ops) (map (fun s => to_out tbl (snd s)) steps)
  end.
