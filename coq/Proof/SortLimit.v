(* C15 proofs: the LIMIT / OFFSET state machine of DynamicExecutor::Limit is the window. *)
From Coq Require Import ZArith List Bool Arith Lia.
From TV Require Import Model.KnnOrder.
From TV Require Import Model.SqlSpec Model.SortSpec Model.SortQuery Model.SortImpl.
Import ListNotations.

Section LimitMachine.
  Context {A : Type}.

  (* once `skipped` has reached `off`, nothing is skipped any more *)
  Lemma run_limit_taking : forall (xs : list A) lim off skipped returned,
    (off <= skipped)%nat ->
    run_limit lim off skipped returned xs =
    match lim with Some l => firstn (l - returned) xs | None => xs end.
  Proof.
    induction xs as [|x xs IH]; intros lim off skipped returned Hs; cbn [run_limit].
    - destruct lim; [rewrite firstn_nil|]; reflexivity.
    - destruct (skipped <? off)%nat eqn:E; [apply Nat.ltb_lt in E; lia|].
      destruct lim as [l|].
      + destruct (l <=? returned)%nat eqn:El.
        * apply Nat.leb_le in El. replace (l - returned)%nat with O by lia. reflexivity.
        * apply Nat.leb_gt in El. rewrite IH by exact Hs. cbn [option_map].
          replace (l - returned)%nat with (S (l - S returned)) by lia. reflexivity.
      + rewrite IH by exact Hs. reflexivity.
  Qed.

  Lemma run_limit_skipping : forall (xs : list A) lim off skipped,
    (skipped <= off)%nat ->
    run_limit lim off skipped 0 xs = window (off - skipped) lim xs.
  Proof.
    induction xs as [|x xs IH]; intros lim off skipped Hs.
    - cbn [run_limit]. unfold window. destruct lim; rewrite ?skipn_nil, ?firstn_nil; reflexivity.
    - cbn [run_limit]. destruct (skipped <? off)%nat eqn:E.
      + apply Nat.ltb_lt in E. rewrite IH by lia.
        replace (off - skipped)%nat with (S (off - S skipped)) by lia.
        unfold window. destruct lim; reflexivity.
      + apply Nat.ltb_ge in E. assert (off = skipped) by lia. subst off.
        replace (skipped - skipped)%nat with O by lia.
        unfold window. cbn [skipn].
        destruct lim as [l|].
        * destruct (l <=? 0)%nat eqn:El.
          -- apply Nat.leb_le in El. assert (l = O) by lia. subst l. reflexivity.
          -- apply Nat.leb_gt in El. rewrite run_limit_taking by lia.
             destruct l as [|l']; [lia|]. cbn [firstn]. replace (S l' - 1)%nat with l' by lia. reflexivity.
        * rewrite run_limit_taking by lia. reflexivity.
  Qed.

  (* for every offset, every limit (or none) and every input stream *)
  Lemma limit_machine_is_window_l : forall (lim : option nat) (off : nat) (xs : list A),
    limit_exec lim off xs = window off lim xs.
  Proof.
    intros lim off xs. unfold limit_exec. rewrite run_limit_skipping by lia.
    replace (off - 0)%nat with off by lia. reflexivity.
  Qed.
End LimitMachine.

(* ------------------------------------------------------------------ the TopK heap size *)
(* DynamicExecutor::TopK sizes its heap as limit.saturating_add(offset) (commit 95facdb; the planner
   does the same since 73de5ec).  The model uses the exact sum l + o.  Whenever the heap size
   exceeds the number of input rows the heap never fills and the executor simply sorts its input,
   whatever the size is: so capping the sum at 2^64 - 1 cannot be told from the exact sum on any
   input of fewer than 2^64 - 1 rows. *)
From TV Require Import Proof.KnnOrder.
From Coq Require Import Permutation.

Section TopKSize.
  Context {A : Type} (cmp : A -> A -> comparison).

  Lemma topk_feed_never_full : forall k (rows h : list A),
    (length h + length rows < k)%nat -> topk_feed cmp k h rows = TOk (h ++ rows).
  Proof.
    intros k rows. induction rows as [|x rows IH]; intros h Hlen; cbn [topk_feed].
    - rewrite app_nil_r. reflexivity.
    - cbn [length] in Hlen.
      destruct (length h <? k)%nat eqn:E; [|apply Nat.ltb_ge in E; lia].
      destruct (length (h ++ [x]) =? k)%nat eqn:E2.
      + apply Nat.eqb_eq in E2. rewrite app_length in E2. cbn [length] in E2. lia.
      + rewrite IH; [rewrite <- app_assoc; reflexivity|]. rewrite app_length. cbn [length]. lia.
  Qed.

  Lemma topk_beyond_length_l : forall k (rows : list A),
    (length rows < k)%nat -> topk cmp k rows = TOk (isort (c_less cmp) rows).
  Proof.
    intros k rows Hlen. unfold topk. rewrite topk_feed_never_full by (cbn [length]; lia).
    cbn [app]. f_equal. apply firstn_all2.
    rewrite (Permutation_length (isort_perm (c_less cmp) rows)). lia.
  Qed.

  (* any two heap sizes beyond the input give the same rows *)
  Lemma topk_size_irrelevant_l : forall k k' (rows : list A),
    (length rows < k)%nat -> (length rows < k')%nat -> topk cmp k rows = topk cmp k' rows.
  Proof. intros k k' rows H H'. rewrite !topk_beyond_length_l by assumption. reflexivity. Qed.
End TopKSize.
