(* C04 correspondence: a history was run twice on the real database, run A with its
   interruptions (close+open, drop+open, checkpoint(), PRAGMA wal_checkpoint, automatic
   checkpoints), run B without them.  The harness prints what every statement returned in both
   runs.  Definitions only; evaluated by vm_compute.

     spec_ok      the property itself: the two runs of the IMPLEMENTATION agree on every statement,
                  every reopen succeeded, nothing panicked   (independent of the model)
     model_agrees Model/Persist.v predicts both runs exactly   (histories of the modelled language;
                  the others are black-box differential cases, judged by spec_ok / known_class only)
     known_class  the recorded finding classes (Model/Persist.v, scanners over history + outcomes) *)
From Coq Require Import ZArith List Bool.
From TV Require Export Model.Persist.
Import ListNotations.
Open Scope Z_scope.

Inductive case := Case (wal : bool) (h : list op) (oa ob : list obs).

Definition model_agrees (c : case) : bool :=
  match c with
  | Case wal h oa ob =>
      if in_lang h then
        list_eqb obs_eqb (run true (init wal) h) oa && list_eqb obs_eqb (run false (init wal) h) ob
      else true
  end.

Definition spec_ok (c : case) : bool :=
  match c with Case wal h oa ob => oracle h oa ob end.

Definition known_class (c : case) : Z :=
  match c with Case wal h oa ob => known_class_of wal h oa end.

Fixpoint failures_from (i : Z) (cs : list case) : list (Z * bool * bool * Z) :=
  match cs with
  | [] => []
  | c :: t =>
      let m := model_agrees c in
      let s := spec_ok c in
      if m && s then failures_from (i + 1) t else (i, m, s, known_class c) :: failures_from (i + 1) t
  end.
Definition failures := failures_from 0.
