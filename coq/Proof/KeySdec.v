(* C26 proofs, part 6: decode_key after encode_* for all scalar values (sval). *)
From Coq Require Import ZArith List Bool Lia ZifyBool.
From TV Require Import Lib.MachInt Lib.MachIntFacts Gen.KeyPrefix Model.KeySpec Model.Key Model.KeyKnown
  Proof.KeyBytes Proof.KeyScalar Proof.KeySeq Proof.KeyJson Proof.KeySval.
Import ListNotations.
Open Scope Z_scope.

Ltac Zify.zify_post_hook ::= Z.to_euclidean_division_equations.

(* ------------------------------------------------------------------ the arms of decode_key *)
Lemma sdec_NULL f t : sdec f (KP_NULL :: t) = Some (ROk SNull 1). Proof. reflexivity. Qed.
Lemma sdec_FALSE f t : sdec f (KP_FALSE :: t) = Some (ROk (SBool false) 1). Proof. reflexivity. Qed.
Lemma sdec_TRUE f t : sdec f (KP_TRUE :: t) = Some (ROk (SBool true) 1). Proof. reflexivity. Qed.
Lemma sdec_NEGINF f t : sdec f (KP_NEG_INFINITY :: t) = Some (ROk SNegInf 1). Proof. reflexivity. Qed.
Lemma sdec_POSINF f t : sdec f (KP_POS_INFINITY :: t) = Some (ROk SPosInf 1). Proof. reflexivity. Qed.
Lemma sdec_NAN f t : sdec f (KP_NAN :: t) = Some (ROk SNan 1). Proof. reflexivity. Qed.
Lemma sdec_ZERO f t : sdec f (KP_ZERO :: t) = Some (ROk (SInt 0) 1). Proof. reflexivity. Qed.
Lemma sdec_NEGINT f t : let d := KP_NEG_INT :: t in
  sdec f d = Some (if 9 <=? blen d then ROk (SInt (wrap_s 64 (from_be (sub d 1 8)))) 9 else RErr).
Proof. reflexivity. Qed.
Lemma sdec_POSINT f t : let d := KP_POS_INT :: t in
  sdec f d = Some (if 9 <=? blen d then ROk (SInt (wrap_s 64 (from_be (sub d 1 8)))) 9 else RErr).
Proof. reflexivity. Qed.
Lemma sdec_NEGFLOAT f t : let d := KP_NEG_FLOAT :: t in
  sdec f d = Some (if 9 <=? blen d then ROk (SFloat (bnot 64 (from_be (sub d 1 8)))) 9 else RErr).
Proof. reflexivity. Qed.
Lemma sdec_POSFLOAT f t : let d := KP_POS_FLOAT :: t in
  sdec f d = Some (if 9 <=? blen d then ROk (SFloat (flip 64 (from_be (sub d 1 8)))) 9 else RErr).
Proof. reflexivity. Qed.
Lemma sdec_TEXT f t : sdec f (KP_TEXT :: t) =
  Some (match unesc t with
        | Some (s, n) => if utf8_valid s then ROk (SText s) (1 + n) else RErr
        | None => RErr end).
Proof. reflexivity. Qed.
Lemma sdec_BLOB f t : sdec f (KP_BLOB :: t) =
  Some (match unesc t with Some (s, n) => ROk (SBlob s) (1 + n) | None => RErr end).
Proof. reflexivity. Qed.
Lemma sdec_DATE f t : let d := KP_DATE :: t in
  sdec f d = Some (if 5 <=? blen d then ROk (SDate (unbias 32 (from_be (sub d 1 4)))) 5 else RErr).
Proof. reflexivity. Qed.
Lemma sdec_TIME f t : let d := KP_TIME :: t in
  sdec f d = Some (if 9 <=? blen d then ROk (STime (unbias 64 (from_be (sub d 1 8)))) 9 else RErr).
Proof. reflexivity. Qed.
Lemma sdec_TIMESTAMP f t : let d := KP_TIMESTAMP :: t in
  sdec f d = Some (if 9 <=? blen d then ROk (STimestamp (unbias 64 (from_be (sub d 1 8)))) 9 else RErr).
Proof. reflexivity. Qed.
Lemma sdec_TIMESTAMPTZ f t : let d := KP_TIMESTAMPTZ :: t in
  sdec f d = Some (if 11 <=? blen d
                   then ROk (STimestampTz (unbias 64 (from_be (sub d 1 8))) (unbias 16 (from_be (sub d 9 2)))) 11
                   else RErr).
Proof. reflexivity. Qed.
Lemma sdec_INTERVAL f t : let d := KP_INTERVAL :: t in
  sdec f d = Some (if 17 <=? blen d
                   then ROk (SInterval (unbias 32 (from_be (sub d 1 4))) (unbias 32 (from_be (sub d 5 4)))
                                       (unbias 64 (from_be (sub d 9 8)))) 17
                   else RErr).
Proof. reflexivity. Qed.
Lemma sdec_UUID f t : let d := KP_UUID :: t in
  sdec f d = Some (if 17 <=? blen d then ROk (SUuid (sub d 1 16)) 17 else RErr).
Proof. reflexivity. Qed.
Lemma sdec_INET f t : let d := KP_INET :: t in
  sdec f d = Some (if 3 <=? blen d then
                     let v6 := negb (bidx d 1 =? 0) in
                     let alen := if v6 then 16 else 4 in
                     if 3 + alen <=? blen d then ROk (SInet v6 (sub d 3 alen) (bidx d 2)) (3 + alen) else RErr
                   else RErr).
Proof. reflexivity. Qed.
Lemma sdec_MAC f t : let d := KP_MACADDR :: t in
  sdec f d = Some (if 7 <=? blen d then ROk (SMac (sub d 1 6)) 7 else RErr).
Proof. reflexivity. Qed.
Lemma sdec_ENUM f t : let d := KP_ENUM :: t in
  sdec f d = Some (if 9 <=? blen d then ROk (SEnum (from_be (sub d 1 4)) (from_be (sub d 5 4))) 9 else RErr).
Proof. reflexivity. Qed.
Lemma sdec_VECTOR f t : sdec f (KP_VECTOR :: t) = Some (dec_vector (KP_VECTOR :: t)).
Proof. reflexivity. Qed.
Lemma sdec_JSON f j r : sdec f (jenc j ++ r) = Some (rmap (fun j n => ROk (SJson j) n) (jdec f (jenc j ++ r))).
Proof. destruct j as [| [] | | | |]; reflexivity. Qed.

(* ------------------------------------------------------------------ field extraction *)
Lemma sub1 p (u r : list Z) n : blen u = n -> sub (p :: u ++ r) 1 n = u.
Proof. intros H. change (p :: u ++ r) with ([p] ++ u ++ r). apply sub_mid; [reflexivity|exact H]. Qed.
Lemma sub2 p (u1 u2 r : list Z) lo n : 1 + blen u1 = lo -> blen u2 = n -> sub (p :: u1 ++ u2 ++ r) lo n = u2.
Proof.
  intros H1 H2. change (p :: u1 ++ u2 ++ r) with ((p :: u1) ++ u2 ++ r).
  apply sub_mid; [rewrite blen_cons; exact H1 | exact H2].
Qed.
Lemma sub3 p (u1 u2 u3 r : list Z) lo n : 1 + blen u1 + blen u2 = lo -> blen u3 = n ->
  sub (p :: u1 ++ u2 ++ u3 ++ r) lo n = u3.
Proof.
  intros H1 H2. replace (p :: u1 ++ u2 ++ u3 ++ r) with ((p :: u1 ++ u2) ++ u3 ++ r)
    by (cbn [app]; rewrite <- app_assoc; reflexivity).
  apply sub_mid; [rewrite blen_cons, blen_app; lia | exact H2].
Qed.

Ltac len_ok r :=
  rewrite ?blen_cons, ?blen_app, ?blen_be_bytes;
  pose proof (blen_nonneg r);
  match goal with |- context [if ?a <=? ?b then _ else _] => destruct (Z.leb_spec a b); [|lia] end.

Lemma bias_range (n : nat) bits v : 0 < bits -> 2 ^ bits = 256 ^ Z.of_nat n -> in_s bits v = true ->
  0 <= bias bits v < 256 ^ Z.of_nat n.
Proof.
  intros Hb Hp Hv. apply in_s_true in Hv. rewrite bias_signed by assumption.
  assert (H2 : 2 ^ bits = 2 * 2 ^ (bits - 1)).
  { replace bits with (1 + (bits - 1)) at 1 by lia. rewrite Z.pow_add_r by lia. reflexivity. }
  lia.
Qed.

Lemma field_back (n : nat) bits v : 0 < bits -> 2 ^ bits = 256 ^ Z.of_nat n -> in_s bits v = true ->
  unbias bits (from_be (be_bytes n (bias bits v))) = v.
Proof.
  intros Hb Hp Hv. rewrite from_be_be_bytes by (apply bias_range; assumption).
  apply unbias_bias; [exact Hb|]. apply in_s_true. exact Hv.
Qed.
Lemma back64 v : in_s 64 v = true -> unbias 64 (from_be (be_bytes 8 (bias 64 v))) = v.
Proof. apply field_back; [lia|reflexivity]. Qed.
Lemma back32 v : in_s 32 v = true -> unbias 32 (from_be (be_bytes 4 (bias 32 v))) = v.
Proof. apply field_back; [lia|reflexivity]. Qed.
Lemma back16 v : in_s 16 v = true -> unbias 16 (from_be (be_bytes 2 (bias 16 v))) = v.
Proof. apply field_back; [lia|reflexivity]. Qed.
Lemma backu32 v : in_u 32 v = true -> from_be (be_bytes 4 v) = v.
Proof. intros H. apply in_u_true in H. apply from_be_be_bytes. pows. lia. Qed.

(* ------------------------------------------------------------------ vectors *)
Lemma vcomp_back b : in_u 32 b = true ->
  (if SIGN32 <=? venc b then flip 32 (venc b) else bnot 32 (venc b)) = b.
Proof.
  intros W. destruct (split32 b W) as [Hm Hb].
  unfold venc, bnot, flip in *. unfold SIGN32 in *. pows.
  destruct (neg32 b) eqn:Es.
  - destruct (2147483648 <=? 4294967296 - 1 - b) eqn:C; lia.
  - destruct (b <? 2147483648) eqn:C; [|lia].
    destruct (2147483648 <=? b + 2147483648) eqn:C2; [|lia].
    destruct (b + 2147483648 <? 2147483648) eqn:C3; lia.
Qed.

Lemma venc_range b : in_u 32 b = true -> 0 <= venc b < 256 ^ Z.of_nat 4.
Proof. intros W. rewrite venc_tot by assumption. apply tot32_range. exact W. Qed.

Definition vbody (l : list Z) : list Z := flat_map (fun b => be_bytes 4 (venc b)) l.

Lemma blen_vbody l : blen (vbody l) = 4 * blen l.
Proof.
  induction l as [|b l IH]; [reflexivity|].
  unfold vbody in *. cbn [flat_map]. rewrite blen_app, blen_be_bytes, IH, blen_cons. lia.
Qed.

(* component i of the decoded vector *)
Lemma vcomp_at pre l : forall i r, forallb (in_u 32) l = true ->
  (i < length l)%nat ->
  (let e := from_be (sub (pre ++ vbody l ++ r) (blen pre + Z.of_nat i * 4) 4) in
   if SIGN32 <=? e then flip 32 e else bnot 32 e) = nth i l 0.
Proof.
  revert pre. induction l as [|b l IH]; intros pre i r W Hi; [cbn in Hi; lia|].
  cbn [forallb] in W. apply andb_true_iff in W.
  destruct W as [Wb W].
  destruct i as [|i].
  - cbn [nth]. unfold vbody. cbn [flat_map]. rewrite <- app_assoc.
    replace (blen pre + Z.of_nat 0 * 4) with (blen pre) by lia.
    rewrite sub_mid by (try reflexivity; apply blen_be_bytes).
    cbv zeta. rewrite from_be_be_bytes by (apply venc_range; assumption).
    apply vcomp_back; assumption.
  - cbn [nth]. unfold vbody. cbn [flat_map]. rewrite <- app_assoc.
    specialize (IH (pre ++ be_bytes 4 (venc b)) i r W ltac:(cbn [length] in Hi; lia)).
    rewrite <- app_assoc in IH. unfold vbody in IH.
    rewrite blen_app, blen_be_bytes in IH.
    replace (blen pre + Z.of_nat (S i) * 4) with (blen pre + Z.of_nat 4 + Z.of_nat i * 4) by lia.
    exact IH.
Qed.

Lemma map_seq_nth (l : list Z) (g : nat -> Z) :
  (forall i, (i < length l)%nat -> g i = nth i l 0) -> map g (seq 0 (length l)) = l.
Proof.
  intros H. apply nth_ext with (d := 0) (d' := 0).
  - rewrite map_length, seq_length. reflexivity.
  - intros i Hi. rewrite map_length, seq_length in Hi.
    rewrite (nth_indep _ 0 (g 0%nat)) by (rewrite map_length, seq_length; exact Hi).
    rewrite map_nth, seq_nth by exact Hi. apply H. exact Hi.
Qed.

Lemma dec_vector_enc l r : forallb (in_u 32) l = true -> blen l < 2 ^ 32 ->
  dec_vector (senc (SVector l) ++ r) = ROk (SVector l) (blen (senc (SVector l))).
Proof.
  intros W L. cbn [senc app]. fold (vbody l). rewrite <- app_assoc.
  pose proof (blen_nonneg l) as Hl. pose proof (blen_nonneg r) as Hr.
  rewrite wrap_u_small by lia.
  unfold dec_vector.
  rewrite blen_cons, !blen_app, blen_be_bytes, blen_vbody.
  destruct (Z.leb_spec 5 (1 + (Z.of_nat 4 + (4 * blen l + blen r)))); [|lia].
  rewrite sub1 by apply blen_be_bytes.
  rewrite from_be_be_bytes by (pows; lia).
  destruct (Z.leb_spec (5 + blen l * 4) (1 + (Z.of_nat 4 + (4 * blen l + blen r)))); [|lia].
  f_equal; [|rewrite blen_cons, blen_app, blen_be_bytes, blen_vbody; lia]. f_equal.
  replace (Z.to_nat (blen l)) with (length l) by (unfold blen; lia).
  apply map_seq_nth. intros i Hi.
  change (KP_VECTOR :: be_bytes 4 (blen l) ++ vbody l ++ r) with ((KP_VECTOR :: be_bytes 4 (blen l)) ++ vbody l ++ r).
  replace 5 with (blen (KP_VECTOR :: be_bytes 4 (blen l))) by (rewrite blen_cons, blen_be_bytes; reflexivity).
  apply vcomp_at; assumption.
Qed.

(* ------------------------------------------------------------------ the round trip *)
Lemma scanon_nonfloat s : (forall b, s <> SFloat b) -> scanon s = s.
Proof. intros H. destruct s; try reflexivity. exfalso. eapply H. reflexivity. Qed.

Theorem sdec_senc s fuel r : swf s = true -> s_known s = false -> (ssize s <= fuel)%nat ->
  sdec fuel (senc s ++ r) = Some (ROk (scanon s) (blen (senc s))).
Proof.
  intros W K Hf. destruct s; try discriminate W; cbn [swf] in W.
  - reflexivity.
  - destruct b; reflexivity.
  - (* int *)
    cbn [senc scanon]. destruct (int_cases n W) as [Hn Cn En|Hn Cn En|Hn Cn En]; rewrite En.
    + cbn [app]. rewrite sdec_NEGINT. cbv zeta. len_ok r.
      rewrite sub1 by apply blen_be_bytes. apply in_s_true in W. pows.
      rewrite from_be_be_bytes by (pows; lia). do 3 f_equal. unfold wrap_s. pows. lia.
    + subst. reflexivity.
    + cbn [app]. rewrite sdec_POSINT. cbv zeta. len_ok r.
      rewrite sub1 by apply blen_be_bytes. apply in_s_true in W. pows.
      rewrite from_be_be_bytes by (pows; lia). do 3 f_equal. unfold wrap_s. pows. lia.
  - (* float *)
    cbn [senc scanon].
    destruct (float_cases bits W) as [Cf Ef Nf|Cf Ef Nf Mf Sf|Cf Ef Nf Vf|Cf Ef Nf Vf|Cf Ef Nf Vf Sf|Cf Ef Nf Vf Sf];
      rewrite Ef, Nf.
    + reflexivity.
    + unfold SIGN64, INF64 in *. destruct (split64 bits W) as [Hm Hb]. unfold SIGN64 in *.
      destruct (Z.eqb_spec bits (9223372036854775808 + 9218868437227405312)); [destruct (neg64 bits); lia|].
      destruct (Z.eqb_spec bits 9218868437227405312); [destruct (neg64 bits); lia|].
      rewrite Mf. reflexivity.
    + subst. reflexivity.
    + subst. reflexivity.
    + unfold SIGN64, INF64 in *. destruct (split64 bits W) as [Hm Hb]. unfold SIGN64 in *.
      destruct (Z.eqb_spec bits (9223372036854775808 + 9218868437227405312)); [lia|].
      destruct (Z.eqb_spec bits 9218868437227405312); [lia|].
      destruct (Z.eqb_spec (mag64 bits) 0); [destruct (neg64 bits); lia|].
      cbn [app]. rewrite sdec_NEGFLOAT. cbv zeta. len_ok r.
      rewrite sub1 by apply blen_be_bytes. unfold bnot. pows.
      rewrite from_be_be_bytes by (pows; lia). do 3 f_equal. lia.
    + unfold SIGN64, INF64 in *. destruct (split64 bits W) as [Hm Hb]. unfold SIGN64 in *.
      destruct (Z.eqb_spec bits (9223372036854775808 + 9218868437227405312)); [lia|].
      destruct (Z.eqb_spec bits 9218868437227405312); [lia|].
      destruct (Z.eqb_spec (mag64 bits) 0); [destruct (neg64 bits); lia|].
      cbn [app]. rewrite sdec_POSFLOAT. cbv zeta. len_ok r.
      rewrite sub1 by apply blen_be_bytes.
      assert (Hr : 0 <= bits < 2 ^ 64) by (pows; lia).
      rewrite from_be_be_bytes by (pose proof (flip_range 64 bits ltac:(lia) Hr); pows; lia).
      rewrite flip_invol by (try lia; exact Hr). reflexivity.
  - (* text *)
    cbn [senc app scanon]. rewrite sdec_TEXT. rewrite unesc_esc by (apply text_ok_bytes; exact W).
    rewrite (text_ok_utf8 _ W). rewrite blen_cons. reflexivity.
  - (* blob *)
    cbn [senc app scanon]. rewrite sdec_BLOB. rewrite unesc_esc by exact W. rewrite blen_cons. reflexivity.
  - (* date *)
    cbn [senc app scanon]. rewrite sdec_DATE. cbv zeta. len_ok r.
    rewrite sub1 by apply blen_be_bytes. rewrite back32 by exact W. reflexivity.
  - cbn [senc app scanon]. rewrite sdec_TIME. cbv zeta. len_ok r.
    rewrite sub1 by apply blen_be_bytes. rewrite back64 by exact W. reflexivity.
  - cbn [senc app scanon]. rewrite sdec_TIMESTAMP. cbv zeta. len_ok r.
    rewrite sub1 by apply blen_be_bytes. rewrite back64 by exact W. reflexivity.
  - (* timestamptz *)
    apply andb_true_iff in W. destruct W as [W1 W2].
    cbn [senc app scanon]. rewrite <- app_assoc. rewrite sdec_TIMESTAMPTZ. cbv zeta. len_ok r.
    rewrite sub1 by apply blen_be_bytes.
    rewrite sub2 by (rewrite ?blen_be_bytes; reflexivity).
    rewrite back64, back16 by assumption. reflexivity.
  - (* interval *)
    apply andb3 in W. destruct W as (W1 & W2 & W3).
    cbn [senc app scanon]. rewrite <- !app_assoc. rewrite sdec_INTERVAL. cbv zeta. len_ok r.
    rewrite sub1 by apply blen_be_bytes.
    rewrite sub2 by (rewrite ?blen_be_bytes; reflexivity).
    rewrite sub3 by (rewrite ?blen_be_bytes; reflexivity).
    rewrite !back32, back64 by assumption. reflexivity.
  - (* uuid *)
    apply andb_true_iff in W. destruct W as [_ L]. apply len_is_length in L.
    cbn [senc app scanon]. rewrite sdec_UUID. cbv zeta.
    rewrite blen_cons, blen_app, L. pose proof (blen_nonneg r).
    destruct (Z.leb_spec 17 (1 + (16 + blen r))); [|lia].
    rewrite sub1 by exact L. rewrite blen_cons, L. reflexivity.
  - (* inet *)
    apply andb3 in W. destruct W as (_ & L & Pl). apply len_is_length in L.
    cbn [senc app scanon]. rewrite sdec_INET. cbv zeta.
    pose proof (blen_nonneg r).
    assert (Hfa : firstn (if v6 then 16 else 4)%nat addr = addr)
      by (apply firstn_all_len; rewrite L; destruct v6; reflexivity).
    rewrite Hfa.
    change (bidx (KP_INET :: (if v6 then 1 else 0) :: plen :: addr ++ r) 1) with (if v6 then 1 else 0).
    change (bidx (KP_INET :: (if v6 then 1 else 0) :: plen :: addr ++ r) 2) with plen.
    rewrite !blen_cons, blen_app, L.
    destruct v6; cbn [negb Z.eqb].
    + destruct (Z.leb_spec 3 (1 + (1 + (1 + (16 + blen r))))); [|lia].
      destruct (Z.leb_spec (3 + 16) (1 + (1 + (1 + (16 + blen r))))); [|lia].
      change (KP_INET :: 1 :: plen :: addr ++ r) with ([KP_INET; 1; plen] ++ addr ++ r).
      rewrite sub_mid by (try reflexivity; exact L). reflexivity.
    + destruct (Z.leb_spec 3 (1 + (1 + (1 + (4 + blen r))))); [|lia].
      destruct (Z.leb_spec (3 + 4) (1 + (1 + (1 + (4 + blen r))))); [|lia].
      change (KP_INET :: 0 :: plen :: addr ++ r) with ([KP_INET; 0; plen] ++ addr ++ r).
      rewrite sub_mid by (try reflexivity; exact L). reflexivity.
  - (* mac *)
    apply andb_true_iff in W. destruct W as [_ L]. apply len_is_length in L.
    cbn [senc app scanon]. rewrite sdec_MAC. cbv zeta.
    rewrite blen_cons, blen_app, L. pose proof (blen_nonneg r).
    destruct (Z.leb_spec 7 (1 + (6 + blen r))); [|lia].
    rewrite sub1 by exact L. rewrite blen_cons, L. reflexivity.
  - (* enum *)
    apply andb_true_iff in W. destruct W as [W1 W2].
    cbn [senc app scanon]. rewrite <- app_assoc. rewrite sdec_ENUM. cbv zeta. len_ok r.
    rewrite sub1 by apply blen_be_bytes.
    rewrite sub2 by (rewrite ?blen_be_bytes; reflexivity).
    rewrite !backu32 by assumption. reflexivity.
  - (* vector *)
    apply andb_true_iff in W. destruct W as [W L].
    cbn [scanon]. change (senc (SVector l) ++ r) with (KP_VECTOR :: (be_bytes 4 (wrap_u 32 (blen l)) ++ vbody l) ++ r).
    rewrite sdec_VECTOR. f_equal. apply dec_vector_enc; [exact W | lia].
  - (* json *)
    unfold s_known in K. cbn [s_class3] in K.
    cbn [senc scanon]. rewrite sdec_JSON. cbn [ssize] in Hf.
    rewrite jdec_jenc by (try assumption; lia). reflexivity.
Qed.
